theories/Base/Prelude.vo theories/Base/Prelude.glob theories/Base/Prelude.v.beautified theories/Base/Prelude.required_vo: theories/Base/Prelude.v 
theories/Base/Prelude.vio: theories/Base/Prelude.v 
theories/Base/Prelude.vos theories/Base/Prelude.vok theories/Base/Prelude.required_vos: theories/Base/Prelude.v 
theories/Base/Bytes.vo theories/Base/Bytes.glob theories/Base/Bytes.v.beautified theories/Base/Bytes.required_vo: theories/Base/Bytes.v theories/Base/Prelude.vo
theories/Base/Bytes.vio: theories/Base/Bytes.v theories/Base/Prelude.vio
theories/Base/Bytes.vos theories/Base/Bytes.vok theories/Base/Bytes.required_vos: theories/Base/Bytes.v theories/Base/Prelude.vos
theories/Base/Regex.vo theories/Base/Regex.glob theories/Base/Regex.v.beautified theories/Base/Regex.required_vo: theories/Base/Regex.v theories/Base/Prelude.vo
theories/Base/Regex.vio: theories/Base/Regex.v theories/Base/Prelude.vio
theories/Base/Regex.vos theories/Base/Regex.vok theories/Base/Regex.required_vos: theories/Base/Regex.v theories/Base/Prelude.vos
theories/Valid/Gate.vo theories/Valid/Gate.glob theories/Valid/Gate.v.beautified theories/Valid/Gate.required_vo: theories/Valid/Gate.v theories/Base/Prelude.vo theories/Base/Regex.vo
theories/Valid/Gate.vio: theories/Valid/Gate.v theories/Base/Prelude.vio theories/Base/Regex.vio
theories/Valid/Gate.vos theories/Valid/Gate.vok theories/Valid/Gate.required_vos: theories/Valid/Gate.v theories/Base/Prelude.vos theories/Base/Regex.vos
theories/Valid/Gate_proofs.vo theories/Valid/Gate_proofs.glob theories/Valid/Gate_proofs.v.beautified theories/Valid/Gate_proofs.required_vo: theories/Valid/Gate_proofs.v theories/Base/Prelude.vo theories/Base/Regex.vo theories/Valid/Gate.vo
theories/Valid/Gate_proofs.vio: theories/Valid/Gate_proofs.v theories/Base/Prelude.vio theories/Base/Regex.vio theories/Valid/Gate.vio
theories/Valid/Gate_proofs.vos theories/Valid/Gate_proofs.vok theories/Valid/Gate_proofs.required_vos: theories/Valid/Gate_proofs.v theories/Base/Prelude.vos theories/Base/Regex.vos theories/Valid/Gate.vos
theories/Valid/Gate_int.vo theories/Valid/Gate_int.glob theories/Valid/Gate_int.v.beautified theories/Valid/Gate_int.required_vo: theories/Valid/Gate_int.v theories/Base/Prelude.vo theories/Base/Regex.vo theories/Valid/Gate.vo
theories/Valid/Gate_int.vio: theories/Valid/Gate_int.v theories/Base/Prelude.vio theories/Base/Regex.vio theories/Valid/Gate.vio
theories/Valid/Gate_int.vos theories/Valid/Gate_int.vok theories/Valid/Gate_int.required_vos: theories/Valid/Gate_int.v theories/Base/Prelude.vos theories/Base/Regex.vos theories/Valid/Gate.vos
theories/Event/Hash.vo theories/Event/Hash.glob theories/Event/Hash.v.beautified theories/Event/Hash.required_vo: theories/Event/Hash.v theories/Base/Prelude.vo theories/Base/Bytes.vo
theories/Event/Hash.vio: theories/Event/Hash.v theories/Base/Prelude.vio theories/Base/Bytes.vio
theories/Event/Hash.vos theories/Event/Hash.vok theories/Event/Hash.required_vos: theories/Event/Hash.v theories/Base/Prelude.vos theories/Base/Bytes.vos
theories/Event/Hash_proofs.vo theories/Event/Hash_proofs.glob theories/Event/Hash_proofs.v.beautified theories/Event/Hash_proofs.required_vo: theories/Event/Hash_proofs.v theories/Base/Prelude.vo theories/Base/Bytes.vo theories/Event/Hash.vo
theories/Event/Hash_proofs.vio: theories/Event/Hash_proofs.v theories/Base/Prelude.vio theories/Base/Bytes.vio theories/Event/Hash.vio
theories/Event/Hash_proofs.vos theories/Event/Hash_proofs.vok theories/Event/Hash_proofs.required_vos: theories/Event/Hash_proofs.v theories/Base/Prelude.vos theories/Base/Bytes.vos theories/Event/Hash.vos
theories/Event/Hash_inj.vo theories/Event/Hash_inj.glob theories/Event/Hash_inj.v.beautified theories/Event/Hash_inj.required_vo: theories/Event/Hash_inj.v theories/Base/Prelude.vo theories/Base/Bytes.vo theories/Event/Hash.vo theories/Event/Hash_proofs.vo
theories/Event/Hash_inj.vio: theories/Event/Hash_inj.v theories/Base/Prelude.vio theories/Base/Bytes.vio theories/Event/Hash.vio theories/Event/Hash_proofs.vio
theories/Event/Hash_inj.vos theories/Event/Hash_inj.vok theories/Event/Hash_inj.required_vos: theories/Event/Hash_inj.v theories/Base/Prelude.vos theories/Base/Bytes.vos theories/Event/Hash.vos theories/Event/Hash_proofs.vos
theories/Event/Merge.vo theories/Event/Merge.glob theories/Event/Merge.v.beautified theories/Event/Merge.required_vo: theories/Event/Merge.v theories/Base/Prelude.vo
theories/Event/Merge.vio: theories/Event/Merge.v theories/Base/Prelude.vio
theories/Event/Merge.vos theories/Event/Merge.vok theories/Event/Merge.required_vos: theories/Event/Merge.v theories/Base/Prelude.vos
theories/Event/Merge_proofs.vo theories/Event/Merge_proofs.glob theories/Event/Merge_proofs.v.beautified theories/Event/Merge_proofs.required_vo: theories/Event/Merge_proofs.v theories/Base/Prelude.vo theories/Base/Bytes.vo theories/Event/Merge.vo theories/Event/Hash.vo theories/Event/Hash_proofs.vo
theories/Event/Merge_proofs.vio: theories/Event/Merge_proofs.v theories/Base/Prelude.vio theories/Base/Bytes.vio theories/Event/Merge.vio theories/Event/Hash.vio theories/Event/Hash_proofs.vio
theories/Event/Merge_proofs.vos theories/Event/Merge_proofs.vok theories/Event/Merge_proofs.required_vos: theories/Event/Merge_proofs.v theories/Base/Prelude.vos theories/Base/Bytes.vos theories/Event/Merge.vos theories/Event/Hash.vos theories/Event/Hash_proofs.vos
theories/Event/Stream.vo theories/Event/Stream.glob theories/Event/Stream.v.beautified theories/Event/Stream.required_vo: theories/Event/Stream.v theories/Base/Prelude.vo theories/Event/Merge.vo
theories/Event/Stream.vio: theories/Event/Stream.v theories/Base/Prelude.vio theories/Event/Merge.vio
theories/Event/Stream.vos theories/Event/Stream.vok theories/Event/Stream.required_vos: theories/Event/Stream.v theories/Base/Prelude.vos theories/Event/Merge.vos
theories/Event/Merge_order_proofs.vo theories/Event/Merge_order_proofs.glob theories/Event/Merge_order_proofs.v.beautified theories/Event/Merge_order_proofs.required_vo: theories/Event/Merge_order_proofs.v theories/Base/Prelude.vo theories/Base/Bytes.vo theories/Event/Merge.vo theories/Event/Merge_proofs.vo
theories/Event/Merge_order_proofs.vio: theories/Event/Merge_order_proofs.v theories/Base/Prelude.vio theories/Base/Bytes.vio theories/Event/Merge.vio theories/Event/Merge_proofs.vio
theories/Event/Merge_order_proofs.vos theories/Event/Merge_order_proofs.vok theories/Event/Merge_order_proofs.required_vos: theories/Event/Merge_order_proofs.v theories/Base/Prelude.vos theories/Base/Bytes.vos theories/Event/Merge.vos theories/Event/Merge_proofs.vos
theories/Event/Collection.vo theories/Event/Collection.glob theories/Event/Collection.v.beautified theories/Event/Collection.required_vo: theories/Event/Collection.v theories/Base/Prelude.vo theories/Event/Merge.vo theories/Event/Stream.vo
theories/Event/Collection.vio: theories/Event/Collection.v theories/Base/Prelude.vio theories/Event/Merge.vio theories/Event/Stream.vio
theories/Event/Collection.vos theories/Event/Collection.vok theories/Event/Collection.required_vos: theories/Event/Collection.v theories/Base/Prelude.vos theories/Event/Merge.vos theories/Event/Stream.vos
theories/Event/Collection_proofs.vo theories/Event/Collection_proofs.glob theories/Event/Collection_proofs.v.beautified theories/Event/Collection_proofs.required_vo: theories/Event/Collection_proofs.v theories/Base/Prelude.vo theories/Base/Bytes.vo theories/Event/Merge.vo theories/Event/Merge_proofs.vo theories/Event/Stream.vo theories/Event/Collection.vo
theories/Event/Collection_proofs.vio: theories/Event/Collection_proofs.v theories/Base/Prelude.vio theories/Base/Bytes.vio theories/Event/Merge.vio theories/Event/Merge_proofs.vio theories/Event/Stream.vio theories/Event/Collection.vio
theories/Event/Collection_proofs.vos theories/Event/Collection_proofs.vok theories/Event/Collection_proofs.required_vos: theories/Event/Collection_proofs.v theories/Base/Prelude.vos theories/Base/Bytes.vos theories/Event/Merge.vos theories/Event/Merge_proofs.vos theories/Event/Stream.vos theories/Event/Collection.vos
theories/Event/Collection_perm.vo theories/Event/Collection_perm.glob theories/Event/Collection_perm.v.beautified theories/Event/Collection_perm.required_vo: theories/Event/Collection_perm.v theories/Base/Prelude.vo theories/Event/Merge.vo theories/Event/Merge_proofs.vo theories/Event/Merge_order_proofs.vo theories/Event/Stream.vo theories/Event/Collection.vo theories/Event/Collection_proofs.vo
theories/Event/Collection_perm.vio: theories/Event/Collection_perm.v theories/Base/Prelude.vio theories/Event/Merge.vio theories/Event/Merge_proofs.vio theories/Event/Merge_order_proofs.vio theories/Event/Stream.vio theories/Event/Collection.vio theories/Event/Collection_proofs.vio
theories/Event/Collection_perm.vos theories/Event/Collection_perm.vok theories/Event/Collection_perm.required_vos: theories/Event/Collection_perm.v theories/Base/Prelude.vos theories/Event/Merge.vos theories/Event/Merge_proofs.vos theories/Event/Merge_order_proofs.vos theories/Event/Stream.vos theories/Event/Collection.vos theories/Event/Collection_proofs.vos
theories/Event/Stream_proofs.vo theories/Event/Stream_proofs.glob theories/Event/Stream_proofs.v.beautified theories/Event/Stream_proofs.required_vo: theories/Event/Stream_proofs.v theories/Base/Prelude.vo theories/Base/Bytes.vo theories/Event/Merge.vo theories/Event/Merge_proofs.vo theories/Event/Merge_order_proofs.vo theories/Event/Stream.vo theories/Event/Collection.vo theories/Event/Collection_proofs.vo theories/Event/Collection_perm.vo
theories/Event/Stream_proofs.vio: theories/Event/Stream_proofs.v theories/Base/Prelude.vio theories/Base/Bytes.vio theories/Event/Merge.vio theories/Event/Merge_proofs.vio theories/Event/Merge_order_proofs.vio theories/Event/Stream.vio theories/Event/Collection.vio theories/Event/Collection_proofs.vio theories/Event/Collection_perm.vio
theories/Event/Stream_proofs.vos theories/Event/Stream_proofs.vok theories/Event/Stream_proofs.required_vos: theories/Event/Stream_proofs.v theories/Base/Prelude.vos theories/Base/Bytes.vos theories/Event/Merge.vos theories/Event/Merge_proofs.vos theories/Event/Merge_order_proofs.vos theories/Event/Stream.vos theories/Event/Collection.vos theories/Event/Collection_proofs.vos theories/Event/Collection_perm.vos
theories/Event/Repr.vo theories/Event/Repr.glob theories/Event/Repr.v.beautified theories/Event/Repr.required_vo: theories/Event/Repr.v theories/Base/Prelude.vo theories/Base/Bytes.vo
theories/Event/Repr.vio: theories/Event/Repr.v theories/Base/Prelude.vio theories/Base/Bytes.vio
theories/Event/Repr.vos theories/Event/Repr.vok theories/Event/Repr.required_vos: theories/Event/Repr.v theories/Base/Prelude.vos theories/Base/Bytes.vos
theories/Event/Repr_obs.vo theories/Event/Repr_obs.glob theories/Event/Repr_obs.v.beautified theories/Event/Repr_obs.required_vo: theories/Event/Repr_obs.v theories/Base/Prelude.vo theories/Base/Bytes.vo theories/Event/Repr.vo
theories/Event/Repr_obs.vio: theories/Event/Repr_obs.v theories/Base/Prelude.vio theories/Base/Bytes.vio theories/Event/Repr.vio
theories/Event/Repr_obs.vos theories/Event/Repr_obs.vok theories/Event/Repr_obs.required_vos: theories/Event/Repr_obs.v theories/Base/Prelude.vos theories/Base/Bytes.vos theories/Event/Repr.vos
theories/Event/Repr_proofs.vo theories/Event/Repr_proofs.glob theories/Event/Repr_proofs.v.beautified theories/Event/Repr_proofs.required_vo: theories/Event/Repr_proofs.v theories/Base/Prelude.vo theories/Base/Bytes.vo theories/Event/Repr.vo
theories/Event/Repr_proofs.vio: theories/Event/Repr_proofs.v theories/Base/Prelude.vio theories/Base/Bytes.vio theories/Event/Repr.vio
theories/Event/Repr_proofs.vos theories/Event/Repr_proofs.vok theories/Event/Repr_proofs.required_vos: theories/Event/Repr_proofs.v theories/Base/Prelude.vos theories/Base/Bytes.vos theories/Event/Repr.vos
theories/Onto/Tree.vo theories/Onto/Tree.glob theories/Onto/Tree.v.beautified theories/Onto/Tree.required_vo: theories/Onto/Tree.v theories/Base/Prelude.vo
theories/Onto/Tree.vio: theories/Onto/Tree.v theories/Base/Prelude.vio
theories/Onto/Tree.vos theories/Onto/Tree.vok theories/Onto/Tree.required_vos: theories/Onto/Tree.v theories/Base/Prelude.vos
theories/Generated/C09_gen.vo theories/Generated/C09_gen.glob theories/Generated/C09_gen.v.beautified theories/Generated/C09_gen.required_vo: theories/Generated/C09_gen.v theories/Base/Prelude.vo
theories/Generated/C09_gen.vio: theories/Generated/C09_gen.v theories/Base/Prelude.vio
theories/Generated/C09_gen.vos theories/Generated/C09_gen.vok theories/Generated/C09_gen.required_vos: theories/Generated/C09_gen.v theories/Base/Prelude.vos
theories/Onto/Kinds.vo theories/Onto/Kinds.glob theories/Onto/Kinds.v.beautified theories/Onto/Kinds.required_vo: theories/Onto/Kinds.v theories/Base/Prelude.vo theories/Onto/Tree.vo theories/Generated/C09_gen.vo
theories/Onto/Kinds.vio: theories/Onto/Kinds.v theories/Base/Prelude.vio theories/Onto/Tree.vio theories/Generated/C09_gen.vio
theories/Onto/Kinds.vos theories/Onto/Kinds.vok theories/Onto/Kinds.required_vos: theories/Onto/Kinds.v theories/Base/Prelude.vos theories/Onto/Tree.vos theories/Generated/C09_gen.vos
theories/Onto/Cmp_proofs.vo theories/Onto/Cmp_proofs.glob theories/Onto/Cmp_proofs.v.beautified theories/Onto/Cmp_proofs.required_vo: theories/Onto/Cmp_proofs.v theories/Base/Prelude.vo theories/Onto/Tree.vo
theories/Onto/Cmp_proofs.vio: theories/Onto/Cmp_proofs.v theories/Base/Prelude.vio theories/Onto/Tree.vio
theories/Onto/Cmp_proofs.vos theories/Onto/Cmp_proofs.vok theories/Onto/Cmp_proofs.required_vos: theories/Onto/Cmp_proofs.v theories/Base/Prelude.vos theories/Onto/Tree.vos
theories/Onto/Update.vo theories/Onto/Update.glob theories/Onto/Update.v.beautified theories/Onto/Update.required_vo: theories/Onto/Update.v theories/Base/Prelude.vo theories/Onto/Tree.vo theories/Onto/Kinds.vo
theories/Onto/Update.vio: theories/Onto/Update.v theories/Base/Prelude.vio theories/Onto/Tree.vio theories/Onto/Kinds.vio
theories/Onto/Update.vos theories/Onto/Update.vok theories/Onto/Update.required_vos: theories/Onto/Update.v theories/Base/Prelude.vos theories/Onto/Tree.vos theories/Onto/Kinds.vos
theories/Onto/Update_proofs.vo theories/Onto/Update_proofs.glob theories/Onto/Update_proofs.v.beautified theories/Onto/Update_proofs.required_vo: theories/Onto/Update_proofs.v theories/Base/Prelude.vo theories/Onto/Tree.vo theories/Onto/Kinds.vo theories/Onto/Cmp_proofs.vo theories/Onto/Update.vo
theories/Onto/Update_proofs.vio: theories/Onto/Update_proofs.v theories/Base/Prelude.vio theories/Onto/Tree.vio theories/Onto/Kinds.vio theories/Onto/Cmp_proofs.vio theories/Onto/Update.vio
theories/Onto/Update_proofs.vos theories/Onto/Update_proofs.vok theories/Onto/Update_proofs.required_vos: theories/Onto/Update_proofs.v theories/Base/Prelude.vos theories/Onto/Tree.vos theories/Onto/Kinds.vos theories/Onto/Cmp_proofs.vos theories/Onto/Update.vos
theories/Onto/Compat.vo theories/Onto/Compat.glob theories/Onto/Compat.v.beautified theories/Onto/Compat.required_vo: theories/Onto/Compat.v theories/Base/Prelude.vo theories/Base/Bytes.vo theories/Onto/Tree.vo theories/Onto/Kinds.vo theories/Event/Hash.vo theories/Event/Merge.vo
theories/Onto/Compat.vio: theories/Onto/Compat.v theories/Base/Prelude.vio theories/Base/Bytes.vio theories/Onto/Tree.vio theories/Onto/Kinds.vio theories/Event/Hash.vio theories/Event/Merge.vio
theories/Onto/Compat.vos theories/Onto/Compat.vok theories/Onto/Compat.required_vos: theories/Onto/Compat.v theories/Base/Prelude.vos theories/Base/Bytes.vos theories/Onto/Tree.vos theories/Onto/Kinds.vos theories/Event/Hash.vos theories/Event/Merge.vos
theories/Onto/Compat_proofs.vo theories/Onto/Compat_proofs.glob theories/Onto/Compat_proofs.v.beautified theories/Onto/Compat_proofs.required_vo: theories/Onto/Compat_proofs.v theories/Base/Prelude.vo theories/Base/Bytes.vo theories/Onto/Tree.vo theories/Onto/Kinds.vo theories/Onto/Cmp_proofs.vo theories/Onto/Compat.vo theories/Event/Hash.vo theories/Event/Merge.vo
theories/Onto/Compat_proofs.vio: theories/Onto/Compat_proofs.v theories/Base/Prelude.vio theories/Base/Bytes.vio theories/Onto/Tree.vio theories/Onto/Kinds.vio theories/Onto/Cmp_proofs.vio theories/Onto/Compat.vio theories/Event/Hash.vio theories/Event/Merge.vio
theories/Onto/Compat_proofs.vos theories/Onto/Compat_proofs.vok theories/Onto/Compat_proofs.required_vos: theories/Onto/Compat_proofs.v theories/Base/Prelude.vos theories/Base/Bytes.vos theories/Onto/Tree.vos theories/Onto/Kinds.vos theories/Onto/Cmp_proofs.vos theories/Onto/Compat.vos theories/Event/Hash.vos theories/Event/Merge.vos
theories/Onto/Cmp_trans.vo theories/Onto/Cmp_trans.glob theories/Onto/Cmp_trans.v.beautified theories/Onto/Cmp_trans.required_vo: theories/Onto/Cmp_trans.v theories/Base/Prelude.vo theories/Onto/Tree.vo theories/Onto/Kinds.vo theories/Onto/Cmp_proofs.vo theories/Onto/Compat.vo theories/Onto/Compat_proofs.vo
theories/Onto/Cmp_trans.vio: theories/Onto/Cmp_trans.v theories/Base/Prelude.vio theories/Onto/Tree.vio theories/Onto/Kinds.vio theories/Onto/Cmp_proofs.vio theories/Onto/Compat.vio theories/Onto/Compat_proofs.vio
theories/Onto/Cmp_trans.vos theories/Onto/Cmp_trans.vok theories/Onto/Cmp_trans.required_vos: theories/Onto/Cmp_trans.v theories/Base/Prelude.vos theories/Onto/Tree.vos theories/Onto/Kinds.vos theories/Onto/Cmp_proofs.vos theories/Onto/Compat.vos theories/Onto/Compat_proofs.vos
theories/Onto/Track.vo theories/Onto/Track.glob theories/Onto/Track.v.beautified theories/Onto/Track.required_vo: theories/Onto/Track.v theories/Base/Prelude.vo
theories/Onto/Track.vio: theories/Onto/Track.v theories/Base/Prelude.vio
theories/Onto/Track.vos theories/Onto/Track.vok theories/Onto/Track.required_vos: theories/Onto/Track.v theories/Base/Prelude.vos
theories/Onto/Track_proofs.vo theories/Onto/Track_proofs.glob theories/Onto/Track_proofs.v.beautified theories/Onto/Track_proofs.required_vo: theories/Onto/Track_proofs.v theories/Base/Prelude.vo theories/Onto/Track.vo
theories/Onto/Track_proofs.vio: theories/Onto/Track_proofs.v theories/Base/Prelude.vio theories/Onto/Track.vio
theories/Onto/Track_proofs.vos theories/Onto/Track_proofs.vok theories/Onto/Track_proofs.required_vos: theories/Onto/Track_proofs.v theories/Base/Prelude.vos theories/Onto/Track.vos
theories/Generated/C12_gen.vo theories/Generated/C12_gen.glob theories/Generated/C12_gen.v.beautified theories/Generated/C12_gen.required_vo: theories/Generated/C12_gen.v theories/Base/Prelude.vo
theories/Generated/C12_gen.vio: theories/Generated/C12_gen.v theories/Base/Prelude.vio
theories/Generated/C12_gen.vos theories/Generated/C12_gen.vok theories/Generated/C12_gen.required_vos: theories/Generated/C12_gen.v theories/Base/Prelude.vos
theories/Parse/Dispatch.vo theories/Parse/Dispatch.glob theories/Parse/Dispatch.v.beautified theories/Parse/Dispatch.required_vo: theories/Parse/Dispatch.v theories/Base/Prelude.vo
theories/Parse/Dispatch.vio: theories/Parse/Dispatch.v theories/Base/Prelude.vio
theories/Parse/Dispatch.vos theories/Parse/Dispatch.vok theories/Parse/Dispatch.required_vos: theories/Parse/Dispatch.v theories/Base/Prelude.vos
theories/Parse/Dispatch_proofs.vo theories/Parse/Dispatch_proofs.glob theories/Parse/Dispatch_proofs.v.beautified theories/Parse/Dispatch_proofs.required_vo: theories/Parse/Dispatch_proofs.v theories/Base/Prelude.vo theories/Parse/Dispatch.vo
theories/Parse/Dispatch_proofs.vio: theories/Parse/Dispatch_proofs.v theories/Base/Prelude.vio theories/Parse/Dispatch.vio
theories/Parse/Dispatch_proofs.vos theories/Parse/Dispatch_proofs.vok theories/Parse/Dispatch_proofs.required_vos: theories/Parse/Dispatch_proofs.v theories/Base/Prelude.vos theories/Parse/Dispatch.vos
theories/Generated/C01_gen.vo theories/Generated/C01_gen.glob theories/Generated/C01_gen.v.beautified theories/Generated/C01_gen.required_vo: theories/Generated/C01_gen.v theories/Base/Prelude.vo
theories/Generated/C01_gen.vio: theories/Generated/C01_gen.v theories/Base/Prelude.vio
theories/Generated/C01_gen.vos theories/Generated/C01_gen.vok theories/Generated/C01_gen.required_vos: theories/Generated/C01_gen.v theories/Base/Prelude.vos
theories/Valid/Normalize.vo theories/Valid/Normalize.glob theories/Valid/Normalize.v.beautified theories/Valid/Normalize.required_vo: theories/Valid/Normalize.v theories/Base/Prelude.vo theories/Valid/Gate.vo
theories/Valid/Normalize.vio: theories/Valid/Normalize.v theories/Base/Prelude.vio theories/Valid/Gate.vio
theories/Valid/Normalize.vos theories/Valid/Normalize.vok theories/Valid/Normalize.required_vos: theories/Valid/Normalize.v theories/Base/Prelude.vos theories/Valid/Gate.vos
theories/Valid/Calendar.vo theories/Valid/Calendar.glob theories/Valid/Calendar.v.beautified theories/Valid/Calendar.required_vo: theories/Valid/Calendar.v theories/Base/Prelude.vo theories/Valid/Gate.vo theories/Valid/Normalize.vo
theories/Valid/Calendar.vio: theories/Valid/Calendar.v theories/Base/Prelude.vio theories/Valid/Gate.vio theories/Valid/Normalize.vio
theories/Valid/Calendar.vos theories/Valid/Calendar.vok theories/Valid/Calendar.required_vos: theories/Valid/Calendar.v theories/Base/Prelude.vos theories/Valid/Gate.vos theories/Valid/Normalize.vos
theories/Valid/Cal/All.vo theories/Valid/Cal/All.glob theories/Valid/Cal/All.v.beautified theories/Valid/Cal/All.required_vo: theories/Valid/Cal/All.v theories/Base/Prelude.vo theories/Valid/Normalize.vo theories/Valid/Calendar.vo
theories/Valid/Cal/All.vio: theories/Valid/Cal/All.v theories/Base/Prelude.vio theories/Valid/Normalize.vio theories/Valid/Calendar.vio
theories/Valid/Cal/All.vos theories/Valid/Cal/All.vok theories/Valid/Cal/All.required_vos: theories/Valid/Cal/All.v theories/Base/Prelude.vos theories/Valid/Normalize.vos theories/Valid/Calendar.vos
theories/Valid/Normalize_proofs.vo theories/Valid/Normalize_proofs.glob theories/Valid/Normalize_proofs.v.beautified theories/Valid/Normalize_proofs.required_vo: theories/Valid/Normalize_proofs.v theories/Base/Prelude.vo theories/Valid/Gate.vo theories/Valid/Normalize.vo theories/Valid/Calendar.vo theories/Valid/Cal/All.vo
theories/Valid/Normalize_proofs.vio: theories/Valid/Normalize_proofs.v theories/Base/Prelude.vio theories/Valid/Gate.vio theories/Valid/Normalize.vio theories/Valid/Calendar.vio theories/Valid/Cal/All.vio
theories/Valid/Normalize_proofs.vos theories/Valid/Normalize_proofs.vok theories/Valid/Normalize_proofs.required_vos: theories/Valid/Normalize_proofs.v theories/Base/Prelude.vos theories/Valid/Gate.vos theories/Valid/Normalize.vos theories/Valid/Calendar.vos theories/Valid/Cal/All.vos
theories/Generated/C13_gen.vo theories/Generated/C13_gen.glob theories/Generated/C13_gen.v.beautified theories/Generated/C13_gen.required_vo: theories/Generated/C13_gen.v theories/Base/Prelude.vo
theories/Generated/C13_gen.vio: theories/Generated/C13_gen.v theories/Base/Prelude.vio
theories/Generated/C13_gen.vos theories/Generated/C13_gen.vok theories/Generated/C13_gen.required_vos: theories/Generated/C13_gen.v theories/Base/Prelude.vos
theories/Onto/Xml.vo theories/Onto/Xml.glob theories/Onto/Xml.v.beautified theories/Onto/Xml.required_vo: theories/Onto/Xml.v theories/Base/Prelude.vo theories/Base/Bytes.vo theories/Onto/Tree.vo theories/Valid/Normalize.vo
theories/Onto/Xml.vio: theories/Onto/Xml.v theories/Base/Prelude.vio theories/Base/Bytes.vio theories/Onto/Tree.vio theories/Valid/Normalize.vio
theories/Onto/Xml.vos theories/Onto/Xml.vok theories/Onto/Xml.required_vos: theories/Onto/Xml.v theories/Base/Prelude.vos theories/Base/Bytes.vos theories/Onto/Tree.vos theories/Valid/Normalize.vos
theories/Onto/Xml_proofs.vo theories/Onto/Xml_proofs.glob theories/Onto/Xml_proofs.v.beautified theories/Onto/Xml_proofs.required_vo: theories/Onto/Xml_proofs.v theories/Base/Prelude.vo theories/Base/Bytes.vo theories/Onto/Tree.vo theories/Onto/Cmp_proofs.vo theories/Valid/Normalize.vo theories/Onto/Xml.vo
theories/Onto/Xml_proofs.vio: theories/Onto/Xml_proofs.v theories/Base/Prelude.vio theories/Base/Bytes.vio theories/Onto/Tree.vio theories/Onto/Cmp_proofs.vio theories/Valid/Normalize.vio theories/Onto/Xml.vio
theories/Onto/Xml_proofs.vos theories/Onto/Xml_proofs.vok theories/Onto/Xml_proofs.required_vos: theories/Onto/Xml_proofs.v theories/Base/Prelude.vos theories/Base/Bytes.vos theories/Onto/Tree.vos theories/Onto/Cmp_proofs.vos theories/Valid/Normalize.vos theories/Onto/Xml.vos
theories/Generated/C08_gen.vo theories/Generated/C08_gen.glob theories/Generated/C08_gen.v.beautified theories/Generated/C08_gen.required_vo: theories/Generated/C08_gen.v theories/Base/Prelude.vo theories/Onto/Tree.vo theories/Onto/Xml.vo
theories/Generated/C08_gen.vio: theories/Generated/C08_gen.v theories/Base/Prelude.vio theories/Onto/Tree.vio theories/Onto/Xml.vio
theories/Generated/C08_gen.vos theories/Generated/C08_gen.vok theories/Generated/C08_gen.required_vos: theories/Generated/C08_gen.v theories/Base/Prelude.vos theories/Onto/Tree.vos theories/Onto/Xml.vos
theories/Templ/Template.vo theories/Templ/Template.glob theories/Templ/Template.v.beautified theories/Templ/Template.required_vo: theories/Templ/Template.v theories/Base/Prelude.vo
theories/Templ/Template.vio: theories/Templ/Template.v theories/Base/Prelude.vio
theories/Templ/Template.vos theories/Templ/Template.vok theories/Templ/Template.required_vos: theories/Templ/Template.v theories/Base/Prelude.vos
theories/Templ/Template_proofs.vo theories/Templ/Template_proofs.glob theories/Templ/Template_proofs.v.beautified theories/Templ/Template_proofs.required_vo: theories/Templ/Template_proofs.v theories/Base/Prelude.vo theories/Templ/Template.vo
theories/Templ/Template_proofs.vio: theories/Templ/Template_proofs.v theories/Base/Prelude.vio theories/Templ/Template.vio
theories/Templ/Template_proofs.vos theories/Templ/Template_proofs.vok theories/Templ/Template_proofs.required_vos: theories/Templ/Template_proofs.v theories/Base/Prelude.vos theories/Templ/Template.vos
theories/Transcode/Mediator.vo theories/Transcode/Mediator.glob theories/Transcode/Mediator.v.beautified theories/Transcode/Mediator.required_vo: theories/Transcode/Mediator.v theories/Base/Prelude.vo theories/Valid/Normalize.vo
theories/Transcode/Mediator.vio: theories/Transcode/Mediator.v theories/Base/Prelude.vio theories/Valid/Normalize.vio
theories/Transcode/Mediator.vos theories/Transcode/Mediator.vok theories/Transcode/Mediator.required_vos: theories/Transcode/Mediator.v theories/Base/Prelude.vos theories/Valid/Normalize.vos
theories/Transcode/Mediator_proofs.vo theories/Transcode/Mediator_proofs.glob theories/Transcode/Mediator_proofs.v.beautified theories/Transcode/Mediator_proofs.required_vo: theories/Transcode/Mediator_proofs.v theories/Base/Prelude.vo theories/Transcode/Mediator.vo
theories/Transcode/Mediator_proofs.vio: theories/Transcode/Mediator_proofs.v theories/Base/Prelude.vio theories/Transcode/Mediator.vio
theories/Transcode/Mediator_proofs.vos theories/Transcode/Mediator_proofs.vok theories/Transcode/Mediator_proofs.required_vos: theories/Transcode/Mediator_proofs.v theories/Base/Prelude.vos theories/Transcode/Mediator.vos
theories/Miner/Reason.vo theories/Miner/Reason.glob theories/Miner/Reason.v.beautified theories/Miner/Reason.required_vo: theories/Miner/Reason.v theories/Base/Prelude.vo
theories/Miner/Reason.vio: theories/Miner/Reason.v theories/Base/Prelude.vio
theories/Miner/Reason.vos theories/Miner/Reason.vok theories/Miner/Reason.required_vos: theories/Miner/Reason.v theories/Base/Prelude.vos
theories/Miner/Reason_proofs.vo theories/Miner/Reason_proofs.glob theories/Miner/Reason_proofs.v.beautified theories/Miner/Reason_proofs.required_vo: theories/Miner/Reason_proofs.v theories/Base/Prelude.vo theories/Miner/Reason.vo
theories/Miner/Reason_proofs.vio: theories/Miner/Reason_proofs.v theories/Base/Prelude.vio theories/Miner/Reason.vio
theories/Miner/Reason_proofs.vos theories/Miner/Reason_proofs.vok theories/Miner/Reason_proofs.required_vos: theories/Miner/Reason_proofs.v theories/Base/Prelude.vos theories/Miner/Reason.vos
theories/Generated/C20_gen.vo theories/Generated/C20_gen.glob theories/Generated/C20_gen.v.beautified theories/Generated/C20_gen.required_vo: theories/Generated/C20_gen.v theories/Base/Prelude.vo
theories/Generated/C20_gen.vio: theories/Generated/C20_gen.v theories/Base/Prelude.vio
theories/Generated/C20_gen.vos theories/Generated/C20_gen.vok theories/Generated/C20_gen.required_vos: theories/Generated/C20_gen.v theories/Base/Prelude.vos
theories/Props/C01.vo theories/Props/C01.glob theories/Props/C01.v.beautified theories/Props/C01.required_vo: theories/Props/C01.v theories/Base/Prelude.vo theories/Base/Bytes.vo theories/Event/Hash.vo theories/Event/Hash_proofs.vo theories/Event/Hash_inj.vo theories/Generated/C01_gen.vo
theories/Props/C01.vio: theories/Props/C01.v theories/Base/Prelude.vio theories/Base/Bytes.vio theories/Event/Hash.vio theories/Event/Hash_proofs.vio theories/Event/Hash_inj.vio theories/Generated/C01_gen.vio
theories/Props/C01.vos theories/Props/C01.vok theories/Props/C01.required_vos: theories/Props/C01.v theories/Base/Prelude.vos theories/Base/Bytes.vos theories/Event/Hash.vos theories/Event/Hash_proofs.vos theories/Event/Hash_inj.vos theories/Generated/C01_gen.vos
theories/Props/C02.vo theories/Props/C02.glob theories/Props/C02.v.beautified theories/Props/C02.required_vo: theories/Props/C02.v theories/Base/Prelude.vo theories/Parse/XmlText.vo theories/Parse/XmlText_proofs.vo
theories/Props/C02.vio: theories/Props/C02.v theories/Base/Prelude.vio theories/Parse/XmlText.vio theories/Parse/XmlText_proofs.vio
theories/Props/C02.vos theories/Props/C02.vok theories/Props/C02.required_vos: theories/Props/C02.v theories/Base/Prelude.vos theories/Parse/XmlText.vos theories/Parse/XmlText_proofs.vos
theories/Props/C03.vo theories/Props/C03.glob theories/Props/C03.v.beautified theories/Props/C03.required_vo: theories/Props/C03.v theories/Base/Prelude.vo theories/Base/Regex.vo theories/Valid/Gate.vo theories/Valid/Gate_proofs.vo theories/Valid/Gate_int.vo
theories/Props/C03.vio: theories/Props/C03.v theories/Base/Prelude.vio theories/Base/Regex.vio theories/Valid/Gate.vio theories/Valid/Gate_proofs.vio theories/Valid/Gate_int.vio
theories/Props/C03.vos theories/Props/C03.vok theories/Props/C03.required_vos: theories/Props/C03.v theories/Base/Prelude.vos theories/Base/Regex.vos theories/Valid/Gate.vos theories/Valid/Gate_proofs.vos theories/Valid/Gate_int.vos
theories/Props/C04.vo theories/Props/C04.glob theories/Props/C04.v.beautified theories/Props/C04.required_vo: theories/Props/C04.v theories/Base/Prelude.vo theories/Base/Bytes.vo theories/Event/Merge.vo theories/Event/Hash.vo theories/Event/Hash_proofs.vo theories/Event/Merge_proofs.vo
theories/Props/C04.vio: theories/Props/C04.v theories/Base/Prelude.vio theories/Base/Bytes.vio theories/Event/Merge.vio theories/Event/Hash.vio theories/Event/Hash_proofs.vio theories/Event/Merge_proofs.vio
theories/Props/C04.vos theories/Props/C04.vok theories/Props/C04.required_vos: theories/Props/C04.v theories/Base/Prelude.vos theories/Base/Bytes.vos theories/Event/Merge.vos theories/Event/Hash.vos theories/Event/Hash_proofs.vos theories/Event/Merge_proofs.vos
theories/Props/C05.vo theories/Props/C05.glob theories/Props/C05.v.beautified theories/Props/C05.required_vo: theories/Props/C05.v theories/Base/Prelude.vo theories/Base/Bytes.vo theories/Event/Merge.vo theories/Event/Merge_proofs.vo theories/Event/Merge_order_proofs.vo theories/Event/Stream.vo theories/Event/Collection.vo theories/Event/Collection_proofs.vo theories/Event/Collection_perm.vo theories/Event/Stream_proofs.vo
theories/Props/C05.vio: theories/Props/C05.v theories/Base/Prelude.vio theories/Base/Bytes.vio theories/Event/Merge.vio theories/Event/Merge_proofs.vio theories/Event/Merge_order_proofs.vio theories/Event/Stream.vio theories/Event/Collection.vio theories/Event/Collection_proofs.vio theories/Event/Collection_perm.vio theories/Event/Stream_proofs.vio
theories/Props/C05.vos theories/Props/C05.vok theories/Props/C05.required_vos: theories/Props/C05.v theories/Base/Prelude.vos theories/Base/Bytes.vos theories/Event/Merge.vos theories/Event/Merge_proofs.vos theories/Event/Merge_order_proofs.vos theories/Event/Stream.vos theories/Event/Collection.vos theories/Event/Collection_proofs.vos theories/Event/Collection_perm.vos theories/Event/Stream_proofs.vos
theories/Props/C06.vo theories/Props/C06.glob theories/Props/C06.v.beautified theories/Props/C06.required_vo: theories/Props/C06.v theories/Base/Prelude.vo theories/Parse/Chunk.vo theories/Parse/Chunk_proofs.vo
theories/Props/C06.vio: theories/Props/C06.v theories/Base/Prelude.vio theories/Parse/Chunk.vio theories/Parse/Chunk_proofs.vio
theories/Props/C06.vos theories/Props/C06.vok theories/Props/C06.required_vos: theories/Props/C06.v theories/Base/Prelude.vos theories/Parse/Chunk.vos theories/Parse/Chunk_proofs.vos
theories/Props/C07.vo theories/Props/C07.glob theories/Props/C07.v.beautified theories/Props/C07.required_vo: theories/Props/C07.v theories/Base/Prelude.vo theories/Base/Bytes.vo theories/Event/Repr.vo theories/Event/Repr_proofs.vo
theories/Props/C07.vio: theories/Props/C07.v theories/Base/Prelude.vio theories/Base/Bytes.vio theories/Event/Repr.vio theories/Event/Repr_proofs.vio
theories/Props/C07.vos theories/Props/C07.vok theories/Props/C07.required_vos: theories/Props/C07.v theories/Base/Prelude.vos theories/Base/Bytes.vos theories/Event/Repr.vos theories/Event/Repr_proofs.vos
theories/Props/C08.vo theories/Props/C08.glob theories/Props/C08.v.beautified theories/Props/C08.required_vo: theories/Props/C08.v theories/Base/Prelude.vo theories/Base/Bytes.vo theories/Onto/Tree.vo theories/Valid/Normalize.vo theories/Valid/Normalize_proofs.vo theories/Onto/Xml.vo theories/Onto/Xml_proofs.vo theories/Generated/C13_gen.vo theories/Generated/C08_gen.vo theories/Props/C13.vo
theories/Props/C08.vio: theories/Props/C08.v theories/Base/Prelude.vio theories/Base/Bytes.vio theories/Onto/Tree.vio theories/Valid/Normalize.vio theories/Valid/Normalize_proofs.vio theories/Onto/Xml.vio theories/Onto/Xml_proofs.vio theories/Generated/C13_gen.vio theories/Generated/C08_gen.vio theories/Props/C13.vio
theories/Props/C08.vos theories/Props/C08.vok theories/Props/C08.required_vos: theories/Props/C08.v theories/Base/Prelude.vos theories/Base/Bytes.vos theories/Onto/Tree.vos theories/Valid/Normalize.vos theories/Valid/Normalize_proofs.vos theories/Onto/Xml.vos theories/Onto/Xml_proofs.vos theories/Generated/C13_gen.vos theories/Generated/C08_gen.vos theories/Props/C13.vos
theories/Props/C09.vo theories/Props/C09.glob theories/Props/C09.v.beautified theories/Props/C09.required_vo: theories/Props/C09.v theories/Base/Prelude.vo theories/Onto/Tree.vo theories/Onto/Kinds.vo theories/Onto/Cmp_proofs.vo theories/Onto/Compat.vo theories/Onto/Compat_proofs.vo theories/Onto/Cmp_trans.vo theories/Generated/C09_gen.vo
theories/Props/C09.vio: theories/Props/C09.v theories/Base/Prelude.vio theories/Onto/Tree.vio theories/Onto/Kinds.vio theories/Onto/Cmp_proofs.vio theories/Onto/Compat.vio theories/Onto/Compat_proofs.vio theories/Onto/Cmp_trans.vio theories/Generated/C09_gen.vio
theories/Props/C09.vos theories/Props/C09.vok theories/Props/C09.required_vos: theories/Props/C09.v theories/Base/Prelude.vos theories/Onto/Tree.vos theories/Onto/Kinds.vos theories/Onto/Cmp_proofs.vos theories/Onto/Compat.vos theories/Onto/Compat_proofs.vos theories/Onto/Cmp_trans.vos theories/Generated/C09_gen.vos
theories/Props/C10.vo theories/Props/C10.glob theories/Props/C10.v.beautified theories/Props/C10.required_vo: theories/Props/C10.v theories/Base/Prelude.vo theories/Base/Bytes.vo theories/Onto/Tree.vo theories/Onto/Kinds.vo theories/Onto/Compat.vo theories/Onto/Compat_proofs.vo theories/Event/Hash.vo theories/Event/Merge.vo
theories/Props/C10.vio: theories/Props/C10.v theories/Base/Prelude.vio theories/Base/Bytes.vio theories/Onto/Tree.vio theories/Onto/Kinds.vio theories/Onto/Compat.vio theories/Onto/Compat_proofs.vio theories/Event/Hash.vio theories/Event/Merge.vio
theories/Props/C10.vos theories/Props/C10.vok theories/Props/C10.required_vos: theories/Props/C10.v theories/Base/Prelude.vos theories/Base/Bytes.vos theories/Onto/Tree.vos theories/Onto/Kinds.vos theories/Onto/Compat.vos theories/Onto/Compat_proofs.vos theories/Event/Hash.vos theories/Event/Merge.vos
theories/Props/C11.vo theories/Props/C11.glob theories/Props/C11.v.beautified theories/Props/C11.required_vo: theories/Props/C11.v theories/Base/Prelude.vo theories/Onto/Tree.vo theories/Onto/Kinds.vo theories/Onto/Cmp_proofs.vo theories/Onto/Update.vo theories/Onto/Update_proofs.vo
theories/Props/C11.vio: theories/Props/C11.v theories/Base/Prelude.vio theories/Onto/Tree.vio theories/Onto/Kinds.vio theories/Onto/Cmp_proofs.vio theories/Onto/Update.vio theories/Onto/Update_proofs.vio
theories/Props/C11.vos theories/Props/C11.vok theories/Props/C11.required_vos: theories/Props/C11.v theories/Base/Prelude.vos theories/Onto/Tree.vos theories/Onto/Kinds.vos theories/Onto/Cmp_proofs.vos theories/Onto/Update.vos theories/Onto/Update_proofs.vos
theories/Props/C12.vo theories/Props/C12.glob theories/Props/C12.v.beautified theories/Props/C12.required_vo: theories/Props/C12.v theories/Base/Prelude.vo theories/Onto/Track.vo theories/Onto/Track_proofs.vo theories/Generated/C12_gen.vo
theories/Props/C12.vio: theories/Props/C12.v theories/Base/Prelude.vio theories/Onto/Track.vio theories/Onto/Track_proofs.vio theories/Generated/C12_gen.vio
theories/Props/C12.vos theories/Props/C12.vok theories/Props/C12.required_vos: theories/Props/C12.v theories/Base/Prelude.vos theories/Onto/Track.vos theories/Onto/Track_proofs.vos theories/Generated/C12_gen.vos
theories/Props/C13.vo theories/Props/C13.glob theories/Props/C13.v.beautified theories/Props/C13.required_vo: theories/Props/C13.v theories/Base/Prelude.vo theories/Valid/Gate.vo theories/Valid/Normalize.vo theories/Valid/Normalize_proofs.vo theories/Generated/C13_gen.vo
theories/Props/C13.vio: theories/Props/C13.v theories/Base/Prelude.vio theories/Valid/Gate.vio theories/Valid/Normalize.vio theories/Valid/Normalize_proofs.vio theories/Generated/C13_gen.vio
theories/Props/C13.vos theories/Props/C13.vok theories/Props/C13.required_vos: theories/Props/C13.v theories/Base/Prelude.vos theories/Valid/Gate.vos theories/Valid/Normalize.vos theories/Valid/Normalize_proofs.vos theories/Generated/C13_gen.vos
theories/Props/C14.vo theories/Props/C14.glob theories/Props/C14.v.beautified theories/Props/C14.required_vo: theories/Props/C14.v theories/Base/Prelude.vo theories/Parse/Dispatch.vo theories/Parse/Dispatch_proofs.vo
theories/Props/C14.vio: theories/Props/C14.v theories/Base/Prelude.vio theories/Parse/Dispatch.vio theories/Parse/Dispatch_proofs.vio
theories/Props/C14.vos theories/Props/C14.vok theories/Props/C14.required_vos: theories/Props/C14.v theories/Base/Prelude.vos theories/Parse/Dispatch.vos theories/Parse/Dispatch_proofs.vos
theories/Parse/XmlText.vo theories/Parse/XmlText.glob theories/Parse/XmlText.v.beautified theories/Parse/XmlText.required_vo: theories/Parse/XmlText.v theories/Base/Prelude.vo
theories/Parse/XmlText.vio: theories/Parse/XmlText.v theories/Base/Prelude.vio
theories/Parse/XmlText.vos theories/Parse/XmlText.vok theories/Parse/XmlText.required_vos: theories/Parse/XmlText.v theories/Base/Prelude.vos
theories/Parse/XmlText_proofs.vo theories/Parse/XmlText_proofs.glob theories/Parse/XmlText_proofs.v.beautified theories/Parse/XmlText_proofs.required_vo: theories/Parse/XmlText_proofs.v theories/Base/Prelude.vo theories/Parse/XmlText.vo
theories/Parse/XmlText_proofs.vio: theories/Parse/XmlText_proofs.v theories/Base/Prelude.vio theories/Parse/XmlText.vio
theories/Parse/XmlText_proofs.vos theories/Parse/XmlText_proofs.vok theories/Parse/XmlText_proofs.required_vos: theories/Parse/XmlText_proofs.v theories/Base/Prelude.vos theories/Parse/XmlText.vos
theories/Parse/Safe.vo theories/Parse/Safe.glob theories/Parse/Safe.v.beautified theories/Parse/Safe.required_vo: theories/Parse/Safe.v theories/Base/Prelude.vo
theories/Parse/Safe.vio: theories/Parse/Safe.v theories/Base/Prelude.vio
theories/Parse/Safe.vos theories/Parse/Safe.vok theories/Parse/Safe.required_vos: theories/Parse/Safe.v theories/Base/Prelude.vos
theories/Parse/Safe_proofs.vo theories/Parse/Safe_proofs.glob theories/Parse/Safe_proofs.v.beautified theories/Parse/Safe_proofs.required_vo: theories/Parse/Safe_proofs.v theories/Base/Prelude.vo theories/Parse/Safe.vo
theories/Parse/Safe_proofs.vio: theories/Parse/Safe_proofs.v theories/Base/Prelude.vio theories/Parse/Safe.vio
theories/Parse/Safe_proofs.vos theories/Parse/Safe_proofs.vok theories/Parse/Safe_proofs.required_vos: theories/Parse/Safe_proofs.v theories/Base/Prelude.vos theories/Parse/Safe.vos
theories/Generated/C15_gen.vo theories/Generated/C15_gen.glob theories/Generated/C15_gen.v.beautified theories/Generated/C15_gen.required_vo: theories/Generated/C15_gen.v theories/Base/Prelude.vo theories/Parse/Safe.vo
theories/Generated/C15_gen.vio: theories/Generated/C15_gen.v theories/Base/Prelude.vio theories/Parse/Safe.vio
theories/Generated/C15_gen.vos theories/Generated/C15_gen.vok theories/Generated/C15_gen.required_vos: theories/Generated/C15_gen.v theories/Base/Prelude.vos theories/Parse/Safe.vos
theories/Parse/Chunk.vo theories/Parse/Chunk.glob theories/Parse/Chunk.v.beautified theories/Parse/Chunk.required_vo: theories/Parse/Chunk.v theories/Base/Prelude.vo
theories/Parse/Chunk.vio: theories/Parse/Chunk.v theories/Base/Prelude.vio
theories/Parse/Chunk.vos theories/Parse/Chunk.vok theories/Parse/Chunk.required_vos: theories/Parse/Chunk.v theories/Base/Prelude.vos
theories/Parse/Chunk_proofs.vo theories/Parse/Chunk_proofs.glob theories/Parse/Chunk_proofs.v.beautified theories/Parse/Chunk_proofs.required_vo: theories/Parse/Chunk_proofs.v theories/Base/Prelude.vo theories/Parse/Chunk.vo
theories/Parse/Chunk_proofs.vio: theories/Parse/Chunk_proofs.v theories/Base/Prelude.vio theories/Parse/Chunk.vio
theories/Parse/Chunk_proofs.vos theories/Parse/Chunk_proofs.vok theories/Parse/Chunk_proofs.required_vos: theories/Parse/Chunk_proofs.v theories/Base/Prelude.vos theories/Parse/Chunk.vos
theories/Parse/Tree.vo theories/Parse/Tree.glob theories/Parse/Tree.v.beautified theories/Parse/Tree.required_vo: theories/Parse/Tree.v theories/Base/Prelude.vo
theories/Parse/Tree.vio: theories/Parse/Tree.v theories/Base/Prelude.vio
theories/Parse/Tree.vos theories/Parse/Tree.vok theories/Parse/Tree.required_vos: theories/Parse/Tree.v theories/Base/Prelude.vos
theories/Parse/Tree_proofs.vo theories/Parse/Tree_proofs.glob theories/Parse/Tree_proofs.v.beautified theories/Parse/Tree_proofs.required_vo: theories/Parse/Tree_proofs.v theories/Base/Prelude.vo theories/Parse/Tree.vo
theories/Parse/Tree_proofs.vio: theories/Parse/Tree_proofs.v theories/Base/Prelude.vio theories/Parse/Tree.vio
theories/Parse/Tree_proofs.vos theories/Parse/Tree_proofs.vok theories/Parse/Tree_proofs.required_vos: theories/Parse/Tree_proofs.v theories/Base/Prelude.vos theories/Parse/Tree.vos
theories/Props/C15.vo theories/Props/C15.glob theories/Props/C15.v.beautified theories/Props/C15.required_vo: theories/Props/C15.v theories/Base/Prelude.vo theories/Parse/Safe.vo theories/Parse/Safe_proofs.vo theories/Generated/C15_gen.vo
theories/Props/C15.vio: theories/Props/C15.v theories/Base/Prelude.vio theories/Parse/Safe.vio theories/Parse/Safe_proofs.vio theories/Generated/C15_gen.vio
theories/Props/C15.vos theories/Props/C15.vok theories/Props/C15.required_vos: theories/Props/C15.v theories/Base/Prelude.vos theories/Parse/Safe.vos theories/Parse/Safe_proofs.vos theories/Generated/C15_gen.vos
theories/Props/C16.vo theories/Props/C16.glob theories/Props/C16.v.beautified theories/Props/C16.required_vo: theories/Props/C16.v theories/Base/Prelude.vo theories/Templ/Template.vo theories/Templ/Template_proofs.vo
theories/Props/C16.vio: theories/Props/C16.v theories/Base/Prelude.vio theories/Templ/Template.vio theories/Templ/Template_proofs.vio
theories/Props/C16.vos theories/Props/C16.vok theories/Props/C16.required_vos: theories/Props/C16.v theories/Base/Prelude.vos theories/Templ/Template.vos theories/Templ/Template_proofs.vos
theories/Props/C17.vo theories/Props/C17.glob theories/Props/C17.v.beautified theories/Props/C17.required_vo: theories/Props/C17.v theories/Base/Prelude.vo theories/Transcode/Mediator.vo theories/Transcode/Mediator_proofs.vo
theories/Props/C17.vio: theories/Props/C17.v theories/Base/Prelude.vio theories/Transcode/Mediator.vio theories/Transcode/Mediator_proofs.vio
theories/Props/C17.vos theories/Props/C17.vok theories/Props/C17.required_vos: theories/Props/C17.v theories/Base/Prelude.vos theories/Transcode/Mediator.vos theories/Transcode/Mediator_proofs.vos
theories/Props/C18.vo theories/Props/C18.glob theories/Props/C18.v.beautified theories/Props/C18.required_vo: theories/Props/C18.v theories/Base/Prelude.vo theories/Event/Merge.vo theories/Event/Merge_proofs.vo theories/Event/Stream.vo theories/Event/Collection.vo theories/Event/Collection_proofs.vo theories/Event/Collection_perm.vo
theories/Props/C18.vio: theories/Props/C18.v theories/Base/Prelude.vio theories/Event/Merge.vio theories/Event/Merge_proofs.vio theories/Event/Stream.vio theories/Event/Collection.vio theories/Event/Collection_proofs.vio theories/Event/Collection_perm.vio
theories/Props/C18.vos theories/Props/C18.vok theories/Props/C18.required_vos: theories/Props/C18.v theories/Base/Prelude.vos theories/Event/Merge.vos theories/Event/Merge_proofs.vos theories/Event/Stream.vos theories/Event/Collection.vos theories/Event/Collection_proofs.vos theories/Event/Collection_perm.vos
theories/Props/C19.vo theories/Props/C19.glob theories/Props/C19.v.beautified theories/Props/C19.required_vo: theories/Props/C19.v theories/Base/Prelude.vo theories/Parse/Tree.vo theories/Parse/Tree_proofs.vo
theories/Props/C19.vio: theories/Props/C19.v theories/Base/Prelude.vio theories/Parse/Tree.vio theories/Parse/Tree_proofs.vio
theories/Props/C19.vos theories/Props/C19.vok theories/Props/C19.required_vos: theories/Props/C19.v theories/Base/Prelude.vos theories/Parse/Tree.vos theories/Parse/Tree_proofs.vos
theories/Props/C20.vo theories/Props/C20.glob theories/Props/C20.v.beautified theories/Props/C20.required_vo: theories/Props/C20.v theories/Base/Prelude.vo theories/Miner/Reason.vo theories/Miner/Reason_proofs.vo theories/Generated/C20_gen.vo
theories/Props/C20.vio: theories/Props/C20.v theories/Base/Prelude.vio theories/Miner/Reason.vio theories/Miner/Reason_proofs.vio theories/Generated/C20_gen.vio
theories/Props/C20.vos theories/Props/C20.vok theories/Props/C20.required_vos: theories/Props/C20.v theories/Base/Prelude.vos theories/Miner/Reason.vos theories/Miner/Reason_proofs.vos theories/Generated/C20_gen.vos
