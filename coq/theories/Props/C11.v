(* C11 — Ontology update yields the element-wise newest definitions and nothing else.
   Statements only (proofs in Onto/Update_proofs.v); value level: object identity / later mutation
   (independence of A and B) is decided by the harness on the implementation. *)
From EdxmlVerif Require Import Base.Prelude Onto.Tree Onto.Kinds Onto.Cmp_proofs Onto.Update Onto.Update_proofs.

Section LeafKinds.
Context {C : Type}.
Variable child_attr : C -> str -> aval.
Variable childcmp : str -> C -> C -> cmpres.
Variable childupd : str -> C -> C -> option C.
Variable rules : list (str * rule).
Notation ks := {| k_rules := rules; k_groups := [] |}.
Notation cmp := (cmp_node child_attr childcmp ks).
Notation upd := (upd_node child_attr childcmp childupd ks).

(* object types, concepts, sources (and every sub-element kind without children): *)
Theorem C11_newest : forall a b r, upd a b = Some r ->
  (cmp a b = Older /\ cmp r b = Eq /\ n_version r = n_version b /\ n_attrs r = n_attrs b) \/
  ((cmp a b = Eq \/ cmp a b = Newer) /\ r = a).
Proof. exact (upd_leaf_newest child_attr childcmp childupd rules). Qed.

Theorem C11_incompatible_fails : forall a b, upd a b = None <-> cmp a b = Incompat.
Proof. exact (upd_leaf_error child_attr childcmp childupd rules). Qed.

Theorem C11_idempotent : forall a b r, upd a b = Some r -> upd r b = Some r.
Proof. exact (upd_leaf_idempotent child_attr childcmp childupd rules). Qed.

Theorem C11_commutes : forall a b r1 r2, upd a b = Some r1 -> upd b a = Some r2 -> cmp r1 r2 = Eq.
Proof. exact (upd_leaf_commutes child_attr childcmp childupd rules). Qed.

Theorem C11_versions_never_decrease : forall a b r, upd a b = Some r -> (n_version a <= n_version r)%Z.
Proof. exact (upd_leaf_monotone child_attr childcmp childupd rules). Qed.
End LeafKinds.
Print Assumptions C11_newest.
Print Assumptions C11_incompatible_fails.
Print Assumptions C11_idempotent.
Print Assumptions C11_commutes.
Print Assumptions C11_versions_never_decrease.

(* A whole category (object types / concepts / sources / event types) of an ontology, for ANY element update
   function: afterwards A holds every element of either ontology, updated from its counterpart when both define
   it, and nothing else; the update fails exactly when some pair of definitions cannot be updated. *)
Theorem C11_category_elementwise : forall {E} (upd : E -> E -> option E) b a r,
  NoDup (akeys b) -> cat_update upd a b = Some r -> forall k, merged_lookup upd a b k = Some (aget k r).
Proof. intros E upd. exact (cat_update_lookup upd). Qed.
Print Assumptions C11_category_elementwise.

Theorem C11_category_fails_on_incompatible : forall {E} (upd : E -> E -> option E) b a,
  NoDup (akeys b) -> cat_update upd a b = None -> exists k x y, aget k b = Some y /\ upd x y = None.
Proof. intros E upd. exact (cat_update_error upd). Qed.
Print Assumptions C11_category_fails_on_incompatible.

From Coq Require Import String.
Example C11_nonvacuous :
  let a : T0 := {| n_version := 1; n_attrs := [(s2l "description", VStr (s2l "old"))]; n_groups := [] |} in
  let b : T0 := {| n_version := 2; n_attrs := [(s2l "description", VStr (s2l "new"))]; n_groups := [] |} in
  upd0 ks_concept a b = Some b /\ upd0 ks_concept b a = Some b /\
  upd0 ks_concept a {| n_version := 1; n_attrs := [(s2l "description", VStr (s2l "new"))]; n_groups := [] |} = None.
Proof. vm_compute. repeat split; reflexivity. Qed.
