(* C11 — Ontology update yields the element-wise newest definitions and nothing else.
   Statements only (proofs in Onto/Update_proofs.v); value level: object identity / later mutation
   (independence of A and B) is decided by the harness on the implementation. *)
From EdxmlVerif Require Import Base.Prelude Onto.Tree Onto.Kinds Onto.Cmp_proofs Onto.Compat Onto.Compat_proofs Onto.Update Onto.Update_proofs Onto.Update_children.

Section LeafKinds.
Context {C : Type}.
Variable child_attr : C -> str -> aval.
Variable childcmp : str -> C -> C -> cmpres.
Variable childupd : str -> C -> C -> option C.
Variable rules : list (str * rule).
Notation ks := {| k_rules := rules; k_groups := [] |}.
Notation cmp := (cmp_node child_attr childcmp ks).
Notation upd := (upd_node child_attr childcmp childupd ks).

(* object types, concepts, sources (and every sub-element kind without children): *)
Theorem C11_newest : forall a b r, upd a b = Some r ->
  (cmp a b = Older /\ cmp r b = Eq /\ n_version r = n_version b /\ n_attrs r = n_attrs b) \/
  ((cmp a b = Eq \/ cmp a b = Newer) /\ r = a).
Proof. exact (upd_leaf_newest child_attr childcmp childupd rules). Qed.

Theorem C11_incompatible_fails : forall a b, upd a b = None <-> cmp a b = Incompat.
Proof. exact (upd_leaf_error child_attr childcmp childupd rules). Qed.

Theorem C11_idempotent : forall a b r, upd a b = Some r -> upd r b = Some r.
Proof. exact (upd_leaf_idempotent child_attr childcmp childupd rules). Qed.

Theorem C11_commutes : forall a b r1 r2, upd a b = Some r1 -> upd b a = Some r2 -> cmp r1 r2 = Eq.
Proof. exact (upd_leaf_commutes child_attr childcmp childupd rules). Qed.

Theorem C11_versions_never_decrease : forall a b r, upd a b = Some r -> (n_version a <= n_version r)%Z.
Proof. exact (upd_leaf_monotone child_attr childcmp childupd rules). Qed.
End LeafKinds.
Print Assumptions C11_newest.
Print Assumptions C11_incompatible_fails.
Print Assumptions C11_idempotent.
Print Assumptions C11_commutes.
Print Assumptions C11_versions_never_decrease.

(* A whole category (object types / concepts / sources / event types) of an ontology, for ANY element update
   function: afterwards A holds every element of either ontology, updated from its counterpart when both define
   it, and nothing else; the update fails exactly when some pair of definitions cannot be updated. *)
Theorem C11_category_elementwise : forall {E} (upd : E -> E -> option E) b a r,
  NoDup (akeys b) -> cat_update upd a b = Some r -> forall k, merged_lookup upd a b k = Some (aget k r).
Proof. intros E upd. exact (cat_update_lookup upd). Qed.
Print Assumptions C11_category_elementwise.

Theorem C11_category_fails_on_incompatible : forall {E} (upd : E -> E -> option E) b a,
  NoDup (akeys b) -> cat_update upd a b = None -> exists k x y, aget k b = Some y /\ upd x y = None.
Proof. intros E upd. exact (cat_update_error upd). Qed.
Print Assumptions C11_category_fails_on_incompatible.

(* ---- definitions WITH child elements ----
   The scheme: when the other definition is a valid upgrade, the result takes its version and attributes, keeps / updates / adopts
   the children, and compares EQUAL to the other definition; otherwise the definition is kept (equal / newer) or the update fails
   (incompatible) - given that the same holds for the children. *)
Theorem C11_children_update : forall {C} (child_attr : C -> str -> aval) childcmp childupd ks (a b : node C),
  NoDup (map g_name (k_groups ks)) -> kids_nodup ks a -> kids_nodup ks b ->
  child_update_ok childcmp childupd ks a b -> child_refl childcmp ks b ->
  match cmp_node child_attr childcmp ks a b with
  | Incompat => upd_node child_attr childcmp childupd ks a b = None
  | Eq | Newer => upd_node child_attr childcmp childupd ks a b = Some a
  | Older => exists r, upd_node child_attr childcmp childupd ks a b = Some r /\ n_version r = n_version b /\ n_attrs r = n_attrs b /\
                       cmp_node child_attr childcmp ks r b = Eq /\ kids_nodup ks r
  end.
Proof. intros C child_attr childcmp childupd ks. exact (upd_children_spec child_attr childcmp childupd ks). Qed.
Print Assumptions C11_children_update.

(* properties with their concept associations; event types with parent, properties, relations, attachments
   (premise: child names are unique per group, as in the SDK's dictionaries) *)
Theorem C11_property_update : forall a b : T1, prop_wf a -> prop_wf b ->
  match cmp_prop a b with
  | Incompat => upd1 ks_prop ks_assoc a b = None
  | Eq | Newer => upd1 ks_prop ks_assoc a b = Some a
  | Older => exists r, upd1 ks_prop ks_assoc a b = Some r /\ n_version r = n_version b /\ n_attrs r = n_attrs b /\ cmp_prop r b = Eq /\ prop_wf r
  end.
Proof. exact prop_update_spec. Qed.
Print Assumptions C11_property_update.

Theorem C11_event_type_update : forall a b : T2, etype_wf a -> etype_wf b ->
  match cmp_etype true a b with
  | Incompat => upd2 (ks_etype true) etype_children a b = None
  | Eq | Newer => upd2 (ks_etype true) etype_children a b = Some a
  | Older => exists r, upd2 (ks_etype true) etype_children a b = Some r /\ n_version r = n_version b /\ n_attrs r = n_attrs b /\
                       cmp_etype true r b = Eq
  end.
Proof. exact etype_update_spec. Qed.
Print Assumptions C11_event_type_update.

Theorem C11_event_type_update_idempotent : forall a b r : T2, etype_wf a -> etype_wf b ->
  upd2 (ks_etype true) etype_children a b = Some r -> upd2 (ks_etype true) etype_children r b = Some r.
Proof. exact etype_update_idempotent. Qed.
Print Assumptions C11_event_type_update_idempotent.

Theorem C11_event_type_versions_never_decrease : forall a b r : T2, etype_wf a -> etype_wf b ->
  upd2 (ks_etype true) etype_children a b = Some r -> (n_version a <= n_version r)%Z.
Proof. exact etype_update_monotone. Qed.
Print Assumptions C11_event_type_versions_never_decrease.

From Coq Require Import String.
Example C11_nonvacuous :
  let a : T0 := {| n_version := 1; n_attrs := [(s2l "description", VStr (s2l "old"))]; n_groups := [] |} in
  let b : T0 := {| n_version := 2; n_attrs := [(s2l "description", VStr (s2l "new"))]; n_groups := [] |} in
  upd0 ks_concept a b = Some b /\ upd0 ks_concept b a = Some b /\
  upd0 ks_concept a {| n_version := 1; n_attrs := [(s2l "description", VStr (s2l "new"))]; n_groups := [] |} = None.
Proof. vm_compute. repeat split; reflexivity. Qed.

Definition wu_prop (v : Z) (opt : bool) (dn : string) : T1 :=
  {| n_version := v; n_attrs := [(A "object-type", VStr (s2l "ot")); (A "merge", VStr (s2l "any")); (A "multivalued", VBool false);
                                 (OPTIONAL, VBool opt); (A "description", VStr (s2l dn)); (IS_DATETIME, VBool false)];
     n_groups := [(s2l "concepts", [])] |}.
Definition wu_et (v : Z) (ps : list (str * T1)) (dn : string) : T2 :=
  {| n_version := v; n_attrs := [(A "display-name-singular", VStr (s2l dn))];
     n_groups := [(s2l "parent", []); (s2l "properties", ps); (s2l "relations", []); (s2l "attachments", [])] |}.
Definition wu_a := wu_et 1 [(s2l "p", wu_prop 1 false "d")] "x".
Definition wu_b := wu_et 2 [(s2l "q", wu_prop 2 true "d"); (s2l "p", wu_prop 2 true "e")] "y".
Example C11_children_nonvacuous :
  etype_wf wu_a /\ etype_wf wu_b /\ cmp_etype true wu_a wu_b = Older /\
  exists r, upd2 (ks_etype true) etype_children wu_a wu_b = Some r /\ cmp_etype true r wu_b = Eq /\
            akeys (kids r (A "properties")) = [s2l "p"; s2l "q"].
Proof.
  assert (forall v ps dn, NoDup (akeys ps) -> (forall k p, In (k, p) ps -> prop_wf p) -> etype_wf (wu_et v ps dn)) as W.
  { intros v ps dn N P. split.
    - intros g Hg. cbn in Hg. destruct Hg as [<-|[<-|[<-|[<-|[]]]]]; cbn; try constructor. exact N.
    - intros k p Hin. cbn in Hin. apply (P k p Hin). }
  split.
  { apply W; [repeat constructor; cbn; intuition discriminate|]. intros k p [H|[]]. injection H as <- <-. cbn. constructor. }
  split.
  { apply W; [repeat constructor; cbn; intuition discriminate|]. intros k p [H|[H|[]]]; injection H as <- <-; cbn; constructor. }
  split; [vm_compute; reflexivity|]. eexists. split; [vm_compute; reflexivity|]. split; vm_compute; reflexivity.
Qed.
