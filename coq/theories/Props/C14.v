(* C14 — The parser delivers each event exactly once, in order, to the right handlers.
   Statements only; every proof is `exact <lemma>` from Parse/Dispatch_proofs.v. *)
From EdxmlVerif Require Import Base.Prelude Parse.Dispatch Parse.Dispatch_proofs.

(* For every regex semantics, every registration list, every document: the callback
   log of the (repaired) parser model is exactly the log the statement prescribes:
   per event, type handlers in registration order, then the handlers of every
   matching source pattern in registration order; events in document order; the
   parse stops at the first event whose type or source is undefined. *)
Theorem C14_dispatch : forall re_match fallback regs doc,
  let r := run re_match fallback Repaired regs doc in
  (log (fst r), snd r) = spec_log re_match fallback regs doc.
Proof. exact dispatch_correct. Qed.
Print Assumptions C14_dispatch.

(* Dispatch never changes the registry (hence the invocations for an event do not
   depend on how many events were parsed before it). *)
Theorem C14_registry_stable : forall re_match fallback regs doc,
  reg (fst (run re_match fallback Repaired regs doc)) = build regs.
Proof. intros. apply registry_stable. apply init_inv. Qed.
Print Assumptions C14_registry_stable.

(* Counters equal the number of delivered events, in total and per type. *)
Theorem C14_counters : forall re_match fallback regs doc,
  let r := run re_match fallback Repaired regs doc in
  let d := delivered false [] [] doc in
  total (fst r) = N.of_nat (length d) /\
  forall t, odefault 0%N (aget t (per_type (fst r))) = count_str t d.
Proof. exact counters_correct. Qed.
Print Assumptions C14_counters.

(* Every event callback is preceded by an ontology callback, the most recent of
   which defines the event's type and source. *)
Theorem C14_ontology_first : forall re_match fallback regs doc,
  onto_first None (fst (spec_log re_match fallback regs doc)) = true.
Proof. intros. exact (spec_onto_first re_match fallback regs doc false [] [] 0%N). Qed.
Print Assumptions C14_ontology_first.

(* The behaviour of the pinned tree before the two `fix:` commits (handler list
   extended in place; per-type counters zeroed by every ontology element) does NOT
   satisfy the statement: *)
Theorem C14_dispatch_faithful_refuted :
  exists re_match fallback regs doc,
    let r := run re_match fallback Faithful regs doc in
    (log (fst r), snd r) <> spec_log re_match fallback regs doc.
Proof. exists (fun _ _ : str => true), false, w_regs, w_doc. exact dispatch_faithful_refuted. Qed.
Print Assumptions C14_dispatch_faithful_refuted.

Theorem C14_counters_faithful_refuted :
  exists re_match fallback regs doc t,
    let r := run re_match fallback Faithful regs doc in
    odefault 0%N (aget t (per_type (fst r))) <> count_str t (delivered false [] [] doc).
Proof. exists (fun _ _ : str => true), false, w_regs, w_doc2, w_ta. exact counters_faithful_refuted. Qed.
Print Assumptions C14_counters_faithful_refuted.

(* Non-vacuity: a document on which three handlers fire for one event. *)
Example C14_nonvacuous :
  fst (spec_log (fun _ _ : str => true) false
         [RegType [w_ta] 1%N; RegSource [w_s] 2%N; RegType [w_ta] 3%N] [Ont [w_ta] [w_s]; Ev w_ta w_s])
  = [CbOnt [w_ta] [w_s]; CbEv 1%N 0%N w_ta w_s; CbEv 3%N 0%N w_ta w_s; CbEv 2%N 0%N w_ta w_s].
Proof. vm_compute. reflexivity. Qed.
