(* C13 — Object value normalization is idempotent, sound and value-preserving.
   Statements only; proofs are in Valid/Normalize_proofs.v, the model in Valid/Normalize.v.
   udigit / uspace / src_* come from Generated/C13_gen.v, regenerated from the interpreter and the source on every run. *)
From Coq Require Import String Lia.
From EdxmlVerif Require Import Base.Prelude Valid.Gate Valid.Normalize Valid.Normalize_proofs Valid.Decimal_idem Valid.Gate_int Valid.Int_link Generated.C13_gen.
Local Open Scope Z_scope.

(* T1: what the current source says, against what the model implements *)
Theorem C13_source_facts :
  src_pad = s2l "b'=' * (-len(value) % 4)" /\
  src_bool = s2l "(True, 'true', 'True', 1) | (False, 'false', 'False', 0)" /\
  src_number = s2l "'%E' % float(value) | '%d' % int(value) | self._format_decimal(value, '4') | self._format_decimal(value, decimal_precision)" /\
  src_decimal = s2l "format(Decimal(value), '.' + precision + 'f')" /\
  src_datetime = s2l "'%04d-%02d-%02dT%02d:%02d:%02d.%06dZ'" /\
  src_geo = s2l "'%.6f,%.6f'".
Proof. repeat split; vm_compute; reflexivity. Qed.
Print Assumptions C13_source_facts.

(* T1: the interpreter's digit and whitespace tables satisfy what the theorems need *)
Theorem C13_interpreter_tables :
  (forall d, (d < 10)%N -> udigit (48 + d) = Some d) /\ (forall c, is_digit c = true -> uspace c = false) /\ uspace 45 = false.
Proof.
  split; [|split; [|reflexivity]].
  - intros d H. assert (C : (d = 0 \/ d = 1 \/ d = 2 \/ d = 3 \/ d = 4 \/ d = 5 \/ d = 6 \/ d = 7 \/ d = 8 \/ d = 9)%N) by lia.
    repeat (destruct C as [->|C]; [vm_compute; reflexivity|]). subst. vm_compute. reflexivity.
  - intros c H. unfold is_digit in H.
    assert (C : (c = 48 \/ c = 49 \/ c = 50 \/ c = 51 \/ c = 52 \/ c = 53 \/ c = 54 \/ c = 55 \/ c = 56 \/ c = 57)%N) by lia.
    repeat (destruct C as [->|C]; [vm_compute; reflexivity|]). subst. vm_compute. reflexivity.
Qed.
Print Assumptions C13_interpreter_tables.

Definition tab1 := proj1 C13_interpreter_tables.
Definition tab2 := proj1 (proj2 C13_interpreter_tables).
Definition tab3 := proj2 (proj2 C13_interpreter_tables).

(* integer types: the output is the canonical rendering of the integer the input denotes, and the gate's reader gets that integer back *)
Theorem C13_integer_sound_and_value_preserving : forall v out, norm_int udigit uspace v = Ok out ->
  exists z, int_of_val udigit uspace v = Some z /\ out = render_Z z /\ parse_int out = Some z.
Proof. exact (norm_int_value udigit uspace). Qed.
Print Assumptions C13_integer_sound_and_value_preserving.

Theorem C13_integer_idempotent : forall v out, norm_int udigit uspace v = Ok out -> norm_int udigit uspace (PStr out) = Ok out.
Proof. exact (norm_int_idempotent udigit uspace tab1 tab2 tab3). Qed.
Print Assumptions C13_integer_idempotent.

Example C13_integer_example : norm_int udigit uspace (PStr (s2l " +0_12 ")) = Ok (s2l "12") /\ norm_int udigit uspace (PStr (s2l "1__2")) = Reject.
Proof. split; vm_compute; reflexivity. Qed.

(* booleans: only the eight spellings of true / false (and numbers equal to them) are accepted; the rest is rejected *)
Theorem C13_boolean_sound : forall v s, norm_bool repaired v = Ok s -> (s = s_true /\ is_one v = true) \/ (s = s_false /\ is_zero v = true).
Proof. exact norm_bool_sound. Qed.
Print Assumptions C13_boolean_sound.
Theorem C13_boolean_rejects_garbage : forall v, is_one v = false -> is_zero v = false -> norm_bool repaired v = Reject.
Proof. exact norm_bool_rejects_garbage. Qed.
Print Assumptions C13_boolean_rejects_garbage.
Theorem C13_boolean_idempotent : forall v s, norm_bool repaired v = Ok s -> norm_bool repaired (PStr s) = Ok s.
Proof. exact norm_bool_idempotent. Qed.
Print Assumptions C13_boolean_idempotent.
Theorem C13_boolean_pinned_refuted : exists v, is_one v = false /\ is_zero v = false /\ norm_bool pinned v = Ok s_false.
Proof. exact norm_bool_pinned_refuted. Qed.
Print Assumptions C13_boolean_pinned_refuted.

(* base64: the padding completes the length to a multiple of four, nothing else changes, a second pass changes nothing *)
Theorem C13_base64_padding : forall len,
  Nat.modulo (len + b64_padding true len) 4 = 0%nat /\ (b64_padding true len < 4)%nat /\ (Nat.modulo len 4 = 0%nat -> b64_padding true len = 0%nat).
Proof. exact b64_padding_fixed. Qed.
Print Assumptions C13_base64_padding.
Theorem C13_base64_only_pads : forall s out, norm_base64 true s = Ok out ->
  exists k, (k < 4)%nat /\ out = s ++ repeat 61%N k /\ Nat.modulo (length out) 4 = 0%nat /\ b64_scan out 0 0 = true.
Proof. exact norm_base64_only_pads. Qed.
Print Assumptions C13_base64_only_pads.
Theorem C13_base64_idempotent : forall s out, norm_base64 true s = Ok out -> norm_base64 true out = Ok out.
Proof. exact norm_base64_idempotent. Qed.
Print Assumptions C13_base64_idempotent.
Theorem C13_base64_pinned_refuted : exists len, Nat.modulo (len + b64_padding false len) 4 <> 0%nat.
Proof. exact b64_padding_pinned_refuted. Qed.
Print Assumptions C13_base64_pinned_refuted.

(* strings and hex: case folding (ASCII) is idempotent and keeps the length within the limit *)
Theorem C13_string_idempotent : forall n c v out,
  norm_string n c v = Ok out -> norm_string n c (PStr out) = Ok out /\ (n <> O -> (length out <= n)%nat).
Proof. exact norm_string_idempotent. Qed.
Print Assumptions C13_string_idempotent.
Theorem C13_hex_idempotent : forall v out, norm_hex v = Ok out -> norm_hex (PStr out) = Ok out.
Proof. exact norm_hex_idempotent. Qed.
Print Assumptions C13_hex_idempotent.

(* decimals: exact for every coefficient size when the type keeps enough fractional digits; otherwise the nearest value; zero unsigned *)
Theorem C13_decimal_exact : forall coef exp p, 0 <= exp + Z.of_nat p -> dec_scaled coef exp p = coef * 10 ^ (exp + Z.of_nat p).
Proof. exact dec_scaled_exact. Qed.
Print Assumptions C13_decimal_exact.
Theorem C13_decimal_nearest : forall coef exp p, 0 <= coef -> exp + Z.of_nat p < 0 ->
  2 * Z.abs (coef - dec_scaled coef exp p * 10 ^ (- (exp + Z.of_nat p))) <= 10 ^ (- (exp + Z.of_nat p)).
Proof. exact dec_scaled_nearest. Qed.
Print Assumptions C13_decimal_nearest.
Theorem C13_decimal_zero_unsigned : forall neg coef exp p, dec_scaled coef exp p = 0 -> fmt_decimal true neg coef exp p = fmt_fixed false 0 p.
Proof. exact fmt_decimal_zero_unsigned. Qed.
Print Assumptions C13_decimal_zero_unsigned.
Example C13_decimal_example :
  norm_decimal udigit uspace repaired 2 (PDec false 12345678901234567890123456789012345612 (-2)) = Ok (s2l "123456789012345678901234567890123456.12") /\
  norm_decimal udigit uspace repaired 2 (PStr (s2l "-0.001")) = Ok (s2l "0.00") /\
  norm_decimal udigit uspace repaired 2 (PDec false 1005 (-3)) = Ok (s2l "1.00").
Proof. repeat split; vm_compute; reflexivity. Qed.

(* Decimal(text) reads the normaliser's own fixed point output back exactly, for every value and every number of fractional digits,
   hence normalising a normalised decimal changes nothing (facts about the interpreter tables: "." is neither a digit nor white space) *)
Lemma C13_dot_facts : udigit 46 = None /\ uspace 46 = false.
Proof. split; vm_compute; reflexivity. Qed.
Print Assumptions C13_dot_facts.

Theorem C13_decimal_reads_its_output : forall neg m p, 0 <= m -> (1 <= p)%nat ->
  dec_text udigit uspace (fmt_fixed neg m p) = Some (NFin neg m (- Z.of_nat p)).
Proof. exact (dec_text_fixed udigit uspace tab1 (proj1 C13_dot_facts) tab2 tab3 (proj2 C13_dot_facts)). Qed.
Print Assumptions C13_decimal_reads_its_output.

Theorem C13_decimal_idempotent : forall v neg c e p s, (1 <= p <= 5000)%nat -> 0 <= c ->
  dec_of_val udigit uspace v = Some (Some (DFin neg c e)) ->
  norm_decimal udigit uspace repaired p v = Ok s ->
  norm_decimal udigit uspace repaired p (PStr s) = Ok s.
Proof. exact (norm_decimal_idempotent udigit uspace tab1 (proj1 C13_dot_facts) tab2 tab3 (proj2 C13_dot_facts)). Qed.
Print Assumptions C13_decimal_idempotent.

Example C13_decimal_idempotent_example :
  norm_decimal udigit uspace repaired 2 (PStr (s2l " -1_0.005e1 ")) = Ok (s2l "-100.05") /\
  norm_decimal udigit uspace repaired 2 (PStr (s2l "-100.05")) = Ok (s2l "-100.05") /\
  dec_of_val udigit uspace (PStr (s2l " -1_0.005e1 ")) = Some (Some (DFin true 10005 (-2))).
Proof. repeat split; vm_compute; reflexivity. Qed.


(* rounding used by every float / decimal formatting *)
Theorem C13_rounding_nearest : forall n d, 0 <= n -> 0 < d -> 2 * Z.abs (n - round_he n d * d) <= d.
Proof. exact round_he_bound. Qed.
Print Assumptions C13_rounding_nearest.

(* datetimes: the calendar conversion is the inverse of the ordinal on all of 0001-01-01 .. 9999-12-31 (exhaustive, by computation),
   and an aware datetime is printed as the UTC reading of the same instant *)
Theorem C13_calendar_inverse : forall n, 1 <= n <= 3652059 ->
  let '(y, m, d) := civil_of_ordinal n in valid_date y m d = true /\ ordinal y m d = n.
Proof. exact civil_of_ordinal_correct. Qed.
Print Assumptions C13_calendar_inverse.
Theorem C13_datetime_same_instant : forall y mo d h mi s us o out,
  norm_datetime true y mo d h mi s us (Some o) = Ok out ->
  exists y' mo' d' h' mi' s' us',
    out = fmt_datetime y' mo' d' h' mi' s' us' /\ valid_date y' mo' d' = true /\ valid_time h' mi' s' us' = true /\
    wall_us y' mo' d' h' mi' s' us' = wall_us y mo d h mi s us - o * 1000000.
Proof. exact norm_datetime_instant. Qed.
Print Assumptions C13_datetime_same_instant.
Theorem C13_datetime_pinned_refuted : exists y mo d h mi s us o,
  o <> 0 /\ norm_datetime false y mo d h mi s us (Some o) = Ok (fmt_datetime y mo d h mi s us).
Proof. exact norm_datetime_pinned_refuted. Qed.
Print Assumptions C13_datetime_pinned_refuted.
Example C13_datetime_example :
  norm_datetime true 2020 1 1 0 30 0 0 (Some 3600) = Ok (s2l "2019-12-31T23:30:00.000000Z") /\
  norm_datetime true 1 1 1 0 0 0 0 (Some 7200) = Reject.
Proof. split; vm_compute; reflexivity. Qed.

(* C13 meets C03: the rendering of an integer is the canonical numeral (no sign for zero, no leading zeros), therefore the validation
   gate for an integer data type accepts a normalised integer exactly when it lies in the range and facets of the type - for EVERY integer
   (premises about the Unicode table as in C03: ASCII digits are Nd, Nd characters are no white space) *)
Theorem C13_integer_rendering_is_canonical : forall z, canon_int (render_Z z) = true.
Proof. exact render_Z_canon. Qed.
Print Assumptions C13_integer_rendering_is_canonical.

Theorem C13_normalised_integer_accepted_iff_in_range : forall uprop,
  (forall c, is_digit c = true -> uprop ND c = true) -> (forall c, uprop ND c = true -> is_ws c = false) ->
  forall t mn mx z, (exists lo hi, int_range t = Some (lo, hi)) ->
  gate_data uprop (sint_spec t mn mx) (render_Z z) = facet_range t mn mx z.
Proof. exact normalised_integer_gate. Qed.
Print Assumptions C13_normalised_integer_accepted_iff_in_range.
