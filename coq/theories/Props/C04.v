(* C04 — Merging follows each merge strategy and preserves event identity and validity.
   Statements only.  `evs` is the group in version order (merge sorts it first when the
   event type has a version property); `rank` is any ordering of the data type's values. *)
From EdxmlVerif Require Import Base.Prelude Base.Bytes Event.Merge Event.Hash Event.Hash_proofs Event.Merge_proofs.

Section C04.
Variable rank : str -> str -> Z.
Variable et : etype.
Notation select := (select rank FirstSet et).
Notation merge_core := (merge_core rank FirstSet et).

(* match: unchanged *)
Theorem C04_match : forall evs e0 p,
  Forall wf evs -> In e0 evs -> strat_of et p = SMatch ->
  (forall e, In e evs -> seteq (get e p) (get e0 p)) ->
  seteq (get (merge_core evs) p) (get e0 p).
Proof. exact (merged_match_unchanged rank et). Qed.

(* add: union *)
Theorem C04_add : forall evs p x, strat_of et p = SAdd ->
  (In x (select evs p) <-> exists e, In e evs /\ In x (get e p)).
Proof. exact (select_add rank et). Qed.

(* min / max: the extreme under the data type's ordering *)
Theorem C04_min : forall evs p, strat_of et p = SMin -> allvals evs p <> [] ->
  exists r, select evs p = [r] /\ In r (allvals evs p) /\ forall v, In v (allvals evs p) -> (rank p r <= rank p v)%Z.
Proof. exact (select_min rank et). Qed.
Theorem C04_max : forall evs p, strat_of et p = SMax -> allvals evs p <> [] ->
  exists r, select evs p = [r] /\ In r (allvals evs p) /\ forall v, In v (allvals evs p) -> (rank p v <= rank p r)%Z.
Proof. exact (select_max rank et). Qed.

(* replace: the objects of an instance with the highest version *)
Theorem C04_replace : forall vp evs p,
  et_version et = Some vp -> evs <> [] -> strat_of et p = SReplace ->
  exists top, In top evs /\ (forall e, In e evs -> vle rank vp e top) /\
              select (vsort rank vp evs) p = get top p.
Proof. exact (merged_replace rank et). Qed.

(* set: the first non-empty object set in version order *)
Theorem C04_set : forall evs p, strat_of et p = SSet ->
  (select evs p = [] /\ forall e, In e evs -> get e p = []) \/
  (exists pre e post, evs = pre ++ e :: post /\ select evs p = get e p /\ get e p <> [] /\
                      forall e', In e' pre -> get e' p = []).
Proof. exact (select_set rank et). Qed.

(* any: the object set of one of the instances *)
Theorem C04_any : forall evs p, strat_of et p = SAny ->
  (select evs p = [] /\ forall e, In e evs -> get e p = []) \/
  (exists e, In e evs /\ select evs p = get e p /\ get e p <> []).
Proof. exact (select_any rank et). Qed.

(* parents: union of all parents *)
Theorem C04_parents : forall evs h,
  In h (me_parents (merge_core evs)) <-> exists e, In e evs /\ In h (me_parents e).
Proof. exact (merge_parents rank et). Qed.

(* same sticky hash: the hash input (C01's pre-image) of the merged event equals that of any instance *)
Theorem C04_hash_preserved : forall src typ hashed evs e0,
  Forall wf evs -> In e0 evs ->
  (forall p, mem p hashed = true -> strat_of et p = SMatch) ->
  (forall p e, mem p hashed = true -> In e evs -> seteq (get e p) (get e0 p)) ->
  preimage SEP OBJFMT LAYOUT hashed (hev src typ (merge_core evs)) =
  preimage SEP OBJFMT LAYOUT hashed (hev src typ e0).
Proof. exact (hash_preserved rank et). Qed.

(* validity is inherited: objects come from the instances, mandatory properties stay present,
   single-valued properties stay single-valued (for add: when the instances agree) *)
Theorem C04_objects_from_instances : forall evs p x,
  In x (select evs p) -> exists e, In e evs /\ In x (get e p).
Proof. exact (select_closed rank et). Qed.
Theorem C04_mandatory_kept : forall evs p,
  evs <> [] -> (forall e, In e evs -> get e p <> []) -> select evs p <> [].
Proof. exact (select_nonempty rank et). Qed.
Theorem C04_single_valued_kept : forall evs p,
  (forall e, In e evs -> length (get e p) <= 1) ->
  (strat_of et p = SAdd -> forall x y, In x (allvals evs p) -> In y (allvals evs p) -> x = y) ->
  length (select evs p) <= 1.
Proof. exact (select_single rank et). Qed.

(* a merge conflict is reported iff two instances share a version and differ in a declared property *)
Theorem C04_conflict_iff : forall v evs,
  merge rank v et evs = None <->
  exists vp, et_version et = Some vp /\
    exists a b, In a evs /\ In b evs /\ version_str vp a = version_str vp b /\ differ et a b = true.
Proof. exact (conflict_iff rank et). Qed.
End C04.

Print Assumptions C04_match.
Print Assumptions C04_add.
Print Assumptions C04_min.
Print Assumptions C04_max.
Print Assumptions C04_replace.
Print Assumptions C04_set.
Print Assumptions C04_any.
Print Assumptions C04_parents.
Print Assumptions C04_hash_preserved.
Print Assumptions C04_objects_from_instances.
Print Assumptions C04_mandatory_kept.
Print Assumptions C04_single_valued_kept.
Print Assumptions C04_conflict_iff.

(* The pre-fix behaviour (strategies match/any keep ONE object) violates "match: unchanged": *)
Theorem C04_first_value_refuted :
  exists rank et evs e0 p, In e0 evs /\ strat_of et p = SMatch /\
    (forall e, In e evs -> seteq (get e p) (get e0 p)) /\
    ~ seteq (get (Merge.merge_core rank FirstValue et evs) p) (get e0 p).
Proof.
  exists (fun _ _ => 0%Z), w_et, [w_ev; w_ev], w_ev, [112]%N.
  split; [left; reflexivity|]. split; [reflexivity|]. split; [|exact first_value_refuted].
  intros e [<-|[<-|[]]] x; tauto.
Qed.
Print Assumptions C04_first_value_refuted.

Example C04_nonvacuous :
  get (Merge.merge_core (fun _ v => match v with [c] => Z.of_N c | _ => 0%Z end) FirstSet
         {| et_strat := [([109]%N, SMin); ([97]%N, SAdd)]; et_version := None |}
         [{| me_props := [([109]%N, [[53]%N]); ([97]%N, [[120]%N])]; me_parents := []; me_tag := 1 |};
          {| me_props := [([109]%N, [[51]%N]); ([97]%N, [[121]%N])]; me_parents := []; me_tag := 2 |}]) [109]%N
  = [[51]%N].
Proof. vm_compute. reflexivity. Qed.
