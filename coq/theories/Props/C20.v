(* C20 — Concept mining terminates with well-formed, covering results (numerical core and seed loop).
   Statements only; the model is Miner/Reason.v, the proofs Miner/Reason_proofs.v.  Confidences are rationals in the model. *)
From Coq Require Import QArith List.
From Coq Require Import String.
From EdxmlVerif Require Import Base.Prelude Miner.Reason Miner.Reason_proofs Generated.C20_gen.
Import ListNotations.
Local Open Scope Q_scope.

(* T1: the formulas and the cut-off handling in the current source are the ones the model implements *)
Theorem C20_source_formulas :
  src_dijkstra = s2l "self.source.seed_confidences[seed.id] * self.confidence * (1.0 - self.target.taint) * self.target.confidence" /\
  src_taint = s2l "max(node.taint, new_taint) | 0.0 | list(confidences)[0] | 1.0 - reduce(lambda x, y: (1.0 - x) * (1.0 - y), confidences)" /\
  src_seed_order = s2l "lambda node: (1.0 - node.taint, node.concept_association.get_confidence())" /\
  src_net_confidence = s2l "1.0 - reduce(mul, [1.0 - node.seed_confidences.get(seed_id, 0) for node in self.values()])" /\
  src_extract_cutoff = s2l "self._graph.mine(seed, min_confidence, max_depth) | self._graph.extract_result_set(min_confidence)".
Proof. repeat split; vm_compute; reflexivity. Qed.
Print Assumptions C20_source_formulas.

(* every noisy-or combination (attribute confidence, time line, concept names, related concepts, scope check) of confidences in [0,1] is in [0,1] *)
Theorem C20_noisy_or_in_range : forall l, Forall unit l -> unit (noisy_or l).
Proof. exact noisy_or_unit. Qed.
Print Assumptions C20_noisy_or_in_range.

(* the node taint formula, exactly as it is written, stays in [0,1] *)
Theorem C20_taint_in_range : forall l, Forall unit l -> unit (taint_of l).
Proof. exact taint_of_unit. Qed.
Print Assumptions C20_taint_in_range.

(* a reasoning step yields a confidence in [0,1] that does not exceed the confidence it started from *)
Theorem C20_reasoning_step_in_range : forall s e t c, unit s -> unit e -> unit t -> unit c ->
  unit (dijkstra_confidence s e t c) /\ dijkstra_confidence s e t c <= s.
Proof. intros. split; [apply dijkstra_confidence_unit | apply dijkstra_confidence_decreases]; assumption. Qed.
Print Assumptions C20_reasoning_step_in_range.

Theorem C20_related_concept_in_range : forall s e c, unit s -> unit e -> unit c -> unit (related_confidence s e c).
Proof. exact related_confidence_unit. Qed.
Print Assumptions C20_related_concept_in_range.

(* mining without a seed terminates whatever the reasoning from each seed assigns: one round per untainted node suffices;
   afterwards no node is untainted *)
Theorem C20_auto_mine_terminates : forall reason fuel nodes seeds, (count_untainted nodes <= fuel)%nat ->
  let '(final, order, ok) := auto_mine reason fuel nodes seeds in
  ok = true /\ forallb (fun n => negb (untainted n)) final = true.
Proof. exact auto_mine_terminates. Qed.
Print Assumptions C20_auto_mine_terminates.

(* ... and, starting from a fresh graph, every node then belongs to at least one instance (holds a confidence for some seed) *)
Theorem C20_auto_mine_covers : forall reason nodes, Forall (fun n => untainted n = true) nodes ->
  let '(final, order, ok) := auto_mine reason (length nodes) nodes [] in
  forall k, (k < length final)%nat -> covered (nth k final dflt) = true.
Proof.
  intros reason nodes F. apply auto_mine_covers; [apply fresh_tainted_covered; exact F|].
  apply count_untainted_le.
Qed.
Print Assumptions C20_auto_mine_covers.

Example C20_example :
  let fresh a := {| n_assoc := a; n_taint := 0; n_confs := [] |} in
  let reason := fun (s : nat) (_ : list mnode) => if Nat.eqb s 1 then [(0%nat, 6 # 10)] else [] in
  match auto_mine reason 3 [fresh (5 # 10); fresh (9 # 10); fresh (9 # 10)] [] with
  | (final, order, ok) => ok = true /\ order = [1%nat; 2%nat] /\ map covered final = [true; true; true]
  end.
Proof. vm_compute. repeat split. Qed.
