(* C12 — Ontology change tracking never misses a change.  Statements only. *)
From EdxmlVerif Require Import Base.Prelude Onto.Track Onto.Track_proofs Generated.C12_gen.
From Coq Require Import String.

(* For every ownership structure and every execution of mutators (sequence of writes and callbacks): if every write
   is followed by a callback that reaches the same ontology, then whenever an element owned by ontology r was written
   r's counter strictly increased, so is_modified_since(v) holds for every v observed before. *)
Theorem C12_sound : forall root evs c r,
  well_notified root evs = true -> written root r evs = true -> c r < trun root c evs r.
Proof. exact tracking_sound. Qed.
Print Assumptions C12_sound.

Theorem C12_is_modified_since : forall root evs c r v,
  well_notified root evs = true -> written root r evs = true -> v <= c r -> v < trun root c evs r.
Proof. exact modified_since. Qed.
Print Assumptions C12_is_modified_since.

(* The premise, for the code as it is NOW: in the mutator table read from the source on this run every method that
   writes serialised content directly also invokes the change callback, and none assigns the counter -
   except the listed known finding (Ontology.clear resets the counter, pinned by tests/ontology/test_ontology.py). *)
Theorem C12_all_mutators_notify :
  gen_mutators_ok = true /\ table_ok [(s2l "Ontology", s2l "clear")] gen_mutators = true.
Proof. vm_compute. split; reflexivity. Qed.
Print Assumptions C12_all_mutators_notify.

(* the listed exception is a real gap of the premise, and without the premise the conclusion fails *)
Theorem C12_clear_is_not_notified : table_ok [] gen_mutators = false.
Proof. vm_compute. reflexivity. Qed.
Print Assumptions C12_clear_is_not_notified.

Theorem C12_missing_callback_refuted : forall root, exists evs c r,
  written root r evs = true /\ trun root c evs r = c r.
Proof. exact missing_callback_unsound. Qed.
Print Assumptions C12_missing_callback_refuted.
