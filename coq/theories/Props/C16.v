(* C16 — A validated template always evaluates; evaluating never changes the event.
   Statements only; the executable model of edxml/template.py is Templ/Template.v, the proofs Templ/Template_proofs.v. *)
From Coq Require Import String.
From EdxmlVerif Require Import Base.Prelude Templ.Template Templ.Template_proofs.

(* for every template, every event type, every event whose values are valid for the data types the formatters care about
   (floats render, datetimes parse, booleans are true/false, coordinates render): if the template validates, evaluating it
   does not raise, and the caller's property mapping is what it was *)
Theorem C16_validated_template_evaluates : forall t render_float dt_iso dt_duration dt_format geo_render tpl vals atts,
  validate true t tpl = true ->
  (forall p vs x, In (p, vs) vals -> is_float_type (odefault [] (aget p (t_props t))) = true -> In x vs -> render_float x <> None) ->
  vals_ok t dt_iso dt_duration dt_format geo_render vals ->
  fst (evaluate t render_float dt_iso dt_duration dt_format geo_render true tpl vals atts) <> RErr /\
  snd (evaluate t render_float dt_iso dt_duration dt_format geo_render true tpl vals atts) = vals.
Proof. intros. apply validated_template_evaluates with (bc := true); assumption. Qed.
Print Assumptions C16_validated_template_evaluates.

(* placeholder by placeholder: whatever passed the checks of validate cannot raise *)
Theorem C16_checked_placeholder_is_safe : forall t dt_iso dt_duration dt_format geo_render bc v atts c,
  vals_ok t dt_iso dt_duration dt_format geo_render v -> check_ph bc t c = true ->
  eval_ph t dt_iso dt_duration dt_format geo_render v atts c <> PRaise.
Proof. exact eval_ph_safe. Qed.
Print Assumptions C16_checked_placeholder_is_safe.

(* the pinned evaluation handed the re-rendered float objects back through the caller's mapping *)
Theorem C16_pinned_evaluation_changes_event_refuted : exists t rf vals,
  snd (evaluate t rf (fun _ => None) (fun _ _ => None) (fun _ _ => None) (fun _ => None) false (L "[[f]]") vals []) <> vals.
Proof. exact pinned_evaluation_changes_event. Qed.
Print Assumptions C16_pinned_evaluation_changes_event_refuted.

(* the pinned validation accepted curly brackets inside a placeholder (the scope splitter then cuts the placeholder in two) *)
Theorem C16_pinned_brace_placeholder_refuted : exists t tpl, validate false t tpl = true /\ validate true t tpl = false.
Proof. exact pinned_brace_placeholder_refuted. Qed.
Print Assumptions C16_pinned_brace_placeholder_refuted.

(* non-vacuity: a template with nested scopes validates and evaluates; an optional scope is omitted *)
Definition ex_t : tinfo := {| t_props := [(L "s", L "string:0:mc"); (L "m", L "string:0:mc"); (L "b", L "boolean")]; t_atts := [L "doc"] |}.
Example C16_example :
  validate true ex_t (L "[[s]]{ has [[merge:m,s]]{ and is [[boolean_on_off:b]]}}") = true /\
  fst (evaluate ex_t (fun _ => None) (fun _ => None) (fun _ _ => None) (fun _ _ => None) (fun _ => None) true
         (L "[[s]]{ has [[merge:m,s]]{ and is [[boolean_on_off:b]]}}") [(L "s", [L "x"]); (L "m", [L "a"; L "b"])] []) = ROk (L "x has a, b and x") /\
  validate true ex_t (L "[[boolean_on_off:s]]") = false.
Proof. repeat split; vm_compute; reflexivity. Qed.
