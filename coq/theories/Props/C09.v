(* C09 — Version comparison of ontology definitions is a consistent order.
   Statements only (proofs in Onto/Cmp_proofs.v).  `cmp_node` is the comparison scheme shared by all
   __cmp__ implementations; Onto/Kinds.v instantiates it with the rule table of each element kind, whose
   cosmetic attribute lists are read from the source on every run (Generated/C09_gen.v). *)
From EdxmlVerif Require Import Base.Prelude Onto.Tree Onto.Kinds Onto.Cmp_proofs Onto.Compat Onto.Compat_proofs Onto.Cmp_trans Generated.C09_gen.
From Coq Require Import String.

(* ---- element kinds without child elements: object types, concepts, sources, concept associations,
        relations, attachments, parent definitions ---- *)
Theorem C09_leaf_laws : forall {C} child_attr childcmp (rules : list (str * rule)) (a b c : node C),
  let cmp := cmp_node child_attr childcmp {| k_rules := rules; k_groups := [] |} in
  cmp a a = Eq /\
  cmp a b = flip (cmp b a) /\
  (cmp a b = Older -> cmp b c = Older -> cmp a c = Older) /\
  (cmp a b = Eq -> n_version a = n_version b /\ forall x r, In (x, r) rules -> attr a x = attr b x).
Proof.
  intros C child_attr childcmp rules a b c cmp. split; [apply leaf_refl|]. split; [apply leaf_antisym|].
  split; [apply leaf_trans | apply leaf_eq_attrs].
Qed.
Print Assumptions C09_leaf_laws.

Theorem C09_leaf_kinds :
  k_groups ks_objtype = [] /\ k_groups ks_concept = [] /\ k_groups ks_source = [] /\ k_groups ks_assoc = [] /\
  k_groups ks_rel = [] /\ k_groups ks_parent = [] /\ k_groups ks_att = [].
Proof. repeat split; reflexivity. Qed.
Print Assumptions C09_leaf_kinds.

(* ---- kinds with child elements (properties with concept associations; event types with parent,
        properties, relations, attachments) ---- *)
Section WithChildren.
Context {C : Type}.
Variable child_attr : C -> str -> aval.
Variable childcmp : str -> C -> C -> cmpres.
Variable ks : kspec.
Notation cmp := (cmp_node child_attr childcmp ks).

Theorem C09_reflexive : forall a,
  wf_groups (k_groups ks) a ->
  (forall g k x, In g (k_groups ks) -> In (k, x) (kids a (g_name g)) -> childcmp (g_name g) x x = Eq) ->
  cmp a a = Eq.
Proof. exact (cmp_refl childcmp child_attr ks). Qed.

Theorem C09_antisymmetric : forall a b,
  all_add_unequal (k_groups ks) -> wf_groups (k_groups ks) a -> wf_groups (k_groups ks) b ->
  child_sym childcmp (k_groups ks) a b -> child_sym childcmp (k_groups ks) b a ->
  cmp a b = flip (cmp b a).
Proof. exact (cmp_antisym childcmp child_attr ks). Qed.

Theorem C09_equal_means_same_parts : forall a b, cmp a b = Eq ->
  n_version a = n_version b /\
  (forall x r, In (x, r) (k_rules ks) -> attr a x = attr b x) /\
  (forall g, In g (k_groups ks) -> g_add_unequal g = true ->
     (forall k c, In (k, c) (kids a (g_name g)) -> mem k (akeys (kids b (g_name g))) = true) /\
     (forall k c, In (k, c) (kids b (g_name g)) -> mem k (akeys (kids a (g_name g))) = true) /\
     (forall k x y, In (k, x) (kids a (g_name g)) -> aget k (kids b (g_name g)) = Some y -> childcmp (g_name g) y x = Eq)).
Proof. exact (cmp_eq_parts childcmp child_attr ks). Qed.
End WithChildren.
Print Assumptions C09_reflexive.
Print Assumptions C09_antisymmetric.
Print Assumptions C09_equal_means_same_parts.

(* every group of the (repaired) property and event type tables makes definitions unequal when a child is added *)
Theorem C09_all_groups_add_unequal :
  all_add_unequal (k_groups ks_prop) /\ all_add_unequal (k_groups (ks_etype true)).
Proof. split; intros g Hg; cbn in Hg; repeat (destruct Hg as [<-|Hg]; [reflexivity|]); contradiction. Qed.
Print Assumptions C09_all_groups_add_unequal.

(* The comparison covers everything that is serialised: every key of the attribute dictionary of a class
   (read from __init__ on this run) is compared (or identifies the element). *)
Definition covered (ks : kspec) (ident : list string) (attrs : list str) : bool :=
  forallb (fun a => mem a (map fst (k_rules ks) ++ map s2l ident)) attrs.
Theorem C09_comparison_covers_serialised_attributes :
  covered ks_objtype ["name"; "version"]%string gen_attrs_objtype = true /\
  covered ks_concept ["name"; "version"]%string gen_attrs_concept = true /\
  covered ks_source ["uri"; "version"]%string gen_attrs_source = true /\
  covered (ks_etype true) ["name"; "version"]%string gen_attrs_etype = true /\
  covered ks_prop ["name"]%string gen_attrs_prop = true /\
  covered ks_assoc ["name"]%string gen_attrs_assoc = true /\
  covered ks_rel []%string gen_attrs_rel = true /\
  covered ks_parent []%string gen_attrs_parent = true /\
  covered ks_att ["name"]%string gen_attrs_att = true.
Proof. vm_compute. repeat split; reflexivity. Qed.
Print Assumptions C09_comparison_covers_serialised_attributes.

(* The pinned rule for attachments (adding one kept the definitions "equal") breaks symmetry: *)
Definition wa_base : T2 := {| n_version := 1; n_attrs := []; n_groups := [(s2l "attachments", [])] |}.
Definition wa_plus : T2 := {| n_version := 1; n_attrs := [];
  n_groups := [(s2l "attachments", [(s2l "doc", {| n_version := 1; n_attrs := []; n_groups := [] |})])] |}.
Theorem C09_pinned_attachment_rule_refuted :
  cmp_etype false wa_plus wa_base = Eq /\ cmp_etype false wa_base wa_plus = Incompat /\
  cmp_etype true wa_plus wa_base = Incompat.
Proof. vm_compute. repeat split; reflexivity. Qed.
Print Assumptions C09_pinned_attachment_rule_refuted.

(* ---- accepted upgrades compose, for kinds with child elements ---- *)
(* the scheme: given the corresponding facts about the children of the three definitions *)
Theorem C09_upgrades_compose : forall {C} (child_attr : C -> str -> aval) childcmp ks (a b c : node C),
  child_nn_trans childcmp ks a b c -> child_opt_mono child_attr childcmp ks b c ->
  child_dt_stable child_attr childcmp ks a b -> child_dt_stable child_attr childcmp ks b c ->
  cmp_node child_attr childcmp ks a b = Older -> cmp_node child_attr childcmp ks b c = Older ->
  cmp_node child_attr childcmp ks a c = Older.
Proof. intros C child_attr childcmp ks. exact (cmp_trans child_attr childcmp ks). Qed.
Print Assumptions C09_upgrades_compose.

(* properties (with their concept associations): unconditionally *)
Theorem C09_property_upgrades_compose : forall a b c : T1,
  cmp_prop a b = Older -> cmp_prop b c = Older -> cmp_prop a c = Older.
Proof. exact prop_upgrades_compose. Qed.
Print Assumptions C09_property_upgrades_compose.

(* event types (with parent, properties and their associations, relations, attachments).  Premises: sub-elements are
   versioned by their event type (as in the code), and the derived datetime flag of a property follows its object type *)
Theorem C09_event_type_upgrades_compose : forall a b c : T2,
  kids_versioned a -> kids_versioned b -> kids_versioned c ->
  dt_flag_by_objtype a b -> dt_flag_by_objtype b c ->
  cmp_etype true a b = Older -> cmp_etype true b c = Older -> cmp_etype true a c = Older.
Proof. exact etype_upgrades_compose. Qed.
Print Assumptions C09_event_type_upgrades_compose.

Definition wc_prop (v : Z) (ot : string) (opt : bool) (dn : string) : T1 :=
  {| n_version := v; n_attrs := [(A "object-type", VStr (s2l ot)); (A "merge", VStr (s2l "any")); (A "multivalued", VBool false);
                                 (OPTIONAL, VBool opt); (A "description", VStr (s2l dn)); (IS_DATETIME, VBool false)];
     n_groups := [(s2l "concepts", [])] |}.
Definition wc_et (v : Z) (ps : list (str * T1)) (dn : string) : T2 :=
  {| n_version := v; n_attrs := [(A "display-name-singular", VStr (s2l dn))];
     n_groups := [(s2l "parent", []); (s2l "properties", ps); (s2l "relations", []); (s2l "attachments", [])] |}.
Definition wc_a := wc_et 1 [(s2l "p", wc_prop 1 "ot" false "d")] "x".
Definition wc_b := wc_et 2 [(s2l "p", wc_prop 2 "ot" false "d"); (s2l "q", wc_prop 2 "ot" true "d")] "x".
Definition wc_c := wc_et 3 [(s2l "p", wc_prop 3 "ot" true "e"); (s2l "q", wc_prop 3 "ot" true "d")] "y".
Example C09_compose_nonvacuous :
  cmp_etype true wc_a wc_b = Older /\ cmp_etype true wc_b wc_c = Older /\ cmp_etype true wc_a wc_c = Older /\
  kids_versioned wc_a /\ kids_versioned wc_b /\ kids_versioned wc_c /\ dt_flag_by_objtype wc_a wc_b /\ dt_flag_by_objtype wc_b wc_c.
Proof.
  split; [vm_compute; reflexivity|]. split; [vm_compute; reflexivity|]. split; [vm_compute; reflexivity|].
  assert (forall v ps dn, (forall k x, In (k, x) ps -> n_version x = v) -> kids_versioned (wc_et v ps dn)) as KV.
  { intros v ps dn H g k x Hg Hin. cbn in Hg. destruct Hg as [<-|[<-|[<-|[<-|[]]]]]; cbn in Hin; try contradiction. apply (H k x Hin). }
  split; [apply KV; intros k x [H|[]]; injection H as <- <-; reflexivity|].
  split; [apply KV; intros k x [H|[H|[]]]; injection H as <- <-; reflexivity|].
  split; [apply KV; intros k x [H|[H|[]]]; injection H as <- <-; reflexivity|].
  split; intros k x y Hx Hy _; cbn in Hx, Hy;
    repeat match goal with
           | H : _ \/ _ |- _ => destruct H as [H|H]
           | H : (_, _) = (_, _) |- _ => inversion H; subst; clear H
           | H : False |- _ => contradiction
           end; reflexivity.
Qed.
