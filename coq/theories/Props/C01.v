(* C01 — Sticky hash is exactly the specified function of logical event identity.
   Statements only. `gen_*` are the literals read from /repo's source on this run. *)
From EdxmlVerif Require Import Base.Prelude Base.Bytes Event.Hash Event.Hash_proofs Event.Hash_inj Generated.C01_gen.
From Coq Require Import Permutation Sorted.

(* The hash input built with the literals that are in the code NOW is
   source "\n" type "\n" then the given strings joined by 0xFF 0xFF 0xFF 0xFF. *)
Theorem C01_layout : forall hashed e,
  preimage gen_separator gen_objfmt gen_layout hashed e =
  spec_preimage (h_src e) (h_typ e) (canon (object_strings gen_objfmt hashed (h_props e))).
Proof. exact preimage_spec. Qed.
Print Assumptions C01_layout.

(* ... where the joined strings are sorted (byte order), duplicate free, and are
   exactly the "property:value" strings of the hashed properties. *)
Theorem C01_identity_set : forall hashed e,
  let l := canon (object_strings gen_objfmt hashed (h_props e)) in
  StronglySorted le l /\ NoDup l /\ forall b, In b l <-> in_identity hashed e b.
Proof. exact canon_is_identity. Qed.
Print Assumptions C01_identity_set.

(* Hence the hash input (and the hash, for any hash function and encoding) depends
   only on source, type and the identity set: *)
Theorem C01_invariant : forall (H : bytes -> bytes) (enc : bytes -> str) hashed1 hashed2 e1 e2,
  h_src e1 = h_src e2 -> h_typ e1 = h_typ e2 ->
  (forall b, in_identity hashed1 e1 b <-> in_identity hashed2 e2 b) ->
  enc (H (preimage gen_separator gen_objfmt gen_layout hashed1 e1)) =
  enc (H (preimage gen_separator gen_objfmt gen_layout hashed2 e2)).
Proof. intros H enc h1 h2 e1 e2 Hs Ht Hi. f_equal. f_equal. exact (preimage_invariant h1 h2 e1 e2 Hs Ht Hi). Qed.
Print Assumptions C01_invariant.

Theorem C01_property_order : forall hashed src typ props1 props2,
  Permutation props1 props2 ->
  preimage gen_separator gen_objfmt gen_layout hashed {| h_src := src; h_typ := typ; h_props := props1 |} =
  preimage gen_separator gen_objfmt gen_layout hashed {| h_src := src; h_typ := typ; h_props := props2 |}.
Proof. exact preimage_property_order. Qed.
Print Assumptions C01_property_order.

Theorem C01_object_order_and_duplicates : forall hashed src typ pre post p vs1 vs2,
  (forall v, In v vs1 <-> In v vs2) ->
  preimage gen_separator gen_objfmt gen_layout hashed {| h_src := src; h_typ := typ; h_props := pre ++ (p, vs1) :: post |} =
  preimage gen_separator gen_objfmt gen_layout hashed {| h_src := src; h_typ := typ; h_props := pre ++ (p, vs2) :: post |}.
Proof. exact preimage_object_order. Qed.
Print Assumptions C01_object_order_and_duplicates.

Theorem C01_non_hashed_properties_ignored : forall hashed src typ pre post p vs1 vs2,
  mem p hashed = false ->
  preimage gen_separator gen_objfmt gen_layout hashed {| h_src := src; h_typ := typ; h_props := pre ++ (p, vs1) :: post |} =
  preimage gen_separator gen_objfmt gen_layout hashed {| h_src := src; h_typ := typ; h_props := pre ++ (p, vs2) :: post |}.
Proof. exact preimage_ignores_unhashed. Qed.
Print Assumptions C01_non_hashed_properties_ignored.

(* The code builds a set and sorts it, and "hashed" means merge strategy `match`. *)
Theorem C01_code_shape : gen_uses_set = true /\ gen_uses_sorted = true /\
                         gen_hashed_strategy = [109; 97; 116; 99; 104]%N.
Proof. repeat split; reflexivity. Qed.
Print Assumptions C01_code_shape.

(* The memo of hashed properties: for every sequence of strategy changes, property
   additions/removals and hash computations, every get_hashed_properties() returns what
   a fresh computation from the current properties returns. *)
Theorem C01_memo : forall ops st, cache_ok st -> erun true st ops = erun_spec (et_props st) ops.
Proof. exact memo_correct. Qed.
Print Assumptions C01_memo.

(* ... and this needs the change callback of set_merge_strategy: *)
Theorem C01_memo_without_callback_refuted :
  exists st ops, cache_ok st /\ erun false st ops <> erun_spec (et_props st) ops.
Proof.
  exists {| et_props := [(w_p, false)]; et_cache := None |}, [GetHashed; SetMerge w_p true; GetHashed].
  split; [exact I | exact memo_stale_without_callback].
Qed.
Print Assumptions C01_memo_without_callback_refuted.

Example C01_nonvacuous :
  preimage gen_separator gen_objfmt gen_layout [[112]%N]
    {| h_src := [47]%N; h_typ := [116]%N; h_props := [([112]%N, [[98]%N; [97]%N; [98]%N]); ([113]%N, [[120]%N])] |}
  = [47; 10; 116; 10; 112; 58; 97; 255; 255; 255; 255; 112; 58; 98]%N.
Proof. vm_compute. reflexivity. Qed.

(* the converse: the pre-image determines source, type and the identity set — events with different identity have different
   hash inputs.  Premises: strings consist of Unicode scalar values, source URI and type name contain no line feed *)
Theorem C01_preimage_determines_identity : forall h1 h2 e1 e2, event_ok h1 e1 -> event_ok h2 e2 ->
  preimage SEP OBJFMT LAYOUT h1 e1 = preimage SEP OBJFMT LAYOUT h2 e2 ->
  h_src e1 = h_src e2 /\ h_typ e1 = h_typ e2 /\ forall b, in_identity h1 e1 b <-> in_identity h2 e2 b.
Proof. exact preimage_determines_identity. Qed.
Print Assumptions C01_preimage_determines_identity.

(* an identity string determines its (property, object) pair when property names contain no colon *)
Theorem C01_object_string_injective : forall p v p' v',
  valid_str p = true -> valid_str p' = true -> valid_str v = true -> valid_str v' = true ->
  colon_free p = true -> colon_free p' = true ->
  spec_object_string p v = spec_object_string p' v' -> p = p' /\ v = v'.
Proof. exact object_string_injective. Qed.
Print Assumptions C01_object_string_injective.

Theorem C01_utf8_injective : forall a b, valid_str a = true -> valid_str b = true -> utf8 a = utf8 b -> a = b.
Proof. exact utf8_injective. Qed.
Print Assumptions C01_utf8_injective.
