(* C06 — Push parsing does not depend on how the byte stream is cut into chunks.  Statements only. *)
From EdxmlVerif Require Import Base.Prelude Parse.Chunk Parse.Chunk_proofs.

(* For every document (children of any kinds at any byte offsets) and EVERY list of feed offsets that eventually covers
   the document - any number of chunks, down to single bytes, cuts anywhere -, the push parser produces exactly the
   callbacks of the pull parser, in the same order, and no error. *)
Theorem C06_chunking : forall doc cuts, covers doc cuts -> push UpToCurrent doc cuts = pull doc.
Proof. exact chunking_independent. Qed.
Print Assumptions C06_chunking.

(* no chunking, not even one that stops early, makes the repaired parser fail *)
Theorem C06_no_chunking_error : forall cuts doc, snd (push UpToCurrent doc cuts) = false.
Proof. exact push_fixed_no_error. Qed.
Print Assumptions C06_no_chunking_error.

(* The pre-fix validation (a copy of the WHOLE root, including partially received later ontology siblings) violates it: *)
Theorem C06_whole_root_validation_refuted :
  exists doc cuts, covers doc cuts /\ push WholeRoot doc cuts <> pull doc.
Proof.
  exists w_doc, [25; 40]%N. split.
  - exists 40%N. split; [right; left; reflexivity|]. intros c Hc. repeat (destruct Hc as [<-|Hc]; [cbn; lia|]). contradiction.
  - exact (proj1 whole_root_validation_depends_on_chunking).
Qed.
Print Assumptions C06_whole_root_validation_refuted.
