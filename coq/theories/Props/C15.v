(* C15 — Damaged or hostile input fails safely with an EDXML error.
   Statements only; proofs in Parse/Safe_proofs.v, the skeleton model in Parse/Safe.v.
   gen_sites is extracted from the current source on every run (harness/translate/c15.py, Generated/C15_gen.v). *)
From EdxmlVerif Require Import Base.Prelude Parse.Safe Parse.Safe_proofs Generated.C15_gen.

(* T1: every raw attribute access / integer conversion on the parsing path is inside a try that turns KeyError / ValueError into an EDXML error *)
Theorem C15_leak_sites_guarded : gen_sites_ok = true /\ sites_guarded gen_sites = true.
Proof. split; vm_compute; reflexivity. Qed.
Print Assumptions C15_leak_sites_guarded.

(* with validation enabled, for every sequence of root children and whatever the stages report: every callback that is invoked
   received an item the gate accepts — also in runs that end in an error *)
Theorem C15_nothing_rejected_is_delivered : forall items have v,
  forallb cb_accepted (fst (run repaired true have items v)) = true.
Proof. exact delivered_items_accepted. Qed.
Print Assumptions C15_nothing_rejected_is_delivered.

(* every error that leaves the skeleton is from the EDXML family, provided the stages raise nothing else *)
Theorem C15_errors_in_family : forall validate items have v,
  forallb stage_safe items = true -> snd (run repaired validate have items v) <> Raised Foreign.
Proof. exact errors_in_family. Qed.
Print Assumptions C15_errors_in_family.

(* a run that ends without error delivered every ontology and event, in document order *)
Theorem C15_complete_when_done : forall validate items have v,
  snd (run repaired validate have items v) = Done -> fst (run repaired validate have items v) = flat_map expected_cb items.
Proof. exact complete_when_done. Qed.
Print Assumptions C15_complete_when_done.

(* the pinned skeleton leaked KeyError / ValueError and delivered a schema-invalid ontology element before raising *)
Theorem C15_pinned_refuted :
  snd (run pinned true false [IOnt true Fine; IEv false false false] VSupported) = Raised Foreign /\
  snd (run pinned true false [IOnt true Fine] VNonNumeric) = Raised Foreign /\
  run pinned true false [IOnt false Fine] VSupported = ([COnt false], Raised EdxmlErr).
Proof. exact pinned_leaks_refuted. Qed.
Print Assumptions C15_pinned_refuted.

Example C15_example :
  run repaired true false [IOnt true Fine; IEv true true true; IEv true true false; IEv true true true] VSupported = ([COnt true; CEv true], Raised EdxmlErr).
Proof. reflexivity. Qed.
