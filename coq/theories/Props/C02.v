(* C02 — Writer output is always readable; write/parse round trips are lossless (character level).
   Statements only; proofs in Parse/XmlText_proofs.v; the model of lxml's escaping and of an XML reader's handling of
   line ends, attribute values and references is Parse/XmlText.v. *)
From EdxmlVerif Require Import Base.Prelude Parse.XmlText Parse.XmlText_proofs.

(* every object value / attachment content, whatever characters it is made of, is read back exactly as written *)
Theorem C02_text_round_trip : forall s, read_text (esc_text s) = Some s.
Proof. exact text_round_trip. Qed.
Print Assumptions C02_text_round_trip.

(* every attribute value (source URI, attachment id, parents, foreign attributes, ontology attributes) likewise *)
Theorem C02_attribute_round_trip : forall s, read_attr (esc_attr s) = Some s.
Proof. exact attr_round_trip. Qed.
Print Assumptions C02_attribute_round_trip.

(* the written forms never contain a markup start, a raw carriage return, or (attributes) a quote, raw TAB or LF *)
Theorem C02_written_text_is_inert : forall s, forallb text_safe_c (esc_text s) = true.
Proof. exact esc_text_safe. Qed.
Print Assumptions C02_written_text_is_inert.
Theorem C02_written_attribute_is_inert : forall s, forallb attr_safe_c (esc_attr s) = true.
Proof. exact esc_attr_safe. Qed.
Print Assumptions C02_written_attribute_is_inert.

(* a serialiser that wrote carriage returns, or TAB / LF inside attributes, as they are would not be lossless *)
Theorem C02_unescaped_line_ends_refuted :
  read_text [97; 13; 98]%N = Some [97; 10; 98]%N /\ read_text [97; 13; 10; 98]%N = Some [97; 10; 98]%N /\ read_attr [97; 10; 98]%N = Some [97; 32; 98]%N.
Proof. exact raw_cr_is_not_preserved. Qed.
Print Assumptions C02_unescaped_line_ends_refuted.
