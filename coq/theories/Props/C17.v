(* C17 — Transcoder mediators always emit one valid, complete EDXML stream.
   Statements only; the model of the mediator bookkeeping and of ObjectTranscoder.generate is Transcode/Mediator.v,
   the proofs Transcode/Mediator_proofs.v. *)
From Coq Require Import String.
From EdxmlVerif Require Import Base.Prelude Transcode.Mediator Transcode.Mediator_proofs.

(* for every history of source registrations, records (whatever the writer decides about their events) and close calls, and both
   settings of ignore_invalid_events: every event in the output is preceded by an ontology item that holds its source *)
Theorem C17_every_event_preceded_by_its_ontology : forall ignore_invalid ops,
  well_ordered [] (fst (mrun ignore_invalid m_init ops)) = true.
Proof. intros. apply output_well_ordered. exact inv_init. Qed.
Print Assumptions C17_every_event_preceded_by_its_ontology.

(* nothing but events the writer accepted is written *)
Theorem C17_only_valid_events_written : forall ignore_invalid ops src,
  In (MEv src) (fst (mrun ignore_invalid m_init ops)) -> In (ORecord EvValid src) ops.
Proof. intros ig ops src. apply only_valid_events_written. Qed.
Print Assumptions C17_only_valid_events_written.

(* without ignore_invalid_events an invalid event is an error: a history that completes contains none *)
Theorem C17_invalid_event_is_an_error : forall ops, snd (mrun false m_init ops) = MOk -> forall src, ~ In (ORecord EvInvalid src) ops.
Proof. intros ops. apply invalid_event_raises. Qed.
Print Assumptions C17_invalid_event_is_an_error.

(* the object values of a generated event come from the record fields that the property map names *)
Theorem C17_values_come_from_the_mapped_fields : forall c rec p vals, In (p, vals) (generate c rec) ->
  exists sel names, In (sel, names) (c_pmap c) /\ In p names /\
    field_values (odefault [] (pget sel (c_empty c))) (jlookup rec sel) = Some vals.
Proof. exact generated_values_come_from_the_record. Qed.
Print Assumptions C17_values_come_from_the_mapped_fields.

(* ... each value is the field itself, an item of the list in the field, or the rendering of a boolean; never an empty marker of that field *)
Theorem C17_field_values_sound : forall empties v vals, field_values empties v = Some vals -> forall x, In x vals ->
  (x = v /\ is_empty empties x = false) \/ (exists l, v = JList l /\ In x l /\ is_empty empties x = false) \/
  (exists b, v = JBool b /\ x = JStr (if b then s2l "true" else s2l "false")).
Proof. exact field_values_sound. Qed.
Print Assumptions C17_field_values_sound.

(* empty markers of one field leaking into the fields after it would drop legitimate values *)
Theorem C17_shared_empty_markers_refuted : exists c rec, gen_props true c rec (c_pmap c) [] [] <> generate c rec.
Proof. exact shared_empty_markers_refuted. Qed.
Print Assumptions C17_shared_empty_markers_refuted.

Example C17_example :
  mrun false m_init [ORecord EvValid (s2l "/undefined/"); OSource (s2l "/a/"); ORecord EvValid (s2l "/a/"); OClose] =
  ([MOnt 2 [s2l "/undefined/"]; MEv (s2l "/undefined/"); MOnt 3 [s2l "/undefined/"; s2l "/a/"]; MEv (s2l "/a/")], MOk).
Proof. vm_compute. reflexivity. Qed.
