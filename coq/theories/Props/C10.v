(* C10 — Accepted ontology upgrades are backward compatible with existing events.
   Statements only; proofs are in Onto/Compat_proofs.v.  The upgrade decision is the comparison model of
   Onto/Tree.v / Onto/Kinds.v (the one C09 ties to the code); validity, hashed properties and merge configuration
   are read off the same nodes (Onto/Compat.v). *)
From Coq Require Import String.
From EdxmlVerif Require Import Base.Prelude Base.Bytes Onto.Tree Onto.Kinds Onto.Compat Onto.Compat_proofs Event.Hash Event.Merge.

(* a value that was valid for an object type is valid for every accepted upgrade of it (enum extension, "old|more" regex, dropped regex) *)
Theorem C10_values_stay_valid : forall dt_valid re_match,
  (forall a b s, re_match a s = true -> re_match (a ++ [124%N] ++ b) s = true) ->
  forall old new v, ot_step old new -> value_ok dt_valid re_match old v = true -> value_ok dt_valid re_match new v = true.
Proof. exact value_ok_step. Qed.
Print Assumptions C10_values_stay_valid.

(* an accepted event type upgrade: no property or attachment disappears, new properties are optional, object type and merge
   strategy of existing properties are unchanged, single->multi and mandatory->optional only, version property unchanged *)
Theorem C10_accepted_upgrade_facts : forall old new, wf_et old -> et_step old new -> et_facts old new.
Proof. exact et_step_facts. Qed.
Print Assumptions C10_accepted_upgrade_facts.

(* every event valid under the old ontology is valid under the upgraded one *)
Theorem C10_events_stay_valid : forall dt_valid re_match,
  (forall a b s, re_match a s = true -> re_match (a ++ [124%N] ++ b) s = true) ->
  forall ots_old ots_new old new e, ots_step ots_old ots_new -> wf_et old -> et_step old new ->
  valid_event dt_valid re_match ots_old old e = true -> valid_event dt_valid re_match ots_new new e = true.
Proof.
  intros dt re H oo on old new e OS WF ES V.
  exact (valid_preserved dt re H oo on old new e OS (et_step_facts old new WF ES) V).
Qed.
Print Assumptions C10_events_stay_valid.

(* ... along every chain of successive upgrades *)
Theorem C10_chains : forall dt_valid re_match,
  (forall a b s, re_match a s = true -> re_match (a ++ [124%N] ++ b) s = true) ->
  forall l s e, chain_ok s l -> valid_event dt_valid re_match (fst s) (snd s) e = true ->
  valid_event dt_valid re_match (fst (last l s)) (snd (last l s)) e = true.
Proof. exact chain_valid. Qed.
Print Assumptions C10_chains.

(* the sticky hash pre-image of an event of the old ontology is the same under the upgraded event type *)
Theorem C10_hash_unchanged : forall sep objfmt layout old new (he : hevent),
  wf_et old -> wf_et new -> et_step old new ->
  declared_only old {| ev_props := h_props he; ev_atts := [] |} = true ->
  preimage sep objfmt layout (hashed_of new) he = preimage sep objfmt layout (hashed_of old) he.
Proof.
  intros sep f l old new he WO WN ES D. exact (hash_preserved sep f l old new he WO WN (et_step_facts old new WO ES) D).
Qed.
Print Assumptions C10_hash_unchanged.

(* merging events of the old ontology gives the same result (or the same conflict) under the upgraded event type *)
Theorem C10_merge_unchanged : forall rank v old new evs,
  wf_et old -> et_step old new -> within old evs ->
  merge rank v (etype_of new) evs = merge rank v (etype_of old) evs.
Proof.
  intros rank v old new evs WO ES W. exact (merge_preserved rank v old new evs (et_step_facts old new WO ES) W).
Qed.
Print Assumptions C10_merge_unchanged.

(* the pinned enum rule compared data type strings: a renamed choice passed and invalidated stored values *)
Theorem C10_pinned_enum_rule_refuted :
  exists o n v, dt_upgrade_pinned o n = true /\ mem v (enum_values o) = true /\ mem v (enum_values n) = false.
Proof. exact pinned_enum_rule_refuted. Qed.
Print Assumptions C10_pinned_enum_rule_refuted.

(* non-vacuity: a concrete accepted upgrade (optional -> kept, enum extended) and an event it keeps valid *)
Definition ex_ot (dt : string) (v : Z) : T0 := {| n_version := v; n_attrs := [(A "data-type", VStr (s2l dt))]; n_groups := [] |}.
Definition ex_prop (v : Z) (multi : bool) : T1 :=
  {| n_version := v; n_attrs := [(A "object-type", VStr (s2l "e")); (A "merge", VStr (s2l "match")); (A "multivalued", VBool multi); (OPTIONAL, VBool false)];
     n_groups := [(A "concepts", [])] |}.
Definition ex_et (v : Z) (multi : bool) : T2 :=
  {| n_version := v; n_attrs := []; n_groups := [(A "properties", [(s2l "p", ex_prop v multi)])] |}.
Example C10_example :
  cmp_objtype (ex_ot "enum:a:b" 1) (ex_ot "enum:a:b:c" 2) = Older /\
  cmp_objtype (ex_ot "enum:a:b" 1) (ex_ot "enum:a:bc:d" 2) = Incompat /\
  cmp_etype true (ex_et 1 false) (ex_et 2 true) = Older /\
  cmp_etype true (ex_et 1 true) (ex_et 2 false) = Incompat /\
  valid_event (fun _ _ => true) (fun _ _ => true) [(s2l "e", ex_ot "enum:a:b" 1)] (ex_et 1 false) {| ev_props := [(s2l "p", [s2l "b"])]; ev_atts := [] |} = true.
Proof. repeat split; vm_compute; reflexivity. Qed.
