(* C19 — Streaming parse keeps memory bounded.
   Statements only; proofs are `exact <lemma>` from Parse/Tree_proofs.v. *)
From EdxmlVerif Require Import Base.Prelude Parse.Tree Parse.Tree_proofs.

(* For EVERY schedule of "child received" / "end event processed" actions (every
   chunking, every reader block size) and every sequence of ontology / event
   children, of any length: at every callback the number of elements retained
   under the root is at most 3 plus the children received but not yet delivered;
   `del root[1]` never fails; once everything received has been delivered at most
   2 elements remain. *)
Theorem C19_bound : forall acts,
  let '(stf, os, e) := trun Code tinit acts in
  Forall (fun o => o_retained o <= 3 + o_undelivered o) os /\
  e <> Some EIndexError /\
  (queue stf = [] -> length (root stf) <= 2).
Proof. exact bound_all_schedules. Qed.
Print Assumptions C19_bound.

(* The index of the element being delivered (what a callback observes as
   parent.index(event)+1) is at most 3, independent of the schedule and of the
   number of children processed before. *)
Theorem C19_position : forall acts,
  let '(_, os, _) := trun Code tinit acts in Forall (fun o => o_position o <= 3) os.
Proof. exact position_bound. Qed.
Print Assumptions C19_position.

(* Sensitivity of the statement: a parser that keeps ontology updates is unbounded. *)
Theorem C19_variant_without_ontology_deletion_refuted :
  exists acts, let '(stf, _, _) := trun NoOntDelete tinit acts in
               queue stf = [] /\ length (root stf) = 50.
Proof. exists (sched_alternate (repeat KOnt 50)). vm_compute. split; reflexivity. Qed.
Print Assumptions C19_variant_without_ontology_deletion_refuted.

(* Non-vacuity: a schedule with 3 undelivered children at a callback. *)
Example C19_nonvacuous :
  let '(_, os, _) := trun Code tinit [Recv KOnt; Recv KEv; Recv KEv; Recv KEv; Deliver; Deliver; Deliver] in
  map (fun o => (o_retained o, o_undelivered o)) os = [(4, 3); (4, 2); (4, 1)].
Proof. vm_compute. reflexivity. Qed.
