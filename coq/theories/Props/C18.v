(* C18 — EventCollection equivalence is a true semantic equivalence relation.
   Statements only (proofs in Event/Collection_proofs.v).  A collection is a list of
   (sticky hash, event); `resolve` merges the instances of every hash (C04's merge). *)
From EdxmlVerif Require Import Base.Prelude Event.Merge Event.Merge_proofs Event.Stream Event.Collection Event.Collection_proofs Event.Collection_perm.
From Coq Require Import Permutation.

Section C18.
Variable rank : str -> str -> Z.
Variable et : etype.

(* The verdict is `true` exactly when the ontologies are equal and the two collections have the
   same logical events: the same hashes on both sides and, per hash, equal merged events
   (type/source/attachment ids, property object sets, parents). *)
Theorem C18_spec : forall onto_eq a b,
  equiv_fixed rank et onto_eq a b = CTrue <->
  onto_eq = true /\ exists ra rb, resolve rank et a = Some ra /\ resolve rank et b = Some rb /\
                    forall h, agree_at ra rb h.
Proof. exact (equiv_spec rank et). Qed.

Theorem C18_symmetric : forall onto_eq a b,
  equiv_fixed rank et onto_eq a b = equiv_fixed rank et onto_eq b a.
Proof. exact (equiv_sym rank et). Qed.

Theorem C18_reflexive : forall a ra,
  Forall (fun it => wf (snd it)) a -> resolve rank et a = Some ra ->
  equiv_fixed rank et true a a = CTrue.
Proof. exact (equiv_refl rank et). Qed.

(* a collection is equivalent to its collision-resolved form *)
Theorem C18_resolved_form : forall c r,
  resolve rank et c = Some r -> (forall k e, In (k, e) r -> wf e) ->
  equiv_fixed rank et true c r = CTrue.
Proof. exact (equiv_resolved rank et). Qed.

(* it never raises merely because of colliding events *)
Theorem C18_never_raises : forall onto_eq a b, equiv_fixed rank et onto_eq a b <> CRaise.
Proof. exact (equiv_never_raises rank et). Qed.

(* reordering the events of either collection never changes the verdict, provided merging the
   instances of one logical event does not depend on their order (`order_free`) ... *)
Theorem C18_permutation_invariant : forall onto_eq a a' b b',
  Forall (fun it => wf (snd it)) a -> Forall (fun it => wf (snd it)) b ->
  Permutation a a' -> Permutation b b' -> order_free rank et a -> order_free rank et b ->
  equiv_fixed rank et onto_eq a' b' = equiv_fixed rank et onto_eq a b.
Proof. exact (equiv_perm rank et). Qed.

(* ... which holds when there is no event-version property, the instances of a logical event carry
   the same unmerged content, and per property: `add` always; `min`/`max` when the ordering separates
   the objects present (C05); any other strategy when the instances agree on the property
   (hashed properties always do) *)
Theorem C18_permutation_sufficient : forall onto_eq a a' b b',
  et_version et = None ->
  Forall (fun it => wf (snd it)) a -> Forall (fun it => wf (snd it)) b ->
  Permutation a a' -> Permutation b b' -> groups_order_free rank et a -> groups_order_free rank et b ->
  equiv_fixed rank et onto_eq a' b' = equiv_fixed rank et onto_eq a b.
Proof. exact (equiv_perm_sufficient rank et). Qed.
End C18.
Print Assumptions C18_spec.
Print Assumptions C18_symmetric.
Print Assumptions C18_reflexive.
Print Assumptions C18_resolved_form.
Print Assumptions C18_never_raises.
Print Assumptions C18_permutation_invariant.
Print Assumptions C18_permutation_sufficient.

(* The pre-fix code (length test, ontology-less sub-collections, one-sided loop) violates the statement: *)
Theorem C18_pinned_raises_refuted :
  exists a, equiv_pinned true a a = CRaise.
Proof. eexists. exact pinned_raises_on_reflexive_collision. Qed.
Print Assumptions C18_pinned_raises_refuted.

Theorem C18_pinned_length_refuted :
  exists rank et c r, resolve rank et c = Some r /\ equiv_pinned true c r = CFalse /\ equiv_fixed rank et true c r = CTrue.
Proof.
  exists (fun _ _ => 0%Z), wc_et, [(wc_h, wc_e1); (wc_h, wc_e2)], [(wc_h, wc_m)].
  split; [vm_compute; reflexivity | exact pinned_rejects_resolved_form].
Qed.
Print Assumptions C18_pinned_length_refuted.

Example C18_nonvacuous_difference_detected :
  equiv_fixed (fun _ _ => 0%Z) wc_et true [(wc_h, wc_e1); (wc_h, wc_e2)] [(wc_h, wc_m); (wc_hf, wc_f)] = CFalse /\
  equiv_fixed (fun _ _ => 0%Z) wc_et true [(wc_h, wc_m); (wc_hf, wc_f)] [(wc_h, wc_e1); (wc_h, wc_e2)] = CFalse.
Proof. exact fixed_notices_extra_event_both_ways. Qed.

(* the premises of the permutation theorem are met by a collection with a collision group, and they are
   needed: with `min` and an ordering that identifies two spellings the verdict depends on the order *)
Example C18_permutation_nonvacuous :
  et_version pm_et = None /\ Forall (fun it => wf (snd it)) pm_c /\ groups_order_free (fun _ _ => 0%Z) pm_et pm_c /\
  equiv_fixed (fun _ _ => 0%Z) pm_et true (rev pm_c) pm_c = CTrue.
Proof. exact pm_nonvacuous. Qed.
Theorem C18_permutation_without_premise_refuted :
  exists a a' b, Permutation a a' /\
    equiv_fixed (fun _ _ => 0%Z) pn_et true a' b <> equiv_fixed (fun _ _ => 0%Z) pn_et true a b.
Proof. exact perm_without_premise_refuted. Qed.
Print Assumptions C18_permutation_without_premise_refuted.
