(* C08 — Ontology <-> XML round trip is lossless (attribute level of every element class).
   The codec tables gen_xk_* are derived from the CURRENT source of generate_xml / create_from_xml / __init__ of each class
   on every run (harness/translate/c08.py, Generated/C08_gen.v); the theorems below are stated on those tables.
   Proofs: Onto/Xml_proofs.v.  int(text) is the interpreter model of C13 (Valid/Normalize.v) with the regenerated tables. *)
From Coq Require Import String Lia.
From EdxmlVerif Require Import Base.Prelude Base.Bytes Onto.Tree Valid.Normalize Valid.Normalize_proofs Onto.Xml Onto.Xml_proofs
     Generated.C13_gen Generated.C08_gen.
From EdxmlVerif Require Props.C13.

Definition read_int := py_int udigit uspace.
Lemma read_render : forall z, read_int (render_Z z) = Some z.
Proof. exact (py_int_render udigit uspace Props.C13.tab1 Props.C13.tab2 Props.C13.tab3). Qed.
Print Assumptions read_render.

Definition all_tables : list ekind :=
  [gen_xk_objtype; gen_xk_concept; gen_xk_source; gen_xk_etype; gen_xk_prop; gen_xk_assoc; gen_xk_att; gen_xk_parent;
   gen_xk_rel_inter_intra; gen_xk_rel_other; gen_xk_rel_container_description_name_original].

(* T1 obligations: every class was translated, the tables have distinct attribute names and are not empty *)
Theorem C08_translation_complete : gen_all_ok = true /\ forallb (fun k => nodupb (map fst (e_attrs k)) && nonempty_b (e_attrs k)) all_tables = true.
Proof. split; vm_compute; reflexivity. Qed.
Print Assumptions C08_translation_complete.

(* what is written is read back as the same definition: for every class, every definition in the normal shape (attribute values of the
   type the class stores) whose jointly dropped attributes are at their defaults *)
Theorem C08_round_trip : forall k, In k all_tables -> forall d x,
  shaped (e_attrs k) d = true -> rules_lossless read_int k d = true ->
  encode k d = Some x -> decode read_int k x = Some d.
Proof.
  intros k Hin d x S L E. apply (element_round_trip read_int read_render k d x); auto.
  apply nodupb_NoDup. destruct C08_translation_complete as (_ & F). rewrite forallb_forall in F. specialize (F k Hin).
  apply andb_true_iff in F. tauto.
Qed.
Print Assumptions C08_round_trip.

(* ... and the second cycle writes exactly the same attributes *)
Theorem C08_second_cycle_identical : forall k, In k all_tables -> forall d x,
  shaped (e_attrs k) d = true -> rules_lossless read_int k d = true ->
  encode k d = Some x -> exists d', decode read_int k x = Some d' /\ encode k d' = Some x.
Proof. intros k Hin d x S L E. exists d. split; [eapply C08_round_trip; eauto | exact E]. Qed.
Print Assumptions C08_second_cycle_identical.

(* children are written in an order that depends on the set of keys only *)
Theorem C08_child_order_canonical : forall k1 k2, Permutation.Permutation k1 k2 -> child_order k1 = child_order k2.
Proof. exact child_order_canonical. Qed.
Print Assumptions C08_child_order_canonical.

(* the pinned association class wrote empty display names for an extension without custom names; the schema (minLength 1) rejects them *)
Theorem C08_pinned_assoc_refuted : exists d x,
  shaped (e_attrs (xk_assoc false)) d = true /\ encode (xk_assoc false) d = Some x /\ aget (s2l "attr-display-name-singular") x = Some [].
Proof. exact pinned_assoc_writes_empty_names. Qed.
Print Assumptions C08_pinned_assoc_refuted.

(* the current association class is the repaired one *)
Theorem C08_assoc_is_repaired : gen_xk_assoc = xk_assoc true.
Proof. vm_compute. reflexivity. Qed.
Print Assumptions C08_assoc_is_repaired.

(* non-vacuity: a concrete object type (unit, radix 2, compress) and a concrete association (extension without names) round trip *)
Example C08_example_objtype :
  let d := [(s2l "name", VStr (s2l "o")); (s2l "display-name-singular", VStr (s2l "o")); (s2l "display-name-plural", VStr (s2l "os"));
            (s2l "description", VStr (s2l "d")); (s2l "data-type", VStr (s2l "number:int")); (s2l "unit-name", VStr (s2l "meter"));
            (s2l "unit-symbol", VStr (s2l "m")); (s2l "prefix-radix", VInt 2); (s2l "xref", VNone); (s2l "compress", VBool true);
            (s2l "fuzzy-matching", VNone); (s2l "regex-hard", VNone); (s2l "regex-soft", VNone); (s2l "version", VInt 3)] in
  shaped (e_attrs gen_xk_objtype) d = true /\ rules_lossless read_int gen_xk_objtype d = true /\
  match encode gen_xk_objtype d with Some x => aget (s2l "prefix-radix") x = Some (s2l "2") /\ aget (s2l "xref") x = None /\ decode read_int gen_xk_objtype x = Some d | None => False end.
Proof. vm_compute. repeat split; reflexivity. Qed.
