(* C07 — Event representations are interchangeable and stay coherent under mutation.
   Statements only (proofs in Event/Repr_proofs.v).
   `sstep` is the dictionary-of-sets model; `ostep`/`xstep` model the XML backed classes
   (EventElement, ParsedEvent): cached views with write-through callbacks over the XML content. *)
From EdxmlVerif Require Import Base.Prelude Base.Bytes Event.Repr Event.Repr_proofs.

(* For every initial content, both XML backed classes and EVERY sequence of public mutations:
   each call raises exactly when the model says so, afterwards the mapping view / getters show the
   model's state (R), and the XML element handed to writers contains exactly what the views show. *)
Theorem C07_refines_and_coherent : forall k s0 i ops,
  let o0 := fresh k s0 i in
  snd (orun i o0 ops) = snd (srun s0 ops) /\
  R (fst (orun i o0 ops)) (fst (srun s0 ops)) /\
  coherent (fst (orun i o0 ops)).
Proof.
  intros k s0 i ops o0.
  destruct (orun_refines i ops o0 s0 (fresh_owned k s0 i) (fresh_coherent k s0 i) (fresh_R k s0 i)) as (A & B & C & _).
  split; [exact A|]. split; [exact B | exact C].
Qed.
Print Assumptions C07_refines_and_coherent.

(* One step, from any reachable object: same statement (used for histories that interleave objects). *)
Theorem C07_step : forall i o s e, coherent o -> R o s ->
  snd (ostep i o e) = snd (sstep s e) /\ R (fst (ostep i o e)) (fst (sstep s e)) /\ coherent (fst (ostep i o e)).
Proof. exact ostep_sim. Qed.
Print Assumptions C07_step.

(* In a heap of events (callbacks are bound methods of an owner object): with the repaired copy(),
   for every history of operations and copies the invariant "every callback of an event is bound to the
   event itself, and its XML equals its views" holds ... *)
Theorem C07_heap_invariant : forall ops h, hinv h -> hinv (hrun CopyFixed h ops).
Proof. exact hrun_inv. Qed.
Print Assumptions C07_heap_invariant.

(* ... the heap step is the local step of the target ... *)
Theorem C07_heap_step_is_local : forall h i o e, hget h i = Some o -> owned i o ->
  xstep h i e = (hupd h i (fun _ => fst (ostep i o e)), snd (ostep i o e)).
Proof. exact xstep_local. Qed.
Print Assumptions C07_heap_step_is_local.

(* ... hence a copy never shares state with its original: an operation on one event leaves every other
   event's views and XML untouched, and copying leaves all existing events untouched. *)
Theorem C07_copy_independent : forall h o j oj, hinv h -> hget h j = Some oj ->
  (match o with Op i _ => i <> j | Copy _ => True end) ->
  hget (hstep CopyFixed h o) j = Some oj.
Proof. exact hstep_frame. Qed.
Print Assumptions C07_copy_independent.

(* The pre-fix EventElement.copy() (deepcopy keeps the callbacks of the original) violates both clauses: *)
Theorem C07_deepcopy_refuted :
  exists h0 ops, let h := hrun CopyDeep h0 ops in
    (exists o0, hget (hrun CopyDeep h0 (firstn 2 ops)) 0 = Some o0 /\
                option_map (fun o => xml_props o wp) (hget h 0) <> Some (xml_props o0 wp)) /\
    (exists o1, hget h 1 = Some o1 /\ view_props o1 wp <> xml_props o1 wp).
Proof.
  exists [fresh KElement w_s0 0], w_hist. cbn zeta. split.
  - eexists. split; [vm_compute; reflexivity|]. vm_compute. discriminate.
  - eexists. split; [vm_compute; reflexivity|]. vm_compute. discriminate.
Qed.
Print Assumptions C07_deepcopy_refuted.

Example C07_nonvacuous :
  let '(o, flags) := orun 0 (fresh KParsed w_s0 0) [ObjRemove wp [120]%N; ObjAdd wp [98]%N; Flush; DelItem wp] in
  flags = [false; true; true; true] /\ view_props o wp = [] /\ xml_props o wp = [].
Proof. vm_compute. repeat split; reflexivity. Qed.
