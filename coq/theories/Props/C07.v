(* C07 — Event representations are interchangeable and stay coherent under mutation.
   Statements only (proofs in Event/Repr_proofs.v).
   `sstep` is the dictionary-of-sets model; `ostep`/`xstep` model the XML backed classes
   (EventElement, ParsedEvent): cached views with write-through callbacks over the XML content. *)
From EdxmlVerif Require Import Base.Prelude Base.Bytes Event.Repr Event.Repr_proofs Event.Repr_copy.

(* For every initial content, both XML backed classes and EVERY sequence of public mutations:
   each call raises exactly when the model says so, afterwards the mapping view / getters show the
   model's state (R), and the XML element handed to writers contains exactly what the views show. *)
Theorem C07_refines_and_coherent : forall k s0 i ops,
  let o0 := fresh k s0 i in
  snd (orun i o0 ops) = snd (srun s0 ops) /\
  R (fst (orun i o0 ops)) (fst (srun s0 ops)) /\
  coherent (fst (orun i o0 ops)).
Proof.
  intros k s0 i ops o0.
  destruct (orun_refines i ops o0 s0 (fresh_owned k s0 i) (fresh_coherent k s0 i) (fresh_R k s0 i)) as (A & B & C & _).
  split; [exact A|]. split; [exact B | exact C].
Qed.
Print Assumptions C07_refines_and_coherent.

(* One step, from any reachable object: same statement (used for histories that interleave objects). *)
Theorem C07_step : forall i o s e, coherent o -> R o s ->
  snd (ostep i o e) = snd (sstep s e) /\ R (fst (ostep i o e)) (fst (sstep s e)) /\ coherent (fst (ostep i o e)).
Proof. exact ostep_sim. Qed.
Print Assumptions C07_step.

(* In a heap of events (callbacks are bound methods of an owner object): with the repaired copy(),
   for every history of operations and copies the invariant "every callback of an event is bound to the
   event itself, and its XML equals its views" holds ... *)
Theorem C07_heap_invariant : forall ops h, hinv h -> hinv (hrun CopyFixed h ops).
Proof. exact hrun_inv. Qed.
Print Assumptions C07_heap_invariant.

(* ... the heap step is the local step of the target ... *)
Theorem C07_heap_step_is_local : forall h i o e, hget h i = Some o -> owned i o ->
  xstep h i e = (hupd h i (fun _ => fst (ostep i o e)), snd (ostep i o e)).
Proof. exact xstep_local. Qed.
Print Assumptions C07_heap_step_is_local.

(* ... hence a copy never shares state with its original: an operation on one event leaves every other
   event's views and XML untouched, and copying leaves all existing events untouched. *)
Theorem C07_copy_independent : forall h o j oj, hinv h -> hget h j = Some oj ->
  (match o with Op i _ => i <> j | Copy _ => True end) ->
  hget (hstep CopyFixed h o) j = Some oj.
Proof. exact hstep_frame. Qed.
Print Assumptions C07_copy_independent.

(* A fresh copy shows the content of its original.  In every heap reached from one event (its properties and
   attachments given as dictionaries: every name once) by ANY history of public mutations and copies, copying
   event i appends an event whose views show exactly what the views of event i show (every property, every
   attachment, parents, type, source, foreign attributes, same class), whose XML holds exactly that content,
   and leaves event i itself as it was.  The proof needs the invariant `wf` (cached views and XML groups hold
   every name once; Event/Repr_copy.v shows every mutation and copy keeps it): EventElement copies are built
   from the non-empty entries of the cached views, and an emptied entry must not hide a second one. *)
Theorem C07_copy_shows_same_content : forall k s0 ops i o,
  NoDup (akeys (s_props s0)) -> NoDup (akeys (s_atts s0)) ->
  let h := hrun CopyFixed [fresh k s0 0] ops in
  hget h i = Some o ->
  exists c, hget (hstep CopyFixed h (Copy i)) (length h) = Some c /\
            same_content o c /\ coherent c /\
            (forall p, xml_props c p = view_props o p) /\ (forall a, xml_atts c a = view_atts o a) /\
            hget (hstep CopyFixed h (Copy i)) i = Some o.
Proof. exact copy_shows_original. Qed.
Print Assumptions C07_copy_shows_same_content.

(* A copy refines the dictionary-of-sets state of its ORIGINAL: after copying an event that shows state s, EVERY
   sequence of public mutations of the copy raises exactly when the model started from s does, shows the model's
   state and keeps its XML equal to its views — the interchangeability of the representations extends over copies.
   (`wf o` holds of every event reached from dictionaries: C07_reachable_wf.) *)
Theorem C07_copy_behaves_like_original : forall o s n ops, wf o -> coherent o -> R o s ->
  let c := copy_obj CopyFixed o n in
  snd (orun n c ops) = snd (srun s ops) /\ R (fst (orun n c ops)) (fst (srun s ops)) /\ coherent (fst (orun n c ops)).
Proof. exact copy_then_mutations. Qed.
Print Assumptions C07_copy_behaves_like_original.

Theorem C07_reachable_wf : forall k s0 ops,
  NoDup (akeys (s_props s0)) -> NoDup (akeys (s_atts s0)) ->
  hinv (hrun CopyFixed [fresh k s0 0] ops) /\ hwf (hrun CopyFixed [fresh k s0 0] ops).
Proof. intros k s0 ops A B. exact (hrun_wf ops [fresh k s0 0] (single_inv k s0) (single_wf k s0 A B)). Qed.
Print Assumptions C07_reachable_wf.

(* ... and the invariant is needed: a cached view holding a name twice, the first entry emptied, would make the
   copy show the hidden entry. *)
Theorem C07_copy_needs_distinct_names_refuted :
  exists o, (forall p, view_props o p = xml_props o p) /\
            view_props (copy_obj CopyFixed o 1) wp <> view_props o wp.
Proof.
  exists dup_obj. split.
  - intro p. unfold view_props, xml_props; cbn. destruct (str_eqb p wp); reflexivity.
  - destruct copy_needs_distinct_names as [-> ->]. discriminate.
Qed.
Print Assumptions C07_copy_needs_distinct_names_refuted.

Example C07_copy_nonvacuous :
  let h := hrun CopyFixed [fresh KElement w_s0 0] [Op 0 (ObjClear wp); Op 0 (ObjAdd wp [98]%N); Copy 0] in
  option_map (fun c => (view_props c wp, xml_props c wp)) (hget h 1) = Some ([[98]%N], [[98]%N]).
Proof. vm_compute. reflexivity. Qed.

(* The pre-fix EventElement.copy() (deepcopy keeps the callbacks of the original) violates both clauses: *)
Theorem C07_deepcopy_refuted :
  exists h0 ops, let h := hrun CopyDeep h0 ops in
    (exists o0, hget (hrun CopyDeep h0 (firstn 2 ops)) 0 = Some o0 /\
                option_map (fun o => xml_props o wp) (hget h 0) <> Some (xml_props o0 wp)) /\
    (exists o1, hget h 1 = Some o1 /\ view_props o1 wp <> xml_props o1 wp).
Proof.
  exists [fresh KElement w_s0 0], w_hist. cbn zeta. split.
  - eexists. split; [vm_compute; reflexivity|]. vm_compute. discriminate.
  - eexists. split; [vm_compute; reflexivity|]. vm_compute. discriminate.
Qed.
Print Assumptions C07_deepcopy_refuted.

Example C07_nonvacuous :
  let '(o, flags) := orun 0 (fresh KParsed w_s0 0) [ObjRemove wp [120]%N; ObjAdd wp [98]%N; Flush; DelItem wp] in
  flags = [false; true; true; true] /\ view_props o wp = [] /\ xml_props o wp = [].
Proof. vm_compute. repeat split; reflexivity. Qed.
