From EdxmlVerif Require Import Base.Prelude Event.Repr.
