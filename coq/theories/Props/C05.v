(* C05 — Merging is insensitive to arrival order, duplication and batching.
   Statements only (proofs in Event/Merge_order_proofs.v). Results are compared per property
   as object SETS (`seteq`), which is what an event's property holds. *)
From EdxmlVerif Require Import Base.Prelude Base.Bytes Event.Merge Event.Merge_proofs Event.Merge_order_proofs
  Event.Stream Event.Collection Event.Collection_proofs Event.Collection_perm Event.Stream_proofs.
From Coq Require Import Permutation.

Section C05.
Variable rank : str -> str -> Z.
Variable et : etype.
Notation select := (select rank FirstSet et).
Notation merge_core := (merge_core rank FirstSet et).

(* every permutation of the group gives the same result, per order-free strategy *)
Theorem C05_perm_add : forall evs evs' p, Permutation evs evs' -> strat_of et p = SAdd ->
  seteq (select evs p) (select evs' p).
Proof. exact (select_perm_add rank et). Qed.
Theorem C05_perm_match : forall evs evs' p e0, Permutation evs evs' -> strat_of et p = SMatch ->
  In e0 evs -> (forall e, In e evs -> seteq (get e p) (get e0 p)) ->      (* instances share the hash *)
  seteq (select evs p) (select evs' p).
Proof. exact (select_perm_match rank et). Qed.
(* min / max: under the hypothesis that the data type's ordering distinguishes the objects present
   (two valid spellings of one number would make the FIRST extreme depend on the order) *)
Theorem C05_perm_min : forall evs evs' p, Permutation evs evs' -> strat_of et p = SMin ->
  rank_injective_on rank p (allvals evs p) -> select evs p = select evs' p.
Proof. exact (select_perm_min rank et). Qed.
Theorem C05_perm_max : forall evs evs' p, Permutation evs evs' -> strat_of et p = SMax ->
  rank_injective_on rank p (allvals evs p) -> select evs p = select evs' p.
Proof. exact (select_perm_max rank et). Qed.
(* replace under an event version (the group is sorted by version before selecting) *)
Theorem C05_perm_replace : forall vp g g' p m,
  et_version et = Some vp -> Permutation g g' -> g <> [] ->
  merge rank FirstSet et g = Some m ->
  (forall a b, In a g -> In b g -> vkey rank vp a = vkey rank vp b -> version_str vp a = version_str vp b) ->
  strat_of et p = SReplace -> In p (map fst (et_strat et)) ->
  seteq (select (vsort rank vp g) p) (select (vsort rank vp g') p).
Proof. exact (replace_perm rank et). Qed.
Theorem C05_perm_parents : forall evs evs' h, Permutation evs evs' ->
  (In h (me_parents (merge_core evs)) <-> In h (me_parents (merge_core evs'))).
Proof.
  intros evs evs' h P. rewrite !(merge_parents rank et).
  split; intros (e & He & Hh); exists e; (split; [|exact Hh]); eapply Permutation_in; try eassumption.
  apply Permutation_sym; exact P.
Qed.

(* merging an event with copies of itself returns an equal event *)
Theorem C05_dup : forall e n p,
  (match strat_of et p with SMin | SMax => length (get e p) <= 1 | _ => True end) ->
  seteq (select (repeat e (S n)) p) (get e p).
Proof. exact (select_dup rank et). Qed.

(* batching: for ANY partition of a group into consecutive blocks, merging the partial merges
   equals merging all at once (every strategy that exists without an event version) *)
Theorem C05_batching : forall (blocks : list (list mevent)) p,
  Forall (Forall wf) blocks -> strat_of et p <> SReplace ->
  seteq (select (map merge_core blocks) p) (select (concat blocks) p).
Proof. exact (select_blocks rank et). Qed.
Theorem C05_batching_parents : forall (blocks : list (list mevent)) h,
  In h (me_parents (merge_core (map merge_core blocks))) <-> In h (me_parents (merge_core (concat blocks))).
Proof. exact (parents_blocks rank et). Qed.
End C05.

Print Assumptions C05_perm_add.
Print Assumptions C05_perm_match.
Print Assumptions C05_perm_min.
Print Assumptions C05_perm_max.
Print Assumptions C05_perm_replace.
Print Assumptions C05_perm_parents.
Print Assumptions C05_dup.
Print Assumptions C05_batching.
Print Assumptions C05_batching_parents.

(* Without the injectivity hypothesis min is order dependent (first minimal element wins): *)
Theorem C05_min_noninjective_refuted :
  exists rank et evs evs' p, Permutation evs evs' /\ strat_of et p = SMin /\
    Merge.select rank FirstSet et evs p <> Merge.select rank FirstSet et evs' p.
Proof.
  exists (fun _ _ => 0%Z), {| et_strat := [([109]%N, SMin)]; et_version := None |},
    [{| me_props := [([109]%N, [[49]%N])]; me_parents := []; me_tag := 1 |};
     {| me_props := [([109]%N, [[48; 49]%N])]; me_parents := []; me_tag := 2 |}],
    [{| me_props := [([109]%N, [[48; 49]%N])]; me_parents := []; me_tag := 2 |};
     {| me_props := [([109]%N, [[49]%N])]; me_parents := []; me_tag := 1 |}], [109]%N.
  split; [apply perm_swap|]. split; [reflexivity|]. vm_compute. discriminate.
Qed.
Print Assumptions C05_min_noninjective_refuted.

(* ---- the stream mergers of edxml-merge (models in Event/Stream.v, run against the two classes on every check) ----
   Premises: the event type has no version property and no `replace` strategy (the batching law), events are well formed
   and hold at most one object for properties merged by min / max (as valid events do). *)
Section C05_streams.
Variable rank : str -> str -> Z.
Variable et : etype.
Hypothesis no_version : et_version et = None.
Hypothesis no_replace : forall p, strat_of et p <> SReplace.

(* BufferingEDXMLEventMerger: for EVERY buffer size and stream, the logical events of the output (its events merged
   per hash) are the logical events of the input *)
Theorem C05_buffering_merger : forall n s out,
  Forall (fun it => wf (snd it)) s -> Forall (fun it => single_valued_extremes et (snd it)) s ->
  buffered rank FirstSet et true n [] 0 s = Some out ->
  exists r1 r2, logical rank FirstSet et out = Some r1 /\ logical rank FirstSet et s = Some r2 /\
                forall h, agree_at r1 r2 h.
Proof. exact (buffered_logical rank et no_version no_replace). Qed.

(* EDXMLEventMerger (one running merge per hash): its buffer at the end holds the logical events of the input *)
Theorem C05_unbuffered_merger : forall s out,
  Forall (fun it => wf (snd it)) s -> Forall (fun it => single_valued_extremes et (snd it)) s ->
  fold_merger rank FirstSet et [] s = Some out ->
  exists r2, logical rank FirstSet et s = Some r2 /\ forall h, agree_at out r2 h.
Proof. exact (fold_merger_logical rank et no_version no_replace). Qed.
End C05_streams.
Print Assumptions C05_buffering_merger.
Print Assumptions C05_unbuffered_merger.

Definition ws_et := {| et_strat := [([112]%N, SMatch); ([97]%N, SAdd); ([109]%N, SMin)]; et_version := None |}.
Definition ws_e (a m : N) (par : list str) :=
  {| me_props := [([112]%N, [[120]%N]); ([97]%N, [[a]]); ([109]%N, [[m]])]; me_parents := par; me_tag := 1 |}.
Definition ws_s : list item := [([104]%N, ws_e 49 53 [[7]%N]); ([102]%N, ws_e 50 52 []); ([104]%N, ws_e 51 51 []); ([104]%N, ws_e 49 57 [[8]%N])].
Example C05_streams_nonvacuous :
  et_version ws_et = None /\ (forall p, strat_of ws_et p <> SReplace) /\
  Forall (fun it => wf (snd it)) ws_s /\ Forall (fun it => single_valued_extremes ws_et (snd it)) ws_s /\
  (exists out, buffered (fun _ v => Z.of_N (hd 0%N v)) FirstSet ws_et true 2 [] 0 ws_s = Some out /\ length out = 3) /\
  (exists out, fold_merger (fun _ v => Z.of_N (hd 0%N v)) FirstSet ws_et [] ws_s = Some out /\ length out = 2).
Proof.
  split; [reflexivity|]. split.
  { intro p. unfold strat_of, ws_et. cbn [et_strat aget].
    destruct (str_eqb p [112]%N); [discriminate|]. destruct (str_eqb p [97]%N); [discriminate|].
    destruct (str_eqb p [109]%N); discriminate. }
  split.
  { repeat constructor; cbn; intuition congruence. }
  split.
  { repeat constructor; intro p; unfold strat_of, ws_et, get, ws_e; cbn [et_strat aget me_props snd];
      destruct (str_eqb p [112]%N); cbn [odefault]; try exact I;
      destruct (str_eqb p [97]%N); cbn [odefault]; try exact I;
      destruct (str_eqb p [109]%N); cbn [odefault length]; try exact I; lia. }
  split; eexists; (split; [vm_compute; reflexivity | reflexivity]).
Qed.
