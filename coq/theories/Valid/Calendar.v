(* C13 — exhaustive verification of the calendar conversion, split into chunks that compile in parallel. *)
From Coq Require Import Lia.
From EdxmlVerif Require Import Base.Prelude Valid.Gate Valid.Normalize.
Local Open Scope Z_scope.

Definition ord_ok (n : Z) : bool := let '(y, m, d) := civil_of_ordinal n in valid_date y m d && (ordinal y m d =? n).

(* binary splitting over [lo, lo + 2^k), below limit *)
Fixpoint check_range (k : nat) (lo : Z) (limit : Z) : bool :=
  match k with
  | O => if lo <? limit then ord_ok lo else true
  | S k' => check_range k' lo limit && check_range k' (lo + 2 ^ Z.of_nat k') limit
  end.

Lemma check_range_spec k : forall lo limit, check_range k lo limit = true ->
  forall n, lo <= n < lo + 2 ^ Z.of_nat k -> n < limit -> ord_ok n = true.
Proof.
  induction k as [|k IH]; intros lo limit H n Hn Hl.
  - cbn in Hn. assert (n = lo) by lia. subst. cbn in H. destruct (lo <? limit) eqn:E; [exact H | lia].
  - cbn [check_range] in H. apply andb_true_iff in H. destruct H as (H1 & H2).
    rewrite Nat2Z.inj_succ, Z.pow_succ_r in Hn by lia.
    destruct (Z_lt_le_dec n (lo + 2 ^ Z.of_nat k)).
    + apply (IH _ _ H1); lia.
    + apply (IH _ _ H2); lia.
Qed.
