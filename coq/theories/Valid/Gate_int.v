(* C03 — for the integer data types the gate decides exactly the stated value space, for EVERY string:
   the schema the SDK emits (an XSD integer type with facets plus the pattern P_UNSIGNED or P_SIGNED below)
   accepts a string iff it is a canonical ASCII decimal numeral (no sign for zero, no plus, no leading zeros,
   no whitespace, no non-ASCII digits) whose value lies in the range of the type. *)
From Coq Require Import Lia ZifyBool.
From EdxmlVerif Require Import Base.Prelude Base.Regex Valid.Gate.

Definition ND : str := [78; 100]%N.
Definition P_UNSIGNED : re := Alt (Cat (Chr (CRange 49 57)) (Star (Chr (CProp ND)))) (Chr (CRange 48 48)).
Definition P_SIGNED : re := Alt (Cat (ropt (Chr (CRange 45 45))) (Cat (Chr (CRange 49 57)) (Star (Chr (CProp ND))))) (Chr (CRange 48 48)).

(* the stated value space *)
Definition canon_uint (s : str) : bool :=
  match s with
  | [] => false
  | [c] => is_digit c
  | c :: r => (49 <=? c)%N && (c <=? 57)%N && forallb is_digit r
  end.
Definition canon_int (s : str) : bool :=
  match s with
  | 45%N :: ((c :: _) as r) => (49 <=? c)%N && (c <=? 57)%N && forallb is_digit r     (* no "-0" *)
  | _ => canon_uint s
  end.

Section Int.
  Variable uprop : str -> N -> bool.
  Hypothesis nd_ascii : forall c, is_digit c = true -> uprop ND c = true.

  Notation rm := (rmatch uprop).
  Notation run r s := (fold_left (fun acc x => deriv uprop x acc) s r).

  Lemma run_empty s : run Empty s = Empty.
  Proof. induction s as [|x r IH]; cbn; [reflexivity | exact IH]. Qed.

  Lemma rm_eps s : rm Eps s = match s with [] => true | _ => false end.
  Proof. destruct s as [|x r]; [reflexivity|]. unfold rmatch. cbn. rewrite run_empty. reflexivity. Qed.

  Lemma rm_star_chr c s : rm (Star (Chr c)) s = forallb (cin uprop c) s.
  Proof.
    unfold rmatch. induction s as [|x r IH]; [reflexivity|]. cbn [fold_left forallb deriv].
    destruct (cin uprop c x); cbn [mkcat andb]; [exact IH | rewrite run_empty; reflexivity].
  Qed.

  Definition digits_nd (r : str) : bool := forallb (uprop ND) r.

  Lemma rm_unsigned s : rm P_UNSIGNED s =
    match s with
    | [] => false
    | x :: r => if (49 <=? x)%N && (x <=? 57)%N then digits_nd r
                else if N.eqb x 48 then (match r with [] => true | _ => false end) else false
    end.
  Proof.
    destruct s as [|x r]; [reflexivity|]. unfold rmatch, P_UNSIGNED. cbn [fold_left deriv nullable cin andb].
    destruct ((49 <=? x)%N && (x <=? 57)%N) eqn:A.
    - assert ((48 <=? x)%N && (x <=? 48)%N = false) as -> by lia. cbn [mkcat mkalt].
      fold (rmatch uprop (Star (Chr (CProp ND))) r). rewrite rm_star_chr. reflexivity.
    - cbn [mkcat mkalt]. destruct (N.eqb_spec x 48) as [->|N0].
      + cbn [N.leb andb mkalt]. change ((48 <=? 48)%N && (48 <=? 48)%N) with true. cbn [mkalt].
        fold (rmatch uprop Eps r). apply rm_eps.
      + assert ((48 <=? x)%N && (x <=? 48)%N = false) as -> by lia. cbn [mkalt]. rewrite run_empty. reflexivity.
  Qed.

  (* reading a digit string *)
  Lemma digits_val_some s : forall acc, forallb is_digit s = true -> exists z, digits_val s acc = Some z.
  Proof. induction s as [|c r IH]; intros acc H; [exists acc; reflexivity|]. cbn in *. apply andb_true_iff in H. destruct H as (Hc & Hr). rewrite Hc. apply IH. exact Hr. Qed.
  Lemma digits_val_digits s : forall acc z, digits_val s acc = Some z -> forallb is_digit s = true.
  Proof. induction s as [|c r IH]; intros acc z H; [reflexivity|]. cbn in *. destruct (is_digit c); [apply (IH _ _ H) | discriminate]. Qed.

  (* no whitespace: the whiteSpace=collapse facet changes nothing *)
  Lemma no_ws_digit c : is_digit c = true -> is_ws c = false.
  Proof. unfold is_digit, is_ws. lia. Qed.

  Lemma collapse_inner_id s : forallb (fun c => negb (is_ws c)) s = true -> forall b, collapse_inner s b = s.
  Proof.
    induction s as [|c r IH]; intros H b; [reflexivity|]. cbn in H. apply andb_true_iff in H. destruct H as (Hc & Hr).
    apply negb_true_iff in Hc. cbn. rewrite Hc. f_equal. apply IH. exact Hr.
  Qed.
  Lemma ltrim_id s : forallb (fun c => negb (is_ws c)) s = true -> ltrim s = s.
  Proof. destruct s as [|c r]; [reflexivity|]. cbn. intros H. apply andb_true_iff in H. destruct H as (Hc & _). apply negb_true_iff in Hc. rewrite Hc. reflexivity. Qed.
  Lemma collapse_id s : forallb (fun c => negb (is_ws c)) s = true -> collapse s = s.
  Proof.
    intros H. unfold collapse. rewrite collapse_inner_id by exact H. unfold trim. rewrite (ltrim_id s H).
    rewrite ltrim_id; [apply rev_involutive|]. rewrite forallb_forall in *. intros c Hc. apply H. apply in_rev. exact Hc.
  Qed.

  Definition in_range (lo hi : Z) (z : Z) : bool := (lo <=? z)%Z && (z <=? hi)%Z.
  Definition value_of (s : str) : option Z := parse_int s.

  (* the specification: canonical numeral with a value in range *)
  Definition spec_unsigned (lo hi : Z) (s : str) : bool :=
    canon_uint s && match value_of s with Some z => in_range lo hi z | None => false end.

  Definition uint_spec (t : xtype) (mn mx : option Z) : dataspec :=
    {| d_type := t; d_min := mn; d_max := mx; d_minlen := None; d_maxlen := None; d_patterns := [P_UNSIGNED] |}.

  Definition facet_range (t : xtype) (mn mx : option Z) (z : Z) : bool :=
    match int_range t with
    | Some (lo, hi) => in_range lo hi z && match mn with Some m => (m <=? z)%Z | None => true end && match mx with Some m => (z <=? m)%Z | None => true end
    | None => false
    end.

  Lemma canon_uint_no_ws s : canon_uint s = true -> forallb (fun c => negb (is_ws c)) s = true /\ forallb is_digit s = true.
  Proof.
    destruct s as [|c r]; [discriminate|]. cbn [canon_uint]. destruct r as [|c2 r2].
    - intros H. cbn. rewrite H, (no_ws_digit c H). auto.
    - intros H. apply andb_true_iff in H. destruct H as (H & D). assert (Dc : is_digit c = true) by (unfold is_digit; lia).
      split.
      + apply forallb_forall. intros x [<-|Hx]; [rewrite (no_ws_digit c Dc); reflexivity|]. rewrite forallb_forall in D. rewrite (no_ws_digit x (D x Hx)). reflexivity.
      + cbn [forallb]. rewrite Dc. exact D.
  Qed.

  (* whitespace is not a decimal digit of any script (a fact about the Unicode table the gate is given) *)
  Hypothesis nd_not_ws : forall c, uprop ND c = true -> is_ws c = false.

  Lemma pattern_of_canon v : canon_uint v = true -> rm P_UNSIGNED v = true.
  Proof.
    intros CU. rewrite rm_unsigned. destruct v as [|x r]; [discriminate|]. cbn [canon_uint] in CU. destruct r as [|x2 r2].
    - unfold is_digit in CU. destruct ((49 <=? x)%N && (x <=? 57)%N) eqn:A; [reflexivity|]. assert (x = 48%N) by lia. subst. reflexivity.
    - apply andb_true_iff in CU. destruct CU as (A & D). rewrite A. unfold digits_nd. apply forallb_forall. intros c Hc.
      apply nd_ascii. rewrite forallb_forall in D. apply D. exact Hc.
  Qed.

  Lemma pattern_no_ws v : rm P_UNSIGNED v = true -> forallb (fun c => negb (is_ws c)) v = true.
  Proof.
    rewrite rm_unsigned. destruct v as [|x r]; [discriminate|]. intros H. cbn [forallb].
    destruct ((49 <=? x)%N && (x <=? 57)%N) eqn:A.
    - assert (is_ws x = false) as -> by (unfold is_ws; lia). cbn. apply forallb_forall. intros c Hc. unfold digits_nd in H. rewrite forallb_forall in H.
      rewrite (nd_not_ws c (H c Hc)). reflexivity.
    - destruct (N.eqb_spec x 48) as [->|N0]; [|discriminate]. destruct r; [reflexivity | discriminate].
  Qed.

  Lemma pattern_digits_canon v : rm P_UNSIGNED v = true -> forallb is_digit v = true -> canon_uint v = true.
  Proof.
    rewrite rm_unsigned. destruct v as [|x r]; [discriminate|]. intros H D. cbn [forallb] in D. apply andb_true_iff in D. destruct D as (Dx & Dr).
    cbn [canon_uint]. destruct r as [|x2 r2]; [exact Dx|].
    destruct ((49 <=? x)%N && (x <=? 57)%N) eqn:A; [cbn; exact Dr|]. destruct (N.eqb_spec x 48); discriminate.
  Qed.

  Lemma normalise_id t v : forallb (fun c => negb (is_ws c)) v = true -> normalise t v = v.
  Proof.
    intros NW. unfold normalise. destruct t; try reflexivity; try (apply collapse_id; exact NW).
    unfold replace_ws. rewrite <- (map_id v) at 2. apply map_ext_in. intros c Hc. rewrite forallb_forall in NW. specialize (NW c Hc). apply negb_true_iff in NW. rewrite NW. reflexivity.
  Qed.

  Lemma parse_int_unsigned_shape x r : (48 <=? x)%N && (x <=? 57)%N = true -> parse_int (x :: r) = digits_val (x :: r) 0.
  Proof.
    intros D. unfold parse_int. destruct x as [|xp]; [lia|].
    repeat (destruct xp as [xp|xp|]; try reflexivity; try lia).
  Qed.

  (* unsigned integer types: the gate is the stated value space *)
  Theorem gate_unsigned t mn mx v : (exists lo hi, int_range t = Some (lo, hi)) ->
    gate_data uprop (uint_spec t mn mx) v =
    canon_uint v && match value_of v with Some z => facet_range t mn mx z | None => false end.
  Proof.
    intros (lo & hi & IR). unfold gate_data, uint_spec. cbn [d_patterns d_type d_min d_max forallb]. rewrite andb_true_r, IR.
    unfold facet_range. rewrite IR. unfold value_of, in_range.
    destruct (rm P_UNSIGNED v) eqn:PM.
    - cbn [andb]. rewrite (normalise_id t v (pattern_no_ws v PM)).
      destruct (parse_int v) as [z|] eqn:PI; [|rewrite andb_false_r; reflexivity].
      assert (CU : canon_uint v = true).
      { apply pattern_digits_canon; [exact PM|]. rewrite rm_unsigned in PM. destruct v as [|x r]; [discriminate|].
        assert (D : (48 <=? x)%N && (x <=? 57)%N = true).
        { destruct ((49 <=? x)%N && (x <=? 57)%N) eqn:A; [lia|]. destruct (N.eqb_spec x 48); [lia | discriminate]. }
        rewrite (parse_int_unsigned_shape x r D) in PI. eapply digits_val_digits. exact PI. }
      rewrite CU. reflexivity.
    - cbn [andb]. destruct (canon_uint v) eqn:CU; [rewrite (pattern_of_canon v CU) in PM; discriminate | reflexivity].
  Qed.

  (* ---- signed types ---- *)
  Definition BODY : re := Cat (Chr (CRange 49 57)) (Star (Chr (CProp ND))).

  Lemma rm_body s : rm BODY s = match s with [] => false | y :: r => (49 <=? y)%N && (y <=? 57)%N && digits_nd r end.
  Proof.
    destruct s as [|y r]; [reflexivity|]. unfold rmatch, BODY. cbn [fold_left deriv nullable cin].
    destruct ((49 <=? y)%N && (y <=? 57)%N); cbn [mkcat andb].
    - fold (rmatch uprop (Star (Chr (CProp ND))) r). apply rm_star_chr.
    - rewrite run_empty. reflexivity.
  Qed.

  Lemma rm_signed s : rm P_SIGNED s =
    match s with
    | [] => false
    | x :: r => if N.eqb x 45 then rm BODY r
                else if (49 <=? x)%N && (x <=? 57)%N then digits_nd r
                else if N.eqb x 48 then (match r with [] => true | _ => false end) else false
    end.
  Proof.
    destruct s as [|x r]; [reflexivity|].
    assert (D : deriv uprop x P_SIGNED =
                mkalt (mkalt (mkcat (mkalt Empty (if (45 <=? x)%N && (x <=? 45)%N then Eps else Empty)) BODY)
                             (mkcat (if (49 <=? x)%N && (x <=? 57)%N then Eps else Empty) (Star (Chr (CProp ND)))))
                      (if (48 <=? x)%N && (x <=? 48)%N then Eps else Empty)) by reflexivity.
    unfold rmatch. cbn [fold_left]. rewrite D. clear D.
    destruct (N.eqb_spec x 45) as [->|N45].
    - change ((45 <=? 45)%N && (45 <=? 45)%N) with true. change ((49 <=? 45)%N && (45 <=? 57)%N) with false. change ((48 <=? 45)%N && (45 <=? 48)%N) with false.
      reflexivity.
    - assert ((45 <=? x)%N && (x <=? 45)%N = false) as -> by lia.
      destruct ((49 <=? x)%N && (x <=? 57)%N) eqn:A.
      + assert ((48 <=? x)%N && (x <=? 48)%N = false) as -> by lia. cbn [mkcat mkalt].
        fold (rmatch uprop (Star (Chr (CProp ND))) r). rewrite rm_star_chr. reflexivity.
      + destruct (N.eqb_spec x 48) as [->|N0].
        * change ((48 <=? 48)%N && (48 <=? 48)%N) with true. cbn [mkcat mkalt]. fold (rmatch uprop Eps r). apply rm_eps.
        * assert ((48 <=? x)%N && (x <=? 48)%N = false) as -> by lia. cbn [mkcat mkalt]. rewrite run_empty. reflexivity.
  Qed.

  Definition sint_spec (t : xtype) (mn mx : option Z) : dataspec :=
    {| d_type := t; d_min := mn; d_max := mx; d_minlen := None; d_maxlen := None; d_patterns := [P_SIGNED] |}.

  Lemma signed_no_ws v : rm P_SIGNED v = true -> forallb (fun c => negb (is_ws c)) v = true.
  Proof.
    rewrite rm_signed. destruct v as [|x r]; [discriminate|]. cbn [forallb].
    destruct (N.eqb_spec x 45) as [->|N45].
    - rewrite rm_body. destruct r as [|y r2]; [discriminate|]. intros H. apply andb_true_iff in H. destruct H as (A & D).
      cbn. assert (is_ws y = false) as -> by (unfold is_ws; lia). cbn. apply forallb_forall. intros c Hc. unfold digits_nd in D. rewrite forallb_forall in D.
      rewrite (nd_not_ws c (D c Hc)). reflexivity.
    - intros H. destruct ((49 <=? x)%N && (x <=? 57)%N) eqn:A.
      + assert (is_ws x = false) as -> by (unfold is_ws; lia). cbn. apply forallb_forall. intros c Hc. unfold digits_nd in H. rewrite forallb_forall in H.
        rewrite (nd_not_ws c (H c Hc)). reflexivity.
      + destruct (N.eqb_spec x 48) as [->|N0]; [|discriminate]. destruct r; [reflexivity | discriminate].
  Qed.

  Lemma signed_of_canon v : canon_int v = true -> rm P_SIGNED v = true.
  Proof.
    intros CI. rewrite rm_signed. destruct v as [|x r]; [discriminate|].
    destruct (N.eqb_spec x 45) as [->|N45].
    - cbn [canon_int] in CI. destruct r as [|y r2]; [cbn in CI; discriminate|]. rewrite rm_body.
      apply andb_true_iff in CI. destruct CI as (A & D). rewrite A. cbn [andb]. unfold digits_nd. apply forallb_forall. intros c Hc.
      apply nd_ascii. cbn [forallb] in D. apply andb_true_iff in D. destruct D as (_ & D). rewrite forallb_forall in D. apply D. exact Hc.
    - assert (CU : canon_uint (x :: r) = true).
      { destruct x as [|xp]; [exact CI|]. repeat (destruct xp as [xp|xp|]; try exact CI; try congruence). }
      pose proof (pattern_of_canon _ CU) as PM. rewrite rm_unsigned in PM. exact PM.
  Qed.

  Lemma canon_int_not_minus x r : x <> 45%N -> canon_int (x :: r) = canon_uint (x :: r).
  Proof. intros N0. destruct x as [|xp]; [reflexivity|]. repeat (destruct xp as [xp|xp|]; try reflexivity; try congruence). Qed.

  Theorem gate_signed t mn mx v : (exists lo hi, int_range t = Some (lo, hi)) ->
    gate_data uprop (sint_spec t mn mx) v =
    canon_int v && match value_of v with Some z => facet_range t mn mx z | None => false end.
  Proof.
    intros (lo & hi & IR). unfold gate_data, sint_spec. cbn [d_patterns d_type d_min d_max forallb]. rewrite andb_true_r, IR.
    unfold facet_range. rewrite IR. unfold value_of, in_range.
    destruct (rm P_SIGNED v) eqn:PM.
    - cbn [andb]. rewrite (normalise_id t v (signed_no_ws v PM)).
      destruct (parse_int v) as [z|] eqn:PI; [|rewrite andb_false_r; reflexivity].
      assert (CI : canon_int v = true).
      { rewrite rm_signed in PM. destruct v as [|x r]; [discriminate|].
        destruct (N.eqb_spec x 45) as [->|N45].
        - rewrite rm_body in PM. destruct r as [|y r2]; [discriminate|]. apply andb_true_iff in PM. destruct PM as (A & D).
          cbn [canon_int]. rewrite A. cbn [andb].
          unfold parse_int in PI. destruct (digits_val (y :: r2) 0) as [w|] eqn:DV; [|discriminate].
          eapply digits_val_digits. exact DV.
        - rewrite (canon_int_not_minus x r N45). apply pattern_digits_canon.
          + rewrite rm_unsigned. exact PM.
          + assert (D : (48 <=? x)%N && (x <=? 57)%N = true).
            { destruct ((49 <=? x)%N && (x <=? 57)%N) eqn:A; [lia|]. destruct (N.eqb_spec x 48); [lia | discriminate]. }
            rewrite (parse_int_unsigned_shape x r D) in PI. eapply digits_val_digits. exact PI. }
      rewrite CI. reflexivity.
    - cbn [andb]. destruct (canon_int v) eqn:CI; [rewrite (signed_of_canon v CI) in PM; discriminate | reflexivity].
  Qed.
End Int.

(* ---- recognising the integer schemas among the translated ones (T1) ---- *)
Fixpoint cset_eqb (a b : cset) : bool :=
  match a, b with
  | CRange l h, CRange l' h' => N.eqb l l' && N.eqb h h'
  | CUnion x y, CUnion x' y' | CDiff x y, CDiff x' y' => cset_eqb x x' && cset_eqb y y'
  | CNeg x, CNeg x' => cset_eqb x x'
  | CProp n, CProp n' => str_eqb n n'
  | CAny, CAny => true
  | _, _ => false
  end.
Fixpoint re_eqb (a b : re) : bool :=
  match a, b with
  | Empty, Empty | Eps, Eps => true
  | Chr c, Chr c' => cset_eqb c c'
  | Cat x y, Cat x' y' | Alt x y, Alt x' y' => re_eqb x x' && re_eqb y y'
  | Star x, Star x' => re_eqb x x'
  | _, _ => false
  end.
Definition xtype_eqb (a b : xtype) : bool :=
  match a, b with
  | XByte, XByte | XUByte, XUByte | XShort, XShort | XUShort, XUShort | XInt, XInt | XUInt, XUInt | XLong, XLong | XULong, XULong
  | XString, XString | XToken, XToken | XNormalized, XNormalized => true
  | _, _ => false
  end.
Definition dataspec_eqb (a b : dataspec) : bool :=
  xtype_eqb (d_type a) (d_type b) && option_eqb Z.eqb (d_min a) (d_min b) && option_eqb Z.eqb (d_max a) (d_max b) &&
  option_eqb Nat.eqb (d_minlen a) (d_minlen b) && option_eqb Nat.eqb (d_maxlen a) (d_maxlen b) && list_eqb re_eqb (d_patterns a) (d_patterns b).

Lemma cset_eqb_eq a : forall b, cset_eqb a b = true -> a = b.
Proof.
  induction a; destruct b; cbn; try discriminate; intros H;
    repeat match goal with H : _ && _ = true |- _ => apply andb_true_iff in H; destruct H end;
    repeat match goal with H : N.eqb _ _ = true |- _ => apply N.eqb_eq in H; subst end;
    repeat match goal with H : str_eqb _ _ = true |- _ => apply str_eqb_eq in H; subst end;
    try reflexivity; f_equal; auto.
Qed.
Lemma re_eqb_eq a : forall b, re_eqb a b = true -> a = b.
Proof.
  induction a; destruct b; cbn; try discriminate; intros H;
    repeat match goal with H : _ && _ = true |- _ => apply andb_true_iff in H; destruct H end;
    try reflexivity; f_equal; auto using cset_eqb_eq.
Qed.
Lemma dataspec_eqb_eq a b : dataspec_eqb a b = true -> a = b.
Proof.
  unfold dataspec_eqb. destruct a as [t1 mn1 mx1 nl1 xl1 p1], b as [t2 mn2 mx2 nl2 xl2 p2]. cbn [d_type d_min d_max d_minlen d_maxlen d_patterns].
  intros H. repeat (apply andb_true_iff in H; destruct H as (H & ?)).
  assert (OZ : forall (x y : option Z), option_eqb Z.eqb x y = true -> x = y) by (intros [x|] [y|]; cbn; try discriminate; [intros E; apply Z.eqb_eq in E; congruence | reflexivity]).
  assert (ON : forall (x y : option nat), option_eqb Nat.eqb x y = true -> x = y) by (intros [x|] [y|]; cbn; try discriminate; [intros E; apply Nat.eqb_eq in E; congruence | reflexivity]).
  assert (ET : t1 = t2) by (destruct t1, t2; try discriminate; reflexivity).
  assert (EP : p1 = p2).
  { match goal with E : list_eqb re_eqb p1 p2 = true |- _ => revert E end. revert p2. induction p1 as [|p r IH]; intros [|q s] E; cbn in E; try discriminate; [reflexivity|].
    apply andb_true_iff in E. destruct E as (E1 & E2). f_equal; [apply re_eqb_eq; exact E1 | apply IH; exact E2]. }
  subst. f_equal; auto.
Qed.
