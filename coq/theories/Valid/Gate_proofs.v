(* C03 — proofs about the gate model: the schema cache never serves a stale schema, the order of the
   property elements is irrelevant (interleave = counting), choices are exact. *)
From EdxmlVerif Require Import Base.Prelude Base.Regex Valid.Gate.

(* ---------------- validator cache: the verdict depends only on the current ontology ---------------- *)
Section CacheProofs.
  Variable schema_of : nat -> str -> N.

  Inductive vop := Mut (bump : bool) | Val (t : str).
  (* world: ontology state number, its change counter, the validator *)
  Record world := { w_onto : nat; w_counter : nat; w_val : vstate }.

  Definition wstep (remember : bool) (w : world) (o : vop) : world * option N :=
    match o with
    | Mut bump => ({| w_onto := S (w_onto w); w_counter := if bump then S (w_counter w) else w_counter w; w_val := w_val w |}, None)
    | Val t => let '(st, s) := vget schema_of remember (w_val w) (w_counter w) (w_onto w) t in
               ({| w_onto := w_onto w; w_counter := w_counter w; w_val := st |}, Some s)
    end.

  Fixpoint wrun (remember : bool) (w : world) (ops : list vop) : list N :=
    match ops with
    | [] => []
    | o :: r => let '(w', out) := wstep remember w o in
                match out with Some s => s :: wrun remember w' r | None => wrun remember w' r end
    end.
  (* what a fresh validator would use *)
  Fixpoint wspec (onto : nat) (ops : list vop) : list N :=
    match ops with
    | [] => []
    | Mut _ :: r => wspec (S onto) r
    | Val t :: r => schema_of onto t :: wspec onto r
    end.

  Definition winv (w : world) : Prop :=
    v_remembered (w_val w) <= w_counter w /\
    (v_remembered (w_val w) < w_counter w \/ forall t s, aget t (v_cache (w_val w)) = Some s -> s = schema_of (w_onto w) t).

  Lemma wstep_inv remember w o : (match o with Mut b => b = true | Val _ => True end) -> winv w ->
    winv (fst (wstep remember w o)) /\
    match o with Val t => snd (wstep remember w o) = Some (schema_of (w_onto w) t) | Mut _ => True end.
  Proof.
    intros Hb [Hle Hd]. destruct o as [b|t]; cbn [wstep].
    - subst b. split; [|exact I]. unfold winv; cbn. split; [lia | left; lia].
    - unfold vget. destruct (Nat.ltb_spec (v_remembered (w_val w)) (w_counter w)) as [L|L].
      + (* cache cleared *)
        cbn [v_cache aget]. cbn. split; [|reflexivity]. unfold winv; cbn.
        destruct remember; cbn.
        * split; [lia|]. right. intros t' s' G. cbn in G. destruct (str_eqb t' t) eqn:E; [|discriminate].
          apply str_eqb_eq in E; subst. injection G as <-. reflexivity.
        * split; [lia | left; exact L].
      + destruct Hd as [Hd|Hd]; [lia|].
        destruct (aget t (v_cache (w_val w))) as [s|] eqn:G; cbn.
        * split; [split; [exact Hle | right; exact Hd]|]. rewrite (Hd t s G). reflexivity.
        * split; [|reflexivity]. split; [exact Hle|]. right. intros t' s' G'. cbn in G' |- *.
          destruct (str_eqb t t') eqn:E.
          -- apply str_eqb_eq in E; subst. rewrite aget_aset_same in G'. injection G' as <-. reflexivity.
          -- apply str_eqb_neq in E. rewrite aget_aset_other in G' by exact E. apply Hd. exact G'.
  Qed.

  Lemma cache_never_stale remember : forall ops w,
    Forall (fun o => match o with Mut b => b = true | Val _ => True end) ops -> winv w ->
    wrun remember w ops = wspec (w_onto w) ops.
  Proof.
    induction ops as [|o r IH]; intros w F I; cbn [wrun wspec]; [reflexivity|].
    inversion F as [|? ? Ho Fr]; subst.
    destruct (wstep_inv remember w o Ho I) as [I' Hs].
    destruct (wstep remember w o) as [w' out] eqn:E. cbn [fst snd] in *.
    destruct o as [b|t].
    - cbn in E. injection E as <- <-. apply IH; assumption.
    - rewrite Hs. assert (w_onto w' = w_onto w) as Ho'.
      { cbn in E. destruct (vget schema_of remember (w_val w) (w_counter w) (w_onto w) t). injection E as <- _. reflexivity. }
      rewrite (IH w' Fr I'), Ho'. reflexivity.
  Qed.

  Lemma fresh_world_inv onto counter : winv {| w_onto := onto; w_counter := counter; w_val := {| v_remembered := 0; v_cache := [] |} |}.
  Proof. split; cbn; [lia|]. right. intros t s G. discriminate. Qed.
End CacheProofs.

(* a validator that remembers the counter serves a stale schema as soon as a change does not bump the counter *)
Lemma stale_when_counter_missed :
  wrun (fun onto _ => N.of_nat onto) true
       {| w_onto := 0; w_counter := 1; w_val := {| v_remembered := 0; v_cache := [] |} |}
       [Val []; Mut false; Val []]
  <> wspec (fun onto _ => N.of_nat onto) 0 [Val []; Mut false; Val []].
Proof. vm_compute. discriminate. Qed.

(* ---------------- <properties>: an order-sensitive interleave matcher accepts exactly by counting ---------------- *)
Section Interleave.
  (* remaining budget of an occurrence pattern while the children are consumed one by one (how a RelaxNG
     interleave of element / optional / oneOrMore / zeroOrMore patterns is matched) *)
  Record slot := { s_name : str; s_need : nat; s_room : option nat }.

  Fixpoint consume (slots : list slot) (x : str) : option (list slot) :=
    match slots with
    | [] => None
    | s :: r =>
        if str_eqb (s_name s) x then
          match s_room s with
          | Some 0 => None
          | Some (S k) => Some ({| s_name := s_name s; s_need := pred (s_need s); s_room := Some k |} :: r)
          | None => Some ({| s_name := s_name s; s_need := pred (s_need s); s_room := None |} :: r)
          end
        else option_map (cons s) (consume r x)
    end.

  Fixpoint accepts (slots : list slot) (children : list str) : bool :=
    match children with
    | [] => forallb (fun s => Nat.eqb (s_need s) 0) slots
    | x :: r => match consume slots x with Some slots' => accepts slots' r | None => false end
    end.

  Definition cnt (n : str) (children : list str) : nat := length (filter (str_eqb n) children).

  (* counting specification *)
  Definition slot_ok (children : list str) (s : slot) : bool :=
    Nat.leb (s_need s) (cnt (s_name s) children) &&
    match s_room s with Some m => Nat.leb (cnt (s_name s) children) m | None => true end.
  Definition counting (slots : list slot) (children : list str) : bool :=
    forallb (fun x => existsb (fun s => str_eqb (s_name s) x) slots) children && forallb (slot_ok children) slots.

  Lemma str_eqb_sym a b : str_eqb a b = str_eqb b a.
  Proof.
    destruct (str_eqb a b) eqn:E1, (str_eqb b a) eqn:E2; try reflexivity.
    - apply str_eqb_eq in E1; subst. rewrite str_eqb_refl in E2. discriminate.
    - apply str_eqb_eq in E2; subst. rewrite str_eqb_refl in E1. discriminate.
  Qed.

  Definition has_slot (slots : list slot) (x : str) : bool := existsb (fun s => str_eqb (s_name s) x) slots.

  Lemma cnt_cons n x r : cnt n (x :: r) = if str_eqb n x then S (cnt n r) else cnt n r.
  Proof. unfold cnt; cbn. destruct (str_eqb n x); reflexivity. Qed.

  Lemma has_slot_names slots slots' x : map s_name slots' = map s_name slots -> has_slot slots' x = has_slot slots x.
  Proof.
    revert slots'. induction slots as [|s r IH]; intros [|s' r'] E; cbn in E; try discriminate; [reflexivity|].
    injection E as E1 E2. unfold has_slot in *. cbn [existsb]. rewrite E1, (IH r' E2). reflexivity.
  Qed.

  Lemma consume_names slots x slots' : consume slots x = Some slots' -> map s_name slots' = map s_name slots.
  Proof.
    revert slots'. induction slots as [|s r IH]; intros slots' H; cbn in H; [discriminate|].
    destruct (str_eqb (s_name s) x) eqn:E.
    - destruct (s_room s) as [[|k]|]; try discriminate; injection H as <-; reflexivity.
    - destruct (consume r x) as [r'|] eqn:C; [|discriminate]. injection H as <-. cbn. rewrite (IH r' eq_refl). reflexivity.
  Qed.

  Lemma consume_has slots x slots' : consume slots x = Some slots' -> has_slot slots x = true.
  Proof.
    revert slots'. induction slots as [|s r IH]; intros slots' H; cbn in H; [discriminate|]. cbn.
    destruct (str_eqb (s_name s) x) eqn:E; [reflexivity|].
    destruct (consume r x) as [r'|] eqn:C; [|discriminate]. cbn. eapply IH. reflexivity.
  Qed.

  Lemma slot_ok_other x r s : str_eqb (s_name s) x = false -> slot_ok (x :: r) s = slot_ok r s.
  Proof. intro E. unfold slot_ok. rewrite cnt_cons, E. reflexivity. Qed.

  Lemma slots_ok_other x r slots : (forall s, In s slots -> str_eqb (s_name s) x = false) ->
    forallb (slot_ok (x :: r)) slots = forallb (slot_ok r) slots.
  Proof.
    intro H. induction slots as [|s rest IH]; cbn; [reflexivity|].
    rewrite slot_ok_other by (apply H; left; reflexivity). rewrite IH; [reflexivity|]. intros s' Hs'. apply H. right. exact Hs'.
  Qed.

  Lemma nodup_others x s rest : NoDup (map s_name (s :: rest)) -> str_eqb (s_name s) x = true ->
    forall s', In s' rest -> str_eqb (s_name s') x = false.
  Proof.
    intros ND E s' Hin. cbn in ND. inversion ND as [|? ? Hn _]; subst. apply str_eqb_eq in E.
    destruct (str_eqb (s_name s') x) eqn:E'; [|reflexivity]. apply str_eqb_eq in E'. exfalso. apply Hn.
    rewrite E, <- E'. apply in_map. exact Hin.
  Qed.

  Lemma consume_some_ok x r : forall slots slots', NoDup (map s_name slots) -> consume slots x = Some slots' ->
    forallb (slot_ok (x :: r)) slots = forallb (slot_ok r) slots'.
  Proof.
    induction slots as [|s rest IH]; intros slots' ND H; cbn in H; [discriminate|].
    destruct (str_eqb (s_name s) x) eqn:E.
    - pose proof (nodup_others x s rest ND E) as Hothers.
      assert (Hhead : slot_ok (x :: r) s =
                        match s_room s with
                        | Some 0 => false
                        | Some (S k) => slot_ok r {| s_name := s_name s; s_need := pred (s_need s); s_room := Some k |}
                        | None => slot_ok r {| s_name := s_name s; s_need := pred (s_need s); s_room := None |}
                        end).
      { unfold slot_ok. cbn [s_name s_need s_room]. rewrite cnt_cons, E.
        destruct (s_room s) as [[|k]|]; destruct (s_need s) as [|n]; cbn [pred Nat.leb];
          try rewrite andb_false_r; try rewrite andb_true_r; try reflexivity. }
      destruct (s_room s) as [[|k]|]; try discriminate; injection H as <-; cbn [forallb];
        rewrite Hhead, (slots_ok_other x r rest Hothers); reflexivity.
    - destruct (consume rest x) as [r'|] eqn:C; [|discriminate]. injection H as <-. cbn [forallb].
      rewrite (slot_ok_other x r s E). f_equal. apply IH; [|reflexivity]. cbn in ND. inversion ND; assumption.
  Qed.

  Lemma consume_none_bad x r : forall slots, NoDup (map s_name slots) -> consume slots x = None -> has_slot slots x = true ->
    forallb (slot_ok (x :: r)) slots = false.
  Proof.
    induction slots as [|s rest IH]; intros ND H Hs; cbn in *; [discriminate|].
    destruct (str_eqb (s_name s) x) eqn:E.
    - destruct (s_room s) as [[|k]|] eqn:R; try discriminate.
      unfold slot_ok at 1. rewrite cnt_cons, E, R. cbn. rewrite andb_false_r. reflexivity.
    - cbn in Hs. destruct (consume rest x) as [r'|] eqn:C; [discriminate|].
      rewrite IH; [apply andb_false_r | inversion ND; assumption | reflexivity | exact Hs].
  Qed.

  Lemma declared_names slots slots' l : map s_name slots' = map s_name slots ->
    forallb (has_slot slots') l = forallb (has_slot slots) l.
  Proof. intro E. induction l as [|y r IH]; cbn; [reflexivity|]. rewrite (has_slot_names slots slots' y E), IH. reflexivity. Qed.

  Lemma accepts_counting : forall children slots,
    NoDup (map s_name slots) -> accepts slots children = counting slots children.
  Proof.
    induction children as [|x r IH]; intros slots ND.
    - cbn. unfold counting; cbn. induction slots as [|s rest IHs]; cbn; [reflexivity|].
      rewrite IHs by (cbn in ND; inversion ND; assumption). f_equal.
      unfold slot_ok, cnt; cbn. destruct (s_need s); cbn; [destruct (s_room s); reflexivity | reflexivity].
    - cbn [accepts]. unfold counting. cbn [forallb]. fold (has_slot slots x).
      destruct (consume slots x) as [slots'|] eqn:C.
      + pose proof (consume_names slots x slots' C) as Hn.
        rewrite (IH slots') by (rewrite Hn; exact ND). unfold counting.
        rewrite (consume_has slots x slots' C). cbn [andb].
        change (fun x0 => existsb (fun s => str_eqb (s_name s) x0) slots') with (has_slot slots').
        change (fun x0 => existsb (fun s => str_eqb (s_name s) x0) slots) with (has_slot slots).
        rewrite (declared_names slots slots' r Hn), (consume_some_ok x r slots slots' ND C). reflexivity.
      + destruct (has_slot slots x) eqn:Hs; cbn [andb]; [|reflexivity].
        rewrite (consume_none_bad x r slots ND C Hs). rewrite andb_false_r. reflexivity.
  Qed.
End Interleave.
