(* C03 — model of the validation gate: the subset of RelaxNG / XSD datatypes that
   EventType.generate_relax_ng and DataType.generate_relaxng emit, as interpreted by libxml2.
   Schemas are NOT written here: they are translated on every run from the RelaxNG that the
   running code generates (harness/translate/rng.py). *)
From EdxmlVerif Require Import Base.Prelude Base.Regex.

Inductive xtype := XByte | XUByte | XShort | XUShort | XInt | XUInt | XLong | XULong | XString | XToken | XNormalized.

Record dataspec := {
  d_type : xtype;
  d_min : option Z; d_max : option Z;          (* minInclusive / maxInclusive *)
  d_minlen : option nat; d_maxlen : option nat; (* minLength / maxLength (characters) *)
  d_patterns : list re                          (* pattern facets (all must match) *)
}.

Inductive vschema :=
| VData (d : dataspec)
| VChoice (values : list str)       (* <choice><value>..</value>..</choice> *)
| VUnmodelled.                      (* float, double, decimal, dateTime, hexBinary, base64Binary, anyURI: not in the Gallina model *)

Record occ := { o_name : str; o_min : nat; o_max : option nat; o_value : vschema }.
Record eschema := { e_props : list occ; e_atts : list (str * bool) }.

(* ---- XSD lexical handling ---- *)
Definition is_ws (c : N) : bool := N.eqb c 32 || N.eqb c 9 || N.eqb c 10 || N.eqb c 13.
Fixpoint ltrim (s : str) : str := match s with c :: r => if is_ws c then ltrim r else s | [] => [] end.
Definition trim (s : str) : str := rev (ltrim (rev (ltrim s))).
(* whiteSpace = collapse (all types except string / normalizedString) *)
Fixpoint collapse_inner (s : str) (prev_ws : bool) : str :=
  match s with
  | [] => []
  | c :: r => if is_ws c then (if prev_ws then collapse_inner r true else 32%N :: collapse_inner r true)
              else c :: collapse_inner r false
  end.
Definition collapse (s : str) : str := trim (collapse_inner s true).
Definition replace_ws (s : str) : str := map (fun c => if is_ws c then 32%N else c) s.

Definition is_digit (c : N) : bool := (48 <=? c)%N && (c <=? 57)%N.
Fixpoint digits_val (s : str) (acc : Z) : option Z :=
  match s with
  | [] => Some acc
  | c :: r => if is_digit c then digits_val r (acc * 10 + Z.of_N (c - 48))%Z else None
  end.
(* xs:integer lexical space: optional sign, one or more ASCII digits *)
Definition parse_int (s : str) : option Z :=
  match s with
  | 45%N :: (_ :: _) as d => option_map Z.opp (digits_val d 0)
  | 43%N :: (_ :: _) as d => digits_val d 0
  | _ :: _ => digits_val s 0
  | [] => None
  end.

Definition int_range (t : xtype) : option (Z * Z) :=
  match t with
  | XByte => Some (-128, 127) | XUByte => Some (0, 255)
  | XShort => Some (-32768, 32767) | XUShort => Some (0, 65535)
  | XInt => Some (-2147483648, 2147483647) | XUInt => Some (0, 4294967295)
  | XLong => Some (-9223372036854775808, 9223372036854775807) | XULong => Some (0, 18446744073709551615)
  | _ => None
  end%Z.

Section Gate.
  Variable uprop : str -> N -> bool.

  Definition normalise (t : xtype) (v : str) : str :=
    match t with XString => v | XNormalized => replace_ws v | _ => collapse v end.

  Definition gate_data (d : dataspec) (v : str) : bool :=
    let lex := normalise (d_type d) v in
    forallb (fun p => rmatch uprop p v) (d_patterns d) &&      (* libxml2 applies pattern facets to the value as written *)
    match int_range (d_type d) with
    | Some (lo, hi) =>
        match parse_int lex with
        | Some z => (lo <=? z)%Z && (z <=? hi)%Z &&
                    match d_min d with Some m => (m <=? z)%Z | None => true end &&
                    match d_max d with Some m => (z <=? m)%Z | None => true end
        | None => false
        end
    | None =>
        match d_minlen d with Some n => Nat.leb n (length lex) | None => true end &&
        match d_maxlen d with Some n => Nat.leb (length lex) n | None => true end
    end.

  (* None = the value schema is outside the model *)
  Definition gate_value (s : vschema) (v : str) : option bool :=
    match s with
    | VData d => Some (gate_data d v)
    | VChoice vals => Some (mem v vals)
    | VUnmodelled => None
    end.

  (* ---- structure of <properties>: interleave of occurrence patterns with distinct names ---- *)
  Definition count_name (n : str) (children : list (str * str)) : nat :=
    length (filter (fun kv => str_eqb (fst kv) n) children).

  Definition occ_ok (children : list (str * str)) (o : occ) : bool :=
    Nat.leb (o_min o) (count_name (o_name o) children) &&
    match o_max o with Some m => Nat.leb (count_name (o_name o) children) m | None => true end.

  Definition find_occ (ps : list occ) (n : str) : option occ := find (fun o => str_eqb (o_name o) n) ps.

  (* verdict on the <properties> children; None = some value schema is outside the model *)
  Definition gate_props (es : eschema) (children : list (str * str)) : option bool :=
    let declared := forallb (fun kv => match find_occ (e_props es) (fst kv) with Some _ => true | None => false end) children in
    let counts := forallb (occ_ok children) (e_props es) in
    fold_left (fun acc kv =>
                 match acc, find_occ (e_props es) (fst kv) with
                 | None, _ => None
                 | Some b, Some o => match gate_value (o_value o) (snd kv) with Some ok => Some (b && ok) | None => None end
                 | Some b, None => Some false
                 end) children (Some (declared && counts)).
End Gate.

(* ---- the schema cache of EventValidator: cleared when the ontology counter exceeds the remembered one ---- *)
Section Cache.
  Variable schema_of : nat -> str -> N.        (* schema generated for event type t from ontology state number n *)
  Record vstate := { v_remembered : nat; v_cache : list (str * N) }.
  (* `remember`: whether the validator records the counter after clearing (the pinned code never does) *)
  Definition vget (remember : bool) (st : vstate) (counter : nat) (onto : nat) (t : str) : vstate * N :=
    let st1 := if Nat.ltb (v_remembered st) counter
               then {| v_remembered := if remember then counter else v_remembered st; v_cache := [] |} else st in
    match aget t (v_cache st1) with
    | Some s => (st1, s)
    | None => let s := schema_of onto t in ({| v_remembered := v_remembered st1; v_cache := aset t s (v_cache st1) |}, s)
    end.
End Cache.
