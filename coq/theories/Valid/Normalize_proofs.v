(* C13 — proofs about the normaliser model. *)
From Coq Require Import Lia ZifyBool.
From EdxmlVerif Require Import Base.Prelude Valid.Gate Valid.Normalize Valid.Calendar Valid.Cal.All.
Local Open Scope Z_scope.

(* ------------------------------------------------------------------ rounding *)
Lemma round_he_bound n d : 0 <= n -> 0 < d -> 2 * Z.abs (n - round_he n d * d) <= d.
Proof.
  intros Hn Hd. unfold round_he.
  pose proof (Z.div_mod n d ltac:(lia)) as E. pose proof (Z.mod_pos_bound n d Hd) as B.
  destruct (2 * (n mod d) <? d) eqn:A1; [nia|].
  destruct (d <? 2 * (n mod d)) eqn:A2; [nia|].
  destruct (Z.even (n / d)); nia.
Qed.

Lemma round_he_exact n d : 0 < d -> round_he (n * d) d = n.
Proof.
  intros Hd. unfold round_he. rewrite Z.div_mul, Z.mod_mul by lia.
  destruct (2 * 0 <? d) eqn:A; [reflexivity|lia].
Qed.

Lemma round_he_nonneg n d : 0 <= n -> 0 < d -> 0 <= round_he n d.
Proof.
  intros Hn Hd. unfold round_he. pose proof (Z.div_pos n d Hn Hd).
  destruct (_ <? _); [lia|]. destruct (_ <? _); [lia|]. destruct (Z.even _); lia.
Qed.

(* ------------------------------------------------------------------ decimal rendering is read back by the gate's integer parser *)
Fixpoint le_val (l : list N) : Z := match l with [] => 0 | d :: r => Z.of_N d + 10 * le_val r end.

Lemma digits_le_spec fuel : forall n, (n < 2 ^ N.of_nat fuel)%N ->
  le_val (digits_le fuel n) = Z.of_N n /\ Forall (fun d => (d < 10)%N) (digits_le fuel n) /\ (fuel <> O -> digits_le fuel n <> []).
Proof.
  induction fuel as [|f IH]; intros n Hn.
  - cbn in Hn. assert (n = 0%N) by lia. subst. cbn. repeat split; [constructor | congruence].
  - cbn [digits_le]. destruct (n <? 10)%N eqn:E.
    + cbn. repeat split; [lia | repeat constructor; lia | congruence].
    + assert (Hlt : (n / 10 < 2 ^ N.of_nat f)%N).
      { rewrite Nat2N.inj_succ, N.pow_succ_r' in Hn.
        apply N.div_lt_upper_bound; [lia|]. lia. }
      destruct (IH _ Hlt) as (V & A & _).
      cbn [le_val]. rewrite V. repeat split.
      * pose proof (N.div_mod n 10 ltac:(lia)). lia.
      * constructor; [apply N.mod_lt; lia | exact A].
      * congruence.
Qed.

Lemma render_fuel_ok n : (n < 2 ^ N.of_nat (S (N.size_nat n)))%N.
Proof.
  destruct n as [|p]; [cbn; lia|].
  rewrite Nat2N.inj_succ, N.pow_succ_r'.
  assert (H : (N.pos p < 2 ^ N.of_nat (N.size_nat (N.pos p)))%N).
  { cbn [N.size_nat]. induction p as [p IH|p IH|]; cbn [Pos.size_nat].
    - rewrite Nat2N.inj_succ, N.pow_succ_r'. lia.
    - rewrite Nat2N.inj_succ, N.pow_succ_r'. lia.
    - cbn. lia. }
  lia.
Qed.

Lemma digits_val_app a : forall b acc,
  digits_val (a ++ b) acc = match digits_val a acc with Some x => digits_val b x | None => None end.
Proof.
  induction a as [|c a IH]; intros b acc; cbn [app digits_val]; [reflexivity|].
  destruct (is_digit c); [apply IH | reflexivity].
Qed.

Lemma digits_val_rev l : Forall (fun d => (d < 10)%N) l -> forall acc,
  digits_val (digit_chars (rev l)) acc = Some (acc * 10 ^ Z.of_nat (length l) + le_val l).
Proof.
  induction 1 as [|d l Hd Hl IH]; intros acc.
  - cbn. f_equal. lia.
  - cbn [rev]. unfold digit_chars in *. rewrite map_app, digits_val_app, IH. cbn [map digits_val].
    assert (E : is_digit (48 + d) = true) by (unfold is_digit; lia). rewrite E.
    f_equal. cbn [length le_val]. rewrite Nat2Z.inj_succ, Z.pow_succ_r by lia.
    replace (Z.of_N (48 + d - 48)) with (Z.of_N d) by lia. ring.
Qed.

Lemma render_N_digits n : digits_val (render_N n) 0 = Some (Z.of_N n).
Proof.
  unfold render_N. destruct (digits_le_spec _ _ (render_fuel_ok n)) as (V & A & _).
  rewrite digits_val_rev by exact A. rewrite V. f_equal; lia.
Qed.

Lemma render_N_all_digits n : forallb is_digit (render_N n) = true /\ render_N n <> [].
Proof.
  unfold render_N. destruct (digits_le_spec _ _ (render_fuel_ok n)) as (_ & A & NE).
  split.
  - apply forallb_forall. intros c Hc. unfold digit_chars in Hc. apply in_map_iff in Hc. destruct Hc as (d & <- & Hd).
    apply in_rev in Hd. rewrite Forall_forall in A. specialize (A _ Hd). unfold is_digit. lia.
  - intros E. apply (NE ltac:(congruence)). unfold digit_chars in E. apply map_eq_nil in E.
    rewrite <- (rev_involutive (digits_le _ _)), E. reflexivity.
Qed.

(* the gate's reading of a normalised integer is the integer *)
Theorem parse_render_Z z : parse_int (render_Z z) = Some z.
Proof.
  destruct (render_N_all_digits (Z.to_N z)) as (D & NE).
  destruct z as [|p|p]; cbn [render_Z].
  - destruct (render_N (Z.to_N 0)) as [|c r] eqn:E; [congruence|].
    cbn [forallb] in D. apply andb_true_iff in D. destruct D as (Dc & _).
    unfold parse_int. unfold is_digit in Dc.
    destruct (N.eq_dec c 45) as [->|N1]; [cbn in Dc; congruence|]. destruct (N.eq_dec c 43) as [->|N2]; [cbn in Dc; congruence|].
    rewrite <- E. pose proof (render_N_digits (Z.to_N 0)) as R. rewrite E in *.
    destruct c as [|cp]; [cbn in Dc; congruence|].
    repeat (destruct cp as [cp|cp|]; try exact R; try (cbn in Dc; congruence)).
  - destruct (render_N (Z.to_N (Z.pos p))) as [|c r] eqn:E; [congruence|].
    cbn [forallb] in D. apply andb_true_iff in D. destruct D as (Dc & _).
    unfold parse_int. unfold is_digit in Dc.
    pose proof (render_N_digits (Z.to_N (Z.pos p))) as R. rewrite E in *.
    replace (Z.of_N (Z.to_N (Z.pos p))) with (Z.pos p) in R by lia.
    destruct c as [|cp]; [cbn in Dc; congruence|].
    repeat (destruct cp as [cp|cp|]; try exact R; try (cbn in Dc; congruence)).
  - destruct (render_N_all_digits (N.pos p)) as (D' & NE').
    unfold parse_int. destruct (render_N (N.pos p)) as [|c r] eqn:E; [congruence|].
    rewrite <- E, render_N_digits. cbn. reflexivity.
Qed.

(* ------------------------------------------------------------------ int(str) reads the normaliser's own output back *)
Section PyText.
  Variable udigit : N -> option N.
  Variable uspace : N -> bool.
  Hypothesis ascii_digits : forall d, (d < 10)%N -> udigit (48 + d) = Some d.
  Hypothesis digits_not_space : forall c, is_digit c = true -> uspace c = false.
  Hypothesis minus_not_space : uspace 45 = false.

  Lemma py_digits_ascii s : forallb is_digit s = true -> s <> [] -> forall acc prev,
    py_digits udigit s acc prev = digits_val s acc.
  Proof.
    induction s as [|c r IH]; intros D NE acc prev; [congruence|].
    cbn [forallb] in D. apply andb_true_iff in D. destruct D as (Dc & Dr).
    cbn [py_digits digits_val]. rewrite Dc.
    assert (c <> 95%N) by (unfold is_digit in Dc; lia).
    destruct (N.eqb_spec c 95); [congruence|].
    assert (E : udigit c = Some (c - 48)%N).
    { replace c with (48 + (c - 48))%N at 1 by (unfold is_digit in Dc; lia). apply ascii_digits. unfold is_digit in Dc. lia. }
    rewrite E. destruct r as [|c2 r2]; [reflexivity|]. apply IH; [exact Dr | congruence].
  Qed.

  Lemma lstrip_id c r : uspace c = false -> lstrip uspace (c :: r) = c :: r.
  Proof. intros H. cbn. rewrite H. reflexivity. Qed.

  Lemma strip_id s : s <> [] -> (forall c, In c s -> uspace c = false) -> strip uspace s = s.
  Proof.
    intros NE H. unfold strip. destruct s as [|c r]; [congruence|].
    rewrite lstrip_id by (apply H; left; reflexivity).
    destruct (rev (c :: r)) as [|c' r'] eqn:E.
    - apply (f_equal (@length N)) in E. rewrite rev_length in E. cbn in E. lia.
    - rewrite lstrip_id.
      + rewrite <- E. apply rev_involutive.
      + apply H. apply in_rev. rewrite E. left. reflexivity.
  Qed.

  Theorem py_int_render z : py_int udigit uspace (render_Z z) = Some z.
  Proof.
    pose proof (parse_render_Z z) as P.
    assert (S1 : strip uspace (render_Z z) = render_Z z).
    { apply strip_id.
      - destruct z; cbn [render_Z]; try apply render_N_all_digits; congruence.
      - intros c Hc. destruct z as [|p|p]; cbn [render_Z] in Hc.
        + apply digits_not_space. destruct (render_N_all_digits (Z.to_N 0)) as (D & _). rewrite forallb_forall in D. auto.
        + apply digits_not_space. destruct (render_N_all_digits (Z.to_N (Z.pos p))) as (D & _). rewrite forallb_forall in D. auto.
        + destruct Hc as [<-|Hc]; [exact minus_not_space|].
          apply digits_not_space. destruct (render_N_all_digits (N.pos p)) as (D & _). rewrite forallb_forall in D. auto. }
    unfold py_int. rewrite S1.
    destruct z as [|p|p]; cbn [render_Z] in *.
    - destruct (render_N_all_digits (Z.to_N 0)) as (D & NE).
      destruct (render_N (Z.to_N 0)) as [|c r] eqn:E; [congruence|].
      assert (Dc : is_digit c = true) by (cbn [forallb] in D; apply andb_true_iff in D; tauto).
      assert (c <> 45%N /\ c <> 43%N) as (N1 & N2) by (unfold is_digit in Dc; lia).
      assert (G : py_digits udigit (c :: r) 0 false = Some 0).
      { rewrite py_digits_ascii by (auto; congruence). rewrite <- E. rewrite render_N_digits. reflexivity. }
      destruct c as [|cp]; [exact G|]. repeat (destruct cp as [cp|cp|]; try exact G; try congruence).
    - destruct (render_N_all_digits (Z.to_N (Z.pos p))) as (D & NE).
      destruct (render_N (Z.to_N (Z.pos p))) as [|c r] eqn:E; [congruence|].
      assert (Dc : is_digit c = true) by (cbn [forallb] in D; apply andb_true_iff in D; tauto).
      assert (c <> 45%N /\ c <> 43%N) as (N1 & N2) by (unfold is_digit in Dc; lia).
      assert (G : py_digits udigit (c :: r) 0 false = Some (Z.pos p)).
      { rewrite py_digits_ascii by (auto; congruence). rewrite <- E. rewrite render_N_digits. f_equal; lia. }
      destruct c as [|cp]; [exact G|]. repeat (destruct cp as [cp|cp|]; try exact G; try congruence).
    - destruct (render_N_all_digits (N.pos p)) as (D & NE).
      rewrite py_digits_ascii by assumption. rewrite render_N_digits. reflexivity.
  Qed.

  (* integer types: sound, value preserving, idempotent *)
  Variable fl_ : flags.

  Theorem norm_int_value v out : norm_int udigit uspace v = Ok out ->
    exists z, int_of_val udigit uspace v = Some z /\ out = render_Z z /\ parse_int out = Some z.
  Proof.
    unfold norm_int. intros H.
    destruct (int_of_val udigit uspace v) as [z|] eqn:E.
    - exists z. assert (out = render_Z z) by (destruct v; congruence). subst. repeat split. apply parse_render_Z.
    - destruct v; congruence.
  Qed.

  Theorem norm_int_idempotent v out : norm_int udigit uspace v = Ok out -> norm_int udigit uspace (PStr out) = Ok out.
  Proof.
    intros H. destruct (norm_int_value _ _ H) as (z & _ & -> & _).
    unfold norm_int, int_of_val. rewrite py_int_render. reflexivity.
  Qed.
End PyText.

(* ------------------------------------------------------------------ booleans *)
Theorem norm_bool_sound v s : norm_bool repaired v = Ok s ->
  (s = s_true /\ is_one v = true) \/ (s = s_false /\ is_zero v = true).
Proof.
  unfold norm_bool. destruct (is_one v) eqn:A; [intros [= <-]; auto|].
  destruct (is_zero v) eqn:B; [intros [= <-]; auto|]. cbn. congruence.
Qed.

Theorem norm_bool_rejects_garbage v : is_one v = false -> is_zero v = false -> norm_bool repaired v = Reject.
Proof. unfold norm_bool. intros -> ->. reflexivity. Qed.

Theorem norm_bool_idempotent v s : norm_bool repaired v = Ok s -> norm_bool repaired (PStr s) = Ok s.
Proof. intros H. destruct (norm_bool_sound _ _ H) as [(-> & _)|(-> & _)]; reflexivity. Qed.

Theorem norm_bool_pinned_refuted : exists v, is_one v = false /\ is_zero v = false /\ norm_bool pinned v = Ok s_false.
Proof. exists (PStr [121; 101; 115]%N). repeat split. Qed.

(* ------------------------------------------------------------------ base64 padding *)
Theorem b64_padding_fixed len :
  Nat.modulo (len + b64_padding true len) 4 = 0%nat /\ (b64_padding true len < 4)%nat /\
  (Nat.modulo len 4 = 0%nat -> b64_padding true len = 0%nat).
Proof.
  unfold b64_padding.
  pose proof (Nat.mod_upper_bound len 4 ltac:(lia)) as B.
  pose proof (Nat.div_mod len 4 ltac:(lia)) as E.
  remember (Nat.modulo len 4) as r eqn:Hr. remember (Nat.div len 4) as q eqn:Hq.
  assert (C : (r = 0 \/ r = 1 \/ r = 2 \/ r = 3)%nat) by lia.
  assert (M : forall k, Nat.modulo (4 * k) 4 = 0%nat) by (intros k; rewrite Nat.mul_comm; apply Nat.mod_mul; lia).
  destruct C as [C|[C|[C|C]]]; rewrite C in *; cbn [Nat.sub Nat.modulo Nat.divmod fst snd].
  - split; [|split; [lia|reflexivity]]. rewrite E. replace (4 * q + 0 + 0)%nat with (4 * q)%nat by lia. apply M.
  - split; [|split; [lia|lia]]. rewrite E. replace (4 * q + 1 + 3)%nat with (4 * (q + 1))%nat by lia. apply M.
  - split; [|split; [lia|lia]]. rewrite E. replace (4 * q + 2 + 2)%nat with (4 * (q + 1))%nat by lia. apply M.
  - split; [|split; [lia|lia]]. rewrite E. replace (4 * q + 3 + 1)%nat with (4 * (q + 1))%nat by lia. apply M.
Qed.

Theorem b64_padding_pinned_refuted : exists len, Nat.modulo (len + b64_padding false len) 4 <> 0%nat.
Proof. exists 3%nat. cbn. lia. Qed.

Opaque b64_padding.
Lemma repeat_app_length {A} (x : A) n (s : list A) : length (s ++ repeat x n) = (length s + n)%nat.
Proof. rewrite app_length, repeat_length. reflexivity. Qed.

(* a padded value is left as it is by a second pass: its length is a multiple of four *)
Theorem norm_base64_idempotent s out : norm_base64 true s = Ok out -> norm_base64 true out = Ok out.
Proof.
  unfold norm_base64. destruct (forallb _ s) eqn:A; [|congruence].
  destruct (b64_scan _ 0 0) eqn:S; [|congruence]. intros [= <-].
  destruct (b64_padding_fixed (length s)) as (M & _ & _).
  assert (A' : forallb (fun c : N => (c <? 128)%N) (s ++ repeat 61%N (b64_padding true (length s))) = true).
  { rewrite forallb_app, A. cbn. apply forallb_forall. intros c Hc. apply repeat_spec in Hc. subst. reflexivity. }
  rewrite A'. rewrite repeat_app_length.
  destruct (b64_padding_fixed (length s + b64_padding true (length s))) as (_ & _ & Z0).
  rewrite (Z0 M). cbn [repeat]. rewrite app_nil_r, S. reflexivity.
Qed.

Theorem norm_base64_only_pads s out : norm_base64 true s = Ok out ->
  exists k, (k < 4)%nat /\ out = s ++ repeat 61%N k /\ Nat.modulo (length out) 4 = 0%nat /\ b64_scan out 0 0 = true.
Proof.
  unfold norm_base64. destruct (forallb _ s); [|congruence].
  destruct (b64_scan _ 0 0) eqn:S; [|congruence]. intros [= <-].
  destruct (b64_padding_fixed (length s)) as (M & L & _).
  exists (b64_padding true (length s)). rewrite repeat_app_length. auto.
Qed.

Transparent b64_padding.
(* ------------------------------------------------------------------ ASCII case folding *)
Lemma lower_ascii_idem s : lower_ascii (lower_ascii s) = lower_ascii s.
Proof.
  unfold lower_ascii. rewrite map_map. apply map_ext. intros c. unfold lower_ascii_c.
  destruct ((65 <=? c)%N && (c <=? 90)%N) eqn:A.
  - destruct ((65 <=? c + 32)%N && (c + 32 <=? 90)%N) eqn:B; [lia | reflexivity].
  - rewrite A. reflexivity.
Qed.
Lemma upper_ascii_idem s : upper_ascii (upper_ascii s) = upper_ascii s.
Proof.
  unfold upper_ascii. rewrite map_map. apply map_ext. intros c. unfold upper_ascii_c.
  destruct ((97 <=? c)%N && (c <=? 122)%N) eqn:A.
  - destruct ((97 <=? c - 32)%N && (c - 32 <=? 122)%N) eqn:B; [lia | reflexivity].
  - rewrite A. reflexivity.
Qed.
Lemma forallb_map {A B} (f : A -> B) (p : B -> bool) l : forallb p (map f l) = forallb (fun x => p (f x)) l.
Proof. induction l as [|x l IH]; cbn; [reflexivity | rewrite IH; reflexivity]. Qed.
Lemma is_ascii_lower s : is_ascii s = true -> is_ascii (lower_ascii s) = true.
Proof.
  unfold is_ascii, lower_ascii. rewrite forallb_map. intros H. rewrite forallb_forall in *. intros c Hc. specialize (H c Hc).
  unfold lower_ascii_c. destruct (_ && _) eqn:A; lia.
Qed.
Lemma is_ascii_upper s : is_ascii s = true -> is_ascii (upper_ascii s) = true.
Proof.
  unfold is_ascii, upper_ascii. rewrite forallb_map. intros H. rewrite forallb_forall in *. intros c Hc. specialize (H c Hc).
  unfold upper_ascii_c. destruct (_ && _) eqn:A; lia.
Qed.

Theorem norm_string_idempotent n c v out :
  norm_string n c v = Ok out -> norm_string n c (PStr out) = Ok out /\ (n <> O -> (length out <= n)%nat).
Proof.
  unfold norm_string. destruct (py_str v) as [s|]; [|congruence]. cbn [py_str].
  destruct (negb (Nat.eqb n 0) && Nat.ltb n (length s)) eqn:L; [congruence|].
  assert (LL : forall t : str, length t = length s -> negb (Nat.eqb n 0) && Nat.ltb n (length t) = false) by (intros t ->; exact L).
  destruct c.
  - intros [= <-]. rewrite L. split; [reflexivity|]. intros NZ. destruct (Nat.eqb_spec n 0); [congruence|]. cbn in L. apply Nat.ltb_ge in L. exact L.
  - destruct (is_ascii s) eqn:A; [|congruence]. intros [= <-].
    rewrite (LL (lower_ascii s)) by (unfold lower_ascii; apply map_length).
    rewrite is_ascii_lower, lower_ascii_idem by exact A. split; [reflexivity|].
    intros NZ. unfold lower_ascii. rewrite map_length. destruct (Nat.eqb_spec n 0); [congruence|]. cbn in L. apply Nat.ltb_ge in L. exact L.
  - destruct (is_ascii s) eqn:A; [|congruence]. intros [= <-].
    rewrite (LL (upper_ascii s)) by (unfold upper_ascii; apply map_length).
    rewrite is_ascii_upper, upper_ascii_idem by exact A. split; [reflexivity|].
    intros NZ. unfold upper_ascii. rewrite map_length. destruct (Nat.eqb_spec n 0); [congruence|]. cbn in L. apply Nat.ltb_ge in L. exact L.
Qed.

Theorem norm_hex_idempotent v out : norm_hex v = Ok out -> norm_hex (PStr out) = Ok out.
Proof.
  unfold norm_hex. destruct v; try congruence. destruct (is_ascii s) eqn:A; [|congruence]. intros [= <-].
  rewrite is_ascii_lower, lower_ascii_idem by exact A. reflexivity.
Qed.

(* ------------------------------------------------------------------ decimals: exact whenever the type keeps enough digits *)
Theorem dec_scaled_exact coef exp p : 0 <= exp + Z.of_nat p -> dec_scaled coef exp p = coef * 10 ^ (exp + Z.of_nat p).
Proof. intros H. unfold dec_scaled. destruct (0 <=? exp + Z.of_nat p) eqn:E; [reflexivity | lia]. Qed.

(* otherwise: the nearest multiple of 10^-p (error at most half a unit), ties to even *)
Theorem dec_scaled_nearest coef exp p : 0 <= coef -> exp + Z.of_nat p < 0 ->
  2 * Z.abs (coef - dec_scaled coef exp p * 10 ^ (- (exp + Z.of_nat p))) <= 10 ^ (- (exp + Z.of_nat p)).
Proof.
  intros Hc H. unfold dec_scaled. destruct (0 <=? exp + Z.of_nat p) eqn:E; [lia|].
  apply round_he_bound; [exact Hc | apply Z.pow_pos_nonneg; lia].
Qed.

(* zero carries no sign *)
Theorem fmt_decimal_zero_unsigned neg coef exp p : dec_scaled coef exp p = 0 ->
  fmt_decimal true neg coef exp p = fmt_fixed false 0 p.
Proof. intros H. unfold fmt_decimal. rewrite H. cbn. rewrite andb_false_r. reflexivity. Qed.

(* ------------------------------------------------------------------ calendar: civil_of_ordinal inverts ordinal on all of 0001-01-01 .. 9999-12-31 *)
Theorem civil_of_ordinal_correct n : 1 <= n <= 3652059 ->
  let '(y, m, d) := civil_of_ordinal n in valid_date y m d = true /\ ordinal y m d = n.
Proof.
  intros H. pose proof (all_ordinals_ok n H) as C. unfold ord_ok in C.
  destruct (civil_of_ordinal n) as ((y, m), d). apply andb_true_iff in C. destruct C as (V & O). split; [exact V | lia].
Qed.

(* the instant an aware datetime denotes is the instant the normalised string denotes *)
Theorem fields_of_us_instant t : 0 <= t < max_us ->
  let '(y, mo, d, h, mi, s, us) := fields_of_us t in
  valid_date y mo d = true /\ valid_time h mi s us = true /\ wall_us y mo d h mi s us = t.
Proof.
  intros H. unfold fields_of_us, max_us, day_us in *.
  assert (D : 1 <= t / 86400000000 + 1 <= 3652059).
  { split; [pose proof (Z.div_pos t 86400000000 ltac:(lia) ltac:(lia)); lia|].
    assert (t / 86400000000 < 3652059) by (apply Z.div_lt_upper_bound; lia). lia. }
  pose proof (civil_of_ordinal_correct _ D) as C.
  destruct (civil_of_ordinal (t / 86400000000 + 1)) as ((y, m), d). destruct C as (V & O).
  split; [exact V|].
  pose proof (Z.mod_pos_bound t 86400000000 ltac:(lia)) as B.
  pose proof (Z.div_mod t 86400000000 ltac:(lia)) as E.
  remember (t mod 86400000000) as r. remember (t / 86400000000) as q.
  unfold valid_time, wall_us, day_us. rewrite O.
  pose proof (Z.div_mod r 1000000 ltac:(lia)) as E2. pose proof (Z.mod_pos_bound r 1000000 ltac:(lia)) as B2.
  remember (r / 1000000) as secs. remember (r mod 1000000) as us.
  pose proof (Z.div_mod secs 60 ltac:(lia)) as E3. pose proof (Z.mod_pos_bound secs 60 ltac:(lia)) as B3.
  pose proof (Z.div_mod (secs / 60) 60 ltac:(lia)) as E4. pose proof (Z.mod_pos_bound (secs / 60) 60 ltac:(lia)) as B4.
  assert (E5 : secs / 3600 = secs / 60 / 60) by (rewrite Z.div_div by lia; reflexivity).
  rewrite E5. remember (secs / 60) as mins. remember (mins / 60) as hh.
  assert (0 <= secs < 86400) by lia.
  assert (0 <= mins < 1440) by lia.
  assert (0 <= hh < 24) by lia.
  split; [lia | lia].
Qed.

Theorem norm_datetime_instant y mo d h mi s us o out :
  norm_datetime true y mo d h mi s us (Some o) = Ok out ->
  exists y' mo' d' h' mi' s' us',
    out = fmt_datetime y' mo' d' h' mi' s' us' /\ valid_date y' mo' d' = true /\ valid_time h' mi' s' us' = true /\
    wall_us y' mo' d' h' mi' s' us' = wall_us y mo d h mi s us - o * 1000000.
Proof.
  unfold norm_datetime. destruct (valid_date y mo d && valid_time h mi s us); [|congruence].
  remember (wall_us y mo d h mi s us - o * 1000000) as t.
  destruct ((0 <=? t) && (t <? max_us)) eqn:R; [|congruence].
  assert (Ht : 0 <= t < max_us) by lia.
  pose proof (fields_of_us_instant t Ht) as F.
  destruct (fields_of_us t) as ((((((y', mo'), d'), h'), mi'), s'), us'). destruct F as (V & T & W).
  intros [= <-]. exists y', mo', d', h', mi', s', us'. auto.
Qed.

(* naive datetimes (and, in the pinned code, aware ones) are printed field by field *)
Theorem norm_datetime_pinned_refuted : exists y mo d h mi s us o,
  o <> 0 /\ norm_datetime false y mo d h mi s us (Some o) = Ok (fmt_datetime y mo d h mi s us).
Proof. exists 2020, 1, 1, 12, 0, 0, 0, 7200. split; [lia | reflexivity]. Qed.
