(* C13 meets C03: the normaliser's rendering of an integer is the canonical numeral, so the validation gate accepts a
   normalised integer exactly when the integer lies in the range (and facets) of its data type - for every integer. *)
From Coq Require Import Lia ZifyBool.
From EdxmlVerif Require Import Base.Prelude Base.Regex Valid.Gate Valid.Gate_int Valid.Normalize Valid.Normalize_proofs.
Local Open Scope Z_scope.

(* the most significant digit of a positive number is not zero *)
Lemma digits_le_last fuel : forall n, (n < 2 ^ N.of_nat fuel)%N -> (1 <= n)%N ->
  exists l d, digits_le fuel n = l ++ [d] /\ (1 <= d < 10)%N.
Proof.
  induction fuel as [|f IH]; intros n Hn H1; [cbn in Hn; lia|].
  cbn [digits_le]. destruct (n <? 10)%N eqn:E.
  - exists [], n. split; [reflexivity | lia].
  - assert (Hlt : (n / 10 < 2 ^ N.of_nat f)%N).
    { rewrite Nat2N.inj_succ, N.pow_succ_r' in Hn. apply N.div_lt_upper_bound; lia. }
    assert (H1' : (1 <= n / 10)%N).
    { assert (10 <= n)%N by lia. pose proof (N.div_le_mono 10 n 10 ltac:(lia) H). rewrite N.div_same in H0 by lia. exact H0. }
    destruct (IH _ Hlt H1') as (l & d & El & Hd). exists ((n mod 10)%N :: l), d. split; [cbn; rewrite El; reflexivity | exact Hd].
Qed.

Lemma render_N_zero : render_N 0 = [48%N].
Proof. reflexivity. Qed.

Lemma render_N_canon n : canon_uint (render_N n) = true.
Proof.
  destruct (N.eq_dec n 0) as [->|Hn]; [reflexivity|].
  destruct (render_N_all_digits n) as (D & _).
  unfold render_N in *. destruct (digits_le_last _ n (render_fuel_ok n) ltac:(lia)) as (l & d & El & Hd).
  rewrite El in *. rewrite rev_app_distr in *. cbn [rev app digit_chars map] in *.
  cbn [forallb] in D. apply andb_true_iff in D as [_ Dr].
  unfold canon_uint. destruct (map (fun d0 : N => (48 + d0)%N) (rev l)) as [|c r] eqn:Er.
  - unfold is_digit. lia.
  - rewrite Dr. lia.
Qed.

Lemma render_N_first_nonzero p : exists c r, render_N (N.pos p) = c :: r /\ (49 <=? c)%N && (c <=? 57)%N = true /\ forallb is_digit r = true.
Proof.
  destruct (render_N_all_digits (N.pos p)) as (D & _).
  unfold render_N in *. destruct (digits_le_last _ (N.pos p) (render_fuel_ok _) ltac:(lia)) as (l & d & El & Hd).
  rewrite El in *. rewrite rev_app_distr in *. cbn [rev app digit_chars map] in *.
  cbn [forallb] in D. apply andb_true_iff in D as [_ Dr].
  eexists _, _. split; [reflexivity|]. split; [lia | exact Dr].
Qed.

Theorem render_Z_canon z : canon_int (render_Z z) = true.
Proof.
  destruct z as [|p|p]; cbn [render_Z].
  - reflexivity.
  - pose proof (render_N_canon (Z.to_N (Z.pos p))) as C.
    destruct (render_N_first_nonzero p) as (c & r & E & Hc & Hr). replace (Z.to_N (Z.pos p)) with (N.pos p) in * by lia.
    rewrite E in *. unfold canon_int. destruct (N.eq_dec c 45) as [->|N45]; [cbn in Hc; discriminate|].
    destruct c as [|cp]; [exact C|]. repeat (destruct cp as [cp|cp|]; try exact C; try congruence).
  - destruct (render_N_first_nonzero p) as (c & r & E & Hc & Hr). rewrite E. cbn [canon_int].
    cbn [forallb]. rewrite Hc, Hr. assert (is_digit c = true) as -> by (unfold is_digit; lia). reflexivity.
Qed.

Section Link.
  Variable uprop : str -> N -> bool.
  Hypothesis nd_ascii : forall c, is_digit c = true -> uprop ND c = true.
  Hypothesis nd_not_ws : forall c, uprop ND c = true -> is_ws c = false.

  (* signed integer types: a normalised integer passes the gate iff it is in range *)
  Theorem normalised_integer_gate t mn mx z : (exists lo hi, int_range t = Some (lo, hi)) ->
    gate_data uprop (sint_spec t mn mx) (render_Z z) = facet_range t mn mx z.
  Proof.
    intro IR. rewrite (gate_signed uprop nd_ascii nd_not_ws t mn mx (render_Z z) IR).
    rewrite render_Z_canon. unfold value_of. rewrite parse_render_Z. reflexivity.
  Qed.

  (* unsigned integer types *)
  Theorem normalised_unsigned_gate t mn mx n : (exists lo hi, int_range t = Some (lo, hi)) ->
    gate_data uprop (uint_spec t mn mx) (render_N n) = facet_range t mn mx (Z.of_N n).
  Proof.
    intro IR. rewrite (gate_unsigned uprop nd_ascii nd_not_ws t mn mx (render_N n) IR).
    rewrite render_N_canon. unfold value_of.
    pose proof (parse_render_Z (Z.of_N n)) as P. destruct n as [|p]; cbn [Z.of_N render_Z Z.to_N] in P; rewrite P; reflexivity.
  Qed.
End Link.
