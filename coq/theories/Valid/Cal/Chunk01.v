From EdxmlVerif Require Import Base.Prelude Valid.Normalize Valid.Calendar.
Local Open Scope Z_scope.
Lemma chunk : check_range 18 262145 3652060 = true.
Proof. vm_cast_no_check (eq_refl true). Qed.
