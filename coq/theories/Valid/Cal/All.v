(* all ordinals of 0001-01-01 .. 9999-12-31: one 400 year cycle is verified exhaustively by computation,
   the other 24 follow because every function involved is invariant under a shift by 146097 days / 400 years *)
From Coq Require Import Lia.
From EdxmlVerif Require Import Base.Prelude Valid.Normalize Valid.Calendar.
Local Open Scope Z_scope.

Definition ord_ok_cycle (r : Z) : bool := ord_ok r && (let '(y, _, _) := civil_of_ordinal r in (y <=? 400) && (days_before_year y <? r)).

Fixpoint check_cycle (k : nat) (lo : Z) (limit : Z) : bool :=
  match k with
  | O => if lo <? limit then ord_ok_cycle lo else true
  | S k' => check_cycle k' lo limit && check_cycle k' (lo + 2 ^ Z.of_nat k') limit
  end.
Lemma check_cycle_spec k : forall lo limit, check_cycle k lo limit = true ->
  forall n, lo <= n < lo + 2 ^ Z.of_nat k -> n < limit -> ord_ok_cycle n = true.
Proof.
  induction k as [|k IH]; intros lo limit H n Hn Hl.
  - cbn in Hn. assert (n = lo) by lia. subst. cbn in H. destruct (lo <? limit) eqn:E; [exact H | lia].
  - cbn [check_cycle] in H. apply andb_true_iff in H. destruct H as (H1 & H2).
    rewrite Nat2Z.inj_succ, Z.pow_succ_r in Hn by lia.
    destruct (Z_lt_le_dec n (lo + 2 ^ Z.of_nat k)); [apply (IH _ _ H1) | apply (IH _ _ H2)]; lia.
Qed.

Lemma one_cycle_checked : check_cycle 18 1 146098 = true.
Proof. vm_cast_no_check (eq_refl true). Qed.

Lemma cycle_ok r : 1 <= r <= 146097 -> ord_ok_cycle r = true.
Proof.
  intros H. apply (check_cycle_spec 18 1 146098 one_cycle_checked); [|lia].
  assert (2 ^ Z.of_nat 18 = 262144) by reflexivity. lia.
Qed.

(* ---- shift invariance ---- *)
Lemma dby_shift y k : days_before_year (y + 400 * k) = days_before_year y + 146097 * k.
Proof.
  unfold days_before_year. replace (y + 400 * k - 1) with (y - 1 + 400 * k) by ring.
  set (p := y - 1).
  replace (p + 400 * k) with (p + (100 * k) * 4) at 2 by ring. rewrite Z.div_add by lia.
  replace (p + 400 * k) with (p + (4 * k) * 100) at 2 by ring. rewrite Z.div_add by lia.
  replace (p + 400 * k) with (p + k * 400) at 2 by ring. rewrite Z.div_add by lia. ring.
Qed.

Lemma leap_shift y k : is_leap (y + 400 * k) = is_leap y.
Proof.
  unfold is_leap.
  replace (y + 400 * k) with (y + (100 * k) * 4) at 1 by ring. rewrite Z.mod_add by lia.
  replace (y + 400 * k) with (y + (4 * k) * 100) at 1 by ring. rewrite Z.mod_add by lia.
  replace (y + 400 * k) with (y + k * 400) by ring. rewrite Z.mod_add by lia. reflexivity.
Qed.

Lemma dim_shift y k m : days_in_month (y + 400 * k) m = days_in_month y m.
Proof. unfold days_in_month. rewrite leap_shift. reflexivity. Qed.

Lemma dbm_shift y k m : days_before_month (y + 400 * k) m = days_before_month y m.
Proof. unfold days_before_month. rewrite leap_shift. reflexivity. Qed.

Lemma ordinal_shift y k m d : ordinal (y + 400 * k) m d = ordinal y m d + 146097 * k.
Proof. unfold ordinal. rewrite dby_shift, dbm_shift. ring. Qed.

Lemma year_shift n k : year_of_ordinal (n + 146097 * k) = year_of_ordinal n + 400 * k.
Proof.
  unfold year_of_ordinal.
  replace ((n + 146097 * k - 1) * 400) with ((n - 1) * 400 + (400 * k) * 146097) by ring. rewrite Z.div_add by lia.
  set (y0 := (n - 1) * 400 / 146097).
  replace (y0 + 400 * k + 2) with (y0 + 2 + 400 * k) by ring. replace (y0 + 400 * k + 1) with (y0 + 1 + 400 * k) by ring.
  rewrite !dby_shift.
  destruct (days_before_year (y0 + 2) + 146097 * k <? n + 146097 * k) eqn:A; destruct (days_before_year (y0 + 2) <? n) eqn:A'; try lia.
  destruct (days_before_year (y0 + 1) + 146097 * k <? n + 146097 * k) eqn:B; destruct (days_before_year (y0 + 1) <? n) eqn:B'; lia.
Qed.

Lemma civil_shift n k : civil_of_ordinal (n + 146097 * k) =
  let '(y, m, d) := civil_of_ordinal n in (y + 400 * k, m, d).
Proof.
  unfold civil_of_ordinal. rewrite year_shift, dby_shift.
  replace (n + 146097 * k - (days_before_year (year_of_ordinal n) + 146097 * k)) with (n - days_before_year (year_of_ordinal n)) by ring.
  set (y := year_of_ordinal n). set (rest := n - days_before_year y).
  assert (M : month_of (y + 400 * k) rest = month_of y rest) by (unfold month_of; rewrite !dbm_shift; reflexivity).
  rewrite M, dbm_shift. reflexivity.
Qed.

Theorem all_ordinals_ok n : 1 <= n <= 3652059 -> ord_ok n = true.
Proof.
  intros H.
  set (k := (n - 1) / 146097). set (r := (n - 1) mod 146097 + 1).
  assert (E : n = r + 146097 * k) by (unfold r, k; pose proof (Z.div_mod (n - 1) 146097 ltac:(lia)); lia).
  assert (R : 1 <= r <= 146097) by (unfold r; pose proof (Z.mod_pos_bound (n - 1) 146097 ltac:(lia)); lia).
  assert (K : 0 <= k <= 24).
  { unfold k. split; [apply Z.div_pos; lia|]. assert ((n - 1) / 146097 < 25) by (apply Z.div_lt_upper_bound; lia). lia. }
  pose proof (cycle_ok r R) as C. unfold ord_ok_cycle, ord_ok in C.
  unfold ord_ok. rewrite E, civil_shift.
  destruct (civil_of_ordinal r) as ((y, m), d).
  apply andb_true_iff in C. destruct C as (C & Y). apply andb_true_iff in C. destruct C as (V & O).
  apply andb_true_iff in Y. destruct Y as (Y & DB). apply Z.leb_le in Y. apply Z.ltb_lt in DB. apply Z.eqb_eq in O.
  rewrite ordinal_shift, O.
  assert (Z.eqb (r + 146097 * k) (r + 146097 * k) = true) as -> by (apply Z.eqb_refl).
  rewrite andb_true_r.
  unfold valid_date in *. rewrite dim_shift.
  repeat (apply andb_true_iff in V; destruct V as (V & ?)).
  (* the year stays below 10000: the last cycle ends with year 10000, whose days lie beyond 3652059 *)
  assert (YB : y + 400 * k <= 9999).
  { destruct (Z.eq_dec k 24) as [->|NK]; [|lia].
    destruct (Z.eq_dec y 400) as [->|NY]; [|lia].
    exfalso. assert (days_before_year 400 = 145731) by reflexivity. lia. }
  apply Z.leb_le in V.
  repeat (apply andb_true_iff; split); try assumption; apply Z.leb_le; lia.
Qed.
