(* all ordinals of 0001-01-01 .. 9999-12-31, from the chunks *)
From Coq Require Import Lia.
From EdxmlVerif Require Import Base.Prelude Valid.Normalize Valid.Calendar.
From EdxmlVerif Require Valid.Cal.Chunk00.
From EdxmlVerif Require Valid.Cal.Chunk01.
From EdxmlVerif Require Valid.Cal.Chunk02.
From EdxmlVerif Require Valid.Cal.Chunk03.
From EdxmlVerif Require Valid.Cal.Chunk04.
From EdxmlVerif Require Valid.Cal.Chunk05.
From EdxmlVerif Require Valid.Cal.Chunk06.
From EdxmlVerif Require Valid.Cal.Chunk07.
From EdxmlVerif Require Valid.Cal.Chunk08.
From EdxmlVerif Require Valid.Cal.Chunk09.
From EdxmlVerif Require Valid.Cal.Chunk10.
From EdxmlVerif Require Valid.Cal.Chunk11.
From EdxmlVerif Require Valid.Cal.Chunk12.
From EdxmlVerif Require Valid.Cal.Chunk13.
Local Open Scope Z_scope.
Theorem all_ordinals_ok n : 1 <= n <= 3652059 -> ord_ok n = true.
Proof.
  intros H. assert (P : 2 ^ Z.of_nat 18 = 262144) by reflexivity.
  destruct (Z_lt_le_dec n 262145); [apply (check_range_spec 18 1 3652060 Valid.Cal.Chunk00.chunk); lia|].
  destruct (Z_lt_le_dec n 524289); [apply (check_range_spec 18 262145 3652060 Valid.Cal.Chunk01.chunk); lia|].
  destruct (Z_lt_le_dec n 786433); [apply (check_range_spec 18 524289 3652060 Valid.Cal.Chunk02.chunk); lia|].
  destruct (Z_lt_le_dec n 1048577); [apply (check_range_spec 18 786433 3652060 Valid.Cal.Chunk03.chunk); lia|].
  destruct (Z_lt_le_dec n 1310721); [apply (check_range_spec 18 1048577 3652060 Valid.Cal.Chunk04.chunk); lia|].
  destruct (Z_lt_le_dec n 1572865); [apply (check_range_spec 18 1310721 3652060 Valid.Cal.Chunk05.chunk); lia|].
  destruct (Z_lt_le_dec n 1835009); [apply (check_range_spec 18 1572865 3652060 Valid.Cal.Chunk06.chunk); lia|].
  destruct (Z_lt_le_dec n 2097153); [apply (check_range_spec 18 1835009 3652060 Valid.Cal.Chunk07.chunk); lia|].
  destruct (Z_lt_le_dec n 2359297); [apply (check_range_spec 18 2097153 3652060 Valid.Cal.Chunk08.chunk); lia|].
  destruct (Z_lt_le_dec n 2621441); [apply (check_range_spec 18 2359297 3652060 Valid.Cal.Chunk09.chunk); lia|].
  destruct (Z_lt_le_dec n 2883585); [apply (check_range_spec 18 2621441 3652060 Valid.Cal.Chunk10.chunk); lia|].
  destruct (Z_lt_le_dec n 3145729); [apply (check_range_spec 18 2883585 3652060 Valid.Cal.Chunk11.chunk); lia|].
  destruct (Z_lt_le_dec n 3407873); [apply (check_range_spec 18 3145729 3652060 Valid.Cal.Chunk12.chunk); lia|].
  destruct (Z_lt_le_dec n 3670017); [apply (check_range_spec 18 3407873 3652060 Valid.Cal.Chunk13.chunk); lia|].
  lia.
Qed.
