(* C13 — model of DataType.normalize_objects (edxml/ontology/data_type.py) and DataType.format_utc_datetime.
   Python values are a small sum type; numbers are exact (floats are the rationals they denote, Decimals are
   sign/coefficient/exponent).  The parts of the Python runtime the code relies on are modelled explicitly:
   int(str), float(str) (correct rounding to binary64), Decimal(str), '%d', '%E', '%.6f', format(Decimal,'.Pf'),
   str.lower/upper on ASCII, base64.decodebytes acceptance, datetime.astimezone(utc).
   Outside the modelled domain the functions answer Unmodelled (never a made-up value). *)
From EdxmlVerif Require Import Base.Prelude Valid.Gate.
Local Open Scope Z_scope.

(* ------------------------------------------------------------------ rendering of numbers *)
Fixpoint digits_le (fuel : nat) (n : N) : list N :=
  match fuel with
  | O => []
  | S f => if (n <? 10)%N then [n] else (n mod 10)%N :: digits_le f (n / 10)%N
  end.
Definition digit_chars (ds : list N) : str := map (fun d => (48 + d)%N) ds.
Definition render_N (n : N) : str := digit_chars (rev (digits_le (S (N.size_nat n)) n)).
Definition render_Z (z : Z) : str :=
  match z with Zneg p => 45%N :: render_N (Npos p) | _ => render_N (Z.to_N z) end.
Definition pad_left (w : nat) (s : str) : str := repeat 48%N (w - length s) ++ s.
Definition render_pad (w : nat) (n : N) : str := pad_left w (render_N n).

(* round to nearest, ties to even, of n/d for n >= 0, d > 0 *)
Definition round_he (n d : Z) : Z :=
  let q := n / d in let r := n mod d in
  if 2 * r <? d then q else if d <? 2 * r then q + 1 else if Z.even q then q else q + 1.

(* ------------------------------------------------------------------ Python values *)
Inductive pyval :=
| PInt (z : Z)
| PBool (b : bool)
| PStr (s : str)
| PFloat (neg : bool) (num den : Z)          (* finite double, |value| = num/den, den > 0; neg distinguishes -0.0 *)
| PFloatInf (neg : bool)
| PFloatNan
| PDec (neg : bool) (coef : Z) (exp : Z)     (* finite decimal.Decimal: (-1)^neg * coef * 10^exp, coef >= 0 *)
| PDecInf (neg : bool)
| PDecNan
| PDatetime (y mo d h mi s us : Z) (off : option Z)   (* off: utcoffset in seconds when aware *)
| PNone
| POther.                                    (* a list: no conversion applies *)

Inductive outcome :=
| Ok (s : str)
| Reject                 (* EDXMLEventValidationError *)
| Escapes                (* some other exception leaves normalize_objects *)
| Unmodelled.

Inductive scase := Mc | Lc | Uc.
Inductive dtype :=
| TInt | TFloat | TDecimal (frac : nat) | THex | TString (maxlen : nat) (c : scase)
| TBool | TBase64 | TDatetime | TGeo | TIp (v6 : bool) | TUri | TOther.

Definition outcome_eqb (a b : outcome) : bool :=
  match a, b with
  | Ok x, Ok y => str_eqb x y
  | Reject, Reject | Escapes, Escapes => true
  | Unmodelled, _ | _, Unmodelled => true      (* no claim *)
  | _, _ => false
  end.

(* ------------------------------------------------------------------ text → number, as the interpreter reads it *)
Section Text.
  Variable udigit : N -> option N.     (* decimal digit value of a code point (Unicode Nd), from the running interpreter *)
  Variable uspace : N -> bool.         (* str.isspace of a code point *)

  Fixpoint lstrip (s : str) : str := match s with c :: r => if uspace c then lstrip r else s | [] => [] end.
  Definition strip (s : str) : str := rev (lstrip (rev (lstrip s))).

  (* digits with single underscores between digits; prev = the previous character was a digit *)
  Fixpoint py_digits (s : str) (acc : Z) (prev : bool) : option Z :=
    match s with
    | [] => if prev then Some acc else None
    | c :: r =>
        if N.eqb c 95 then (if prev then match r with [] => None | _ => py_digits r acc false end else None)
        else match udigit c with
             | Some d => py_digits r (acc * 10 + Z.of_N d) true
             | None => None
             end
    end.

  (* int(s), base 10 *)
  Definition py_int (s : str) : option Z :=
    match strip s with
    | 45%N :: r => option_map Z.opp (py_digits r 0 false)
    | 43%N :: r => py_digits r 0 false
    | t => py_digits t 0 false
    end.

  (* --- decimal literals: [digits][.digits][(e|E)[sign]digits] ; value = mant * 10^exp10 *)
  Inductive numtext := NFin (neg : bool) (mant : Z) (exp10 : Z) | NInf (neg : bool) | NNan.

  (* read a run of digits (underscore rule as above when strict); returns value, count, rest *)
  Fixpoint digit_run (s : str) (acc : Z) (cnt : Z) (prev : bool) : option (Z * Z * str) :=
    match s with
    | [] => Some (acc, cnt, [])
    | c :: r =>
        if N.eqb c 95 then
          (if prev then match r with
                        | c2 :: _ => match udigit c2 with Some _ => digit_run r acc cnt false | None => None end
                        | [] => None
                        end
           else None)
        else match udigit c with
             | Some d => digit_run r (acc * 10 + Z.of_N d) (cnt + 1) true
             | None => Some (acc, cnt, s)
             end
    end.

  Definition lower_ascii_c (c : N) : N := if (65 <=? c)%N && (c <=? 90)%N then (c + 32)%N else c.
  Definition lower_ascii (s : str) : str := map lower_ascii_c s.
  Definition upper_ascii_c (c : N) : N := if (97 <=? c)%N && (c <=? 122)%N then (c - 32)%N else c.
  Definition upper_ascii (s : str) : str := map upper_ascii_c s.
  Definition is_ascii (s : str) : bool := forallb (fun c => (c <? 128)%N) s.

  Definition read_exponent (s : str) : option Z :=
    match s with
    | [] => Some 0
    | c :: r =>
        if N.eqb c 101 || N.eqb c 69 then
          let '(neg, r1) := match r with 45%N :: r1 => (true, r1) | 43%N :: r1 => (false, r1) | _ => (false, r) end in
          match r1 with
          | [] => None
          | _ => match digit_run r1 0 0 false with
                 | Some (e, _, []) => Some (if neg then - e else e)
                 | _ => None
                 end
          end
        else None
    end.

  Definition read_unsigned (s : str) : option (Z * Z) :=       (* mantissa, exp10 *)
    match digit_run s 0 0 false with
    | Some (ip, icnt, rest) =>
        match rest with
        | 46%N :: r =>
            match digit_run r 0 0 false with
            | Some (fp, fcnt, rest2) =>
                if (icnt + fcnt =? 0) then None
                else match read_exponent rest2 with
                     | Some e => Some (ip * 10 ^ fcnt + fp, e - fcnt)
                     | None => None
                     end
            | None => None
            end
        | _ => if icnt =? 0 then None
               else match read_exponent rest with Some e => Some (ip, e) | None => None end
        end
    | None => None
    end.

  Definition split_sign (t : str) : bool * str :=
    match t with 45%N :: r => (true, r) | 43%N :: r => (false, r) | _ => (false, t) end.

  (* the text after surrounding whitespace has been removed; `special` lists the accepted spellings of infinities / nan (lower case) *)
  Definition read_number (special_inf special_nan : list str) (t : str) : option numtext :=
    let '(neg, r) := split_sign t in
    if mem (lower_ascii r) special_inf then Some (NInf neg)
    else if mem (lower_ascii r) special_nan then Some NNan
    else match read_unsigned r with
         | Some (m, e) => Some (NFin neg m e)
         | None => None
         end.

  (* float(s) *)
  Definition float_text (s : str) : option numtext :=
    read_number [[105;110;102]; [105;110;102;105;110;105;116;121]]%N [[110;97;110]]%N (strip s).
  (* Decimal(s): surrounding whitespace is removed first, then underscores are dropped wherever they are; Inf / Infinity / NaN / sNaN *)
  Definition dec_text (s : str) : option numtext :=
    read_number [[105;110;102]; [105;110;102;105;110;105;116;121]]%N [[110;97;110]; [115;110;97;110]]%N
                (filter (fun c => negb (N.eqb c 95)) (strip s)).
End Text.

(* ------------------------------------------------------------------ binary64 *)
Definition scale2 (n d e : Z) : Z * Z := if 0 <=? e then (n, d * 2 ^ e) else (n * 2 ^ (- e), d).

(* nearest double to n/d (n > 0, d > 0): Some (m, e) with value m * 2^e, None = overflow to infinity *)
Definition to_double (n d : Z) : option (Z * Z) :=
  let e1 := Z.log2 n - Z.log2 d - 52 in
  let '(a, b) := scale2 n d e1 in
  let e2 := if a <? b * 2 ^ 52 then e1 - 1 else e1 in
  let e := Z.max e2 (-1074) in
  let '(a, b) := scale2 n d e in
  let m := round_he a b in
  if (971 <? e) || ((e =? 971) && (2 ^ 53 <=? m)) then None else Some (m, e).

Definition rat_of_double (me : Z * Z) : Z * Z :=
  let '(m, e) := me in if 0 <=? e then (m * 2 ^ e, 1) else (m, 2 ^ (- e)).

(* mantissa * 10^exp10 as a fraction *)
Definition rat_of_dec (m e : Z) : Z * Z := if 0 <=? e then (m * 10 ^ e, 1) else (m, 10 ^ (- e)).

Inductive fl := FFin (neg : bool) (n d : Z) | FInf (neg : bool) | FNan.

Definition float_of_rat (neg : bool) (n d : Z) : fl :=
  if n =? 0 then FFin neg 0 1
  else match to_double n d with
       | Some me => let '(n', d') := rat_of_double me in FFin neg n' d'
       | None => FInf neg
       end.

(* exponents beyond this make float() / Decimal arithmetic run into limits we do not model *)
Definition exp_modelled (e : Z) : bool := (-5000 <=? e) && (e <=? 5000).

(* ------------------------------------------------------------------ printf *)
Definition ge_pow10 (n d k : Z) : bool := if 0 <=? k then 10 ^ k * d <=? n else d <=? n * 10 ^ (- k).

(* floor(log10(n/d)) for n, d > 0 *)
Definition ilog10 (n d : Z) : Z :=
  let k0 := ((Z.log2 n - Z.log2 d) * 30103) / 100000 in
  if ge_pow10 n d (k0 + 2) then k0 + 2
  else if ge_pow10 n d (k0 + 1) then k0 + 1
  else if ge_pow10 n d k0 then k0
  else if ge_pow10 n d (k0 - 1) then k0 - 1 else k0 - 2.

Definition sign_str (neg : bool) : str := if neg then [45%N] else [].

(* '%E' % x, 6 fractional digits *)
Definition fmt_E (neg : bool) (n d : Z) : str :=
  if n =? 0 then sign_str neg ++ [48; 46; 48; 48; 48; 48; 48; 48; 69; 43; 48; 48]%N
  else
    let k := ilog10 n d in
    let '(a, b) := if 0 <=? k - 6 then (n, d * 10 ^ (k - 6)) else (n * 10 ^ (6 - k), d) in
    let m0 := round_he a b in
    let '(m, k) := if m0 =? 10 ^ 7 then (10 ^ 6, k + 1) else (m0, k) in
    let ds := render_N (Z.to_N m) in
    sign_str neg ++ firstn 1 ds ++ [46%N] ++ skipn 1 ds ++ [69%N] ++ (if k <? 0 then [45%N] else [43%N])
      ++ render_pad 2 (Z.to_N (Z.abs k)).

(* fixed notation with p fractional digits of the integer m = round(x * 10^p) *)
Definition fmt_fixed (neg : bool) (m : Z) (p : nat) : str :=
  let scale := 10 ^ Z.of_nat p in
  sign_str neg ++ render_N (Z.to_N (m / scale)) ++
  match p with O => [] | _ => 46%N :: render_pad p (Z.to_N (m mod scale)) end.

(* '%.6f' % x *)
Definition fmt_f6 (neg : bool) (n d : Z) : str := fmt_fixed neg (round_he (n * 10 ^ 6) d) 6.

(* format(Decimal, '.Pf') followed by _format_decimal's removal of the sign of zero *)
Definition dec_scaled (coef exp : Z) (p : nat) : Z :=
  let e := exp + Z.of_nat p in
  if 0 <=? e then coef * 10 ^ e else round_he coef (10 ^ (- e)).
Definition fmt_decimal (strip_zero_sign : bool) (neg : bool) (coef exp : Z) (p : nat) : str :=
  let m := dec_scaled coef exp p in
  fmt_fixed (neg && negb (strip_zero_sign && (m =? 0))) m p.

(* ------------------------------------------------------------------ conversions between Python numbers *)
Definition float_of_val (udigit : N -> option N) (uspace : N -> bool) (v : pyval) : option (option fl) :=
  (* None = unmodelled; Some None = float(v) raises *)
  match v with
  | PInt z => Some (Some (float_of_rat (z <? 0) (Z.abs z) 1))
  | PBool b => Some (Some (FFin false (if b then 1 else 0) 1))
  | PFloat neg n d => Some (Some (FFin neg n d))
  | PFloatInf neg => Some (Some (FInf neg))
  | PFloatNan => Some (Some FNan)
  | PDec neg c e => if exp_modelled e then let '(n, d) := rat_of_dec c e in Some (Some (float_of_rat neg n d)) else None
  | PDecInf neg => Some (Some (FInf neg))
  | PDecNan => Some (Some FNan)
  | PStr s => match float_text udigit uspace s with
              | Some (NFin neg m e) => if exp_modelled e then let '(n, d) := rat_of_dec m e in Some (Some (float_of_rat neg n d)) else None
              | Some (NInf neg) => Some (Some (FInf neg))
              | Some NNan => Some (Some FNan)
              | None => Some None
              end
  | _ => Some None
  end.

(* Decimal(v): Some (Some (neg, coef, exp)) finite; the two specials; None when the constructor raises *)
Inductive dec := DFin (neg : bool) (coef exp : Z) | DInf (neg : bool) | DNan.
Definition pow2_exp (d : Z) : Z := Z.log2 d.    (* d = 2^k *)
Definition dec_of_val (udigit : N -> option N) (uspace : N -> bool) (v : pyval) : option (option dec) :=
  match v with
  | PInt z => Some (Some (DFin (z <? 0) (Z.abs z) 0))
  | PBool b => Some (Some (DFin false (if b then 1 else 0) 0))
  | PFloat neg n d => (* exact: n / 2^k = n * 5^k / 10^k *)
      let k := pow2_exp d in Some (Some (DFin neg (n * 5 ^ k) (- k)))
  | PFloatInf neg => Some (Some (DInf neg))
  | PFloatNan => Some (Some DNan)
  | PDec neg c e => Some (Some (DFin neg c e))
  | PDecInf neg => Some (Some (DInf neg))
  | PDecNan => Some (Some DNan)
  | PStr s => match dec_text udigit uspace s with
              | Some (NFin neg m e) => if exp_modelled e then Some (Some (DFin neg m e)) else None
              | Some (NInf neg) => Some (Some (DInf neg))
              | Some NNan => Some (Some DNan)
              | None => Some None
              end
  | _ => Some None
  end.

(* int(v): truncation towards zero for floats and Decimals *)
Definition int_of_val (udigit : N -> option N) (uspace : N -> bool) (v : pyval) : option Z :=
  match v with
  | PInt z => Some z
  | PBool b => Some (if b then 1 else 0)
  | PStr s => py_int udigit uspace s
  | PFloat neg n d => Some (if neg then - (n / d) else n / d)
  | PDec neg c e => let '(n, d) := rat_of_dec c e in Some (if neg then - (n / d) else n / d)
  | _ => None
  end.

(* ------------------------------------------------------------------ booleans *)
Definition is_one (v : pyval) : bool :=
  match v with
  | PInt z => z =? 1 | PBool b => b
  | PFloat neg n d => negb neg && (n =? d)
  | PDec neg c e => negb neg && (let '(n, d) := rat_of_dec c e in n =? d)
  | PStr s => str_eqb s [116; 114; 117; 101]%N || str_eqb s [84; 114; 117; 101]%N
  | _ => false
  end.
Definition is_zero (v : pyval) : bool :=
  match v with
  | PInt z => z =? 0 | PBool b => negb b
  | PFloat _ n _ => n =? 0
  | PDec _ c _ => c =? 0
  | PStr s => str_eqb s [102; 97; 108; 115; 101]%N || str_eqb s [70; 97; 108; 115; 101]%N
  | _ => false
  end.
Definition s_true : str := [116; 114; 117; 101]%N.
Definition s_false : str := [102; 97; 108; 115; 101]%N.

(* ------------------------------------------------------------------ base64 *)
Definition b64_data (c : N) : bool :=
  ((65 <=? c) && (c <=? 90) || (97 <=? c) && (c <=? 122) || (48 <=? c) && (c <=? 57) || (c =? 43) || (c =? 47))%N.

(* binascii.a2b_base64, non-strict: does the scan end without error? quad = data characters mod 4, pads = consecutive '=' *)
Fixpoint b64_scan (s : list N) (quad pads : nat) : bool :=
  match s with
  | [] => Nat.eqb quad 0
  | c :: r =>
      if N.eqb c 61 then
        (if Nat.leb 2 quad && Nat.leb 4 (quad + S pads) then true else b64_scan r quad (S pads))
      else if b64_data c then b64_scan r (Nat.modulo (S quad) 4) 0
      else b64_scan r quad pads
  end.

Definition b64_padding (pad_rule_fixed : bool) (len : nat) : nat :=
  if pad_rule_fixed then Nat.modulo (4 - Nat.modulo len 4) 4 else Nat.modulo len 4.

(* the value is encoded to UTF-8 first: padding counts bytes.  For ASCII text bytes = characters. *)
Definition norm_base64 (pad_rule_fixed : bool) (s : str) : outcome :=
  if forallb (fun c => (c <? 128)%N) s then
    let padded := s ++ repeat 61%N (b64_padding pad_rule_fixed (length s)) in
    if b64_scan padded 0 0 then Ok padded else Reject
  else Unmodelled.

(* ------------------------------------------------------------------ dates *)
Definition is_leap (y : Z) : bool := (y mod 4 =? 0) && (negb (y mod 100 =? 0) || (y mod 400 =? 0)).
Definition days_in_month (y m : Z) : Z :=
  if m =? 2 then (if is_leap y then 29 else 28)
  else if (m =? 4) || (m =? 6) || (m =? 9) || (m =? 11) then 30 else 31.
Definition days_before_year (y : Z) : Z := let p := y - 1 in p * 365 + p / 4 - p / 100 + p / 400.
Definition days_before_month (y m : Z) : Z :=
  match m with
  | 1 => 0 | 2 => 31 | 3 => 59 | 4 => 90 | 5 => 120 | 6 => 151 | 7 => 181 | 8 => 212 | 9 => 243 | 10 => 273 | 11 => 304 | _ => 334
  end + (if (2 <? m) && is_leap y then 1 else 0).
(* proleptic Gregorian ordinal, 0001-01-01 = 1 *)
Definition ordinal (y m d : Z) : Z := days_before_year y + days_before_month y m + d.

Definition year_of_ordinal (n : Z) : Z :=
  let y0 := ((n - 1) * 400) / 146097 in      (* 146097 days per 400 years: the true year, or one or two before it *)
  if days_before_year (y0 + 2) <? n then y0 + 2 else if days_before_year (y0 + 1) <? n then y0 + 1 else y0.
Definition month_of (y rest : Z) : Z :=    (* rest = 1-based day of year *)
  let m0 := (rest + 49) / 32 in             (* as datetime._ord2ymd estimates it: never too small, at most one too large *)
  if rest <=? days_before_month y m0 then m0 - 1 else m0.
Definition civil_of_ordinal (n : Z) : Z * Z * Z :=
  let y := year_of_ordinal n in
  let rest := n - days_before_year y in
  let m := month_of y rest in
  (y, m, rest - days_before_month y m).

Definition valid_date (y m d : Z) : bool :=
  (1 <=? y) && (y <=? 9999) && (1 <=? m) && (m <=? 12) && (1 <=? d) && (d <=? days_in_month y m).
Definition valid_time (h mi s us : Z) : bool :=
  (0 <=? h) && (h <? 24) && (0 <=? mi) && (mi <? 60) && (0 <=? s) && (s <? 60) && (0 <=? us) && (us <? 1000000).

Definition day_us : Z := 86400000000.
(* microseconds since 0001-01-01T00:00 (ordinal 1) of the wall clock reading *)
Definition wall_us (y mo d h mi s us : Z) : Z :=
  (ordinal y mo d - 1) * day_us + ((h * 60 + mi) * 60 + s) * 1000000 + us.
Definition max_us : Z := 3652059 * day_us.

Definition fmt_datetime (y mo d h mi s us : Z) : str :=
  render_pad 4 (Z.to_N y) ++ [45%N] ++ render_pad 2 (Z.to_N mo) ++ [45%N] ++ render_pad 2 (Z.to_N d) ++ [84%N] ++
  render_pad 2 (Z.to_N h) ++ [58%N] ++ render_pad 2 (Z.to_N mi) ++ [58%N] ++ render_pad 2 (Z.to_N s) ++ [46%N] ++
  render_pad 6 (Z.to_N us) ++ [90%N].

Definition fields_of_us (t : Z) : Z * Z * Z * Z * Z * Z * Z :=
  let days := t / day_us in let r := t mod day_us in
  let '(y, mo, d) := civil_of_ordinal (days + 1) in
  let secs := r / 1000000 in
  (y, mo, d, secs / 3600, (secs / 60) mod 60, secs mod 60, r mod 1000000).

(* format_utc_datetime; convert = aware datetimes are converted to UTC first (the pinned code did not) *)
Definition norm_datetime (convert : bool) (y mo d h mi s us : Z) (off : option Z) : outcome :=
  if valid_date y mo d && valid_time h mi s us then
    match off with
    | Some o =>
        if convert then
          let t := wall_us y mo d h mi s us - o * 1000000 in
          if (0 <=? t) && (t <? max_us) then
            let '(y', mo', d', h', mi', s', us') := fields_of_us t in Ok (fmt_datetime y' mo' d' h' mi' s' us')
          else Reject                                  (* OverflowError of astimezone, reported as validation error *)
        else Ok (fmt_datetime y mo d h mi s us)
    | None => Ok (fmt_datetime y mo d h mi s us)
    end
  else Unmodelled.

(* ------------------------------------------------------------------ the normaliser *)
Record flags := {
  f_pad_fixed : bool;          (* base64 pads to a multiple of four *)
  f_bool_strict : bool;        (* values that are neither true nor false are rejected *)
  f_dt_convert : bool;         (* aware datetimes are converted; other types rejected instead of dropped *)
  f_dec_exact : bool           (* decimals are formatted exactly, zero unsigned (otherwise: through a float) *)
}.
Definition repaired : flags := {| f_pad_fixed := true; f_bool_strict := true; f_dt_convert := true; f_dec_exact := true |}.
Definition pinned : flags := {| f_pad_fixed := false; f_bool_strict := false; f_dt_convert := false; f_dec_exact := false |}.

Section Normalize.
  Variable udigit : N -> option N.
  Variable uspace : N -> bool.
  Variable fl_ : flags.

  Definition norm_float (v : pyval) : outcome :=
    match float_of_val udigit uspace v with
    | None => Unmodelled
    | Some None => Reject
    | Some (Some (FFin neg n d)) => Ok (fmt_E neg n d)
    | Some (Some _) => Reject          (* 'INF' / 'NAN' carry no exponent: ValueError *)
    end.

  Definition norm_decimal (p : nat) (v : pyval) : outcome :=
    match dec_of_val udigit uspace v with
    | None => Unmodelled
    | Some None => Reject
    | Some (Some (DFin neg c e)) =>
        if f_dec_exact fl_ then Ok (fmt_decimal true neg c e p)
        else Unmodelled                 (* pinned code: '%.Pf' % Decimal goes through a double *)
    | Some (Some (DInf neg)) => if f_dec_exact fl_ then Ok (sign_str neg ++ [73; 110; 102; 105; 110; 105; 116; 121]%N) else Unmodelled
    | Some (Some DNan) => Unmodelled    (* 'NaN' / 'sNaN' / '-NaN': left invalid; spelling not modelled *)
    end.

  Definition norm_int (v : pyval) : outcome :=
    match v with
    | PFloatInf _ | PFloatNan | PDecInf _ | PDecNan | PNone | POther | PDatetime _ _ _ _ _ _ _ _ => Reject
    | _ => match int_of_val udigit uspace v with Some z => Ok (render_Z z) | None => Reject end
    end.

  Definition norm_bool (v : pyval) : outcome :=
    if is_one v then Ok s_true
    else if is_zero v then Ok s_false
    else if f_bool_strict fl_ then Reject else Ok s_false.

  Definition py_str (v : pyval) : option str :=
    match v with
    | PStr s => Some s
    | PInt z => Some (render_Z z)
    | PBool b => Some (if b then [84; 114; 117; 101]%N else [70; 97; 108; 115; 101]%N)
    | PNone => Some [78; 111; 110; 101]%N
    | _ => None
    end.

  Definition norm_string (maxlen : nat) (c : scase) (v : pyval) : outcome :=
    match py_str v with
    | Some s =>
        if negb (Nat.eqb maxlen 0) && Nat.ltb maxlen (length s) then Reject
        else match c with
             | Mc => Ok s
             | Lc => if is_ascii s then Ok (lower_ascii s) else Unmodelled
             | Uc => if is_ascii s then Ok (upper_ascii s) else Unmodelled
             end
    | None => Unmodelled
    end.

  Definition norm_hex (v : pyval) : outcome :=
    match v with
    | PStr s => if is_ascii s then Ok (lower_ascii s) else Unmodelled
    | PInt _ | PBool _ | PFloat _ _ _ | PFloatInf _ | PFloatNan | PDec _ _ _ | PDecInf _ | PDecNan | PNone
    | PDatetime _ _ _ _ _ _ _ _ | POther => Reject      (* no .lower(): AttributeError, reported as validation error *)
    end.

  Definition norm_geo (v : pyval) : outcome :=
    match v with
    | PStr s =>
        (* value.split(','): exactly two parts, each read by float() *)
        (fix split (l : str) (acc : str) : outcome :=
           match l with
           | [] => Reject                       (* no comma: one part, the format needs two *)
           | c :: r =>
               if N.eqb c 44 then
                 if existsb (N.eqb 44) r then Reject
                 else match float_of_val udigit uspace (PStr (rev acc)), float_of_val udigit uspace (PStr r) with
                      | Some (Some (FFin n1 a1 b1)), Some (Some (FFin n2 a2 b2)) => Ok (fmt_f6 n1 a1 b1 ++ [44%N] ++ fmt_f6 n2 a2 b2)
                      | Some None, Some _ | Some _, Some None => Reject
                      | _, _ => Unmodelled      (* nan / inf parts print as text: left invalid, spelling not modelled *)
                      end
               else split r (c :: acc)
           end) s []
    | _ => Reject                               (* no .split(): AttributeError, reported as validation error *)
    end.

  Definition norm_uri (v : pyval) : outcome :=
    match v with PStr s => Ok s | _ => Reject end.

  Definition norm_other (v : pyval) : outcome :=
    match py_str v with Some s => Ok s | None => Unmodelled end.

  Definition norm_dt (v : pyval) : outcome :=
    match v with
    | PDatetime y mo d h mi s us off => norm_datetime (f_dt_convert fl_) y mo d h mi s us off
    | PStr _ => Unmodelled                    (* dateutil *)
    | _ => if f_dt_convert fl_ then Reject else Unmodelled    (* the pinned code dropped the value silently *)
    end.

  Definition norm_b64 (v : pyval) : outcome :=
    match v with
    | PStr s => norm_base64 (f_pad_fixed fl_) s
    | _ => Reject                             (* no .encode(): AttributeError *)
    end.

  Definition normalize1 (t : dtype) (v : pyval) : outcome :=
    match t with
    | TInt => norm_int v
    | TFloat => norm_float v
    | TDecimal p => norm_decimal p v
    | THex => norm_hex v
    | TString n c => norm_string n c v
    | TBool => norm_bool v
    | TBase64 => norm_b64 v
    | TDatetime => norm_dt v
    | TGeo => norm_geo v
    | TIp _ => Unmodelled                     (* IPy *)
    | TUri => norm_uri v
    | TOther => norm_other v
    end.
End Normalize.
