(* C13 — the decimal normaliser reads its own output back: Decimal(text) of a rendered fixed point number is the number,
   hence normalising normalised decimals changes nothing (for every value and every number of fractional digits >= 1). *)
From Coq Require Import Lia ZifyBool.
From EdxmlVerif Require Import Base.Prelude Valid.Gate Valid.Normalize Valid.Normalize_proofs.
Local Open Scope Z_scope.

(* ---- length of rendered numbers ---- *)
Lemma digits_le_len fuel : forall n k, (n < 10 ^ N.of_nat k)%N -> (1 <= k)%nat -> (length (digits_le fuel n) <= k)%nat.
Proof.
  induction fuel as [|f IH]; intros n k Hn Hk; cbn [digits_le]; [cbn; lia|].
  destruct (n <? 10)%N eqn:E; [cbn; lia|].
  destruct k as [|[|k]]; [lia | cbn in Hn; lia |].
  cbn [length]. apply le_n_S. apply IH; [|lia].
  rewrite Nat2N.inj_succ, N.pow_succ_r' in Hn. apply N.div_lt_upper_bound; [lia|]. exact Hn.
Qed.

Lemma render_N_length n k : (n < 10 ^ N.of_nat k)%N -> (1 <= k)%nat -> (length (render_N n) <= k)%nat.
Proof.
  intros Hn Hk. unfold render_N, digit_chars. rewrite map_length, rev_length. apply digits_le_len; assumption.
Qed.

Lemma digits_val_zeros k : forall s acc, acc = 0 -> digits_val (repeat 48%N k ++ s) acc = digits_val s 0.
Proof.
  induction k as [|k IH]; intros s acc ->; [reflexivity|]. cbn [repeat app digits_val]. cbn. apply IH. reflexivity.
Qed.

Lemma forallb_repeat_digit k : forallb is_digit (repeat 48%N k) = true.
Proof. induction k; cbn; auto. Qed.

Lemma render_pad_spec p x : (x < 10 ^ N.of_nat p)%N -> (1 <= p)%nat ->
  length (render_pad p x) = p /\ forallb is_digit (render_pad p x) = true /\ digits_val (render_pad p x) 0 = Some (Z.of_N x).
Proof.
  intros Hx Hp. unfold render_pad, pad_left. pose proof (render_N_length x p Hx Hp) as L.
  destruct (render_N_all_digits x) as (D & _). split; [|split].
  - rewrite app_length, repeat_length. lia.
  - rewrite forallb_app, forallb_repeat_digit, D. reflexivity.
  - rewrite digits_val_zeros by reflexivity. apply render_N_digits.
Qed.

Section DecText.
  Variable udigit : N -> option N.
  Variable uspace : N -> bool.
  Hypothesis ascii_digits : forall d, (d < 10)%N -> udigit (48 + d) = Some d.
  Hypothesis dot_no_digit : udigit 46 = None.
  Hypothesis digits_not_space : forall c, is_digit c = true -> uspace c = false.
  Hypothesis minus_not_space : uspace 45 = false.
  Hypothesis dot_not_space : uspace 46 = false.

  Lemma udigit_of_digit c : is_digit c = true -> udigit c = Some (c - 48)%N.
  Proof.
    intro D. replace c with (48 + (c - 48))%N at 1 by (unfold is_digit in D; lia). apply ascii_digits. unfold is_digit in D. lia.
  Qed.

  (* a run of ASCII digits followed by nothing, or by a character that is neither a digit nor an underscore *)
  Lemma digit_run_ascii s : forallb is_digit s = true -> forall rest acc cnt prev v,
    match rest with [] => True | c :: _ => udigit c = None /\ c <> 95%N end ->
    digits_val s acc = Some v ->
    digit_run udigit (s ++ rest) acc cnt prev = Some (v, cnt + Z.of_nat (length s), rest).
  Proof.
    induction s as [|c r IH]; intros D rest acc cnt prev v Hrest Hv.
    - cbn [app length digits_val] in *. injection Hv as <-. replace (cnt + Z.of_nat 0) with cnt by lia.
      destruct rest as [|c0 r0]; [reflexivity|]. destruct Hrest as [U N95]. cbn [digit_run].
      destruct (N.eqb_spec c0 95); [contradiction|]. rewrite U. reflexivity.
    - cbn [forallb] in D. apply andb_true_iff in D as [Dc Dr]. cbn [app digit_run].
      assert (c <> 95%N) by (unfold is_digit in Dc; lia). destruct (N.eqb_spec c 95); [contradiction|].
      rewrite (udigit_of_digit c Dc). cbn [digits_val] in Hv. rewrite Dc in Hv.
      rewrite (IH Dr rest _ (cnt + 1) true v Hrest Hv). cbn [length]. f_equal. f_equal. f_equal. lia.
  Qed.

  Lemma read_unsigned_fixed (I F : str) ip fp :
    forallb is_digit I = true -> I <> [] -> forallb is_digit F = true -> F <> [] ->
    digits_val I 0 = Some ip -> digits_val F 0 = Some fp ->
    read_unsigned udigit (I ++ 46%N :: F) = Some (ip * 10 ^ Z.of_nat (length F) + fp, - Z.of_nat (length F)).
  Proof.
    intros DI NI DF NF VI VF. unfold read_unsigned.
    rewrite (digit_run_ascii I DI (46%N :: F) 0 0 false ip); [|split; [exact dot_no_digit | discriminate] | exact VI].
    pose proof (digit_run_ascii F DF [] 0 0 false fp Logic.I VF) as RF. rewrite app_nil_r in RF. rewrite RF.
    repeat match goal with |- context [if ?c then _ else _] =>
      replace c with false by (destruct F; [congruence | cbn [length]; lia]) end.
    cbn [read_exponent]. replace (0 + Z.of_nat (length F)) with (Z.of_nat (length F)) by lia.
    replace (0 - Z.of_nat (length F)) with (- Z.of_nat (length F)) by lia. reflexivity.
  Qed.

  (* characters of a rendered number are no white space, no underscore *)
  Definition plain_char (c : N) : bool := is_digit c || N.eqb c 45 || N.eqb c 46.

  Lemma plain_not_space c : plain_char c = true -> uspace c = false.
  Proof.
    unfold plain_char. intro H. apply orb_true_iff in H as [H|H]; [apply orb_true_iff in H as [H|H]|].
    - apply digits_not_space. exact H.
    - apply N.eqb_eq in H. subst. exact minus_not_space.
    - apply N.eqb_eq in H. subst. exact dot_not_space.
  Qed.

  Lemma filter_plain s : forallb plain_char s = true -> filter (fun c => negb (N.eqb c 95)) s = s.
  Proof.
    induction s as [|c r IH]; intro H; [reflexivity|]. cbn [forallb] in H. apply andb_true_iff in H as [Hc Hr].
    cbn [filter]. assert (c <> 95%N) by (unfold plain_char, is_digit in Hc; lia).
    destruct (N.eqb_spec c 95); [contradiction|]. cbn [negb]. f_equal. apply IH. exact Hr.
  Qed.

  Lemma digits_plain s : forallb is_digit s = true -> forallb plain_char s = true.
  Proof.
    intro H. apply forallb_forall. intros c Hc. rewrite forallb_forall in H. unfold plain_char. rewrite (H c Hc). reflexivity.
  Qed.

  (* a text starting with an ASCII digit is none of the special spellings *)
  Lemma not_special (c : N) (r : str) (l : list str) : is_digit c = true ->
    Forall (fun w => match w with [] => True | c0 :: _ => is_digit c0 = false end) l ->
    mem (lower_ascii (c :: r)) l = false.
  Proof.
    intros D. induction 1 as [|w l Hw Hl IH]; [reflexivity|]. cbn [mem]. rewrite IH, orb_false_r.
    destruct w as [|c0 w']; [reflexivity|]. cbn [lower_ascii map str_eqb list_eqb].
    assert (lower_ascii_c c = c) as -> by (unfold lower_ascii_c, is_digit in *; destruct ((65 <=? c)%N && (c <=? 90)%N) eqn:E; lia).
    destruct (N.eqb_spec c c0); [subst; congruence | reflexivity].
  Qed.

  Theorem dec_text_fixed neg m p : 0 <= m -> (1 <= p)%nat ->
    dec_text udigit uspace (fmt_fixed neg m p) = Some (NFin neg m (- Z.of_nat p)).
  Proof.
    intros Hm Hp. unfold fmt_fixed. destruct p as [|p']; [lia|]. set (p := S p') in *.
    set (scale := 10 ^ Z.of_nat p).
    assert (Hs : 0 < scale) by (apply Z.pow_pos_nonneg; lia).
    set (I := render_N (Z.to_N (m / scale))). set (F := render_pad p (Z.to_N (m mod scale))).
    destruct (render_N_all_digits (Z.to_N (m / scale))) as (DI & NI). fold I in DI, NI.
    assert (Hx : (Z.to_N (m mod scale) < 10 ^ N.of_nat p)%N).
    { pose proof (Z.mod_pos_bound m scale Hs). unfold scale in *.
      assert (Z.of_N (10 ^ N.of_nat p) = 10 ^ Z.of_nat p) by (rewrite N2Z.inj_pow; f_equal; lia). lia. }
    destruct (render_pad_spec p (Z.to_N (m mod scale)) Hx Hp) as (LF & DF & VF). fold F in LF, DF, VF.
    assert (NF : F <> []) by (intro E; rewrite E in LF; cbn in LF; lia).
    assert (Plain : forallb plain_char (sign_str neg ++ I ++ 46%N :: F) = true).
    { rewrite !forallb_app. cbn [forallb]. rewrite (digits_plain I DI), (digits_plain F DF).
      destruct neg; cbn; reflexivity. }
    unfold dec_text.
    assert (St : strip uspace (sign_str neg ++ I ++ 46%N :: F) = sign_str neg ++ I ++ 46%N :: F).
    { apply (strip_id uspace minus_not_space).
      - intro E. apply app_eq_nil in E as [_ E]. apply app_eq_nil in E as [_ E]. discriminate E.
      - intros c Hc. apply plain_not_space. rewrite forallb_forall in Plain. apply Plain. exact Hc. }
    rewrite St, (filter_plain _ Plain). unfold read_number.
    assert (RU : read_unsigned udigit (I ++ 46%N :: F) = Some (m, - Z.of_nat p)).
    { rewrite (read_unsigned_fixed I F (Z.of_N (Z.to_N (m / scale))) (Z.of_N (Z.to_N (m mod scale))) DI NI DF NF (render_N_digits _) VF).
      rewrite LF. f_equal. f_equal.
      pose proof (Z.div_mod m scale ltac:(lia)). pose proof (Z.mod_pos_bound m scale Hs).
      pose proof (Z.div_pos m scale Hm Hs). fold scale. lia. }
    assert (Spec : forall l, Forall (fun w => match w with [] => True | c0 :: _ => is_digit c0 = false end) l ->
                             mem (lower_ascii (I ++ 46%N :: F)) l = false).
    { intros l Hl. destruct I as [|c r]; [congruence|]. cbn [app]. apply not_special; [|exact Hl].
      cbn [forallb] in DI. apply andb_true_iff in DI. tauto. }
    destruct neg; cbn [sign_str app split_sign].
    - rewrite !Spec, RU; [reflexivity | repeat constructor | repeat constructor].
    - destruct I as [|c r] eqn:EI; [congruence|]. cbn [app].
      assert (Dc : is_digit c = true) by (cbn [forallb] in DI; apply andb_true_iff in DI; tauto).
      assert (split_sign (c :: r ++ 46%N :: F) = (false, c :: r ++ 46%N :: F)) as ->.
      { unfold split_sign. destruct c as [|cp]; [reflexivity|].
        repeat (destruct cp as [cp|cp|]; try reflexivity; try (cbn in Dc; discriminate)). }
      change (c :: r ++ 46%N :: F) with ((c :: r) ++ 46%N :: F). rewrite <- EI in *.
      rewrite !Spec, RU; [reflexivity | repeat constructor | repeat constructor].
  Qed.

  (* normalising a normalised decimal returns it unchanged *)
  Theorem norm_decimal_fixed_point neg m p : 0 <= m -> (1 <= p <= 5000)%nat ->
    let out := fmt_fixed (neg && negb (m =? 0)) m p in
    norm_decimal udigit uspace repaired p (PStr out) = Ok out.
  Proof.
    intros Hm Hp out. unfold norm_decimal, dec_of_val. unfold out.
    rewrite (dec_text_fixed _ m p Hm ltac:(lia)).
    assert (exp_modelled (- Z.of_nat p) = true) as -> by (unfold exp_modelled; lia).
    cbn [f_dec_exact repaired]. unfold fmt_decimal, dec_scaled.
    replace (- Z.of_nat p + Z.of_nat p) with 0 by lia. cbn [Z.leb Z.compare]. rewrite Z.pow_0_r, Z.mul_1_r.
    destruct (m =? 0); rewrite ?andb_false_r, ?andb_true_r; cbn [negb andb]; rewrite ?andb_false_r, ?andb_true_r; reflexivity.
  Qed.

  Lemma dec_scaled_nonneg c e p : 0 <= c -> 0 <= dec_scaled c e p.
  Proof.
    intro Hc. unfold dec_scaled. destruct (0 <=? e + Z.of_nat p) eqn:E.
    - apply Z.mul_nonneg_nonneg; [exact Hc|]. apply Z.pow_nonneg. lia.
    - apply round_he_nonneg; [exact Hc|]. apply Z.pow_pos_nonneg; lia.
  Qed.

  (* idempotence on every finite value the normaliser accepts (native numbers, Decimals, strings) *)
  Theorem norm_decimal_idempotent v neg c e p s : (1 <= p <= 5000)%nat -> 0 <= c ->
    dec_of_val udigit uspace v = Some (Some (DFin neg c e)) ->
    norm_decimal udigit uspace repaired p v = Ok s ->
    norm_decimal udigit uspace repaired p (PStr s) = Ok s.
  Proof.
    intros Hp Hc Dv H. unfold norm_decimal in H. rewrite Dv in H. cbn [f_dec_exact repaired] in H. injection H as <-.
    unfold fmt_decimal. apply norm_decimal_fixed_point; [apply dec_scaled_nonneg; exact Hc | exact Hp].
  Qed.
End DecText.
