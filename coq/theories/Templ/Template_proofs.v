(* C16 — a template that validates evaluates without raising, for every event whose values are valid for their data types;
   evaluation leaves the property mapping as it was. *)
From Coq Require Import String Lia.
From EdxmlVerif Require Import Base.Prelude Templ.Template.

Lemma all_some_ok {A B} (f : A -> option B) l : (forall x, In x l -> f x <> None) -> exists r, all_some (map f l) = Some r.
Proof.
  induction l as [|x l IH]; intros H; [exists []; reflexivity|].
  cbn. destruct (f x) as [y|] eqn:E; [|exfalso; apply (H x (or_introl eq_refl)); exact E].
  destruct IH as (r & ->); [intros; apply H; right; assumption|]. exists (y :: r). reflexivity.
Qed.

Lemma str_min_In l a : str_min l = Some a -> In a l.
Proof.
  revert a. induction l as [|x r IH]; intros a H; [discriminate|]. cbn in H.
  destruct (str_min r) as [m|] eqn:E.
  - injection H as <-. destruct (str_leb x m); [left; reflexivity | right; apply IH; reflexivity].
  - injection H as <-. left; reflexivity.
Qed.

Section Safe.
  Variable t : tinfo.
  Variable render_float : str -> option str.
  Variable dt_iso : str -> option str.
  Variable dt_duration : str -> str -> option str.
  Variable dt_format : str -> str -> option str.
  Variable geo_render : str -> option str.

  Definition dtype (p : str) : str := odefault [] (aget p (t_props t)).
  Notation evalph := (eval_ph t dt_iso dt_duration dt_format geo_render).
  Notation evalseg := (eval_segment t dt_iso dt_duration dt_format geo_render).
  Notation evalnode := (eval_node t dt_iso dt_duration dt_format geo_render).

  (* the values of the event are valid for the data types the formatters care about *)
  Record vals_ok (v : list (str * list str)) : Prop := {
    ok_iso : forall p x, dtype p = L "datetime" -> In x (values v p) -> dt_iso x <> None;
    ok_fmt : forall p x acc, dtype p = L "datetime" -> In x (values v p) -> In acc accuracies -> dt_format acc x <> None;
    ok_dur : forall p q a b, dtype p = L "datetime" -> dtype q = L "datetime" -> In a (values v p) -> In b (values v q) -> dt_duration a b <> None;
    ok_bool : forall p x, dtype p = L "boolean" -> In x (values v p) -> x = L "true" \/ x = L "false";
    ok_geo : forall p x, dtype p = L "geo:point" -> In x (values v p) -> geo_render x <> None
  }.

  Lemma parse_eval_same c f a : parse_ph c = (f, a) -> a <> [] -> parse_ph_eval c = (f, a).
  Proof.
    unfold parse_ph, parse_ph_eval. destruct (split1 58%N c) as [(f0, a0)|].
    - intros H NE. injection H as <- H. destruct (split_all 44%N a0) as [|h tl] eqn:S; [subst; congruence|].
      destruct h; destruct tl; subst; try congruence; reflexivity.
    - intros H NE. injection H as <- H. destruct (split_all 44%N c) as [|h tl] eqn:S; [subst; congruence|].
      destruct h; destruct tl; subst; try congruence; reflexivity.
  Qed.

  Lemma bool_render_ok tr fl vs : (forall x, In x vs -> x = L "true" \/ x = L "false") -> bool_render tr fl vs <> PRaise.
  Proof.
    intros H. unfold bool_render.
    destruct (all_some_ok (fun v => if str_eqb v (L "true") then Some tr else if str_eqb v (L "false") then Some fl else None) vs) as (r & ->); [|discriminate].
    intros x Hx. destruct (H x Hx) as [->| ->]; cbn; discriminate.
  Qed.

  Lemma forallb_hd {A} (f : A -> bool) l d : forallb f l = true -> l <> [] -> f (nth 0 l d) = true.
  Proof. destruct l; [congruence|]. cbn. intros H _. apply andb_true_iff in H. tauto. Qed.

  Lemma dt_of (pa : list str) (ty : str) p :
    forallb (fun p => str_eqb (odefault [] (aget p (t_props t))) ty) pa = true -> In p pa -> dtype p = ty.
  Proof. intros H Hin. rewrite forallb_forall in H. apply str_eqb_eq. apply H. exact Hin. Qed.

  (* the heart: a placeholder that passed validation cannot raise *)
  Lemma eval_ph_safe bc v atts c : vals_ok v -> check_ph bc t c = true -> evalph v atts c <> PRaise.
  Proof.
    intros OK CH. unfold check_ph in CH. destruct (parse_ph c) as (f, args) eqn:PP.
    apply andb_true_iff in CH. destruct CH as (_ & CH).
    assert (PLAIN : forall args, args <> [] -> check_args t None args = true ->
              (let p := nth 0 args [] in
               if str_eqb (odefault [] (aget p (t_props t))) (L "geo:point") && match aget p v with Some _ => true | None => false end
               then match all_some (map geo_render (values v p)) with Some l => PStrings l | None => PRaise end
               else PStrings (values v p)) <> PRaise).
    { intros a NE _. cbn zeta. destruct (str_eqb _ (L "geo:point") && _) eqn:G; [|discriminate].
      apply andb_true_iff in G. destruct G as (G & _). apply str_eqb_eq in G.
      destruct (all_some_ok geo_render (values v (nth 0 a []))) as (r & ->); [|discriminate].
      intros x Hx. exact (ok_geo v OK _ x G Hx). }
    destruct f as [fn|].
    - destruct (classify fn) as [k|] eqn:CL; [|discriminate].
      unfold check_args in CH. destruct (ph_arguments (Some k) args) as [(pa, oa)|] eqn:PA; [|discriminate].
      assert (NE : args <> []).
      { intros ->. unfold ph_arguments in PA. destruct k; cbn in PA; try discriminate.
        injection PA as <- <-. cbn in CH. discriminate. }
      unfold eval_ph. rewrite (parse_eval_same c (Some fn) args PP NE), CL.
      apply andb_true_iff in CH. destruct CH as (CP & CF).
      apply andb_true_iff in CF. destruct CF as (CF & CX). apply andb_true_iff in CF. destruct CF as (CF & CB).
      apply andb_true_iff in CF. destruct CF as (CN & CD).
      unfold ph_arguments in PA.
      destruct k; cbn [prop_count arg_count is_dt_fmt is_bool_fmt negb orb] in *.
      + (* time_span *)
        destruct (Nat.ltb (length args) 2) eqn:LN; [discriminate|]. injection PA as <- <-.
        destruct args as [|a0 [|a1 ar]]; cbn in LN; try discriminate. cbn [nth firstn forallb] in *.
        apply andb_true_iff in CD. destruct CD as (D0 & D1). apply andb_true_iff in D1. destruct D1 as (D1 & _).
        apply str_eqb_eq in D0, D1.
        destruct (str_min (values v a0)) as [x|] eqn:M0; [|discriminate]. destruct (str_min (values v a1)) as [y|] eqn:M1; [|discriminate].
        pose proof (ok_iso v OK a0 x D0 (str_min_In _ _ M0)) as I0. pose proof (ok_iso v OK a1 y D1 (str_min_In _ _ M1)) as I1.
        destruct (dt_iso x); [|congruence]. destruct (dt_iso y); [|congruence]. discriminate.
      + (* date_time *)
        destruct (Nat.ltb (length args) 1) eqn:LN; [discriminate|]. injection PA as <- <-.
        destruct args as [|a0 ar]; cbn in LN; try discriminate. cbn [nth firstn skipn forallb] in *.
        apply andb_true_iff in CD. destruct CD as (D0 & _). apply str_eqb_eq in D0.
        destruct ar as [|acc ar']; [discriminate|]. cbn [nth].
        destruct (all_some_ok (dt_format acc) (values v a0)) as (r & ->); [|discriminate].
        intros x Hx. apply (ok_fmt v OK a0 x acc D0 Hx). apply mem_In. exact CX.
      + (* duration *)
        destruct (Nat.ltb (length args) 2) eqn:LN; [discriminate|]. injection PA as <- <-.
        destruct args as [|a0 [|a1 ar]]; cbn in LN; try discriminate. cbn [nth firstn forallb] in *.
        apply andb_true_iff in CD. destruct CD as (D0 & D1). apply andb_true_iff in D1. destruct D1 as (D1 & _).
        apply str_eqb_eq in D0, D1.
        destruct (str_min (values v a0)) as [x|] eqn:M0; [|discriminate]. destruct (str_min (values v a1)) as [y|] eqn:M1; [|discriminate].
        pose proof (ok_dur v OK a0 a1 x y D0 D1 (str_min_In _ _ M0) (str_min_In _ _ M1)) as I0.
        destruct (dt_duration x y); [discriminate | congruence].
      + (* merge *) discriminate.
      + (* attachment *) discriminate.
      + (* boolean_string_choice *)
        destruct (Nat.ltb (length args) 1) eqn:LN; [discriminate|]. injection PA as <- <-.
        destruct args as [|p [|tr [|fl [|z ar]]]]; cbn in CN; try discriminate. cbn [firstn forallb] in *.
        apply andb_true_iff in CB. destruct CB as (B0 & _). apply str_eqb_eq in B0.
        apply bool_render_ok. intros x Hx. exact (ok_bool v OK p x B0 Hx).
      + (* boolean_on_off *)
        destruct (Nat.ltb (length args) 1) eqn:LN; [discriminate|]. injection PA as <- <-.
        destruct args as [|p ar]; cbn in LN; try discriminate. cbn [nth firstn forallb] in *.
        apply andb_true_iff in CB. destruct CB as (B0 & _). apply str_eqb_eq in B0.
        apply bool_render_ok. intros x Hx. exact (ok_bool v OK p x B0 Hx).
      + (* boolean_is_is_not *)
        destruct (Nat.ltb (length args) 1) eqn:LN; [discriminate|]. injection PA as <- <-.
        destruct args as [|p ar]; cbn in LN; try discriminate. cbn [nth firstn forallb] in *.
        apply andb_true_iff in CB. destruct CB as (B0 & _). apply str_eqb_eq in B0.
        apply bool_render_ok. intros x Hx. exact (ok_bool v OK p x B0 Hx).
      + (* empty *)
        destruct (Nat.ltb (length args) 1) eqn:LN; [discriminate|]. injection PA as <- <-.
        destruct args as [|p [|e ar]]; cbn in CN; try discriminate.
      + (* unless_empty *) discriminate.
      + (* url *)
        destruct (Nat.ltb (length args) 1) eqn:LN; [discriminate|]. injection PA as <- <-.
        destruct args as [|p [|tg [|z ar]]]; cbn in CN; try discriminate.
    - (* a plain property reference *)
      assert (NE : args <> []) by (intros ->; cbn in CH; discriminate).
      unfold eval_ph. rewrite (parse_eval_same c None args PP NE). apply (PLAIN args NE CH).
  Qed.

  Lemma replacements_safe bc v atts : vals_ok v -> forall phs, forallb (check_ph bc t) phs = true ->
    replacements t dt_iso dt_duration dt_format geo_render v atts phs <> inr tt.
  Proof.
    intros OK. induction phs as [|c r IH]; intros H; cbn [replacements]; [discriminate|].
    cbn [forallb] in H. apply andb_true_iff in H. destruct H as (Hc & Hr).
    pose proof (eval_ph_safe bc v atts c OK Hc) as S. destruct (evalph v atts c); [|discriminate|congruence].
    specialize (IH Hr). destruct (replacements t dt_iso dt_duration dt_format geo_render v atts r) as [[m|]|[]]; [discriminate | discriminate | congruence].
  Qed.

  Lemma segment_safe bc v atts seg : vals_ok v -> forallb (check_ph bc t) (findall seg) = true -> evalseg v atts seg <> RErr.
  Proof.
    intros OK H. unfold eval_segment. pose proof (replacements_safe bc v atts OK _ H) as R.
    destruct (replacements t dt_iso dt_duration dt_format geo_render v atts (findall seg)) as [[m|]|[]]; [|discriminate|congruence].
    match goal with |- (if ?b then _ else _) <> _ => destruct b; discriminate end.
  Qed.

  (* induction over nested scopes *)
  Fixpoint tnode_ind' (P : tnode -> Prop) (Hs : forall s, P (TStr s)) (Hk : forall l, Forall P l -> P (TScope l)) (n : tnode) : P n :=
    match n with
    | TStr s => Hs s
    | TScope l => Hk l ((fix go (l : list tnode) : Forall P l := match l with [] => Forall_nil P | x :: r => Forall_cons x (tnode_ind' P Hs Hk x) (go r) end) l)
    end.

  Lemma seq_safe (ev : tnode -> res) : forall l acc, Forall (fun x => ev x <> RErr) l -> seq_eval ev l acc <> RErr.
  Proof.
    induction l as [|x r IH]; intros acc F; cbn [seq_eval]; [discriminate|].
    inversion F as [|? ? Px Pr]; subst.
    destruct x as [s|k].
    - destruct s as [|c s']; [apply IH; exact Pr|].
      destruct (ev (TStr (c :: s'))) as [y|]; [|congruence]. destruct y; [discriminate | apply IH; exact Pr].
    - destruct (ev (TScope k)); [apply IH; exact Pr | congruence].
  Qed.

  Lemma node_strings_scope l : node_strings (TScope l) = flat_map node_strings l.
  Proof. cbn [node_strings]. induction l as [|x r IH]; [reflexivity | cbn; rewrite IH; reflexivity]. Qed.

  Lemma node_safe bc v atts : vals_ok v -> forall n,
    forallb (fun seg => forallb (check_ph bc t) (findall seg)) (node_strings n) = true -> evalnode v atts n <> RErr.
  Proof.
    intros OK. induction n as [s|l IH] using tnode_ind'; intros H.
    - cbn in H. rewrite andb_true_r in H. apply (segment_safe bc); assumption.
    - cbn [eval_node]. apply seq_safe. rewrite node_strings_scope in H.
      induction l as [|x r IHr]; [constructor|]. inversion IH as [|? ? Px Pr]; subst.
      cbn [flat_map] in H. rewrite forallb_app in H. apply andb_true_iff in H. destruct H as (Hx & Hr).
      constructor; [apply Px; exact Hx | apply IHr; assumption].
  Qed.
End Safe.

(* the float properties: rendering them first keeps every other property as it is *)
Section Floats.
  Variable t : tinfo.
  Variable render_float : str -> option str.

  Lemma rewrite_floats_exists vals :
    (forall p vs x, In (p, vs) vals -> is_float_type (odefault [] (aget p (t_props t))) = true -> In x vs -> render_float x <> None) ->
    exists v', rewrite_floats t render_float vals = Some v'.
  Proof.
    induction vals as [|(p, vs) r IH]; intros H; [exists []; reflexivity|]. cbn [rewrite_floats].
    destruct IH as (v' & ->); [intros; eapply H; eauto; right; eassumption|].
    destruct (is_float_type (odefault [] (aget p (t_props t)))) eqn:F.
    - destruct (all_some_ok render_float vs) as (a & ->); [|eexists; reflexivity].
      intros x Hx. apply (H p vs x (or_introl eq_refl) F Hx).
    - eexists; reflexivity.
  Qed.

  Lemma rewrite_floats_other vals : forall v', rewrite_floats t render_float vals = Some v' ->
    forall p, is_float_type (odefault [] (aget p (t_props t))) = false -> values v' p = values vals p.
  Proof.
    induction vals as [|(q, vs) r IH]; intros v' H p NF; cbn [rewrite_floats] in H.
    - injection H as <-. reflexivity.
    - destruct (if is_float_type (odefault [] (aget q (t_props t))) then all_some (map render_float vs) else Some vs) as [a|] eqn:A; [|discriminate].
      destruct (rewrite_floats t render_float r) as [b|] eqn:B; [|discriminate]. injection H as <-.
      unfold values. cbn [aget]. destruct (str_eqb p q) eqn:E.
      + apply str_eqb_eq in E. subst q. rewrite NF in A. injection A as <-. reflexivity.
      + apply (IH b eq_refl p NF).
  Qed.
End Floats.

(* Template.evaluate on a valid event: no exception, mapping untouched *)
Theorem validated_template_evaluates t render_float dt_iso dt_duration dt_format geo_render bc tpl vals atts :
  validate bc t tpl = true ->
  (forall p vs x, In (p, vs) vals -> is_float_type (odefault [] (aget p (t_props t))) = true -> In x vs -> render_float x <> None) ->
  vals_ok t dt_iso dt_duration dt_format geo_render vals ->
  fst (evaluate t render_float dt_iso dt_duration dt_format geo_render true tpl vals atts) <> RErr /\
  snd (evaluate t render_float dt_iso dt_duration dt_format geo_render true tpl vals atts) = vals.
Proof.
  intros V HF OK. unfold validate in V. apply andb_true_iff in V. destruct V as (V & VS). unfold evaluate.
  destruct (rewrite_floats_exists t render_float vals HF) as (v' & RW). rewrite RW.
  destruct (split_template tpl) as [tree|] eqn:SP; [|discriminate]. cbn [fst snd]. split; [|reflexivity].
  assert (OK' : vals_ok t dt_iso dt_duration dt_format geo_render v').
  { pose proof (rewrite_floats_other t render_float vals v' RW) as SAME.
    assert (NF : forall p ty, dtype t p = ty -> is_float_type ty = false -> values v' p = values vals p)
      by (intros p ty E F; apply SAME; unfold dtype in E; rewrite E; exact F).
    destruct OK as [o1 o2 o3 o4 o5]. constructor.
    - intros p x D Hx. rewrite (NF p _ D eq_refl) in Hx. exact (o1 p x D Hx).
    - intros p x acc D Hx Ha. rewrite (NF p _ D eq_refl) in Hx. exact (o2 p x acc D Hx Ha).
    - intros p q a b D1 D2 Ha Hb. rewrite (NF p _ D1 eq_refl) in Ha. rewrite (NF q _ D2 eq_refl) in Hb. exact (o3 p q a b D1 D2 Ha Hb).
    - intros p x D Hx. rewrite (NF p _ D eq_refl) in Hx. exact (o4 p x D Hx).
    - intros p x D Hx. rewrite (NF p _ D eq_refl) in Hx. exact (o5 p x D Hx). }
  unfold eval_tree. apply (node_safe t dt_iso dt_duration dt_format geo_render bc v' atts OK').
  unfold tree_strings in VS. rewrite node_strings_scope. exact VS.
Qed.

(* the pinned code handed the re-rendered floats back to the caller: the event changed *)
Theorem pinned_evaluation_changes_event : exists t rf vals,
  snd (evaluate t rf (fun _ => None) (fun _ _ => None) (fun _ _ => None) (fun _ => None) false (L "[[f]]") vals []) <> vals.
Proof.
  exists {| t_props := [(L "f", L "number:float")]; t_atts := [] |}, (fun _ => Some (L "1.500000")), [(L "f", [L "1.500000E+00"])].
  vm_compute. discriminate.
Qed.

(* curly brackets inside a placeholder: the pinned validation accepted a template whose evaluation leaves a placeholder unresolved *)
Theorem pinned_brace_placeholder_refuted : exists t tpl,
  validate false t tpl = true /\ validate true t tpl = false.
Proof.
  exists {| t_props := [(L "k", L "string:0:mc"); (L "v", L "string:0:mc")]; t_atts := [] |}, (L "[[k]] x{ [[empty:v,{none}]]}").
  split; vm_compute; reflexivity.
Qed.
