(* C16 — executable model of edxml/template.py: Template.validate and Template.evaluate (colorize off, capitalize off).
   Library renderings (float formatting, dateutil parsing / strftime, coordinates) are parameters, tabulated by the harness. *)
From Coq Require Import String.
From EdxmlVerif Require Import Base.Prelude.

Definition L (s : string) : str := s2l s.
Definition nonempty_b {A} (l : list A) : bool := match l with [] => false | _ => true end.

(* ---- strings ---- *)
Fixpoint split1 (c : N) (s : str) : option (str * str) :=       (* at the first c *)
  match s with
  | [] => None
  | x :: r => if N.eqb x c then Some ([], r)
              else match split1 c r with Some (a, b) => Some (x :: a, b) | None => None end
  end.
Fixpoint split_all (c : N) (s : str) : list str :=              (* Python s.split(c): always at least one part *)
  match s with
  | [] => [[]]
  | x :: r => if N.eqb x c then [] :: split_all c r
              else match split_all c r with h :: t => (x :: h) :: t | [] => [[x]] end
  end.
Fixpoint starts_with (p s : str) : bool :=
  match p, s with [], _ => true | a :: p', b :: s' => N.eqb a b && starts_with p' s' | _ :: _, [] => false end.
(* str.replace: non-overlapping occurrences, left to right; an empty pattern is never used here *)
Fixpoint replace_fuel (fuel : nat) (pat rep s : str) : str :=
  match fuel with
  | O => s
  | S f =>
      match s with
      | [] => []
      | x :: r => if nonempty_b pat && starts_with pat s then rep ++ replace_fuel f pat rep (skipn (length pat) s)
                  else x :: replace_fuel f pat rep r
      end
  end.
Definition replace_all (pat rep s : str) : str := replace_fuel (S (length s)) pat rep s.
Fixpoint join_with (sep : str) (l : list str) : str :=
  match l with [] => [] | [x] => x | x :: r => x ++ sep ++ join_with sep r end.
Fixpoint str_leb (a b : str) : bool :=                          (* Python string order *)
  match a, b with [], _ => true | _ :: _, [] => false | x :: a', y :: b' => if (x <? y)%N then true else if (y <? x)%N then false else str_leb a' b' end.
Fixpoint str_min (l : list str) : option str :=
  match l with [] => None | x :: r => match str_min r with None => Some x | Some m => Some (if str_leb x m then x else m) end end.

(* ---- template structure: strings and nested scopes ---- *)
Inductive tnode := TStr (s : str) | TScope (l : list tnode).

(* _split_template for balanced templates (None: unbalanced curly brackets) *)
Fixpoint split_go (s : str) (cur : str) (acc : list tnode) (stack : list (list tnode)) : option (list tnode) :=
  match s with
  | [] => match stack with [] => Some (rev (TStr (rev cur) :: acc)) | _ => None end
  | c :: r =>
      if N.eqb c 123 then split_go r [] [] ((TStr (rev cur) :: acc) :: stack)
      else if N.eqb c 125 then
        match stack with
        | [] => None
        | parent :: st => split_go r [] (TScope (rev (TStr (rev cur) :: acc)) :: parent) st
        end
      else split_go r (c :: cur) acc stack
  end.
Definition split_template (s : str) : option (list tnode) := split_go s [] [] [].

(* re.findall('\[\[[^]]*]]'): contents of the placeholders, left to right *)
Fixpoint until_close (s : str) : option (str * str) :=          (* chars up to the first ']' ; rest after it *)
  match s with
  | [] => None
  | x :: r => if N.eqb x 93 then Some ([], r) else match until_close r with Some (a, b) => Some (x :: a, b) | None => None end
  end.
Definition match_at (s : str) : option (str * str) :=           (* s starts with [[ content ]] *)
  match s with
  | 91%N :: 91%N :: r =>
      match until_close r with
      | Some (content, 93%N :: rest) => Some (content, rest)
      | _ => None
      end
  | _ => None
  end.
Fixpoint findall_fuel (fuel : nat) (s : str) : list str :=
  match fuel with
  | O => []
  | S f => match s with
           | [] => []
           | _ :: r => match match_at s with
                       | Some (content, rest) => content :: findall_fuel f rest
                       | None => findall_fuel f r
                       end
           end
  end.
Definition findall (s : str) : list str := findall_fuel (S (length s)) s.

(* ---- placeholders ---- *)
(* _parse_placeholder: formatter (None when there is no colon), arguments ([''] becomes []) *)
Definition parse_ph (content : str) : option str * list str :=
  let '(f, a) := match split1 58%N content with Some (f, a) => (Some f, a) | None => (None, content) end in
  (f, match split_all 44%N a with [[]] => [] | l => l end).
(* the parsing inside evaluation keeps [''] *)
Definition parse_ph_eval (content : str) : option str * list str :=
  match split1 58%N content with Some (f, a) => (Some f, split_all 44%N a) | None => (None, split_all 44%N content) end.

Inductive fkind := KTimeSpan | KDateTime | KDuration | KMerge | KAttachment | KBoolChoice | KBoolOnOff | KBoolIsIsNot | KEmpty | KUnlessEmpty | KUrl.
(* KNOWN_FORMATTERS *)
Definition classify (fn : str) : option fkind :=
  if str_eqb fn (L "time_span") then Some KTimeSpan else if str_eqb fn (L "date_time") then Some KDateTime
  else if str_eqb fn (L "duration") then Some KDuration else if str_eqb fn (L "merge") then Some KMerge
  else if str_eqb fn (L "attachment") then Some KAttachment else if str_eqb fn (L "boolean_string_choice") then Some KBoolChoice
  else if str_eqb fn (L "boolean_on_off") then Some KBoolOnOff else if str_eqb fn (L "boolean_is_is_not") then Some KBoolIsIsNot
  else if str_eqb fn (L "empty") then Some KEmpty else if str_eqb fn (L "unless_empty") then Some KUnlessEmpty
  else if str_eqb fn (L "url") then Some KUrl else None.
(* FORMATTER_PROPERTY_COUNTS / FORMATTER_ARGUMENT_COUNTS *)
Definition prop_count (k : fkind) : option nat :=
  match k with
  | KTimeSpan | KDuration => Some 2%nat
  | KDateTime | KBoolChoice | KBoolOnOff | KBoolIsIsNot | KEmpty | KUrl => Some 1%nat
  | KAttachment => Some 0%nat
  | KMerge | KUnlessEmpty => None
  end.
Definition arg_count (k : fkind) : option nat :=
  match k with
  | KTimeSpan | KDateTime | KDuration | KEmpty | KUrl => Some 2%nat
  | KBoolChoice => Some 3%nat
  | KBoolOnOff | KBoolIsIsNot | KAttachment => Some 1%nat
  | KMerge | KUnlessEmpty => None
  end.

(* _get_placeholder_arguments: (property arguments, other arguments); None = raises *)
Definition ph_arguments (f : option fkind) (args : list str) : option (list str * list str) :=
  match f with
  | None => match args with [] => None | _ => Some (firstn 1 args, skipn 1 args) end
  | Some k =>
      match prop_count k with
      | Some n => if Nat.ltb (length args) n then None else Some (firstn n args, skipn n args)
      | None =>
          match k with
          | KMerge => match args with [] => None | _ => Some (args, []) end
          | _ => if Nat.ltb (length args) 2 then None else Some (removelast args, [last args []])
          end
      end
  end.

Record tinfo := { t_props : list (str * str); t_atts : list str }.    (* property -> data type; attachment names *)
Definition accuracies : list str := map L ["year"; "month"; "date"; "hour"; "minute"; "second"; "millisecond"; "microsecond"]%string.
Definition is_dt_fmt (k : fkind) : bool := match k with KTimeSpan | KDuration | KDateTime => true | _ => false end.
Definition is_bool_fmt (k : fkind) : bool := match k with KBoolChoice | KBoolOnOff | KBoolIsIsNot => true | _ => false end.
Definition has_brace (s : str) : bool := existsb (fun c => N.eqb c 123 || N.eqb c 125) s.

(* the checks of Template.validate for one placeholder; `brace_check` = placeholders containing curly brackets are rejected (the repaired code) *)
Definition check_args (t : tinfo) (k : option fkind) (args : list str) : bool :=
  match ph_arguments k args with
  | None => false
  | Some (pa, oa) =>
      forallb (fun p => nonempty_b p && mem p (akeys (t_props t))) pa &&
      match k with
      | None => true
      | Some k =>
          match arg_count k with Some n => Nat.eqb (length pa + length oa) n | None => true end &&
          (negb (is_dt_fmt k) || forallb (fun p => str_eqb (odefault [] (aget p (t_props t))) (L "datetime")) pa) &&
          (negb (is_bool_fmt k) || forallb (fun p => str_eqb (odefault [] (aget p (t_props t))) (L "boolean")) pa) &&
          match k with
          | KDateTime => match oa with o :: _ => mem o accuracies | [] => false end
          | KAttachment => match oa with o :: _ => mem o (t_atts t) | [] => false end
          | _ => true
          end
      end
  end.
Definition check_ph (brace_check : bool) (t : tinfo) (content : str) : bool :=
  let '(f, args) := parse_ph content in
  negb (brace_check && has_brace content) &&
  match f with
  | Some fn => match classify fn with Some k => check_args t (Some k) args | None => false end
  | None => check_args t None args
  end.

Definition balanced (s : str) : bool := match split_template s with Some _ => true | None => false end.

Fixpoint node_strings (n : tnode) : list str :=
  match n with
  | TStr s => [s]
  | TScope l => (fix go (l : list tnode) : list str := match l with [] => [] | x :: r => node_strings x ++ go r end) l
  end.
Definition tree_strings (l : list tnode) : list str := flat_map node_strings l.

(* Template.validate.  The placeholders are those of the whole template (as the code finds them); the model also checks the ones found
   inside each brace-delimited piece, which is what evaluation will meet (the same set once curly brackets inside placeholders are rejected) *)
Definition validate (brace_check : bool) (t : tinfo) (tpl : str) : bool :=
  balanced tpl && forallb (check_ph brace_check t) (findall tpl) &&
  match split_template tpl with
  | Some tree => forallb (fun seg => forallb (check_ph brace_check t) (findall seg)) (tree_strings tree)
  | None => false
  end.

(* ---- evaluation ---- *)
Section Eval.
  Variable t : tinfo.
  (* library renderings; None = the library call raises (ValueError / ParserError) *)
  Variable render_float : str -> option str.                   (* '%f' % float(v) *)
  Variable dt_iso : str -> option str.                         (* parse(v).isoformat(' ') *)
  Variable dt_duration : str -> str -> option str.             (* _format_time_duration(parse(a), parse(b)) *)
  Variable dt_format : str -> str -> option str.               (* accuracy, value -> strftime rendering *)
  Variable geo_render : str -> option str.

  Definition is_float_type (dt : str) : bool :=
    match split_all 58%N dt with
    | fam :: kind :: _ => str_eqb fam (L "number") && (str_eqb kind (L "float") || str_eqb kind (L "double"))
    | _ => false
    end.

  (* the float properties are re-rendered first; in the pinned code this rewrites the mapping that was passed in *)
  Fixpoint all_some {A} (l : list (option A)) : option (list A) :=
    match l with [] => Some [] | Some x :: r => option_map (cons x) (all_some r) | None :: _ => None end.
  Fixpoint rewrite_floats (vals : list (str * list str)) : option (list (str * list str)) :=
    match vals with
    | [] => Some []
    | (p, vs) :: r =>
        let vs' := if is_float_type (odefault [] (aget p (t_props t))) then all_some (map render_float vs) else Some vs in
        match vs', rewrite_floats r with Some a, Some b => Some ((p, a) :: b) | _, _ => None end
    end.

  Definition values (vals : list (str * list str)) (p : str) : list str := odefault [] (aget p vals).

  Inductive phres := PStrings (l : list str) | PEmptySegment | PRaise.

  Definition bool_render (tr fl : str) (vs : list str) : phres :=
    match all_some (map (fun v => if str_eqb v (L "true") then Some tr else if str_eqb v (L "false") then Some fl else None) vs) with
    | Some l => PStrings l | None => PRaise end.

  Definition eval_ph (vals : list (str * list str)) (atts : list (str * list str)) (content : str) : phres :=
    let '(f, args) := parse_ph_eval content in
    let arg i := nth i args [] in
    let plain :=
      let p := arg 0%nat in
      if str_eqb (odefault [] (aget p (t_props t))) (L "geo:point") && match aget p vals with Some _ => true | None => false end
      then match all_some (map geo_render (values vals p)) with Some l => PStrings l | None => PRaise end
      else PStrings (values vals p) in
    match f with
    | None => plain
    | Some fn =>
        match classify fn with
        | None => plain                       (* an unknown formatter name is treated like a plain reference to the first argument *)
        | Some KTimeSpan =>
            match str_min (values vals (arg 0%nat)), str_min (values vals (arg 1%nat)) with
            | Some a, Some b => match dt_iso a, dt_iso b with
                                | Some x, Some y => PStrings [L "between " ++ x ++ L " and " ++ y]
                                | _, _ => PRaise end
            | _, _ => PEmptySegment
            end
        | Some KDuration =>
            match str_min (values vals (arg 0%nat)), str_min (values vals (arg 1%nat)) with
            | Some a, Some b => match dt_duration a b with Some x => PStrings [x] | None => PRaise end
            | _, _ => PEmptySegment
            end
        | Some KDateTime =>
            match all_some (map (dt_format (arg 1%nat)) (values vals (arg 0%nat))) with Some l => PStrings l | None => PRaise end
        | Some KUrl =>
            match args with
            | [p; target] => PStrings (map (fun v => target ++ L " (" ++ v ++ L ")") (values vals p))
            | _ => PRaise
            end
        | Some KMerge => PStrings (flat_map (values vals) args)
        | Some KBoolChoice => match args with [p; tr; fl] => bool_render tr fl (values vals p) | _ => PRaise end
        | Some KBoolOnOff => bool_render (L "on") (L "off") (values vals (arg 0%nat))
        | Some KBoolIsIsNot => bool_render (L "is") (L "is not") (values vals (arg 0%nat))
        | Some KEmpty =>
            match args with
            | _ :: _ :: _ => PStrings (if nonempty_b (values vals (arg 0%nat)) then [] else [arg 1%nat])
            | _ => PRaise
            end
        | Some KAttachment => PStrings (map (fun v => [10; 10]%N ++ v ++ [10; 10]%N) (odefault [] (aget (arg 0%nat) atts)))
        | Some KUnlessEmpty => PStrings (if nonempty_b (flat_map (values vals) (removelast args)) then [last args []] else [])
        end
    end.

  (* "a, b and c" *)
  Definition join_objects (l : list str) : str :=
    match l with
    | [] => []
    | [x] => x
    | _ => if nonempty_b (concat l) then join_with (L ", ") (removelast l) ++ L " and " ++ last l [] else []
    end.

  Inductive res := ROk (s : str) | RErr.

  (* _process_simple_placeholder_string: None inside ROk never occurs; '' means the piece collapses *)
  Fixpoint replacements (vals atts : _) (phs : list str) : option (list (str * str)) + unit :=
    match phs with
    | [] => inl (Some [])
    | c :: r =>
        match eval_ph vals atts c with
        | PRaise => inr tt
        | PEmptySegment => inl None                       (* `return ''` at once: later placeholders are not evaluated *)
        | PStrings l =>
            match replacements vals atts r with
            | inr u => inr u
            | inl None => inl None
            | inl (Some m) => inl (Some (aset ([91; 91]%N ++ c ++ [93; 93]%N) (join_objects l) (filter (fun kv => negb (str_eqb (fst kv) ([91; 91]%N ++ c ++ [93; 93]%N))) m)))
            end
        end
    end.

  Definition eval_segment (vals atts : _) (seg : str) : res :=
    match replacements vals atts (findall seg) with
    | inr _ => RErr
    | inl None => ROk []
    | inl (Some m) =>
        if existsb (fun kv => negb (nonempty_b (snd kv))) m then ROk []
        else ROk (fold_left (fun s kv => replace_all (fst kv) (snd kv) s) m seg)
    end.

  (* _process_split_template: a piece that collapses empties its whole scope; nested scopes that come out empty do not *)
  Definition seq_eval (ev : tnode -> res) : list tnode -> str -> res :=
    fix go (l : list tnode) (acc : str) : res :=
      match l with
      | [] => ROk acc
      | x :: r =>
          match x with
          | TScope _ => match ev x with ROk s => go r (acc ++ s) | RErr => RErr end
          | TStr [] => go r acc
          | TStr _ => match ev x with
                      | ROk [] => ROk []
                      | ROk y => go r (acc ++ y)
                      | RErr => RErr
                      end
          end
      end.
  Fixpoint eval_node (vals atts : list (str * list str)) (n : tnode) : res :=
    match n with
    | TStr s => eval_segment vals atts s
    | TScope k => seq_eval (eval_node vals atts) k []
    end.
  Definition eval_tree (vals atts : list (str * list str)) (l : list tnode) : res := eval_node vals atts (TScope l).

  (* Template.evaluate: returns the text and the property mapping as it is afterwards.
     copy_first: evaluation works on a copy of the mapping (the repaired code); otherwise the caller's mapping holds the re-rendered floats *)
  Definition evaluate (copy_first : bool) (tpl : str) (vals atts : list (str * list str)) : res * list (str * list str) :=
    match rewrite_floats vals, split_template tpl with
    | Some v', Some tree => (eval_tree v' atts tree, if copy_first then vals else v')
    | _, _ => (RErr, vals)
    end.
End Eval.

Definition res_eqb (a b : res) : bool := match a, b with ROk x, ROk y => str_eqb x y | RErr, RErr => true | _, _ => false end.
Definition lookup_opt (tbl : list (str * option str)) (k : str) : option str := match aget k tbl with Some o => o | None => None end.
