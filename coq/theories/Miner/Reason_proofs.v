(* C20 — ranges of the confidence formulas; termination and coverage of the seed loop. *)
From Coq Require Import QArith Qminmax Qabs List Lqa Lia.
From EdxmlVerif Require Import Base.Prelude Miner.Reason.
Import ListNotations.
Local Open Scope Q_scope.

Definition unit (q : Q) : Prop := 0 <= q <= 1.

Lemma mult_unit a b : unit a -> unit b -> unit (a * b).
Proof. unfold unit. intros (A0 & A1) (B0 & B1). split; nra. Qed.

Lemma compl_unit a : unit a -> unit (1 - a).
Proof. unfold unit. intros (A0 & A1). split; lra. Qed.

Lemma prod_unit l : Forall unit l -> forall acc, unit acc -> unit (fold_left Qmult l acc).
Proof.
  induction 1 as [|c r Hc Hr IH]; intros acc Ha; cbn; [exact Ha|]. apply IH. apply mult_unit; assumption.
Qed.

(* every noisy-or combination of confidences in [0,1] is in [0,1] *)
Theorem noisy_or_unit l : Forall unit l -> unit (noisy_or l).
Proof.
  intros H. unfold noisy_or. apply compl_unit. apply prod_unit.
  - induction H; cbn; constructor; [apply compl_unit; assumption | assumption].
  - unfold unit. split; lra.
Qed.

Lemma taint_fold_unit r : Forall unit r -> forall x, unit x -> unit (fold_left (fun x y => (1 - x) * (1 - y)) r x).
Proof.
  induction 1 as [|c r Hc Hr IH]; intros x Hx; cbn; [exact Hx|]. apply IH. apply mult_unit; apply compl_unit; assumption.
Qed.

(* the taint formula as it is written (for three or more confidences it is not the noisy-or, but it stays in range) *)
Theorem taint_of_unit l : Forall unit l -> unit (taint_of l).
Proof.
  intros H. destruct l as [|c [|d r]]; cbn [taint_of].
  - unfold unit; split; lra.
  - inversion H; assumption.
  - inversion H as [|? ? Hc Hr]; subst. apply compl_unit. apply taint_fold_unit; assumption.
Qed.

Theorem dijkstra_confidence_unit s e t c : unit s -> unit e -> unit t -> unit c -> unit (dijkstra_confidence s e t c).
Proof. intros. unfold dijkstra_confidence. repeat apply mult_unit; try assumption. apply compl_unit. assumption. Qed.

Theorem related_confidence_unit s e c : unit s -> unit e -> unit c -> unit (related_confidence s e c).
Proof. intros. unfold related_confidence. repeat apply mult_unit; assumption. Qed.

(* a confidence along a path never exceeds the confidence of the node it came from *)
Theorem dijkstra_confidence_decreases s e t c : unit s -> unit e -> unit t -> unit c -> dijkstra_confidence s e t c <= s.
Proof.
  intros (S0 & S1) He Ht Hc. unfold dijkstra_confidence.
  assert (U : unit (e * (1 - t) * c)) by (repeat apply mult_unit; try assumption; apply compl_unit; assumption).
  destruct U as (U0 & U1). setoid_replace (s * e * (1 - t) * c) with (s * (e * (1 - t) * c)) by ring. nra.
Qed.

(* ---- the seed loop ---- *)
Definition count_untainted (nodes : list mnode) : nat := length (filter untainted nodes).

Lemma pick_from_spec nodes : forall i best s,
  (forall j b, best = Some (j, b) -> (j < i)%nat) ->
  pick_from nodes i best = Some s ->
  (exists b, best = Some (s, b)) \/ (i <= s < i + length nodes)%nat /\ untainted (nth (s - i) nodes {| n_assoc := 0; n_taint := 1; n_confs := [] |}) = true.
Proof.
  induction nodes as [|n r IH]; intros i best s HB H; cbn [pick_from] in H.
  - destruct best as [(j, b)|]; [|discriminate]. cbn in H. injection H as <-. left. exists b. reflexivity.
  - destruct (untainted n) eqn:U.
    + assert (NEW : forall j b, Some (i, n) = Some (j, b) -> (j < S i)%nat) by (intros j b E; injection E as <- <-; lia).
      assert (OLD : forall j b, best = Some (j, b) -> (j < S i)%nat) by (intros j b E; specialize (HB j b E); lia).
      destruct best as [(j, b)|].
      * destruct (better n b).
        -- destruct (IH (S i) (Some (i, n)) s NEW H) as [(b' & E)|(R & UU)].
           ++ injection E as <- <-. right. split; [cbn; lia|]. replace (i - i)%nat with 0%nat by lia. exact U.
           ++ right. split; [cbn; lia|]. replace (s - i)%nat with (S (s - S i)) by lia. exact UU.
        -- destruct (IH (S i) (Some (j, b)) s OLD H) as [(b' & E)|(R & UU)].
           ++ left. exists b'. exact E.
           ++ right. split; [cbn; lia|]. replace (s - i)%nat with (S (s - S i)) by lia. exact UU.
      * destruct (IH (S i) (Some (i, n)) s NEW H) as [(b' & E)|(R & UU)].
        -- injection E as <- <-. right. split; [cbn; lia|]. replace (i - i)%nat with 0%nat by lia. exact U.
        -- right. split; [cbn; lia|]. replace (s - i)%nat with (S (s - S i)) by lia. exact UU.
    + assert (OLD : forall j b, best = Some (j, b) -> (j < S i)%nat) by (intros j b E; specialize (HB j b E); lia).
      destruct (IH (S i) best s OLD H) as [(b' & E)|(R & UU)].
      * left. exists b'. exact E.
      * right. split; [cbn; lia|]. replace (s - i)%nat with (S (s - S i)) by lia. exact UU.
Qed.

Definition dflt : mnode := {| n_assoc := 0; n_taint := 1; n_confs := [] |}.

Lemma pick_seed_spec nodes s : pick_seed nodes = Some s -> (s < length nodes)%nat /\ untainted (nth s nodes dflt) = true.
Proof.
  unfold pick_seed. intros H. destruct (pick_from_spec nodes 0 None s (fun j b E => ltac:(discriminate)) H) as [(b & E)|(R & U)]; [discriminate|].
  split; [lia|]. replace (s - 0)%nat with s in U by lia. exact U.
Qed.

Lemma pick_from_none nodes : forall i, pick_from nodes i None = None -> forallb (fun n => negb (untainted n)) nodes = true.
Proof.
  induction nodes as [|n r IH]; intros i H; [reflexivity|]. cbn [pick_from] in H. cbn [forallb].
  destruct (untainted n) eqn:U.
  - exfalso. clear IH. revert H. generalize (S i) as k. generalize (i, n) as bst. induction r as [|m r IHr]; intros bst k H; cbn in H; [discriminate|].
    destruct (untainted m); [destruct (better m (snd bst)) eqn:B|]; destruct bst as (bi, bn); cbn [snd] in *; try rewrite B in H; eapply IHr; exact H.
  - cbn. apply (IH (S i)). exact H.
Qed.

(* the shape of a round: lengths are kept, the seed ends fully tainted, tainted nodes stay tainted, nodes keep or gain confidences *)
Lemma apply_assigned_length seed a nodes : forall i, length (apply_assigned seed a nodes i) = length nodes.
Proof. induction nodes as [|n r IH]; intros i; cbn; [reflexivity | rewrite IH; reflexivity]. Qed.

Lemma Qmaxq_ge a b : a <= Qmaxq a b.
Proof. unfold Qmaxq. destruct (Qlt_le_dec a b); lra. Qed.

Lemma untainted_false_mono t t' : Qle_bool t 0 = false -> t <= t' -> Qle_bool t' 0 = false.
Proof.
  intros H L. destruct (Qle_bool t' 0) eqn:E; [|reflexivity]. apply Qle_bool_iff in E.
  assert (t <= 0) by lra. apply Qle_bool_iff in H0. congruence.
Qed.

Section Loop.
  Variable reason : nat -> list mnode -> list (nat * Q).

  Lemma round_nth nodes seed : forall k, (k < length nodes)%nat ->
    let n := nth k nodes dflt in let n' := nth k (round reason nodes seed) dflt in
    (k = seed -> untainted n' = false /\ covered n' = true) /\
    (untainted n = false -> untainted n' = false) /\
    (covered n = true -> covered n' = true) /\
    (k <> seed -> covered n' = false -> covered n = false /\ untainted n' = untainted n).
  Proof.
    unfold round, retaint. generalize (reason seed nodes) as asg. intros asg.
    assert (G : forall l i k, (k < length l)%nat ->
              let n := nth k l dflt in
              let n' := nth k ((fix go (l : list mnode) (i : nat) : list mnode :=
                                  match l with
                                  | [] => []
                                  | n :: r => {| n_assoc := n_assoc n; n_taint := if Nat.eqb i seed then 1 else Qmaxq (n_taint n) (taint_of (map snd (n_confs n))); n_confs := n_confs n |} :: go r (S i)
                                  end) l i) dflt in
              n_confs n' = n_confs n /\ n_taint n' = (if Nat.eqb (i + k) seed then 1 else Qmaxq (n_taint n) (taint_of (map snd (n_confs n))))).
    { induction l as [|n r IH]; intros i k Hk; [cbn in Hk; lia|]. destruct k as [|k]; cbn [nth].
      - cbn. replace (i + 0)%nat with i by lia. auto.
      - cbn in Hk. specialize (IH (S i) k ltac:(lia)). cbn zeta in IH. replace (i + S k)%nat with (S i + k)%nat by lia. exact IH. }
    assert (A : forall l i k, (k < length l)%nat ->
              let n := nth k l dflt in let n' := nth k (apply_assigned seed asg l i) dflt in
              n_taint n' = n_taint n /\ n_assoc n' = n_assoc n /\
              ((i + k)%nat = seed -> n_confs n' = n_confs n ++ [(seed, 1)]) /\
              ((i + k)%nat <> seed -> n_confs n' = n_confs n \/ exists c, n_confs n' = n_confs n ++ [(seed, c)])).
    { induction l as [|n r IH]; intros i k Hk; [cbn in Hk; lia|]. destruct k as [|k]; cbn [nth apply_assigned].
      - replace (i + 0)%nat with i by lia. destruct (Nat.eqb_spec i seed) as [E|E].
        + cbn. repeat split; auto. intros N; congruence.
        + destruct (find _ asg) as [(j, c)|]; cbn; repeat split; auto; try congruence. intros _. right. exists c. reflexivity.
      - cbn in Hk. specialize (IH (S i) k ltac:(lia)). cbn zeta in IH. replace (i + S k)%nat with (S i + k)%nat by lia. exact IH. }
    intros k Hk. cbn zeta.
    pose proof (A nodes 0%nat k Hk) as (AT & _ & AS & AO). cbn zeta in *.
    assert (Hk' : (k < length (apply_assigned seed asg nodes 0))%nat) by (rewrite apply_assigned_length; exact Hk).
    pose proof (G (apply_assigned seed asg nodes 0) 0%nat k Hk') as (GC & GT). cbn zeta in *. cbn [Nat.add] in *.
    set (n := nth k nodes dflt) in *. set (m := nth k (apply_assigned seed asg nodes 0) dflt) in *.
    set (n' := nth k _ dflt) in *.
    split; [|split; [|split]].
    - intros ->. split.
      + unfold untainted. rewrite GT, Nat.eqb_refl. reflexivity.
      + unfold covered. rewrite GC, (AS eq_refl). destruct (n_confs n); reflexivity.
    - intros U. unfold untainted in *. rewrite GT. destruct (Nat.eqb k seed); [reflexivity|].
      eapply untainted_false_mono; [exact U|]. rewrite AT. apply Qmaxq_ge.
    - intros CV. unfold covered in *. rewrite GC. destruct (Nat.eq_dec k seed) as [E|E].
      + rewrite (AS E). destruct (n_confs n); reflexivity.
      + destruct (AO E) as [->|(c & ->)]; [exact CV | destruct (n_confs n); reflexivity].
    - intros NS NC. unfold covered, untainted in *. rewrite GC in NC.
      destruct (AO NS) as [E|(c & E)]; rewrite E in NC; [|destruct (n_confs n); discriminate].
      split; [exact NC|].
      rewrite GT. apply Nat.eqb_neq in NS. rewrite NS, E, AT.
      destruct (n_confs n) eqn:NCE; [|discriminate]. cbn. unfold Qmaxq. destruct (Qlt_le_dec (n_taint n) 0) as [L|L].
      + assert (Qle_bool (n_taint n) 0 = true) as -> by (apply Qle_bool_iff; lra). reflexivity.
      + reflexivity.
  Qed.

  Lemma retaint_length seed l : length (retaint seed l) = length l.
  Proof. unfold retaint. generalize 0%nat. induction l as [|n r IH]; intros i; cbn; [reflexivity | rewrite IH; reflexivity]. Qed.

  Lemma round_length nodes seed : length (round reason nodes seed) = length nodes.
  Proof. unfold round. rewrite retaint_length, apply_assigned_length. reflexivity. Qed.
End Loop.

(* fewer untainted nodes after every round *)
Lemma filter_count_lt (f : mnode -> bool) : forall l1 l2 s, length l1 = length l2 ->
  (forall k, (k < length l1)%nat -> f (nth k l2 dflt) = true -> f (nth k l1 dflt) = true) ->
  (s < length l1)%nat -> f (nth s l1 dflt) = true -> f (nth s l2 dflt) = false ->
  (length (filter f l2) < length (filter f l1))%nat.
Proof.
  assert (LE : forall l1 l2, length l1 = length l2 ->
            (forall k, (k < length l1)%nat -> f (nth k l2 dflt) = true -> f (nth k l1 dflt) = true) ->
            (length (filter f l2) <= length (filter f l1))%nat).
  { induction l1 as [|a r IH]; intros l2 L H; destruct l2 as [|b r2]; cbn in L; try discriminate; [cbn; lia|].
    cbn [filter]. specialize (IH r2 ltac:(lia) (fun k Hk => H (S k) ltac:(cbn; lia))).
    pose proof (H 0%nat ltac:(cbn; lia)) as H0. cbn in H0.
    destruct (f b); [rewrite (H0 eq_refl); cbn; lia | destruct (f a); cbn; lia]. }
  induction l1 as [|a r IH]; intros l2 s L H Hs F1 F2; [cbn in Hs; lia|].
  destruct l2 as [|b r2]; [discriminate|]. cbn in L. cbn [filter].
  destruct s as [|s].
  - cbn in F1, F2. rewrite F1, F2. cbn. specialize (LE r r2 ltac:(lia) (fun k Hk => H (S k) ltac:(cbn; lia))). lia.
  - cbn in F1, F2, Hs. specialize (IH r2 s ltac:(lia) (fun k Hk => H (S k) ltac:(cbn; lia)) ltac:(lia) F1 F2).
    pose proof (H 0%nat ltac:(cbn; lia)) as H0. cbn in H0.
    destruct (f b); [rewrite (H0 eq_refl); cbn; lia | destruct (f a); cbn; lia].
Qed.

Section Termination.
  Variable reason : nat -> list mnode -> list (nat * Q).

  Lemma round_decreases nodes s : pick_seed nodes = Some s -> (count_untainted (round reason nodes s) < count_untainted nodes)%nat.
  Proof.
    intros P. destruct (pick_seed_spec nodes s P) as (L & U). unfold count_untainted.
    apply (filter_count_lt untainted nodes (round reason nodes s) s); [symmetry; apply round_length | | exact L | exact U |].
    - intros k Hk U'. destruct (untainted (nth k nodes dflt)) eqn:E; [reflexivity|].
      destruct (round_nth reason nodes s k Hk) as (_ & T & _). rewrite (T E) in U'. discriminate.
    - destruct (round_nth reason nodes s s L) as (S1 & _). destruct (S1 eq_refl) as (S2 & _). exact S2.
  Qed.

  Lemma pick_some_count nodes s : pick_seed nodes = Some s -> (1 <= count_untainted nodes)%nat.
  Proof.
    intros P. destruct (pick_seed_spec nodes s P) as (L & U). unfold count_untainted.
    assert (In (nth s nodes dflt) (filter untainted nodes)) by (apply filter_In; split; [apply nth_In; exact L | exact U]).
    destruct (filter untainted nodes); [destruct H | cbn; lia].
  Qed.

  (* mining without a seed terminates: as many rounds as there are untainted nodes suffice; afterwards no node is untainted *)
  Theorem auto_mine_terminates : forall fuel nodes seeds, (count_untainted nodes <= fuel)%nat ->
    let '(final, order, ok) := auto_mine reason fuel nodes seeds in
    ok = true /\ forallb (fun n => negb (untainted n)) final = true.
  Proof.
    induction fuel as [|f IH]; intros nodes seeds H; cbn [auto_mine].
    - destruct (pick_seed nodes) as [s|] eqn:P.
      + pose proof (pick_some_count nodes s P). lia.
      + split; [reflexivity | apply (pick_from_none nodes 0%nat P)].
    - destruct (pick_seed nodes) as [s|] eqn:P.
      + apply IH. pose proof (round_decreases nodes s P). lia.
      + split; [reflexivity | apply (pick_from_none nodes 0%nat P)].
  Qed.

  (* coverage: a node that is tainted belongs to some instance *)
  Definition tainted_covered (nodes : list mnode) : Prop :=
    forall k, (k < length nodes)%nat -> untainted (nth k nodes dflt) = false -> covered (nth k nodes dflt) = true.

  Lemma round_keeps_covered nodes s : tainted_covered nodes -> tainted_covered (round reason nodes s).
  Proof.
    intros I k Hk U. rewrite round_length in Hk.
    destruct (round_nth reason nodes s k Hk) as (S1 & T & CV & NS).
    destruct (Nat.eq_dec k s) as [E|E]; [destruct (S1 E) as (_ & C); exact C|].
    destruct (covered (nth k (round reason nodes s) dflt)) eqn:C; [reflexivity|].
    destruct (NS E eq_refl) as (C0 & U0). rewrite U in U0. symmetry in U0. rewrite (I k Hk U0) in C0. discriminate.
  Qed.

  Theorem auto_mine_covers : forall fuel nodes seeds, tainted_covered nodes -> (count_untainted nodes <= fuel)%nat ->
    let '(final, order, ok) := auto_mine reason fuel nodes seeds in
    forall k, (k < length final)%nat -> covered (nth k final dflt) = true.
  Proof.
    induction fuel as [|f IH]; intros nodes seeds I H; cbn [auto_mine].
    - destruct (pick_seed nodes) as [s|] eqn:P.
      + pose proof (pick_some_count nodes s P). lia.
      + intros k Hk. apply I; [exact Hk|]. pose proof (pick_from_none nodes 0%nat P) as A. rewrite forallb_forall in A.
        specialize (A (nth k nodes dflt) (nth_In _ _ Hk)). apply negb_true_iff in A. exact A.
    - destruct (pick_seed nodes) as [s|] eqn:P.
      + apply IH; [apply round_keeps_covered; exact I | pose proof (round_decreases nodes s P); lia].
      + intros k Hk. apply I; [exact Hk|]. pose proof (pick_from_none nodes 0%nat P) as A. rewrite forallb_forall in A.
        specialize (A (nth k nodes dflt) (nth_In _ _ Hk)). apply negb_true_iff in A. exact A.
  Qed.
End Termination.

(* a fresh graph (reset): every node untainted, no confidences *)
Lemma fresh_tainted_covered nodes : Forall (fun n => untainted n = true) nodes -> tainted_covered nodes.
Proof.
  intros F k Hk U. rewrite Forall_forall in F. specialize (F (nth k nodes dflt) (nth_In _ _ Hk)). congruence.
Qed.

Lemma count_untainted_le nodes : (count_untainted nodes <= length nodes)%nat.
Proof. unfold count_untainted. induction nodes as [|n r IH]; cbn; [lia|]. destruct (untainted n); cbn; lia. Qed.
