(* C20 — the numerical core and the seed loop of concept mining (edxml/miner/graph/graph.py, node.py, inference.py).
   Confidences are rationals here (the implementation uses binary floating point; see the trusted base).
   The Dijkstra-style reasoning from one seed is a parameter of the loop model: whatever confidences it assigns,
   as long as they lie in (min_confidence, 1]. *)
From Coq Require Import QArith Qminmax Qabs List.
From EdxmlVerif Require Import Base.Prelude.
Import ListNotations.
Local Open Scope Q_scope.

(* 1 - prod (1 - c_i): NodeCollection.compute_net_confidence, compute_confidence_timeline, compute_concept_name_confidences,
   check_node_concept_in_scope, get_related_concepts, get_concept_names *)
Definition noisy_or (l : list Q) : Q := 1 - fold_left Qmult (map (fun c => 1 - c) l) 1.

(* _update_seed_taints, as written: reduce(lambda x, y: (1.0 - x) * (1.0 - y), confidences) *)
Definition taint_of (l : list Q) : Q :=
  match l with
  | [] => 0
  | [c] => c
  | c :: r => 1 - fold_left (fun x y => (1 - x) * (1 - y)) r c
  end.

(* Inference.compute_dijkstra_confidence *)
Definition dijkstra_confidence (source_conf edge_conf target_taint target_conf : Q) : Q :=
  source_conf * edge_conf * (1 - target_taint) * target_conf.

(* MinedConceptInstance.get_related_concepts: one path *)
Definition related_confidence (source_conf edge_conf target_conf : Q) : Q := source_conf * edge_conf * target_conf.

Definition unitb (q : Q) : bool := Qle_bool 0 q && Qle_bool q 1.

(* ---- the seed loop (_auto_mine / find_optimal_seed / _set_seed / _update_seed_taints) ---- *)
Record mnode := { n_assoc : Q;                      (* confidence of the concept association, sorts equally tainted seed candidates *)
                  n_taint : Q;
                  n_confs : list (nat * Q) }.       (* seed index -> confidence *)

Definition untainted (n : mnode) : bool := Qle_bool (n_taint n) 0.

(* find_optimal_seed: among the nodes with taint <= 0, the first one (in node order) with the largest (1 - taint, association confidence) *)
Definition better (a b : mnode) : bool :=   (* a strictly better than b *)
  let ka := 1 - n_taint a in let kb := 1 - n_taint b in
  if Qlt_le_dec kb ka then true else if Qlt_le_dec ka kb then false
  else if Qlt_le_dec (n_assoc b) (n_assoc a) then true else false.
Fixpoint pick_from (nodes : list mnode) (i : nat) (best : option (nat * mnode)) : option nat :=
  match nodes with
  | [] => option_map fst best
  | n :: r =>
      if untainted n then
        match best with
        | None => pick_from r (S i) (Some (i, n))
        | Some (_, b) => if better n b then pick_from r (S i) (Some (i, n)) else pick_from r (S i) best
        end
      else pick_from r (S i) best
  end.
Definition pick_seed (nodes : list mnode) : option nat := pick_from nodes 0 None.

Definition Qmaxq (a b : Q) : Q := if Qlt_le_dec a b then b else a.

(* one round: the reasoning from `seed` assigned `assigned` (node index -> confidence); then the taints are updated and the seed is fully tainted *)
Definition set_conf (seed : nat) (c : Q) (n : mnode) : mnode :=
  {| n_assoc := n_assoc n; n_taint := n_taint n; n_confs := n_confs n ++ [(seed, c)] |}.
Fixpoint apply_assigned (seed : nat) (assigned : list (nat * Q)) (nodes : list mnode) (i : nat) : list mnode :=
  match nodes with
  | [] => []
  | n :: r =>
      let n1 := if Nat.eqb i seed then set_conf seed 1 n
                else match find (fun kv => Nat.eqb (fst kv) i) assigned with Some (_, c) => set_conf seed c n | None => n end in
      n1 :: apply_assigned seed assigned r (S i)
  end.
Definition retaint (seed : nat) (nodes : list mnode) : list mnode :=
  (fix go (l : list mnode) (i : nat) : list mnode :=
     match l with
     | [] => []
     | n :: r =>
         let t := Qmaxq (n_taint n) (taint_of (map snd (n_confs n))) in
         {| n_assoc := n_assoc n; n_taint := if Nat.eqb i seed then 1 else t; n_confs := n_confs n |} :: go r (S i)
     end) nodes 0%nat.
Definition round (reason : nat -> list mnode -> list (nat * Q)) (nodes : list mnode) (seed : nat) : list mnode :=
  retaint seed (apply_assigned seed (reason seed nodes) nodes 0).

(* _auto_mine; the seeds in the order they are picked.  fuel = number of nodes suffices (proved) *)
Fixpoint auto_mine (reason : nat -> list mnode -> list (nat * Q)) (fuel : nat) (nodes : list mnode) (seeds : list nat) : list mnode * list nat * bool :=
  match pick_seed nodes with
  | None => (nodes, rev seeds, true)
  | Some s =>
      match fuel with
      | O => (nodes, rev seeds, false)            (* out of fuel: excluded by the theorem *)
      | S f => auto_mine reason f (round reason nodes s) (s :: seeds)
      end
  end.

Definition covered (n : mnode) : bool := match n_confs n with [] => false | _ => true end.

(* comparison helpers for the correspondence run *)
Definition Qclose (a b : Q) : bool := Qle_bool (Qabs (a - b)) (1 # 1000000000).
