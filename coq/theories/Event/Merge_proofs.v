(* C04 — proofs about the merge model (repaired variant FirstSet unless stated). *)
From EdxmlVerif Require Import Base.Prelude Base.Bytes Event.Merge Event.Hash Event.Hash_proofs.
From Coq Require Import Permutation.

Definition seteq (a b : list str) : Prop := forall x, In x a <-> In x b.

Lemma subset_spec a b : subset a b = true <-> (forall x, In x a -> In x b).
Proof.
  unfold subset. rewrite forallb_forall. split; intros H x Hx; [apply mem_In | apply mem_In]; auto.
Qed.

Lemma set_eqb_spec a b : set_eqb a b = true <-> seteq a b.
Proof.
  unfold set_eqb, seteq. rewrite andb_true_iff, !subset_spec. split.
  - intros [H1 H2] x. split; auto.
  - intro H. split; intros x Hx; apply H; exact Hx.
Qed.

Lemma first_nonempty_spec ls :
  (first_nonempty ls = [] /\ Forall (fun l => l = []) ls) \/
  (first_nonempty ls <> [] /\ exists pre post, ls = pre ++ first_nonempty ls :: post /\ Forall (fun l => l = []) pre).
Proof.
  induction ls as [|l r IH]; cbn; [left; split; [reflexivity | constructor]|].
  destruct l as [|x xs]; cbn.
  - destruct IH as [[E F]|[N (pre & post & E & F)]].
    + left. split; [exact E | constructor; [reflexivity | exact F]].
    + right. split; [exact N|]. exists ([] :: pre), post. split; [cbn; f_equal; exact E | constructor; [reflexivity | exact F]].
  - right. split; [discriminate|]. exists [], r. split; [reflexivity | constructor].
Qed.

Section Laws.
  Variable rank : str -> str -> Z.
  Variable et : etype.

  Notation select := (select rank FirstSet et).
  Notation merge_core := (merge_core rank FirstSet et).

  (* ---- match: unchanged ---- *)
  Lemma select_match evs p S :
    strat_of et p = SMatch -> evs <> [] ->
    (forall e, In e evs -> seteq (get e p) S) -> seteq (select evs p) S.
  Proof.
    intros Hs Hne Hall. unfold Merge.select. rewrite Hs.
    destruct (first_nonempty_spec (map (fun e => get e p) evs)) as [[E F]|[N (pre & post & E & F)]].
    - rewrite E. destruct evs as [|e0 r]; [contradiction|].
      inversion F as [|? ? H0 _]; subst. specialize (Hall e0 (or_introl eq_refl)). cbn in H0. rewrite H0 in Hall. exact Hall.
    - assert (In (first_nonempty (map (fun e => get e p) evs)) (map (fun e => get e p) evs)) as Hin
        by (rewrite E at 2; apply in_app_iff; right; left; reflexivity).
      apply in_map_iff in Hin as (e & He1 & He2). rewrite <- He1. apply Hall. exact He2.
  Qed.

  (* ---- add: union ---- *)
  Lemma select_add evs p x :
    strat_of et p = SAdd -> (In x (select evs p) <-> exists e, In e evs /\ In x (get e p)).
  Proof.
    intro Hs. unfold Merge.select. rewrite Hs, dedup_In. unfold allvals. rewrite in_flat_map. reflexivity.
  Qed.

  (* ---- min / max: the extreme under the data type's ordering ---- *)
  Lemma argmin_spec p l : l <> [] ->
    exists r, argmin rank p l = Some r /\ In r l /\ forall v, In v l -> (rank p r <= rank p v)%Z.
  Proof.
    induction l as [|x xs IH]; [contradiction|]. intros _. cbn [argmin].
    destruct xs as [|y ys].
    - cbn. exists x. split; [reflexivity|]. split; [left; reflexivity|]. intros v [<-|[]]. lia.
    - destruct IH as (r & E & Hin & Hmin); [discriminate|]. rewrite E.
      destruct (Z.leb_spec (rank p x) (rank p r)).
      + exists x. split; [reflexivity|]. split; [left; reflexivity|].
        intros v [<-|Hv]; [lia | specialize (Hmin v Hv); lia].
      + exists r. split; [reflexivity|]. split; [right; exact Hin|].
        intros v [<-|Hv]; [lia | apply Hmin; exact Hv].
  Qed.

  Lemma argmax_spec p l : l <> [] ->
    exists r, argmax rank p l = Some r /\ In r l /\ forall v, In v l -> (rank p v <= rank p r)%Z.
  Proof.
    induction l as [|x xs IH]; [contradiction|]. intros _. cbn [argmax].
    destruct xs as [|y ys].
    - cbn. exists x. split; [reflexivity|]. split; [left; reflexivity|]. intros v [<-|[]]. lia.
    - destruct IH as (r & E & Hin & Hmax); [discriminate|]. rewrite E.
      destruct (Z.leb_spec (rank p r) (rank p x)).
      + exists x. split; [reflexivity|]. split; [left; reflexivity|].
        intros v [<-|Hv]; [lia | specialize (Hmax v Hv); lia].
      + exists r. split; [reflexivity|]. split; [right; exact Hin|].
        intros v [<-|Hv]; [lia | apply Hmax; exact Hv].
  Qed.

  Lemma select_min evs p : strat_of et p = SMin -> allvals evs p <> [] ->
    exists r, select evs p = [r] /\ In r (allvals evs p) /\
              forall v, In v (allvals evs p) -> (rank p r <= rank p v)%Z.
  Proof.
    intros Hs Hne. unfold Merge.select. rewrite Hs.
    destruct (argmin_spec p _ Hne) as (r & E & H). rewrite E. exists r. split; [reflexivity | exact H].
  Qed.

  Lemma select_max evs p : strat_of et p = SMax -> allvals evs p <> [] ->
    exists r, select evs p = [r] /\ In r (allvals evs p) /\
              forall v, In v (allvals evs p) -> (rank p v <= rank p r)%Z.
  Proof.
    intros Hs Hne. unfold Merge.select. rewrite Hs.
    destruct (argmax_spec p _ Hne) as (r & E & H). rewrite E. exists r. split; [reflexivity | exact H].
  Qed.

  (* ---- set / any ---- *)
  Lemma select_set evs p : strat_of et p = SSet ->
    (select evs p = [] /\ forall e, In e evs -> get e p = []) \/
    (exists pre e post, evs = pre ++ e :: post /\ select evs p = get e p /\ get e p <> [] /\
                        forall e', In e' pre -> get e' p = []).
  Proof.
    intro Hs. unfold Merge.select. rewrite Hs.
    destruct (first_nonempty_spec (map (fun e => get e p) evs)) as [[E F]|[N (pre & post & E & F)]].
    - left. split; [exact E|]. intros e He. rewrite Forall_forall in F. apply F. apply in_map_iff. eauto.
    - right. apply map_eq_app in E as (l1 & l2 & -> & E1 & E2).
      destruct l2 as [|e l2]; [discriminate|]. cbn in E2. injection E2 as E2 E3.
      exists l1, e, l2. split; [reflexivity|]. split; [symmetry; exact E2|]. split; [rewrite E2; exact N|].
      intros e' He'. rewrite Forall_forall in F. apply F. rewrite <- E1. apply in_map_iff. eauto.
  Qed.

  Lemma select_any evs p : strat_of et p = SAny ->
    (select evs p = [] /\ forall e, In e evs -> get e p = []) \/
    (exists e, In e evs /\ select evs p = get e p /\ get e p <> []).
  Proof.
    intro Hs. unfold Merge.select. rewrite Hs.
    destruct (first_nonempty_spec (map (fun e => get e p) evs)) as [[E F]|[N (pre & post & E & F)]].
    - left. split; [exact E|]. intros e He. rewrite Forall_forall in F. apply F. apply in_map_iff. eauto.
    - right.
      assert (In (first_nonempty (map (fun e => get e p) evs)) (map (fun e => get e p) evs)) as Hin
        by (rewrite E at 2; apply in_app_iff; right; left; reflexivity).
      apply in_map_iff in Hin as (e & He1 & He2). exists e. split; [exact He2|]. split; [symmetry; exact He1|].
      rewrite He1. exact N.
  Qed.

  (* ---- replace: the objects of the last instance in version order ---- *)
  Lemma select_replace evs e p : strat_of et p = SReplace -> select (evs ++ [e]) p = get e p.
  Proof.
    intro Hs. unfold Merge.select. rewrite Hs, last_last. destruct evs; reflexivity.
  Qed.

  (* ---- closure: every merged object is an object of some instance ---- *)
  Lemma first_nonempty_In (ls : list (list str)) x : In x (first_nonempty ls) -> exists l, In l ls /\ In x l.
  Proof.
    induction ls as [|l r IH]; cbn; [contradiction|]. destruct l as [|y ys]; cbn [nonempty].
    - intro H. destruct (IH H) as (l & Hl & Hx). exists l. split; [right; exact Hl | exact Hx].
    - intro H. exists (y :: ys). split; [left; reflexivity | exact H].
  Qed.

  Lemma select_closed evs p x : In x (select evs p) -> exists e, In e evs /\ In x (get e p).
  Proof.
    unfold Merge.select. intro H.
    assert (FN : In x (first_nonempty (map (fun e => get e p) evs)) -> exists e, In e evs /\ In x (get e p)).
    { intro H'. apply first_nonempty_In in H' as (l & Hl & Hx). apply in_map_iff in Hl as (e & <- & He). eauto. }
    assert (AV : In x (allvals evs p) -> exists e, In e evs /\ In x (get e p))
      by (unfold allvals; rewrite in_flat_map; auto).
    destruct (strat_of et p); auto.
    - apply AV. apply dedup_In. exact H.
    - destruct evs as [|e0 r]; [contradiction|].
      exists (last (e0 :: r) {| me_props := []; me_parents := []; me_tag := 0 |}). split; [|exact H].
      destruct (@exists_last _ (e0 :: r)) as (l' & a & E); [discriminate|]. rewrite E, last_last. apply in_app_iff. right. left. reflexivity.
    - destruct (allvals evs p) as [|v vs] eqn:E; [cbn in H; contradiction|].
      destruct (argmin_spec p (v :: vs)) as (r & Er & Hin & _); [discriminate|]. rewrite Er in H.
      destruct H as [<-|[]]. apply AV. exact Hin.
    - destruct (allvals evs p) as [|v vs] eqn:E; [cbn in H; contradiction|].
      destruct (argmax_spec p (v :: vs)) as (r & Er & Hin & _); [discriminate|]. rewrite Er in H.
      destruct H as [<-|[]]. apply AV. exact Hin.
  Qed.

  (* ---- parents: union ---- *)
  Lemma merge_parents evs h :
    In h (me_parents (merge_core evs)) <-> exists e, In e evs /\ In h (me_parents e).
  Proof. cbn. rewrite dedup_In, in_flat_map. reflexivity. Qed.

  (* ---- reading a property of the merged event ---- *)
  Lemma NoDup_present evs : NoDup (present evs).
  Proof. unfold present. apply NoDup_union. constructor. Qed.

  Lemma aget_filter_map (f : str -> list str) keys p : NoDup keys ->
    odefault [] (aget p (filter (fun kv => nonempty (snd kv)) (map (fun k => (k, f k)) keys))) =
    if mem p keys then f p else [].
  Proof.
    induction keys as [|k r IH]; intro ND; cbn; [reflexivity|]. inversion ND as [|? ? Hn ND']; subst.
    destruct (str_eqb p k) eqn:E.
    - apply str_eqb_eq in E; subst k. cbn. destruct (f p) eqn:F; cbn.
      + rewrite IH by exact ND'. destruct (mem p r) eqn:M; [apply mem_In in M; contradiction | reflexivity].
      + rewrite str_eqb_refl. reflexivity.
    - cbn. destruct (nonempty (f k)); cbn; [rewrite E|]; apply IH; exact ND'.
  Qed.


  (* ---- reading the merged event ---- *)
  Definition wf (e : mevent) : Prop := NoDup (map fst (me_props e)).

  Lemma aget_In_NoDup {V} (d : list (str * V)) k v :
    NoDup (map fst d) -> (In (k, v) d <-> aget k d = Some v).
  Proof.
    induction d as [|[k' v'] r IH]; cbn; intro ND; [split; [contradiction | discriminate]|].
    inversion ND as [|? ? Hn ND']; subst. destruct (str_eqb k k') eqn:E.
    - apply str_eqb_eq in E; subst k'. split.
      + intros [H|H]; [congruence|]. exfalso. apply Hn. apply in_map_iff. exists (k, v). auto.
      + intro H. left. congruence.
    - apply str_eqb_neq in E. rewrite <- IH by exact ND'. split; [intros [H|H]; [congruence | exact H] | auto].
  Qed.

  Lemma event_keys_spec e p : wf e -> (In p (event_keys e) <-> get e p <> []).
  Proof.
    intro W. unfold event_keys, get. rewrite in_map_iff. split.
    - intros ([k vs] & <- & Hf). apply filter_In in Hf as [Hin Hne]. cbn in *.
      apply (aget_In_NoDup _ _ _ W) in Hin. rewrite Hin. cbn. destruct vs; [discriminate | discriminate].
    - intro H. destruct (aget p (me_props e)) as [vs|] eqn:G; [|cbn in H; contradiction].
      exists (p, vs). split; [reflexivity|]. apply filter_In. split; [apply (aget_In_NoDup _ _ _ W); exact G|].
      cbn in *. destruct vs; [contradiction | reflexivity].
  Qed.

  Lemma present_spec evs p : Forall wf evs ->
    (mem p (present evs) = true <-> exists e, In e evs /\ get e p <> []).
  Proof.
    intro W. unfold present. rewrite mem_union. cbn [mem orb]. rewrite mem_In, in_flat_map.
    rewrite Forall_forall in W. split; intros (e & He & Hp); exists e; (split; [exact He|]);
      apply (event_keys_spec e p (W e He)); exact Hp.
  Qed.

  Lemma get_merged evs p :
    get (merge_core evs) p = if mem p (present evs) then select evs p else [].
  Proof. unfold get. cbn [me_props Merge.merge_core]. apply aget_filter_map. apply NoDup_present. Qed.

  Lemma wf_merged evs : wf (merge_core evs).
  Proof.
    unfold wf. cbn [me_props Merge.merge_core].
    assert (forall keys, NoDup keys -> NoDup (map fst (filter (fun kv : str * list str => nonempty (snd kv))
                                                        (map (fun p => (p, select evs p)) keys)))) as H.
    { induction keys as [|k r IH]; cbn; intro ND; [constructor|]. inversion ND as [|? ? Hn ND']; subst.
      destruct (nonempty (select evs k)); cbn; [|apply IH; exact ND'].
      constructor; [|apply IH; exact ND']. intro Hin. apply Hn.
      apply in_map_iff in Hin as ([k' v'] & <- & Hf). apply filter_In in Hf as [Hf _].
      apply in_map_iff in Hf as (k2 & E & Hk2). injection E as <- _. exact Hk2. }
    apply H. apply NoDup_present.
  Qed.

  (* hashed (match) properties are unchanged by merging *)
  Lemma merged_match_unchanged evs e0 p :
    Forall wf evs -> In e0 evs -> strat_of et p = SMatch ->
    (forall e, In e evs -> seteq (get e p) (get e0 p)) ->
    seteq (get (merge_core evs) p) (get e0 p).
  Proof.
    intros W H0 Hs Hall. rewrite get_merged. destruct (mem p (present evs)) eqn:M.
    - apply select_match; [exact Hs | intro E; subst; contradiction | exact Hall].
    - assert (get e0 p = []) as ->; [|intro x; tauto].
      destruct (get e0 p) eqn:G; [reflexivity|]. exfalso.
      assert (mem p (present evs) = true) by (apply present_spec; [exact W|]; exists e0; split; [exact H0 | congruence]).
      congruence.
  Qed.

  (* ---- identity / sticky hash preserved ---- *)
  Definition hev (src typ : str) (e : mevent) : hevent := {| h_src := src; h_typ := typ; h_props := me_props e |}.

  Lemma in_identity_get src typ hashed e b : wf e ->
    (in_identity hashed (hev src typ e) b <->
     exists p v, In v (get e p) /\ mem p hashed = true /\ b = spec_object_string p v).
  Proof.
    intro W. unfold in_identity, hev, get; cbn. split.
    - intros (p & vs & v & Hin & Hv & M & ->). apply (aget_In_NoDup _ _ _ W) in Hin.
      exists p, v. rewrite Hin. auto.
    - intros (p & v & Hv & M & ->). destruct (aget p (me_props e)) as [vs|] eqn:G; [|contradiction].
      exists p, vs, v. split; [apply (aget_In_NoDup _ _ _ W); exact G | auto].
  Qed.

  Lemma hash_preserved src typ hashed evs e0 :
    Forall wf evs -> In e0 evs ->
    (forall p, mem p hashed = true -> strat_of et p = SMatch) ->
    (forall p e, mem p hashed = true -> In e evs -> seteq (get e p) (get e0 p)) ->
    preimage SEP OBJFMT LAYOUT hashed (hev src typ (merge_core evs)) =
    preimage SEP OBJFMT LAYOUT hashed (hev src typ e0).
  Proof.
    intros W H0 Hm Hag. apply preimage_invariant; try reflexivity. intro b.
    rewrite Forall_forall in W. rewrite !in_identity_get by (try apply wf_merged; try (apply W; exact H0)).
    split; intros (p & v & Hv & M & ->); exists p, v; (split; [|auto]);
      apply (merged_match_unchanged evs e0 p); auto; try (apply Forall_forall; exact W); intros e He; apply Hag; assumption.
  Qed.
End Laws.

(* ---- version order and conflicts ---- *)
Section Version.
  Variable rank : str -> str -> Z.
  Variable et : etype.

  Lemma vinsert_perm vp e l : Permutation (e :: l) (vinsert rank vp e l).
  Proof.
    induction l as [|y r IH]; cbn; [reflexivity|].
    destruct (vkey rank vp e <=? vkey rank vp y)%Z; [reflexivity|]. rewrite perm_swap. constructor. exact IH.
  Qed.
  Lemma vsort_perm vp l : Permutation l (vsort rank vp l).
  Proof. induction l as [|e r IH]; cbn; [constructor|]. rewrite <- vinsert_perm. constructor. exact IH. Qed.

  Definition vle vp (a b : mevent) : Prop := (vkey rank vp a <= vkey rank vp b)%Z.

  Lemma vinsert_sorted vp e l : Sorted.StronglySorted (vle vp) l -> Sorted.StronglySorted (vle vp) (vinsert rank vp e l).
  Proof.
    induction l as [|y r IH]; cbn; intro S; [repeat constructor|].
    inversion S as [|? ? Sr Hall]; subst. destruct (Z.leb_spec (vkey rank vp e) (vkey rank vp y)).
    - constructor; [exact S|]. constructor; [exact H|]. eapply Forall_impl; [|exact Hall]. unfold vle. intros; lia.
    - constructor; [apply IH; exact Sr|]. eapply Permutation_Forall; [apply vinsert_perm|].
      constructor; [unfold vle; lia | exact Hall].
  Qed.
  Lemma vsort_sorted vp l : Sorted.StronglySorted (vle vp) (vsort rank vp l).
  Proof. induction l as [|e r IH]; cbn; [constructor | apply vinsert_sorted; exact IH]. Qed.

  Lemma sorted_last_max vp l e : Sorted.StronglySorted (vle vp) (l ++ [e]) -> forall x, In x (l ++ [e]) -> vle vp x e.
  Proof.
    induction l as [|y r IH]; cbn; intros S x Hx.
    - destruct Hx as [<-|[]]. unfold vle; lia.
    - inversion S as [|? ? Sr Hall]; subst. destruct Hx as [<-|Hx]; [|apply IH; assumption].
      rewrite Forall_forall in Hall. apply Hall. apply in_app_iff. right. left. reflexivity.
  Qed.

  (* replace: the objects of an instance with the highest version *)
  Lemma merged_replace vp evs p :
    et_version et = Some vp -> evs <> [] -> strat_of et p = SReplace ->
    exists top, In top evs /\ (forall e, In e evs -> vle vp e top) /\
                select rank FirstSet et (vsort rank vp evs) p = get top p.
  Proof.
    intros _ Hne Hs.
    destruct (@exists_last _ (vsort rank vp evs)) as (l & top & E).
    { intro H. apply Hne. apply Permutation_nil. apply Permutation_sym. rewrite <- H. apply vsort_perm. }
    exists top. split; [|split].
    - eapply Permutation_in; [apply Permutation_sym, vsort_perm|]. rewrite E. apply in_app_iff. right. left. reflexivity.
    - intros e He. apply (sorted_last_max vp l top); [rewrite <- E; apply vsort_sorted|].
      rewrite <- E. eapply Permutation_in; [apply vsort_perm | exact He].
    - rewrite E. apply select_replace. exact Hs.
  Qed.

  Lemma existsb_perm {A} (f : A -> bool) l1 l2 : Permutation l1 l2 -> existsb f l1 = existsb f l2.
  Proof.
    intro P. destruct (existsb f l1) eqn:E1, (existsb f l2) eqn:E2; try reflexivity.
    - apply existsb_exists in E1 as (x & Hx & Fx).
      assert (existsb f l2 = true) by (apply existsb_exists; exists x; split; [eapply Permutation_in; eassumption | exact Fx]). congruence.
    - apply existsb_exists in E2 as (x & Hx & Fx).
      assert (existsb f l1 = true) by (apply existsb_exists; exists x; split; [eapply Permutation_in; [apply Permutation_sym|]; eassumption | exact Fx]). congruence.
  Qed.

  (* a conflict is reported iff two instances share a version and differ in a declared property *)
  Lemma conflict_iff v evs :
    merge rank v et evs = None <->
    exists vp, et_version et = Some vp /\
      exists a b, In a evs /\ In b evs /\ version_str vp a = version_str vp b /\ differ et a b = true.
  Proof.
    unfold merge. destruct (et_version et) as [vp|]; [|split; [discriminate | intros (vp & H & _); discriminate]].
    destruct (conflict et vp (vsort rank vp evs)) eqn:C; split; try discriminate; try reflexivity.
    - intros _. exists vp. split; [reflexivity|]. unfold conflict in C.
      apply existsb_exists in C as (a & Ha & C). apply existsb_exists in C as (b & Hb & C).
      apply andb_true_iff in C as [C1 C2]. apply strs_eqb_eq in C1.
      exists a, b. split; [eapply Permutation_in; [apply Permutation_sym, vsort_perm | exact Ha]|].
      split; [eapply Permutation_in; [apply Permutation_sym, vsort_perm | exact Hb]|]. split; assumption.
    - intros (vp' & E & a & b & Ha & Hb & Hv & Hd). injection E as <-. exfalso.
      assert (conflict et vp (vsort rank vp evs) = true); [|congruence].
      unfold conflict. apply existsb_exists. exists a. split; [eapply Permutation_in; [apply vsort_perm | exact Ha]|].
      apply existsb_exists. exists b. split; [eapply Permutation_in; [apply vsort_perm | exact Hb]|].
      apply andb_true_iff. split; [apply strs_eqb_eq; exact Hv | exact Hd].
  Qed.
End Version.

(* ---- the pinned behaviour (one object kept) violates "match: unchanged" ---- *)
Definition w_et := {| et_strat := [([112]%N, SMatch)]; et_version := None |}.
Definition w_ev := {| me_props := [([112]%N, [[97]%N; [98]%N])]; me_parents := []; me_tag := 1 |}.
Lemma first_value_refuted :
  ~ seteq (get (Merge.merge_core (fun _ _ => 0%Z) FirstValue w_et [w_ev; w_ev]) [112]%N) (get w_ev [112]%N).
Proof.
  intro H. specialize (H [98]%N). cbn in H. destruct H as [_ H].
  destruct H as [H|[]]; [right; left; reflexivity | discriminate].
Qed.

(* ---- structural validity is inherited ---- *)
Section Validity.
  Variable rank : str -> str -> Z.
  Variable et : etype.
  Notation select := (select rank FirstSet et).

  (* a mandatory property stays present *)
  Lemma select_nonempty evs p :
    evs <> [] -> (forall e, In e evs -> get e p <> []) -> select evs p <> [].
  Proof.
    intros Hne Hall. unfold Merge.select.
    assert (AV : allvals evs p <> []).
    { destruct evs as [|e0 r]; [contradiction|]. unfold allvals. cbn.
      specialize (Hall e0 (or_introl eq_refl)). destruct (get e0 p); [contradiction | discriminate]. }
    assert (FN : first_nonempty (map (fun e => get e p) evs) <> []).
    { destruct (first_nonempty_spec (map (fun e => get e p) evs)) as [[E F]|[N _]]; [|exact N].
      destruct evs as [|e0 r]; [contradiction|]. inversion F as [|? ? H0 _]; subst.
      exfalso. apply (Hall e0 (or_introl eq_refl)). exact H0. }
    destruct (strat_of et p); try exact FN.
    - intro H. apply AV. destruct (allvals evs p) as [|v vs] eqn:E; [reflexivity|].
      assert (In v (dedup (v :: vs))) as Hin by (apply dedup_In; left; reflexivity). rewrite H in Hin. contradiction.
    - destruct evs as [|e0 r]; [contradiction|]. apply Hall.
      destruct (@exists_last _ (e0 :: r)) as (l' & a & E); [discriminate|]. rewrite E, last_last. apply in_app_iff. right. left. reflexivity.
    - destruct (argmin_spec rank p _ AV) as (r & E & _). rewrite E. discriminate.
    - destruct (argmax_spec rank p _ AV) as (r & E & _). rewrite E. discriminate.
  Qed.

  Lemma dedup_single l : (forall x y, In x l -> In y l -> x = y) -> length (dedup l) <= 1.
  Proof.
    intro H. destruct (dedup l) as [|a [|b r]] eqn:E; cbn; try lia. exfalso.
    pose proof (dedup_NoDup l) as ND. rewrite E in ND. inversion ND as [|? ? Hn _]; subst. apply Hn.
    assert (In a l) by (apply dedup_In; rewrite E; left; reflexivity).
    assert (In b l) by (apply dedup_In; rewrite E; right; left; reflexivity).
    rewrite (H a b) by assumption. left. reflexivity.
  Qed.

  (* a single-valued property stays single-valued (for `add`: when the instances agree) *)
  Lemma select_single evs p :
    (forall e, In e evs -> length (get e p) <= 1) ->
    (strat_of et p = SAdd -> forall x y, In x (allvals evs p) -> In y (allvals evs p) -> x = y) ->
    length (select evs p) <= 1.
  Proof.
    intros Hall Hadd. unfold Merge.select.
    assert (FN : length (first_nonempty (map (fun e => get e p) evs)) <= 1).
    { destruct (first_nonempty_spec (map (fun e => get e p) evs)) as [[E F]|[N (pre & post & E & F)]]; [rewrite E; cbn; lia|].
      assert (In (first_nonempty (map (fun e => get e p) evs)) (map (fun e => get e p) evs)) as Hin
        by (rewrite E at 2; apply in_app_iff; right; left; reflexivity).
      apply in_map_iff in Hin as (e & He1 & He2). rewrite <- He1. apply Hall. exact He2. }
    destruct (strat_of et p) eqn:S; try exact FN.
    - apply dedup_single. apply Hadd. reflexivity.
    - destruct evs as [|e0 r]; [cbn; lia|]. apply Hall.
      destruct (@exists_last _ (e0 :: r)) as (l' & a & E); [discriminate|]. rewrite E, last_last. apply in_app_iff. right. left. reflexivity.
    - destruct (argmin rank p (allvals evs p)); cbn; lia.
    - destruct (argmax rank p (allvals evs p)); cbn; lia.
  Qed.
End Validity.
