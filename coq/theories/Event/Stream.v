(* C05 — models of the stream mergers of edxml-merge (edxml/cli/edxml_merge.py):
   EDXMLEventMerger (incremental fold over a hash buffer) and
   BufferingEDXMLEventMerger (batches flushed when the buffer holds n events, and at close). *)
From EdxmlVerif Require Import Base.Prelude Event.Merge.

Section Stream.
  Variable rank : str -> str -> Z.
  Variable v : mvariant.
  Variable et : etype.

  Definition item := (N * mevent)%type.          (* sticky hash (abstract key), event *)

  Fixpoint nget {V} (k : N) (d : list (N * V)) : option V :=
    match d with [] => None | (k', x) :: r => if N.eqb k k' then Some x else nget k r end.
  Fixpoint nset {V} (k : N) (x : V) (d : list (N * V)) : list (N * V) :=
    match d with
    | [] => [(k, x)]
    | (k', y) :: r => if N.eqb k k' then (k', x) :: r else (k', y) :: nset k x r
    end.

  (* merge_events on a list, None = merge conflict *)
  Definition mrg (evs : list mevent) : option mevent := merge rank v et evs.

  (* EDXMLEventMerger: buffer[h] := merge [buffer[h]; e]; everything is written at close *)
  Fixpoint fold_merger (buf : list (N * mevent)) (s : list item) : option (list (N * mevent)) :=
    match s with
    | [] => Some buf
    | (h, e) :: r =>
        match nget h buf with
        | None => fold_merger (nset h e buf) r
        | Some b => match mrg [b; e] with
                    | Some m => fold_merger (nset h m buf) r
                    | None => None
                    end
        end
    end.

  (* BufferingEDXMLEventMerger *)
  Definition flush (buf : list (N * list mevent)) : option (list (N * mevent)) :=
    fold_right (fun kv acc =>
                  match acc with
                  | None => None
                  | Some out =>
                      match snd kv with
                      | [] => Some out
                      | [e] => Some ((fst kv, e) :: out)
                      | evs => match mrg evs with Some m => Some ((fst kv, m) :: out) | None => None end
                      end
                  end) (Some []) buf.

  Fixpoint buffered (flush_at_close : bool) (n : nat) (buf : list (N * list mevent)) (count : nat) (s : list item)
    : option (list (N * mevent)) :=
    match s with
    | [] => if flush_at_close then flush buf else Some []
    | (h, e) :: r =>
        let buf' := match nget h buf with
                    | None => nset h [e] buf
                    | Some l => nset h (l ++ [e]) buf
                    end in
        if Nat.leb n (S count) then
          match flush buf' with
          | None => None
          | Some out => match buffered flush_at_close n [] 0 r with
                        | Some out' => Some (out ++ out')
                        | None => None
                        end
          end
        else buffered flush_at_close n buf' (S count) r
    end.

  (* logical content of an output stream: merge the output events per hash (first-seen order) *)
  Fixpoint group_by (s : list item) (acc : list (N * list mevent)) : list (N * list mevent) :=
    match s with
    | [] => acc
    | (h, e) :: r => group_by r (match nget h acc with
                                 | None => nset h [e] acc
                                 | Some l => nset h (l ++ [e]) acc
                                 end)
    end.
  Definition logical (s : list item) : option (list (N * mevent)) := flush (group_by s []).
End Stream.

(* comparison for the correspondence run: same hashes in the same order, equal events *)
Definition out_eqb (a b : option (list (N * mevent))) : bool :=
  match a, b with
  | None, None => true
  | Some x, Some y => list_eqb (fun p q => N.eqb (fst p) (fst q) && mevent_eqb (snd p) (snd q)) x y
  | _, _ => false
  end.
