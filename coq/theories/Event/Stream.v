(* C05 — models of the stream mergers of edxml-merge (edxml/cli/edxml_merge.py):
   EDXMLEventMerger (incremental fold over a hash buffer) and
   BufferingEDXMLEventMerger (batches flushed when the buffer holds n events, and at close). *)
From EdxmlVerif Require Import Base.Prelude Event.Merge.

Section Stream.
  Variable rank : str -> str -> Z.
  Variable v : mvariant.
  Variable et : etype.

  Definition item := (str * mevent)%type.        (* sticky hash (abstract key), event *)

  (* merge_events on a list, None = merge conflict *)
  Definition mrg (evs : list mevent) : option mevent := merge rank v et evs.

  (* EDXMLEventMerger: buffer[h] := merge [buffer[h]; e]; everything is written at close *)
  Fixpoint fold_merger (buf : list (str * mevent)) (s : list item) : option (list (str * mevent)) :=
    match s with
    | [] => Some buf
    | (h, e) :: r =>
        match aget h buf with
        | None => fold_merger (aset h e buf) r
        | Some b => match mrg [b; e] with
                    | Some m => fold_merger (aset h m buf) r
                    | None => None
                    end
        end
    end.

  (* BufferingEDXMLEventMerger *)
  Definition flush (buf : list (str * list mevent)) : option (list (str * mevent)) :=
    fold_right (fun kv acc =>
                  match acc with
                  | None => None
                  | Some out =>
                      match snd kv with
                      | [] => Some out
                      | [e] => Some ((fst kv, e) :: out)
                      | evs => match mrg evs with Some m => Some ((fst kv, m) :: out) | None => None end
                      end
                  end) (Some []) buf.

  Fixpoint buffered (flush_at_close : bool) (n : nat) (buf : list (str * list mevent)) (count : nat) (s : list item)
    : option (list (str * mevent)) :=
    match s with
    | [] => if flush_at_close then flush buf else Some []
    | (h, e) :: r =>
        let buf' := match aget h buf with
                    | None => aset h [e] buf
                    | Some l => aset h (l ++ [e]) buf
                    end in
        if Nat.leb n (S count) then
          match flush buf' with
          | None => None
          | Some out => match buffered flush_at_close n [] 0 r with
                        | Some out' => Some (out ++ out')
                        | None => None
                        end
          end
        else buffered flush_at_close n buf' (S count) r
    end.

  (* logical content of an output stream: merge the output events per hash (first-seen order) *)
  Fixpoint group_by (s : list item) (acc : list (str * list mevent)) : list (str * list mevent) :=
    match s with
    | [] => acc
    | (h, e) :: r => group_by r (match aget h acc with
                                 | None => aset h [e] acc
                                 | Some l => aset h (l ++ [e]) acc
                                 end)
    end.
  Definition logical (s : list item) : option (list (str * mevent)) := flush (group_by s []).
End Stream.

(* comparison for the correspondence run: same hashes in the same order, equal events *)
Definition out_eqb (a b : option (list (str * mevent))) : bool :=
  match a, b with
  | None, None => true
  | Some x, Some y => list_eqb (fun p q => str_eqb (fst p) (fst q) && mevent_eqb (snd p) (snd q)) x y
  | _, _ => false
  end.
