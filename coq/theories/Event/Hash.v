(* C01 — model of EDXMLEvent.compute_sticky_hash (edxml/event.py) and of the
   hashed-property memo of EventType (edxml/ontology/event_type.py). *)
From EdxmlVerif Require Import Base.Prelude Base.Bytes.

(* logical event content seen by the hash: source, type, property -> objects
   (a Python dict of sets: keys in any order, objects in any order, possibly with
   repetitions in the list that represents the set) *)
Record hevent := { h_src : str; h_typ : str; h_props : list (str * list str) }.

(* Python '%s...' % (args): substitute %s left to right (code points / bytes alike) *)
Fixpoint fmt (f : list N) (args : list (list N)) : list N :=
  match f with
  | 37%N :: 115%N :: r =>            (* "%s" *)
      match args with
      | a :: args' => a ++ fmt r args'
      | [] => 37%N :: 115%N :: fmt r []
      end
  | c :: r => c :: fmt r args
  | [] => []
  end.

Section Layout.
  (* literals of the implementation (regenerated from the source, see Generated/C01_gen.v) *)
  Variable separator : bytes.          (* object_separator *)
  Variable objfmt : str.               (* '%s:%s' *)
  Variable layout : bytes.             (* b'%s\n%s\n%s' *)

  Definition object_strings (hashed : list str) (props : list (str * list str)) : list bytes :=
    flat_map (fun pv => if mem (fst pv) hashed
                        then map (fun v => utf8 (fmt objfmt [fst pv; v])) (snd pv)
                        else []) props.

  Definition preimage (hashed : list str) (e : hevent) : bytes :=
    fmt layout [utf8 (h_src e); utf8 (h_typ e);
                join separator (canon (object_strings hashed (h_props e)))].
End Layout.

(* ---- the specification, written from the property text ---- *)
Definition SEP : bytes := [255; 255; 255; 255]%N.
Definition spec_object_string (p v : str) : bytes := utf8 p ++ [58%N] ++ utf8 v.
(* the set of "property:value" strings of the hashed properties *)
Definition in_identity (hashed : list str) (e : hevent) (b : bytes) : Prop :=
  exists p vs v, In (p, vs) (h_props e) /\ In v vs /\ mem p hashed = true /\ b = spec_object_string p v.
Definition spec_preimage (src typ : str) (sorted_strings : list bytes) : bytes :=
  utf8 src ++ [10%N] ++ utf8 typ ++ [10%N] ++ join SEP sorted_strings.

(* ---- hashed-property memo of EventType ---- *)
Inductive eop :=
| SetMerge (p : str) (is_match : bool)      (* EventProperty.set_merge_strategy / merge_* / make_hashed *)
| AddProp (p : str) (is_match : bool)       (* create_property / add_property (+ strategy) *)
| DelProp (p : str)                         (* remove_property *)
| GetHashed.                                (* get_hashed_properties(), e.g. through compute_sticky_hash *)

Record etstate := { et_props : list (str * bool); et_cache : option (list str) }.

Definition fresh_hashed (props : list (str * bool)) : list str :=
  map fst (filter snd props).

Definition estep (notify_on_merge : bool) (st : etstate) (o : eop) : etstate :=
  match o with
  | SetMerge p b =>
      match aget p (et_props st) with
      | None => st
      | Some old =>
          if Bool.eqb old b then st              (* _set_attr: no change, no callback *)
          else {| et_props := aset p b (et_props st);
                  et_cache := if notify_on_merge then None else et_cache st |}
      end
  | AddProp p b =>
      match aget p (et_props st) with
      | Some _ => st                              (* raises; state unchanged *)
      | None => {| et_props := aset p b (et_props st); et_cache := None |}
      end
  | DelProp p =>
      match aget p (et_props st) with
      | None => st
      | Some _ => {| et_props := filter (fun kv => negb (str_eqb (fst kv) p)) (et_props st); et_cache := None |}
      end
  | GetHashed =>
      match et_cache st with
      | Some _ => st
      | None => {| et_props := et_props st; et_cache := Some (fresh_hashed (et_props st)) |}
      end
  end.

Definition get_hashed (st : etstate) : list str :=
  match et_cache st with Some c => c | None => fresh_hashed (et_props st) end.

(* trace of get_hashed_properties() results, one per GetHashed *)
Fixpoint erun (n : bool) (st : etstate) (ops : list eop) : list (list str) :=
  match ops with
  | [] => []
  | o :: r => let st' := estep n st o in
              match o with GetHashed => get_hashed st' :: erun n st' r | _ => erun n st' r end
  end.
