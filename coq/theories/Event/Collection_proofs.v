(* C18 — proofs about the collection-equivalence model. *)
From EdxmlVerif Require Import Base.Prelude Base.Bytes Event.Merge Event.Merge_proofs Event.Stream Event.Collection.

(* ---- mevent_eqb is an equivalence ---- *)
Lemma set_eqb_refl a : set_eqb a a = true.
Proof. apply set_eqb_spec. intro; tauto. Qed.
Lemma set_eqb_sym a b : set_eqb a b = set_eqb b a.
Proof. unfold set_eqb. apply andb_comm. Qed.

Lemma props_eqb_sym a b : props_eqb a b = props_eqb b a.
Proof. unfold props_eqb. apply andb_comm. Qed.

Lemma mevent_eqb_sym a b : mevent_eqb a b = mevent_eqb b a.
Proof. unfold mevent_eqb. rewrite props_eqb_sym, set_eqb_sym, N.eqb_sym. reflexivity. Qed.

Lemma props_eqb_refl (d : list (str * list str)) : NoDup (map fst d) -> props_eqb d d = true.
Proof.
  intro ND. unfold props_eqb.
  assert (forallb (fun kv => set_eqb (snd kv) (odefault [] (aget (fst kv) d))) d = true) as ->; [|reflexivity].
  apply forallb_forall. intros [k v] Hin. cbn. apply (aget_In_NoDup d k v ND) in Hin. rewrite Hin. apply set_eqb_refl.
Qed.

Lemma mevent_eqb_refl e : wf e -> mevent_eqb e e = true.
Proof. intro W. unfold mevent_eqb. rewrite props_eqb_refl by exact W. rewrite set_eqb_refl, N.eqb_refl. reflexivity. Qed.

(* ---- keys of a resolved collection are distinct ---- *)
Lemma NoDup_akeys_aset {V} k (v : V) d : NoDup (akeys d) -> NoDup (akeys (aset k v d)).
Proof.
  intro ND. rewrite akeys_aset. destruct (mem k (akeys d)) eqn:M; [exact ND|].
  apply NoDup_snoc; [exact ND|]. intro H. apply mem_In in H. congruence.
Qed.

Lemma group_by_NoDup s : forall acc, NoDup (akeys acc) -> NoDup (akeys (group_by s acc)).
Proof.
  induction s as [|[h e] r IH]; intros acc ND; cbn; [exact ND|].
  apply IH. destruct (aget h acc); apply NoDup_akeys_aset; exact ND.
Qed.

Section Laws.
  Variable rank : str -> str -> Z.
  Variable et : etype.
  Notation resolve := (resolve rank et).
  Notation flush := (flush rank FirstSet et).

  Lemma flush_nil : flush [] = Some [].
  Proof. reflexivity. Qed.
  Lemma flush_cons k evs r :
    flush ((k, evs) :: r) =
    match flush r with
    | None => None
    | Some out => match evs with
                  | [] => Some out
                  | [e] => Some ((k, e) :: out)
                  | _ => match mrg rank FirstSet et evs with Some m => Some ((k, m) :: out) | None => None end
                  end
    end.
  Proof. unfold Stream.flush. cbn [fold_right fst snd]. destruct (fold_right _ _ r); [|reflexivity]. destruct evs as [|? [|? ?]]; reflexivity. Qed.

  Lemma flush_keys buf out : flush buf = Some out -> forall k, In k (akeys out) -> In k (akeys buf).
  Proof.
    revert out. induction buf as [|[k0 evs] r IH]; intros out H k Hk.
    - rewrite flush_nil in H. injection H as <-. exact Hk.
    - rewrite flush_cons in H. cbn [akeys map fst]. destruct (flush r) as [o|] eqn:F; [|discriminate].
      destruct evs as [|e [|e2 es]].
      + injection H as <-. right. apply (IH o eq_refl). exact Hk.
      + injection H as <-. destruct Hk as [<-|Hk]; [left; reflexivity | right; apply (IH o eq_refl); exact Hk].
      + destruct (mrg rank FirstSet et (e :: e2 :: es)); [|discriminate]. injection H as <-.
        destruct Hk as [<-|Hk]; [left; reflexivity | right; apply (IH o eq_refl); exact Hk].
  Qed.

  Lemma flush_NoDup buf out : NoDup (akeys buf) -> flush buf = Some out -> NoDup (akeys out).
  Proof.
    revert out. induction buf as [|[k0 evs] r IH]; intros out ND H.
    - rewrite flush_nil in H. injection H as <-. constructor.
    - rewrite flush_cons in H. cbn [akeys map fst] in ND. inversion ND as [|? ? Hn ND']; subst. destruct (flush r) as [o|] eqn:F; [|discriminate].
      assert (Hn' : ~ In k0 (akeys o)) by (intro Hk; apply Hn; apply (flush_keys r o F); exact Hk).
      destruct evs as [|e [|e2 es]].
      + injection H as <-. apply IH; auto.
      + injection H as <-. cbn. constructor; [exact Hn' | apply IH; auto].
      + destruct (mrg rank FirstSet et (e :: e2 :: es)); [|discriminate]. injection H as <-.
        cbn. constructor; [exact Hn' | apply IH; auto].
  Qed.

  Lemma resolve_NoDup c r : resolve c = Some r -> NoDup (akeys r).
  Proof. unfold Collection.resolve, logical. apply flush_NoDup. apply group_by_NoDup. constructor. Qed.

  (* ---- pointwise characterisation of the verdict ---- *)
  Definition agree_at (ra rb : list (str * mevent)) (h : str) : Prop :=
    match aget h ra, aget h rb with
    | Some e, Some e' => mevent_eqb e e' = true
    | None, None => True
    | _, _ => False
    end.

  Lemma verdict_pointwise ra rb : NoDup (akeys ra) -> NoDup (akeys rb) ->
    (left_in_right ra rb && keys_in rb ra = true <-> forall h, agree_at ra rb h).
  Proof.
    intros Na Nb. unfold left_in_right, keys_in, agree_at. rewrite andb_true_iff, !forallb_forall. split.
    - intros [H1 H2] h. destruct (aget h ra) as [e|] eqn:Ga.
      + apply (aget_In_NoDup ra h e Na) in Ga. specialize (H1 (h, e) Ga). cbn in H1.
        destruct (aget h rb); [exact H1 | discriminate].
      + destruct (aget h rb) as [e'|] eqn:Gb; [|exact I].
        apply (aget_In_NoDup rb h e' Nb) in Gb. specialize (H2 (h, e') Gb). cbn in H2. rewrite Ga in H2. discriminate.
    - intro H. split; intros [h e] Hin; cbn.
      + apply (aget_In_NoDup ra h e Na) in Hin. specialize (H h). rewrite Hin in H. destruct (aget h rb); [exact H | contradiction].
      + apply (aget_In_NoDup rb h e Nb) in Hin. specialize (H h). rewrite Hin in H. destruct (aget h ra); [reflexivity | contradiction].
  Qed.

  Lemma equiv_spec onto_eq a b :
    equiv_fixed rank et onto_eq a b = CTrue <->
    onto_eq = true /\ exists ra rb, resolve a = Some ra /\ resolve b = Some rb /\ forall h, agree_at ra rb h.
  Proof.
    unfold equiv_fixed. destruct onto_eq; cbn [negb]; [|split; [discriminate | intros [H _]; discriminate]].
    destruct (resolve a) as [ra|] eqn:Ra; [|split; [discriminate | intros (_ & x & y & H & _); discriminate]].
    destruct (resolve b) as [rb|] eqn:Rb; [|split; [discriminate | intros (_ & x & y & _ & H & _); discriminate]].
    pose proof (verdict_pointwise ra rb (resolve_NoDup a ra Ra) (resolve_NoDup b rb Rb)) as V.
    destruct (left_in_right ra rb && keys_in rb ra) eqn:E.
    - split; [intros _|reflexivity]. split; [reflexivity|]. exists ra, rb. repeat split. apply V. reflexivity.
    - split; [discriminate|]. intros (_ & x & y & Hx & Hy & H). injection Hx as <-. injection Hy as <-.
      apply V in H. congruence.
  Qed.

  Lemma agree_at_sym ra rb h : agree_at ra rb h -> agree_at rb ra h.
  Proof.
    unfold agree_at. destruct (aget h ra), (aget h rb); auto. rewrite mevent_eqb_sym. auto.
  Qed.

  (* symmetric *)
  Lemma equiv_sym onto_eq a b : equiv_fixed rank et onto_eq a b = equiv_fixed rank et onto_eq b a.
  Proof.
    destruct (equiv_fixed rank et onto_eq a b) eqn:E1, (equiv_fixed rank et onto_eq b a) eqn:E2; try reflexivity; exfalso.
    all: try (apply equiv_spec in E1 as (Ho & ra & rb & Ra & Rb & H);
              assert (equiv_fixed rank et onto_eq b a = CTrue)
                by (apply equiv_spec; split; [exact Ho|]; exists rb, ra; repeat split; auto; intro h; apply agree_at_sym; apply H);
              congruence).
    all: try (apply equiv_spec in E2 as (Ho & ra & rb & Ra & Rb & H);
              assert (equiv_fixed rank et onto_eq a b = CTrue)
                by (apply equiv_spec; split; [exact Ho|]; exists rb, ra; repeat split; auto; intro h; apply agree_at_sym; apply H);
              congruence).
    all: unfold equiv_fixed in E1, E2; destruct onto_eq; cbn [negb] in *; try discriminate;
      destruct (resolve a), (resolve b); try discriminate;
      repeat match goal with H : (if ?c then _ else _) = _ |- _ => destruct c; try discriminate end.
  Qed.

  (* reflexive (whenever the collection has no merge conflict) *)
  Lemma flush_wf buf out : (forall k evs, In (k, evs) buf -> Forall wf evs) -> flush buf = Some out ->
    forall k e, In (k, e) out -> wf e.
  Proof.
    revert out. induction buf as [|[k0 evs] r IH]; intros out W H k e Hin.
    - rewrite flush_nil in H. injection H as <-. contradiction.
    - rewrite flush_cons in H. destruct (flush r) as [o|] eqn:F; [|discriminate].
      assert (Wr : forall k evs, In (k, evs) r -> Forall wf evs) by (intros; eapply W; right; eassumption).
      assert (W0 : Forall wf evs) by (eapply W; left; reflexivity).
      destruct evs as [|e0 [|e2 es]].
      + injection H as <-. eapply IH; eauto.
      + injection H as <-. destruct Hin as [Hin|Hin]; [injection Hin as <- <-; inversion W0; assumption | eapply IH; eauto].
      + unfold mrg, merge in H. destruct (et_version et) as [vp|].
        * destruct (conflict et vp (vsort rank vp (e0 :: e2 :: es))); [discriminate|]. injection H as <-.
          destruct Hin as [Hin|Hin]; [injection Hin as <- <-; apply wf_merged | eapply IH; eauto].
        * injection H as <-. destruct Hin as [Hin|Hin]; [injection Hin as <- <-; apply wf_merged | eapply IH; eauto].
  Qed.

  Lemma aget_In' {V} (d : list (str * V)) k v : aget k d = Some v -> In (k, v) d.
  Proof.
    induction d as [|[k2 v2] r IH]; cbn; [discriminate|]. destruct (str_eqb k k2) eqn:E.
    - intro H. injection H as ->. apply str_eqb_eq in E. subst. left. reflexivity.
    - intro H. right. apply IH. exact H.
  Qed.
  Lemma In_aset {V} (d : list (str * V)) k v k' v' : In (k', v') (aset k v d) -> (k' = k /\ v' = v) \/ In (k', v') d.
  Proof.
    induction d as [|[k2 v2] r IH]; cbn.
    - intros [H|[]]. injection H as <- <-. left. split; reflexivity.
    - destruct (str_eqb k k2) eqn:E.
      + apply str_eqb_eq in E. subst k2. intros [H|H]; [injection H as <- <-; left; split; reflexivity | right; right; exact H].
      + intros [H|H]; [right; left; exact H|]. destruct (IH H) as [L|R]; [left; exact L | right; right; exact R].
  Qed.

  Lemma group_by_wf s : forall acc, Forall (fun it => wf (snd it)) s ->
    (forall k evs, In (k, evs) acc -> Forall wf evs) ->
    forall k evs, In (k, evs) (group_by s acc) -> Forall wf evs.
  Proof.
    induction s as [|[h e] r IH]; intros acc Ws Wa k evs Hin; cbn in Hin; [eapply Wa; exact Hin|].
    inversion Ws as [|? ? We Wr]; subst. cbn in We.
    eapply IH; [exact Wr | | exact Hin].
    intros k' evs' Hin'. destruct (aget h acc) as [l|] eqn:G.
    - apply In_aset in Hin' as [[-> ->]|Hin']; [|eapply Wa; exact Hin'].
      apply Forall_app. split; [eapply Wa; apply aget_In'; exact G | constructor; [exact We | constructor]].
    - apply In_aset in Hin' as [[-> ->]|Hin']; [|eapply Wa; exact Hin'].
      constructor; [exact We | constructor].
  Qed.

  Lemma equiv_refl a ra : Forall (fun it => wf (snd it)) a -> resolve a = Some ra ->
    equiv_fixed rank et true a a = CTrue.
  Proof.
    intros W R. apply equiv_spec. split; [reflexivity|]. exists ra, ra. repeat split; try assumption.
    intro h. unfold agree_at. destruct (aget h ra) as [e|] eqn:G; [|exact I].
    apply mevent_eqb_refl. apply (aget_In_NoDup ra h e (resolve_NoDup a ra R)) in G.
    unfold Collection.resolve, logical in R.
    apply (flush_wf (group_by a []) ra) with (k := h); [|exact R|exact G].
    intros k evs Hin. eapply (group_by_wf a []); [exact W | intros ? ? [] | exact Hin].
  Qed.

  (* never AttributeError *)
  Lemma equiv_never_raises onto_eq a b : equiv_fixed rank et onto_eq a b <> CRaise.
  Proof.
    unfold equiv_fixed. destruct (negb onto_eq); [discriminate|].
    destruct (resolve a), (resolve b); try discriminate. destruct (_ && _); discriminate.
  Qed.
End Laws.

(* ---- a collection is equivalent to its collision-resolved form ---- *)
Section Resolved.
  Variable rank : str -> str -> Z.
  Variable et : etype.

  Lemma group_by_distinct (r : list (str * mevent)) : forall acc,
    NoDup (akeys acc ++ akeys r) ->
    group_by r acc = acc ++ map (fun he => (fst he, [snd he])) r.
  Proof.
    induction r as [|[h e] r IH]; intros acc ND; cbn; [rewrite app_nil_r; reflexivity|].
    assert (G : aget h acc = None).
    { apply aget_none_mem. destruct (mem h (akeys acc)) eqn:M; [|reflexivity]. exfalso. apply mem_In in M.
      apply NoDup_remove_2 in ND. apply ND. apply in_app_iff. left. exact M. }
    rewrite G. assert (aset h [e] acc = acc ++ [(h, [e])]) as ->.
    { clear -G. induction acc as [|[k v] r2 IH2]; cbn; [reflexivity|]. cbn in G. destruct (str_eqb h k); [discriminate|]. rewrite IH2; auto. }
    rewrite IH.
    - rewrite <- app_assoc. reflexivity.
    - unfold akeys in *. rewrite map_app, <- app_assoc. cbn in *. exact ND.
  Qed.

  Lemma flush_singletons (r : list (str * mevent)) :
    flush rank FirstSet et (map (fun he => (fst he, [snd he])) r) = Some r.
  Proof. induction r as [|[h e] r IH]; [reflexivity|]. cbn [map fst snd]. rewrite (flush_cons rank et), IH. reflexivity. Qed.

  Lemma resolve_idempotent c r : resolve rank et c = Some r -> resolve rank et r = Some r.
  Proof.
    intro R. unfold Collection.resolve, logical. rewrite group_by_distinct.
    - apply flush_singletons.
    - cbn. apply (resolve_NoDup rank et c r R).
  Qed.

  Lemma equiv_resolved c r : resolve rank et c = Some r -> (forall k e, In (k, e) r -> wf e) ->
    equiv_fixed rank et true c r = CTrue.
  Proof.
    intros R W. apply equiv_spec. split; [reflexivity|]. exists r, r. split; [exact R|]. split; [apply (resolve_idempotent c r R)|].
    intro h. unfold agree_at. destruct (aget h r) as [e|] eqn:G; [|exact I].
    apply mevent_eqb_refl. apply (W h e). apply (aget_In_NoDup r h e (resolve_NoDup rank et c r R)). exact G.
  Qed.
End Resolved.

(* ---- the pinned code violates the statement ---- *)
Definition wc_et := {| et_strat := [([112]%N, SMatch); ([97]%N, SAdd)]; et_version := None |}.
Definition wc_e1 := {| me_props := [([112]%N, [[120]%N]); ([97]%N, [[49]%N])]; me_parents := []; me_tag := 1 |}.
Definition wc_e2 := {| me_props := [([112]%N, [[120]%N]); ([97]%N, [[50]%N])]; me_parents := []; me_tag := 1 |}.
Definition wc_m  := {| me_props := [([112]%N, [[120]%N]); ([97]%N, [[49]%N; [50]%N])]; me_parents := []; me_tag := 1 |}.
Definition wc_f  := {| me_props := [([112]%N, [[121]%N])]; me_parents := []; me_tag := 2 |}.
Definition wc_h : str := [104]%N.
Definition wc_hf : str := [102]%N.

Lemma pinned_raises_on_reflexive_collision :
  equiv_pinned true [(wc_h, wc_e1); (wc_h, wc_e2)] [(wc_h, wc_e1); (wc_h, wc_e2)] = CRaise.
Proof. vm_compute. reflexivity. Qed.
Lemma pinned_rejects_resolved_form :
  equiv_pinned true [(wc_h, wc_e1); (wc_h, wc_e2)] [(wc_h, wc_m)] = CFalse /\
  equiv_fixed (fun _ _ => 0%Z) wc_et true [(wc_h, wc_e1); (wc_h, wc_e2)] [(wc_h, wc_m)] = CTrue.
Proof. vm_compute. split; reflexivity. Qed.
(* the one-sided loop: with the raise repaired but the loop unchanged the verdict would be asymmetric;
   in the fixed model the extra logical event is noticed from both sides *)
Lemma fixed_notices_extra_event_both_ways :
  equiv_fixed (fun _ _ => 0%Z) wc_et true [(wc_h, wc_e1); (wc_h, wc_e2)] [(wc_h, wc_m); (wc_hf, wc_f)] = CFalse /\
  equiv_fixed (fun _ _ => 0%Z) wc_et true [(wc_h, wc_m); (wc_hf, wc_f)] [(wc_h, wc_e1); (wc_h, wc_e2)] = CFalse.
Proof. vm_compute. split; reflexivity. Qed.
