(* C18 — the verdict of EventCollection.is_equivalent_of does not depend on the order of the events
   of either collection (model of edxml/event_collection.py, Event/Collection.v). *)
From EdxmlVerif Require Import Base.Prelude Event.Merge Event.Merge_proofs Event.Merge_order_proofs
  Event.Stream Event.Collection Event.Collection_proofs.
From Coq Require Import Permutation.

(* ---------- comparison of merged events is an equivalence ---------- *)
Lemma set_eqb_trans a b c : set_eqb a b = true -> set_eqb b c = true -> set_eqb a c = true.
Proof. rewrite !set_eqb_spec. unfold seteq. intros H1 H2 x. rewrite H1. apply H2. Qed.

Lemma set_eqb_nil_l v : set_eqb v [] = true -> v = [].
Proof.
  rewrite set_eqb_spec. intro H. destruct v as [|x r]; [reflexivity|]. exfalso. apply (H x). left. reflexivity.
Qed.

Definition props_half (a b : list (str * list str)) : bool :=
  forallb (fun kv => set_eqb (snd kv) (odefault [] (aget (fst kv) b))) a.

Lemma aget_In_any {V} (d : list (str * V)) k v : aget k d = Some v -> In (k, v) d.
Proof.
  induction d as [|[k2 v2] r IH]; cbn; [discriminate|]. destruct (str_eqb k k2) eqn:E.
  - intro H. injection H as ->. apply str_eqb_eq in E. subst. left. reflexivity.
  - intro H. right. apply IH. exact H.
Qed.

Lemma props_half_trans a b c :
  props_half a b = true -> props_half b c = true -> props_half c b = true -> props_half a c = true.
Proof.
  unfold props_half. rewrite !forallb_forall. intros Hab Hbc Hcb [k v] Hin. cbn [fst snd].
  specialize (Hab (k, v) Hin). cbn [fst snd] in Hab.
  destruct (aget k b) as [v'|] eqn:Gb; cbn [odefault] in Hab.
  - apply aget_In_any in Gb. specialize (Hbc (k, v') Gb). cbn [fst snd] in Hbc.
    eapply set_eqb_trans; eassumption.
  - apply set_eqb_nil_l in Hab. subst v.
    destruct (aget k c) as [w|] eqn:Gc; cbn [odefault]; [|reflexivity].
    apply aget_In_any in Gc. specialize (Hcb (k, w) Gc). cbn [fst snd] in Hcb.
    assert (aget k b = None) as Gb' by (apply aget_none_mem; apply aget_none_mem; assumption).
    rewrite Gb' in Hcb. cbn [odefault] in Hcb. apply set_eqb_nil_l in Hcb. subst w. reflexivity.
Qed.

Lemma props_eqb_trans a b c : props_eqb a b = true -> props_eqb b c = true -> props_eqb a c = true.
Proof.
  unfold props_eqb. fold (props_half a b) (props_half b a) (props_half b c) (props_half c b) (props_half a c) (props_half c a).
  rewrite !andb_true_iff. intros [H1 H2] [H3 H4]. split.
  - eapply props_half_trans; eassumption.
  - eapply props_half_trans; eassumption.
Qed.

Lemma mevent_eqb_trans a b c : mevent_eqb a b = true -> mevent_eqb b c = true -> mevent_eqb a c = true.
Proof.
  unfold mevent_eqb. rewrite !andb_true_iff, !N.eqb_eq. intros [[P1 S1] T1] [[P2 S2] T2].
  split; [split|].
  - eapply props_eqb_trans; eassumption.
  - eapply set_eqb_trans; eassumption.
  - congruence.
Qed.

(* ---------- the group of one hash ---------- *)
Definition sel (h : str) (s : list item) : list mevent :=
  map snd (filter (fun it => str_eqb h (fst it)) s).

Lemma group_by_get h s : forall acc,
  aget h (group_by s acc) =
  match aget h acc with
  | Some o => Some (o ++ sel h s)
  | None => match sel h s with [] => None | l => Some l end
  end.
Proof.
  induction s as [|[k e] r IH]; intro acc.
  - cbn. destruct (aget h acc); [rewrite app_nil_r|]; reflexivity.
  - cbn [group_by]. rewrite IH. unfold sel. cbn [filter fst]. destruct (str_eqb h k) eqn:E.
    + apply str_eqb_eq in E. subst k. cbn [map snd].
      destruct (aget h acc) as [o|] eqn:G.
      * rewrite aget_aset_same. rewrite <- app_assoc. reflexivity.
      * rewrite aget_aset_same. reflexivity.
    + apply str_eqb_neq in E.
      assert (forall v, aget h (aset k v acc) = aget h acc) as A by (intro v; apply aget_aset_other; congruence).
      destruct (aget k acc); rewrite A; reflexivity.
Qed.

Lemma group_get h s : aget h (group_by s []) = match sel h s with [] => None | l => Some l end.
Proof. rewrite group_by_get. reflexivity. Qed.

Lemma Permutation_filter {A} (f : A -> bool) l l' : Permutation l l' -> Permutation (filter f l) (filter f l').
Proof.
  induction 1 as [|x l l' P IH|x y l|l l' l'' P1 IH1 P2 IH2]; cbn.
  - constructor.
  - destruct (f x); [constructor|]; exact IH.
  - destruct (f x), (f y); try reflexivity. apply perm_swap.
  - etransitivity; eassumption.
Qed.

Lemma sel_perm h s s' : Permutation s s' -> Permutation (sel h s) (sel h s').
Proof. intro P. unfold sel. apply Permutation_map. apply Permutation_filter. exact P. Qed.

Lemma sel_In h s e : In e (sel h s) -> In (h, e) s.
Proof.
  unfold sel. rewrite in_map_iff. intros ([k e'] & <- & Hf). apply filter_In in Hf as [Hin E].
  cbn in E. apply str_eqb_eq in E. subst k. exact Hin.
Qed.

Section Perm.
  Variable rank : str -> str -> Z.
  Variable et : etype.
  Notation resolve := (resolve rank et).
  Notation flush := (flush rank FirstSet et).
  Notation mrg := (mrg rank FirstSet et).

  (* what flush makes of one group: nothing, the single instance, or the merge of the instances *)
  Definition group_val (g : list mevent) : option (option mevent) :=
    match g with [] => None | [e] => Some (Some e) | _ => Some (mrg g) end.

  Lemma flush_cons' k g r :
    flush ((k, g) :: r) =
    match flush r with
    | None => None
    | Some out => match group_val g with
                  | None => Some out
                  | Some (Some m) => Some ((k, m) :: out)
                  | Some None => None
                  end
    end.
  Proof.
    rewrite (flush_cons rank et). destruct (flush r); [|reflexivity].
    destruct g as [|e [|e2 es]]; try reflexivity; cbn [group_val]; destruct (mrg (e :: e2 :: es)); reflexivity.
  Qed.

  Lemma flush_none buf : flush buf = None <-> exists k g, In (k, g) buf /\ group_val g = Some None.
  Proof.
    induction buf as [|[k g] r IH].
    - rewrite (flush_nil rank et). split; [discriminate | intros (? & ? & [] & _)].
    - rewrite flush_cons'. split.
      + intro H. destruct (flush r) eqn:F.
        * destruct (group_val g) as [[m|]|] eqn:G; try discriminate. exists k, g. split; [left; reflexivity | exact G].
        * destruct (proj1 IH eq_refl) as (k' & g' & Hin & Hv). exists k', g'. split; [right; exact Hin | exact Hv].
      + intros (k' & g' & Hin & Hv). destruct Hin as [Hin|Hin].
        * injection Hin as -> ->. rewrite Hv. destruct (flush r); reflexivity.
        * rewrite (proj2 IH (ex_intro _ k' (ex_intro _ g' (conj Hin Hv)))). reflexivity.
  Qed.

  Lemma flush_get buf out h : NoDup (akeys buf) -> flush buf = Some out ->
    aget h out = match aget h buf with
                 | None => None
                 | Some g => match group_val g with Some (Some m) => Some m | _ => None end
                 end.
  Proof.
    revert out. induction buf as [|[k g] r IH]; intros out ND H.
    - rewrite (flush_nil rank et) in H. injection H as <-. reflexivity.
    - rewrite flush_cons' in H. cbn [akeys map fst] in ND. inversion ND as [|? ? Hn ND']; subst.
      destruct (flush r) as [o|] eqn:F; [|discriminate].
      assert (Hn' : aget k o = None).
      { apply aget_none_mem. destruct (mem k (akeys o)) eqn:M; [|reflexivity]. exfalso. apply Hn.
        apply (flush_keys rank et r o F). apply mem_In. exact M. }
      cbn [aget]. destruct (str_eqb h k) eqn:E.
      + apply str_eqb_eq in E. subst k. destruct (group_val g) as [[m|]|]; try discriminate.
        * injection H as <-. cbn [aget]. rewrite (proj2 (str_eqb_eq h h) eq_refl). reflexivity.
        * injection H as <-. exact Hn'.
      + destruct (group_val g) as [[m|]|]; try discriminate.
        * injection H as <-. cbn [aget]. rewrite E. apply IH; [exact ND' | reflexivity].
        * injection H as <-. apply IH; [exact ND' | reflexivity].
  Qed.

  Lemma group_NoDup s : NoDup (akeys (group_by s [])).
  Proof. apply group_by_NoDup. constructor. Qed.

  (* resolve, pointwise *)
  Lemma resolve_get c r h : resolve c = Some r ->
    aget h r = match group_val (sel h c) with Some (Some m) => Some m | _ => None end.
  Proof.
    unfold Collection.resolve, logical. intro H. rewrite (flush_get _ _ h (group_NoDup c) H), group_get.
    destruct (sel h c); reflexivity.
  Qed.

  Lemma resolve_none c : resolve c = None <-> exists h, group_val (sel h c) = Some None.
  Proof.
    unfold Collection.resolve, logical. rewrite flush_none. split.
    - intros (k & g & Hin & Hv). exists k.
      apply (aget_In_NoDup _ k g (group_NoDup c)) in Hin. rewrite group_get in Hin.
      destruct (sel k c) eqn:S; [discriminate|]. injection Hin as <-. exact Hv.
    - intros (h & Hv). exists h, (sel h c). split; [|exact Hv].
      apply (aget_In_NoDup _ h _ (group_NoDup c)). rewrite group_get.
      destruct (sel h c); [discriminate | reflexivity].
  Qed.

  (* merging the instances of one logical event does not depend on their order *)
  Definition order_free (c : list item) : Prop :=
    forall h g', Permutation (sel h c) g' -> result_eqb (mrg (sel h c)) (mrg g') = true.

  Lemma group_val_perm g g' :
    Forall wf g -> Permutation g g' -> result_eqb (mrg g) (mrg g') = true ->
    match group_val g, group_val g' with
    | None, None => True
    | Some None, Some None => True
    | Some (Some m), Some (Some m') => mevent_eqb m m' = true
    | _, _ => False
    end.
  Proof.
    intros W P R. destruct g as [|e [|e2 es]].
    - apply Permutation_nil in P. subst. exact I.
    - apply Permutation_length_1_inv in P. subst. cbn. apply mevent_eqb_refl. inversion W; assumption.
    - pose proof (Permutation_length P) as L. destruct g' as [|e' [|e2' es']]; try discriminate.
      cbn [group_val]. unfold result_eqb in R.
      destruct (mrg (e :: e2 :: es)), (mrg (e' :: e2' :: es')); try discriminate; [exact R | exact I].
  Qed.

  Lemma sel_wf h c : Forall (fun it => wf (snd it)) c -> Forall wf (sel h c).
  Proof.
    intro W. apply Forall_forall. intros e He. apply sel_In in He.
    rewrite Forall_forall in W. apply (W (h, e) He).
  Qed.

  Lemma resolve_perm_none a a' : Forall (fun it => wf (snd it)) a -> Permutation a a' -> order_free a ->
    (resolve a = None <-> resolve a' = None).
  Proof.
    intros W P OF. rewrite !resolve_none. split; intros (h & Hv); exists h.
    - pose proof (group_val_perm _ _ (sel_wf h a W) (sel_perm h a a' P) (OF h _ (sel_perm h a a' P))) as G.
      rewrite Hv in G. destruct (group_val (sel h a')) as [[m|]|]; try contradiction. reflexivity.
    - pose proof (group_val_perm _ _ (sel_wf h a W) (sel_perm h a a' P) (OF h _ (sel_perm h a a' P))) as G.
      rewrite Hv in G. destruct (group_val (sel h a)) as [[m|]|]; try contradiction. reflexivity.
  Qed.

  Lemma resolve_perm_agree a a' ra ra' : Forall (fun it => wf (snd it)) a -> Permutation a a' -> order_free a ->
    resolve a = Some ra -> resolve a' = Some ra' -> forall h, agree_at ra ra' h.
  Proof.
    intros W P OF R R' h. unfold agree_at. rewrite (resolve_get a ra h R), (resolve_get a' ra' h R').
    pose proof (group_val_perm _ _ (sel_wf h a W) (sel_perm h a a' P) (OF h _ (sel_perm h a a' P))) as G.
    destruct (group_val (sel h a)) as [[m|]|], (group_val (sel h a')) as [[m'|]|]; try contradiction; auto.
  Qed.

  Lemma agree_at_trans ra rb rc h : agree_at ra rb h -> agree_at rb rc h -> agree_at ra rc h.
  Proof.
    unfold agree_at. destruct (aget h ra), (aget h rb), (aget h rc); try contradiction; auto.
    apply mevent_eqb_trans.
  Qed.

  Lemma verdict_congr ra ra' rb : NoDup (akeys ra) -> NoDup (akeys ra') -> NoDup (akeys rb) ->
    (forall h, agree_at ra ra' h) ->
    left_in_right ra rb && keys_in rb ra = left_in_right ra' rb && keys_in rb ra'.
  Proof.
    intros Na Na' Nb A.
    pose proof (verdict_pointwise ra rb Na Nb) as V. pose proof (verdict_pointwise ra' rb Na' Nb) as V'.
    destruct (left_in_right ra rb && keys_in rb ra) eqn:E, (left_in_right ra' rb && keys_in rb ra') eqn:E'; try reflexivity; exfalso.
    - assert (forall h, agree_at ra' rb h) as X
        by (intro h; eapply agree_at_trans; [apply agree_at_sym; apply A | apply V; reflexivity]).
      apply V' in X. discriminate.
    - assert (forall h, agree_at ra rb h) as X
        by (intro h; eapply agree_at_trans; [apply A | apply V'; reflexivity]).
      apply V in X. discriminate.
  Qed.

  (* reordering the events of the left collection does not change the verdict *)
  Theorem equiv_perm_left onto_eq a a' b :
    Forall (fun it => wf (snd it)) a -> Permutation a a' -> order_free a ->
    equiv_fixed rank et onto_eq a' b = equiv_fixed rank et onto_eq a b.
  Proof.
    intros W P OF. unfold equiv_fixed. destruct (negb onto_eq); [reflexivity|].
    pose proof (resolve_perm_none a a' W P OF) as N.
    destruct (resolve a) as [ra|] eqn:Ra, (resolve a') as [ra'|] eqn:Ra'.
    - destruct (resolve b) as [rb|] eqn:Rb; [|reflexivity].
      rewrite (verdict_congr ra ra' rb (resolve_NoDup rank et a ra Ra) (resolve_NoDup rank et a' ra' Ra') (resolve_NoDup rank et b rb Rb)
                 (resolve_perm_agree a a' ra ra' W P OF Ra Ra')). reflexivity.
    - destruct N as [_ N]. specialize (N eq_refl). discriminate.
    - destruct N as [N _]. specialize (N eq_refl). discriminate.
    - reflexivity.
  Qed.

  (* ... nor of the right one, nor of both *)
  Theorem equiv_perm onto_eq a a' b b' :
    Forall (fun it => wf (snd it)) a -> Forall (fun it => wf (snd it)) b ->
    Permutation a a' -> Permutation b b' -> order_free a -> order_free b ->
    equiv_fixed rank et onto_eq a' b' = equiv_fixed rank et onto_eq a b.
  Proof.
    intros Wa Wb Pa Pb Oa Ob.
    rewrite (equiv_perm_left onto_eq a a' b' Wa Pa Oa).
    rewrite (equiv_sym rank et onto_eq a b'), (equiv_perm_left onto_eq b b' a Wb Pb Ob).
    apply (equiv_sym rank et).
  Qed.

  (* ---------- when is merging order free? ---------- *)
  Notation select := (select rank FirstSet et).
  Notation merge_core := (merge_core rank FirstSet et).

  Definition agree_on (g : list mevent) (p : str) : Prop :=
    forall e e0, In e g -> In e0 g -> seteq (get e p) (get e0 p).

  (* per property: add is a union; min / max need an ordering that separates the objects present;
     every other strategy returns the objects of ONE instance, so the instances have to agree *)
  Definition prop_order_free (g : list mevent) (p : str) : Prop :=
    match strat_of et p with
    | SAdd => True
    | SMin | SMax => rank_injective_on rank p (allvals g p)
    | _ => agree_on g p
    end.

  Lemma first_nonempty_agree (g : list mevent) p S : g <> [] ->
    (forall e, In e g -> seteq (get e p) S) -> seteq (first_nonempty (map (fun e => get e p) g)) S.
  Proof.
    intros Hne Hall.
    destruct (first_nonempty_spec (map (fun e => get e p) g)) as [[E F]|[N (pre & post & E & F)]].
    - rewrite E. destruct g as [|e0 r]; [contradiction|].
      inversion F as [|? ? H0 _]; subst. specialize (Hall e0 (or_introl eq_refl)). cbn in H0. rewrite H0 in Hall. exact Hall.
    - assert (In (first_nonempty (map (fun e => get e p) g)) (map (fun e => get e p) g)) as Hin
        by (rewrite E at 2; apply in_app_iff; right; left; reflexivity).
      apply in_map_iff in Hin as (e & He1 & He2). rewrite <- He1. apply Hall. exact He2.
  Qed.

  Lemma select_agree g p e0 : In e0 g -> agree_on g p ->
    match strat_of et p with SAdd | SMin | SMax => False | _ => True end ->
    seteq (select g p) (get e0 p).
  Proof.
    intros H0 A Hs. assert (Hne : g <> []) by (intro; subst; contradiction).
    assert (Hall : forall e, In e g -> seteq (get e p) (get e0 p)) by (intros e He; apply A; assumption).
    unfold Merge.select. destruct (strat_of et p); try contradiction.
    - apply first_nonempty_agree; assumption.
    - apply first_nonempty_agree; assumption.
    - apply first_nonempty_agree; assumption.
    - assert (forall d, In (last g d) g) as HL.
      { intro d. destruct (exists_last Hne) as (l & y & E). rewrite E. rewrite last_last. apply in_app_iff. right. left. reflexivity. }
      destruct g; [contradiction|]. apply Hall. apply HL.
  Qed.

  Lemma select_perm g g' p : Permutation g g' -> prop_order_free g p -> seteq (select g p) (select g' p).
  Proof.
    intros P OF. unfold prop_order_free in OF.
    destruct g as [|e0 r] eqn:Eg.
    { apply Permutation_nil in P. subst. intro x. reflexivity. }
    rewrite <- Eg in *. assert (H0 : In e0 g) by (rewrite Eg; left; reflexivity).
    assert (H0' : In e0 g') by (eapply Permutation_in; eassumption).
    destruct (strat_of et p) eqn:Hs.
    - assert (T : match strat_of et p with SAdd | SMin | SMax => False | _ => True end) by (rewrite Hs; exact I).
      assert (OF' : agree_on g' p)
        by (intros e e1 He He1; apply OF; eapply Permutation_in; try eassumption; apply Permutation_sym; exact P).
      intro x. pose proof (select_agree g p e0 H0 OF T x) as A1. pose proof (select_agree g' p e0 H0' OF' T x) as A2. tauto.
    - assert (T : match strat_of et p with SAdd | SMin | SMax => False | _ => True end) by (rewrite Hs; exact I).
      assert (OF' : agree_on g' p)
        by (intros e e1 He He1; apply OF; eapply Permutation_in; try eassumption; apply Permutation_sym; exact P).
      intro x. pose proof (select_agree g p e0 H0 OF T x) as A1. pose proof (select_agree g' p e0 H0' OF' T x) as A2. tauto.
    - apply (select_perm_add rank et); assumption.
    - assert (T : match strat_of et p with SAdd | SMin | SMax => False | _ => True end) by (rewrite Hs; exact I).
      assert (OF' : agree_on g' p)
        by (intros e e1 He He1; apply OF; eapply Permutation_in; try eassumption; apply Permutation_sym; exact P).
      intro x. pose proof (select_agree g p e0 H0 OF T x) as A1. pose proof (select_agree g' p e0 H0' OF' T x) as A2. tauto.
    - assert (T : match strat_of et p with SAdd | SMin | SMax => False | _ => True end) by (rewrite Hs; exact I).
      assert (OF' : agree_on g' p)
        by (intros e e1 He He1; apply OF; eapply Permutation_in; try eassumption; apply Permutation_sym; exact P).
      intro x. pose proof (select_agree g p e0 H0 OF T x) as A1. pose proof (select_agree g' p e0 H0' OF' T x) as A2. tauto.
    - rewrite (select_perm_min rank et g g' p P Hs OF). intro x. reflexivity.
    - rewrite (select_perm_max rank et g g' p P Hs OF). intro x. reflexivity.
  Qed.

  Lemma props_eqb_of_get x y : wf x -> wf y -> (forall p, seteq (get x p) (get y p)) ->
    props_eqb (me_props x) (me_props y) = true.
  Proof.
    intros Wx Wy H. unfold props_eqb. rewrite andb_true_iff, !forallb_forall. split; intros [k v] Hin; cbn [fst snd].
    - apply (aget_In_NoDup _ k v Wx) in Hin. apply set_eqb_spec. specialize (H k). unfold get in H. rewrite Hin in H. exact H.
    - apply (aget_In_NoDup _ k v Wy) in Hin. apply set_eqb_spec. specialize (H k). unfold get in H. rewrite Hin in H.
      intro z. symmetry. apply H.
  Qed.

  Lemma merge_core_perm g g' : Forall wf g -> Permutation g g' ->
    (forall e1 e2, In e1 g -> In e2 g -> me_tag e1 = me_tag e2) ->
    (forall p, prop_order_free g p) ->
    mevent_eqb (merge_core g) (merge_core g') = true.
  Proof.
    intros W P T OF. assert (W' : Forall wf g') by (eapply Permutation_Forall; eassumption).
    unfold mevent_eqb. rewrite !andb_true_iff. split; [split|].
    - apply props_eqb_of_get; try apply wf_merged. intro p.
      rewrite (get_block rank et g p W), (get_block rank et g' p W'). apply select_perm; [exact P | apply OF].
    - apply set_eqb_spec. intro h. rewrite !(merge_parents rank et).
      split; intros (e & He & Hh); exists e; (split; [|exact Hh]); eapply Permutation_in; try eassumption.
      apply Permutation_sym; exact P.
    - apply N.eqb_eq. cbn [me_tag Merge.merge_core]. destruct g as [|e r], g' as [|e' r']; try reflexivity.
      + apply Permutation_nil in P. discriminate.
      + apply Permutation_sym, Permutation_nil in P. discriminate.
      + apply T; [left; reflexivity|]. eapply Permutation_in; [apply Permutation_sym; exact P | left; reflexivity].
  Qed.

  (* a sufficient condition, stated on the collection: no event-version property, the instances of a
     logical event carry the same unmerged content, and every property is order free in its group *)
  Definition groups_order_free (c : list item) : Prop :=
    forall h, (forall e1 e2, In e1 (sel h c) -> In e2 (sel h c) -> me_tag e1 = me_tag e2) /\
              (forall p, prop_order_free (sel h c) p).

  Lemma order_free_sufficient c : et_version et = None -> Forall (fun it => wf (snd it)) c ->
    groups_order_free c -> order_free c.
  Proof.
    intros V W G h g' P. destruct (G h) as [T OF]. unfold Stream.mrg, merge. rewrite V. cbn [result_eqb].
    apply merge_core_perm; try assumption. apply sel_wf. exact W.
  Qed.

  Theorem equiv_perm_sufficient onto_eq a a' b b' :
    et_version et = None ->
    Forall (fun it => wf (snd it)) a -> Forall (fun it => wf (snd it)) b ->
    Permutation a a' -> Permutation b b' -> groups_order_free a -> groups_order_free b ->
    equiv_fixed rank et onto_eq a' b' = equiv_fixed rank et onto_eq a b.
  Proof.
    intros V Wa Wb Pa Pb Ga Gb. apply equiv_perm; try assumption; apply order_free_sufficient; assumption.
  Qed.
End Perm.

(* the hypotheses are satisfiable by a collection with a collision group, and needed: with strategy `min`
   and an ordering that does not separate two spellings the verdict depends on the order *)
Definition pm_et := {| et_strat := [([112]%N, SMatch); ([97]%N, SAdd)]; et_version := None |}.
Definition pm_e1 := {| me_props := [([112]%N, [[120]%N]); ([97]%N, [[49]%N])]; me_parents := [[7]%N]; me_tag := 1 |}.
Definition pm_e2 := {| me_props := [([112]%N, [[120]%N]); ([97]%N, [[50]%N])]; me_parents := []; me_tag := 1 |}.
Definition pm_f  := {| me_props := [([112]%N, [[121]%N])]; me_parents := []; me_tag := 2 |}.
Definition pm_c : list item := [([104]%N, pm_e1); ([102]%N, pm_f); ([104]%N, pm_e2)].

Lemma pm_nonvacuous :
  et_version pm_et = None /\ Forall (fun it => wf (snd it)) pm_c /\ groups_order_free (fun _ _ => 0%Z) pm_et pm_c /\
  equiv_fixed (fun _ _ => 0%Z) pm_et true (rev pm_c) pm_c = CTrue.
Proof.
  split; [reflexivity|]. split.
  { repeat constructor; cbn; intuition congruence. }
  split; [|vm_compute; reflexivity].
  intro h. unfold sel, pm_c. cbn [filter fst].
  destruct (str_eqb h [104]%N) eqn:E1, (str_eqb h [102]%N) eqn:E2; cbn [map snd].
  - apply str_eqb_eq in E1, E2. congruence.
  - split.
    + intros e1 e2 [<-|[<-|[]]] [<-|[<-|[]]]; reflexivity.
    + intro p. unfold prop_order_free, strat_of, pm_et. cbn [et_strat aget].
      destruct (str_eqb p [112]%N) eqn:P1; cbn [odefault].
      * apply str_eqb_eq in P1. subst p. intros e e0 [<-|[<-|[]]] [<-|[<-|[]]] x; reflexivity.
      * destruct (str_eqb p [97]%N) eqn:P2; cbn [odefault]; [exact I|].
        intros e e0 [<-|[<-|[]]] [<-|[<-|[]]] x; unfold get, pm_e1, pm_e2; cbn [me_props aget]; rewrite ?P1, ?P2; reflexivity.
  - split.
    + intros e1 e2 [<-|[]] [<-|[]]; reflexivity.
    + intro p. unfold prop_order_free. destruct (strat_of pm_et p) eqn:S; try exact I;
        try (intros e e0 [<-|[]] [<-|[]] x; reflexivity).
      * intros x y Hx Hy _. unfold allvals, pm_f, get in Hx, Hy. cbn [flat_map me_props aget] in Hx, Hy.
        unfold strat_of, pm_et in S. cbn [et_strat aget] in S.
        destruct (str_eqb p [112]%N) eqn:P1; [discriminate|]. destruct (str_eqb p [97]%N); discriminate.
      * unfold strat_of, pm_et in S. cbn [et_strat aget] in S.
        destruct (str_eqb p [112]%N) eqn:P1; [discriminate|]. destruct (str_eqb p [97]%N); discriminate.
  - split.
    + intros e1 e2 [].
    + intro p. unfold prop_order_free. destruct (strat_of pm_et p); try exact I; try (intros e e0 []); intros x y [].
Qed.

Definition pn_et := {| et_strat := [([109]%N, SMin)]; et_version := None |}.
Definition pn_e1 := {| me_props := [([109]%N, [[49]%N])]; me_parents := []; me_tag := 1 |}.
Definition pn_e2 := {| me_props := [([109]%N, [[48; 49]%N])]; me_parents := []; me_tag := 1 |}.
Lemma perm_without_premise_refuted :
  exists a a' b, Permutation a a' /\
    equiv_fixed (fun _ _ => 0%Z) pn_et true a' b <> equiv_fixed (fun _ _ => 0%Z) pn_et true a b.
Proof.
  exists [([104]%N, pn_e1); ([104]%N, pn_e2)], [([104]%N, pn_e2); ([104]%N, pn_e1)], [([104]%N, pn_e1)].
  split; [apply perm_swap|]. vm_compute. discriminate.
Qed.
