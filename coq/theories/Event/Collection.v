(* C18 — model of EventCollection.is_equivalent_of / create_dict_by_hash / resolve_collisions
   (edxml/event_collection.py). A collection is a list of (sticky hash, event). *)
From EdxmlVerif Require Import Base.Prelude Event.Merge Event.Stream.

Inductive cvariant :=
| Pinned      (* length test, per-hash sub-collections without ontology, only the left side iterated *)
| Fixed.      (* compare the collision-resolved forms hash by hash, both directions *)

Inductive cres := CTrue | CFalse | CRaise | CConflict.

Section Collection.
  Variable rank : str -> str -> Z.
  Variable et : etype.

  Definition resolve (c : list item) : option (list (str * mevent)) := logical rank FirstSet et c.

  Definition left_in_right (ra rb : list (str * mevent)) : bool :=
    forallb (fun he => match aget (fst he) rb with Some e' => mevent_eqb (snd he) e' | None => false end) ra.
  Definition keys_in (rb ra : list (str * mevent)) : bool :=
    forallb (fun he => match aget (fst he) ra with Some _ => true | None => false end) rb.

  Definition equiv_fixed (onto_eq : bool) (a b : list item) : cres :=
    if negb onto_eq then CFalse else
    match resolve a, resolve b with
    | Some ra, Some rb => if left_in_right ra rb && keys_in rb ra then CTrue else CFalse
    | _, _ => CConflict
    end.

  (* the pinned code: iterate the left dictionary; a group of more than one event on either
     side calls resolve_collisions() on a sub-collection that has an EMPTY ontology, which raises *)
  Fixpoint pinned_loop (da db : list (str * list mevent)) : cres :=
    match da with
    | [] => CTrue
    | (h, evs) :: r =>
        match aget h db with
        | None => CFalse
        | Some other =>
            if Nat.ltb 1 (length evs) || Nat.ltb 1 (length other) then CRaise
            else match evs, other with
                 | [e], [e'] => if mevent_eqb e e' then pinned_loop r db else CFalse
                 | _, _ => CRaise
                 end
        end
    end.
  Definition equiv_pinned (onto_eq : bool) (a b : list item) : cres :=
    if negb (Nat.eqb (length a) (length b)) then CFalse
    else if negb onto_eq then CFalse
    else pinned_loop (group_by a []) (group_by b []).

  Definition equiv (v : cvariant) := match v with Pinned => equiv_pinned | Fixed => equiv_fixed end.
End Collection.

Definition cres_code (r : cres) : N := match r with CTrue => 1 | CFalse => 0 | CRaise => 2 | CConflict => 3 end.
