(* C04 / C05 — model of EventType.merge_events and _check_merge_conflict
   (edxml/ontology/event_type.py). Definitions only. *)
From EdxmlVerif Require Import Base.Prelude.

Inductive strategy := SMatch | SAny | SAdd | SSet | SReplace | SMin | SMax.

(* event content relevant to merging; `me_tag` stands for everything that is copied
   from the first event unchanged (type, source, attachments, foreign attributes) *)
Record mevent := {
  me_props : list (str * list str);   (* dict of object sets (lists up to order/duplicates) *)
  me_parents : list str;
  me_tag : N
}.

Record etype := {
  et_strat : list (str * strategy);   (* declared properties and their merge strategy *)
  et_version : option str             (* name of the event-version property *)
}.

(* the two behaviours of strategies match/any: pinned code takes values[0] (one object),
   repaired code takes the object set of the first instance that has one *)
Inductive mvariant := FirstValue | FirstSet.

Definition get (e : mevent) (p : str) : list str := odefault [] (aget p (me_props e)).
Definition strat_of (et : etype) (p : str) : strategy := odefault SAny (aget p (et_strat et)).

Definition subset (a b : list str) : bool := forallb (fun x => mem x b) a.
Definition set_eqb (a b : list str) : bool := subset a b && subset b a.

Definition nonempty {A} (l : list A) : bool := match l with [] => false | _ => true end.

Fixpoint first_nonempty (ls : list (list str)) : list str :=
  match ls with
  | [] => []
  | l :: r => if nonempty l then l else first_nonempty r
  end.

Section Merge.
  (* rank p v: position of value v in the ordering of p's data type (int for integers and
     sequences, exact decimal, binary64 value, lexicographic for datetime).  Tabulated by
     the harness from an independent implementation of each ordering. *)
  Variable rank : str -> str -> Z.

  (* Python min(values, key=...): the FIRST minimal element *)
  Fixpoint argmin (p : str) (l : list str) : option str :=
    match l with
    | [] => None
    | x :: r => match argmin p r with
                | None => Some x
                | Some y => if (rank p x <=? rank p y)%Z then Some x else Some y
                end
    end.
  (* Python max(values, key=...): the FIRST maximal element *)
  Fixpoint argmax (p : str) (l : list str) : option str :=
    match l with
    | [] => None
    | x :: r => match argmax p r with
                | None => Some x
                | Some y => if (rank p y <=? rank p x)%Z then Some x else Some y
                end
    end.

  Definition allvals (evs : list mevent) (p : str) : list str := flat_map (fun e => get e p) evs.

  (* names of the properties that occur (non-empty) in some event, in order of first appearance *)
  Definition event_keys (e : mevent) : list str :=
    map fst (filter (fun kv => nonempty (snd kv)) (me_props e)).
  Definition present (evs : list mevent) : list str := union [] (flat_map event_keys evs).

  Definition select (v : mvariant) (et : etype) (evs : list mevent) (p : str) : list str :=
    match strat_of et p with
    | SMin => match argmin p (allvals evs p) with Some r => [r] | None => [] end
    | SMax => match argmax p (allvals evs p) with Some r => [r] | None => [] end
    | SAdd => dedup (allvals evs p)
    | SReplace => match evs with [] => [] | _ => get (last evs {| me_props := []; me_parents := []; me_tag := 0 |}) p end
    | SSet => first_nonempty (map (fun e => get e p) evs)
    | SAny | SMatch =>
        match v with
        | FirstSet => first_nonempty (map (fun e => get e p) evs)
        | FirstValue => match allvals evs p with x :: _ => [x] | [] => [] end
        end
    end.

  Definition merge_core (v : mvariant) (et : etype) (evs : list mevent) : mevent :=
    {| me_props := filter (fun kv => nonempty (snd kv)) (map (fun p => (p, select v et evs p)) (present evs));
       me_parents := dedup (flat_map me_parents evs);
       me_tag := match evs with e :: _ => me_tag e | [] => 0%N end |}.

  (* stable insertion sort by int(version) *)
  Definition vkey (vp : str) (e : mevent) : Z :=
    match get e vp with x :: _ => rank vp x | [] => 0%Z end.
  (* insert e before the first element whose key is >= e's key; folding from the right
     this keeps the input order among equal keys (Python's sorted is stable) *)
  Fixpoint vinsert (vp : str) (e : mevent) (l : list mevent) : list mevent :=
    match l with
    | [] => [e]
    | y :: r => if (vkey vp e <=? vkey vp y)%Z then e :: l else y :: vinsert vp e r
    end.
  Fixpoint vsort (vp : str) (l : list mevent) : list mevent :=
    match l with [] => [] | e :: r => vinsert vp e (vsort vp r) end.

  (* _check_merge_conflict: two events with the same version STRING whose object sets differ
     for some declared property *)
  Definition version_str (vp : str) (e : mevent) : list str :=
    match get e vp with x :: _ => [x] | [] => [] end.
  Definition differ (et : etype) (a b : mevent) : bool :=
    existsb (fun kv => negb (set_eqb (get a (fst kv)) (get b (fst kv)))) (et_strat et).
  Definition conflict (et : etype) (vp : str) (evs : list mevent) : bool :=
    existsb (fun a => existsb (fun b => strs_eqb (version_str vp a) (version_str vp b) && differ et a b) evs) evs.

  Definition merge (v : mvariant) (et : etype) (evs : list mevent) : option mevent :=
    match et_version et with
    | Some vp => let s := vsort vp evs in
                 if conflict et vp s then None else Some (merge_core v et s)
    | None => Some (merge_core v et evs)
    end.
End Merge.

(* ---- comparison helpers for the correspondence run ---- *)
Definition rank_table (tbl : list (str * list (str * Z))) (p v : str) : Z :=
  odefault 0%Z (aget v (odefault [] (aget p tbl))).

Definition props_eqb (a b : list (str * list str)) : bool :=
  forallb (fun kv => set_eqb (snd kv) (odefault [] (aget (fst kv) b))) a &&
  forallb (fun kv => set_eqb (snd kv) (odefault [] (aget (fst kv) a))) b.

Definition mevent_eqb (a b : mevent) : bool :=
  props_eqb (me_props a) (me_props b) && set_eqb (me_parents a) (me_parents b) && N.eqb (me_tag a) (me_tag b).

Definition result_eqb (a b : option mevent) : bool :=
  match a, b with
  | None, None => true
  | Some x, Some y => mevent_eqb x y
  | _, _ => false
  end.
