(* C01 — the pre-image determines the logical identity: source, type and the set of (hashed property, object) pairs.
   Hence two events with different identity have different hash inputs (and different hashes up to collisions of the hash function). *)
From Coq Require Import Lia ZifyBool Permutation.
From EdxmlVerif Require Import Base.Prelude Base.Bytes Event.Hash Event.Hash_proofs.
Ltac Zify.zify_post_hook ::= Z.to_euclidean_division_equations.

Definition valid_cp (c : N) : bool := (c <? 1114112)%N.
Definition valid_str (s : str) : bool := forallb valid_cp s.
Definition no_byte (x : N) (l : bytes) : bool := forallb (fun c => negb (N.eqb c x)) l.

(* ---- UTF-8 is a prefix code on valid code points ---- *)
Lemma cons_eq {A} (x y : A) l l' : x :: l = y :: l' -> x = y /\ l = l'.
Proof. intros H; inversion H; auto. Qed.

Ltac uncons :=
  repeat match goal with
         | H : _ :: _ = _ :: _ |- _ => apply cons_eq in H; destruct H
         | H : [] = _ :: _ |- _ => discriminate H
         | H : _ :: _ = [] |- _ => discriminate H
         end.

Lemma utf8_cp_prefix c1 c2 r1 r2 : valid_cp c1 = true -> valid_cp c2 = true ->
  utf8_cp c1 ++ r1 = utf8_cp c2 ++ r2 -> c1 = c2 /\ r1 = r2.
Proof.
  unfold valid_cp, utf8_cp. intros V1 V2.
  destruct (c1 <? 128)%N eqn:A1; destruct (c2 <? 128)%N eqn:A2;
  [| destruct (c2 <? 2048)%N eqn:B2; [|destruct (c2 <? 65536)%N eqn:C2]
   | destruct (c1 <? 2048)%N eqn:B1; [|destruct (c1 <? 65536)%N eqn:C1]
   | destruct (c1 <? 2048)%N eqn:B1; [|destruct (c1 <? 65536)%N eqn:C1];
     (destruct (c2 <? 2048)%N eqn:B2; [|destruct (c2 <? 65536)%N eqn:C2])];
  cbn [app]; intros E; uncons; first [split; [lia | congruence] | exfalso; lia].
Qed.

Lemma utf8_cp_nonempty c : utf8_cp c <> [].
Proof. unfold utf8_cp. destruct (c <? 128)%N; [discriminate|]. destruct (c <? 2048)%N; [discriminate|]. destruct (c <? 65536)%N; discriminate. Qed.

Theorem utf8_injective a : forall b, valid_str a = true -> valid_str b = true -> utf8 a = utf8 b -> a = b.
Proof.
  induction a as [|c r IH]; intros b Va Vb E.
  - destruct b as [|d s]; [reflexivity|]. cbn in E. symmetry in E. apply app_eq_nil in E. destruct E as (E & _). exfalso. exact (utf8_cp_nonempty d E).
  - destruct b as [|d s]; [cbn in E; apply app_eq_nil in E; destruct E as (E & _); exfalso; exact (utf8_cp_nonempty c E)|].
    cbn [valid_str forallb] in Va, Vb. apply andb_true_iff in Va, Vb. destruct Va as (Vc & Vr). destruct Vb as (Vd & Vs).
    cbn [utf8 flat_map] in E. destruct (utf8_cp_prefix c d _ _ Vc Vd E) as (-> & E2). f_equal. apply IH; assumption.
Qed.

(* bytes of the encoding: an ASCII byte x occurs only as the code point x; 0xFF never occurs *)
Lemma utf8_cp_no_ascii_byte c x : (x < 128)%N -> c <> x -> no_byte x (utf8_cp c) = true.
Proof.
  intros Hx N0. unfold utf8_cp, no_byte.
  destruct (c <? 128)%N eqn:A; [cbn [forallb]; destruct (N.eqb_spec c x); [congruence | reflexivity]|].
  destruct (c <? 2048)%N eqn:B; [|destruct (c <? 65536)%N eqn:C]; cbn [forallb];
    repeat match goal with |- context [N.eqb ?a x] => destruct (N.eqb_spec a x); [exfalso; lia|] end; reflexivity.
Qed.

Lemma utf8_no_ascii_byte s x : (x < 128)%N -> forallb (fun c => negb (N.eqb c x)) s = true -> no_byte x (utf8 s) = true.
Proof.
  intros Hx. induction s as [|c r IH]; intros H; [reflexivity|]. cbn [forallb] in H. apply andb_true_iff in H. destruct H as (Hc & Hr).
  cbn [utf8 flat_map]. unfold no_byte. rewrite forallb_app. fold (no_byte x (utf8_cp c)). fold (no_byte x (flat_map utf8_cp r)).
  rewrite utf8_cp_no_ascii_byte; [apply IH; exact Hr | exact Hx |]. intros ->. rewrite N.eqb_refl in Hc. discriminate.
Qed.

Lemma utf8_cp_no_ff c : valid_cp c = true -> no_byte 255 (utf8_cp c) = true.
Proof.
  unfold valid_cp, utf8_cp, no_byte. intros V.
  destruct (c <? 128)%N eqn:A; [cbn [forallb]; destruct (N.eqb_spec c 255); [exfalso; lia | reflexivity]|].
  destruct (c <? 2048)%N eqn:B; [|destruct (c <? 65536)%N eqn:C]; cbn [forallb];
    repeat match goal with |- context [N.eqb ?a 255] => destruct (N.eqb_spec a 255); [exfalso; lia|] end; reflexivity.
Qed.

Lemma utf8_no_ff s : valid_str s = true -> no_byte 255 (utf8 s) = true.
Proof.
  induction s as [|c r IH]; intros V; [reflexivity|]. cbn [valid_str forallb] in V. apply andb_true_iff in V. destruct V as (Vc & Vr).
  cbn [utf8 flat_map]. unfold no_byte. rewrite forallb_app. fold (no_byte 255 (utf8_cp c)). fold (no_byte 255 (flat_map utf8_cp r)).
  rewrite utf8_cp_no_ff by exact Vc. apply IH. exact Vr.
Qed.

(* ---- splitting at the first occurrence of a byte ---- *)
Lemma split_first x a : forall a' b b', no_byte x a = true -> no_byte x a' = true ->
  a ++ x :: b = a' ++ x :: b' -> a = a' /\ b = b'.
Proof.
  induction a as [|c r IH]; intros a' b b' Na Na' E.
  - destruct a' as [|c' r']; [injection E; auto|]. cbn in E. injection E as E1 E2. subst c'.
    cbn in Na'. rewrite N.eqb_refl in Na'. discriminate.
  - destruct a' as [|c' r']; cbn in E; injection E as E1 E2.
    + subst c. cbn in Na. rewrite N.eqb_refl in Na. discriminate.
    + subst c'. cbn in Na, Na'. apply andb_true_iff in Na, Na'. destruct (IH r' b b' (proj2 Na) (proj2 Na') E2) as (-> & ->). auto.
Qed.

(* ---- the joined strings ---- *)
Definition elem_ok (b : bytes) : bool := no_byte 255 b && match b with [] => false | _ => true end.

Lemma join_nil_inv l : forallb elem_ok l = true -> join SEP l = [] -> l = [].
Proof.
  destruct l as [|x [|y r]]; intros H E; [reflexivity | |].
  - cbn in E. subst x. cbn in H. discriminate.
  - cbn [join] in E. apply app_eq_nil in E. destruct E as (-> & _). cbn in H. discriminate.
Qed.

Theorem join_injective l1 : forall l2, forallb elem_ok l1 = true -> forallb elem_ok l2 = true -> join SEP l1 = join SEP l2 -> l1 = l2.
Proof.
  induction l1 as [|x r1 IH]; intros l2 H1 H2 E.
  - symmetry. apply join_nil_inv; [exact H2 | symmetry; exact E].
  - destruct l2 as [|y r2]; [apply join_nil_inv in E; [discriminate | exact H1]|].
    cbn [forallb] in H1, H2. apply andb_true_iff in H1, H2. destruct H1 as (Hx & Hr1). destruct H2 as (Hy & Hr2).
    unfold elem_ok in Hx, Hy. apply andb_true_iff in Hx, Hy. destruct Hx as (Nx & NEx). destruct Hy as (Ny & NEy).
    destruct r1 as [|x2 r1']; destruct r2 as [|y2 r2'].
    + cbn in E. subst. reflexivity.
    + exfalso. cbn [join] in E. subst x. unfold no_byte in Nx. rewrite forallb_app in Nx. apply andb_true_iff in Nx. destruct Nx as (_ & Nx). cbn in Nx. discriminate.
    + exfalso. cbn [join] in E. subst y. unfold no_byte in Ny. rewrite forallb_app in Ny. apply andb_true_iff in Ny. destruct Ny as (_ & Ny). cbn in Ny. discriminate.
    + change (join SEP (x :: x2 :: r1')) with (x ++ 255%N :: [255; 255; 255]%N ++ join SEP (x2 :: r1')) in E.
      change (join SEP (y :: y2 :: r2')) with (y ++ 255%N :: [255; 255; 255]%N ++ join SEP (y2 :: r2')) in E.
      destruct (split_first 255 x y _ _ Nx Ny E) as (-> & E2). apply app_inv_head in E2.
      f_equal. apply IH; assumption.
Qed.

(* ---- the layout: source LF type LF joined strings ---- *)
Definition lf_free (s : str) : bool := forallb (fun c => negb (N.eqb c 10)) s.

Theorem spec_preimage_injective s1 t1 l1 s2 t2 l2 :
  valid_str s1 = true -> valid_str s2 = true -> valid_str t1 = true -> valid_str t2 = true ->
  lf_free s1 = true -> lf_free s2 = true -> lf_free t1 = true -> lf_free t2 = true ->
  forallb elem_ok l1 = true -> forallb elem_ok l2 = true ->
  spec_preimage s1 t1 l1 = spec_preimage s2 t2 l2 -> s1 = s2 /\ t1 = t2 /\ l1 = l2.
Proof.
  intros Vs1 Vs2 Vt1 Vt2 Ls1 Ls2 Lt1 Lt2 O1 O2 E. unfold spec_preimage in E. cbn [app] in E.
  destruct (split_first 10 _ _ _ _ (utf8_no_ascii_byte s1 10 ltac:(lia) Ls1) (utf8_no_ascii_byte s2 10 ltac:(lia) Ls2) E) as (E1 & E2).
  destruct (split_first 10 _ _ _ _ (utf8_no_ascii_byte t1 10 ltac:(lia) Lt1) (utf8_no_ascii_byte t2 10 ltac:(lia) Lt2) E2) as (E3 & E4).
  repeat split; [apply utf8_injective; assumption | apply utf8_injective; assumption | apply join_injective; assumption].
Qed.

(* ---- object strings ---- *)
Definition colon_free (s : str) : bool := forallb (fun c => negb (N.eqb c 58)) s.

Lemma object_string_ok p v : valid_str p = true -> valid_str v = true -> elem_ok (spec_object_string p v) = true.
Proof.
  intros Vp Vv. unfold elem_ok, spec_object_string. apply andb_true_iff. split.
  - unfold no_byte. rewrite !forallb_app. fold (no_byte 255 (utf8 p)). fold (no_byte 255 (utf8 v)).
    rewrite utf8_no_ff, utf8_no_ff by assumption. reflexivity.
  - destruct (utf8 p); reflexivity.
Qed.

Theorem object_string_injective p v p' v' :
  valid_str p = true -> valid_str p' = true -> valid_str v = true -> valid_str v' = true ->
  colon_free p = true -> colon_free p' = true ->
  spec_object_string p v = spec_object_string p' v' -> p = p' /\ v = v'.
Proof.
  intros Vp Vp' Vv Vv' Cp Cp' E. unfold spec_object_string in E. cbn [app] in E.
  destruct (split_first 58 _ _ _ _ (utf8_no_ascii_byte p 58 ltac:(lia) Cp) (utf8_no_ascii_byte p' 58 ltac:(lia) Cp') E) as (E1 & E2).
  split; apply utf8_injective; assumption.
Qed.

(* ---- the pre-image determines the identity ---- *)
Definition event_ok (hashed : list str) (e : hevent) : Prop :=
  valid_str (h_src e) = true /\ valid_str (h_typ e) = true /\ lf_free (h_src e) = true /\ lf_free (h_typ e) = true /\
  forall p vs v, In (p, vs) (h_props e) -> In v vs -> mem p hashed = true -> valid_str p = true /\ valid_str v = true.

Lemma canon_elems_ok hashed e : event_ok hashed e -> forallb elem_ok (canon (object_strings OBJFMT hashed (h_props e))) = true.
Proof.
  intros (_ & _ & _ & _ & V). apply forallb_forall. intros b Hb.
  destruct (canon_is_identity hashed e) as (_ & _ & I). apply I in Hb. destruct Hb as (p & vs & v & Hin & Hv & M & ->).
  destruct (V p vs v Hin Hv M). apply object_string_ok; assumption.
Qed.

Theorem preimage_determines_identity h1 h2 e1 e2 : event_ok h1 e1 -> event_ok h2 e2 ->
  preimage SEP OBJFMT LAYOUT h1 e1 = preimage SEP OBJFMT LAYOUT h2 e2 ->
  h_src e1 = h_src e2 /\ h_typ e1 = h_typ e2 /\ forall b, in_identity h1 e1 b <-> in_identity h2 e2 b.
Proof.
  intros O1 O2 E. rewrite !preimage_spec in E.
  pose proof (canon_elems_ok h1 e1 O1) as C1. pose proof (canon_elems_ok h2 e2 O2) as C2.
  destruct O1 as (A1 & A2 & A3 & A4 & _). destruct O2 as (B1 & B2 & B3 & B4 & _).
  destruct (spec_preimage_injective _ _ _ _ _ _ A1 B1 A2 B2 A3 B3 A4 B4 C1 C2 E) as (Es & Et & El).
  split; [exact Es|]. split; [exact Et|]. intros b.
  destruct (canon_is_identity h1 e1) as (_ & _ & I1). destruct (canon_is_identity h2 e2) as (_ & _ & I2).
  rewrite <- I1, <- I2, El. reflexivity.
Qed.
