(* C07 — a fresh copy shows the content of its original.
   EventElement.copy() / create_from_event() builds the copy from what the views of the original show, leaving
   out the properties and attachments that are empty (`live_props`, `live_atts`); ParsedEvent.copy() copies
   the XML.  That the copy then shows exactly the original's content needs an invariant the refinement proof
   did not: the dictionaries (cached views and XML groups) hold every name ONCE — otherwise an emptied entry
   could hide a second one that the filter of the copy would bring back.  `wf` states it; it holds of every
   object built from a dictionary and is kept by every public mutation and by copying. *)
From EdxmlVerif Require Import Base.Prelude Base.Bytes Event.Repr Event.Repr_proofs.

(* ---- association lists whose keys are distinct ---- *)
Section Keys.
  Context {V : Type}.
  Implicit Types d : list (str * V).

  Lemma NoDup_akeys_aset k (v : V) d : NoDup (akeys d) -> NoDup (akeys (aset k v d)).
  Proof.
    intro ND. rewrite akeys_aset. destruct (mem k (akeys d)) eqn:M; [exact ND|].
    apply NoDup_snoc; [exact ND|]. intro H. apply mem_In in H. congruence.
  Qed.

  Lemma In_akeys_aremove k x d : In x (akeys (aremove k d)) -> In x (akeys d).
  Proof.
    induction d as [|[k' v'] r IH]; cbn; [tauto|].
    destruct (str_eqb k k'); cbn; intro H; [right; apply IH; exact H|].
    destruct H as [H|H]; [left; exact H | right; apply IH; exact H].
  Qed.

  Lemma NoDup_akeys_aremove k d : NoDup (akeys d) -> NoDup (akeys (aremove k d)).
  Proof.
    induction d as [|[k' v'] r IH]; cbn; intro ND; [constructor|].
    inversion ND as [|? ? Hn ND']; subst.
    destruct (str_eqb k k'); cbn; [apply IH; exact ND'|].
    constructor; [intro H; apply Hn; eapply In_akeys_aremove; exact H | apply IH; exact ND'].
  Qed.

  Lemma NoDup_akeys_aput (e : V -> bool) k v d : NoDup (akeys d) -> NoDup (akeys (aput e k v d)).
  Proof. intro ND. unfold aput. destruct (e v); [apply NoDup_akeys_aremove | apply NoDup_akeys_aset]; exact ND. Qed.

  Lemma In_akeys_filter (f : str * V -> bool) x d : In x (akeys (filter f d)) -> In x (akeys d).
  Proof.
    induction d as [|kv r IH]; cbn; [tauto|].
    destruct (f kv); cbn; intro H; [destruct H as [H|H]; [left; exact H | right; apply IH; exact H] | right; apply IH; exact H].
  Qed.

  Lemma NoDup_akeys_filter (f : str * V -> bool) d : NoDup (akeys d) -> NoDup (akeys (filter f d)).
  Proof.
    induction d as [|kv r IH]; cbn; intro ND; [constructor|].
    inversion ND as [|? ? Hn ND']; subst.
    destruct (f kv); cbn; [|apply IH; exact ND'].
    constructor; [intro H; apply Hn; eapply In_akeys_filter; exact H | apply IH; exact ND'].
  Qed.

  Lemma akeys_map_val {W} (g : V -> W) d : akeys (map (fun kv => (fst kv, g (snd kv))) d) = akeys d.
  Proof. unfold akeys. rewrite map_map. reflexivity. Qed.

  Lemma NoDup_akeys_fold_aset (m : list (str * V)) : forall acc,
    NoDup (akeys acc) -> NoDup (akeys (fold_left (fun a kv => aset (fst kv) (snd kv) a) m acc)).
  Proof. induction m as [|kv r IH]; intros acc ND; cbn [fold_left]; [exact ND | apply IH, NoDup_akeys_aset, ND]. Qed.
End Keys.

(* dropping the empty entries of a dictionary with distinct keys does not change what a lookup with the
   default "empty" returns *)
Lemma aget_filter_nonempty {A} (d : list (str * list A)) p : NoDup (akeys d) ->
  odefault [] (aget p (filter (fun kv => negb (is_nil (snd kv))) d)) = odefault [] (aget p d).
Proof.
  induction d as [|[k v] r IH]; cbn [filter aget]; intro ND; [reflexivity|].
  cbn [akeys map fst] in ND. inversion ND as [|? ? Hn ND']; subst. cbn [snd].
  destruct (str_eqb p k) eqn:E.
  - apply str_eqb_eq in E; subst p. destruct v as [|a v]; cbn [is_nil negb].
    + cbn [odefault].
      assert (aget k (filter (fun kv : str * list A => negb (is_nil (snd kv))) r) = None) as ->; [|reflexivity].
      apply aget_none_mem. destruct (mem k (akeys (filter (fun kv : str * list A => negb (is_nil (snd kv))) r))) eqn:M; [|reflexivity].
      apply mem_In in M. apply In_akeys_filter in M. contradiction.
    + cbn [aget]. rewrite str_eqb_refl. reflexivity.
  - destruct (negb (is_nil v)); cbn [aget]; [rewrite E|]; apply IH; exact ND'.
Qed.

(* ---- the invariant ---- *)
Definition wf (o : xobj) : Prop :=
  NoDup (akeys (x_props o)) /\ NoDup (akeys (x_atts o)) /\
  NoDup (akeys (cache_of o)) /\ NoDup (akeys (acache_of o)).

Lemma wf_ensure_props i o : wf o -> wf (ensure_props i o).
Proof.
  intros (A & B & C & D). unfold ensure_props. destruct (c_props o) eqn:E; [repeat split; assumption|].
  repeat split; try assumption. unfold cache_of, with_cprops; cbn [c_props odefault]. rewrite (akeys_map_val (fun vs : list str => (vs, i))). exact A.
Qed.
Lemma wf_ensure_atts i o : wf o -> wf (ensure_atts i o).
Proof.
  intros (A & B & C & D). unfold ensure_atts. destruct (c_atts o) eqn:E; [repeat split; assumption|].
  repeat split; try assumption. unfold acache_of, with_catts; cbn [c_atts odefault]. rewrite (akeys_map_val (fun vs : list (str * str) => (vs, i))). exact B.
Qed.
Lemma wf_set_cache o p e : wf o -> wf (set_cache o p e).
Proof. intros (A & B & C & D). repeat split; try assumption. unfold cache_of at 1, set_cache, with_cprops; cbn [c_props odefault]. apply NoDup_akeys_aset, C. Qed.
Lemma wf_del_cache o p : wf o -> wf (del_cache o p).
Proof. intros (A & B & C & D). repeat split; try assumption. unfold cache_of at 1, del_cache, with_cprops; cbn [c_props odefault]. apply NoDup_akeys_aremove, C. Qed.
Lemma wf_set_acache o a e : wf o -> wf (set_acache o a e).
Proof. intros (A & B & C & D). repeat split; try assumption. unfold acache_of at 1, set_acache, with_catts; cbn [c_atts odefault]. apply NoDup_akeys_aset, D. Qed.
Lemma wf_del_acache o a : wf o -> wf (del_acache o a).
Proof. intros (A & B & C & D). repeat split; try assumption. unfold acache_of at 1, del_acache, with_catts; cbn [c_atts odefault]. apply NoDup_akeys_aremove, D. Qed.
Lemma wf_with_xprops o d : NoDup (akeys d) -> wf o -> wf (with_xprops o d).
Proof. intros N (A & B & C & D). repeat split; assumption. Qed.
Lemma wf_with_xatts o d : NoDup (akeys d) -> wf o -> wf (with_xatts o d).
Proof. intros N (A & B & C & D). repeat split; assumption. Qed.
Lemma wf_with_attrs o t s ps f : wf o -> wf (with_attrs o t s ps f).
Proof. intros (A & B & C & D). repeat split; assumption. Qed.
Lemma wf_with_cprops o c ow : NoDup (akeys (odefault [] c)) -> wf o -> wf (with_cprops o c ow).
Proof. intros N (A & B & C & D). repeat split; assumption. Qed.
Lemma wf_drop_cache o i : wf o -> wf (with_cprops o None i).
Proof. apply wf_with_cprops. constructor. Qed.

Lemma wf_apply_write_obj o w : wf o -> wf (apply_write_obj o w).
Proof.
  intro H. pose proof H as (A & B & _). destruct w; cbn [apply_write_obj].
  - apply wf_with_xprops; [apply NoDup_akeys_aput; exact A | exact H].
  - apply wf_with_xatts; [apply NoDup_akeys_aput; exact B | exact H].
  - apply wf_with_xprops; [constructor | exact H].
Qed.
Lemma wf_settle o ws : wf o -> wf (settle o ws).
Proof. revert o. induction ws as [|w r IH]; intros o H; cbn; [exact H | apply IH, wf_apply_write_obj, H]. Qed.

Lemma mutate_set_wf i o p f o1 ws : wf o -> mutate_set i o p f = (o1, ws) -> wf o1.
Proof.
  intros H E. unfold mutate_set in E. destruct (entry (ensure_props i o) p) as [objs ow].
  injection E as <- _. apply wf_set_cache, wf_ensure_props, H.
Qed.

#[local] Hint Resolve wf_ensure_props wf_ensure_atts wf_set_cache wf_del_cache wf_set_acache wf_del_acache
  wf_with_attrs wf_drop_cache : wf.

(* every public mutation keeps the names distinct *)
Lemma lstep_wf i o e o1 ws ok : wf o -> lstep i o e = (o1, ws, ok) -> wf o1.
Proof.
  intros H E. destruct e; cbn [lstep] in E;
    try (match type of E with context [mutate_set ?i ?o ?p ?f] =>
           destruct (mutate_set i o p f) as [o2 ws2] eqn:M end).
  - injection E as <- _ _. apply wf_set_cache. apply wf_with_xprops; [apply H|].
    apply wf_ensure_props. exact (wf_apply_write_obj o (WProp i p (sset vs)) H).
  - destruct (x_kind o); [destruct (aget p (cache_of (ensure_props i o)))|]; injection E as <- _ _; auto with wf.
  - injection E as <- _ _. eapply mutate_set_wf; eauto.
  - destruct (mem v (fst (entry (ensure_props i o) p))); injection E as <- _ _; [eapply mutate_set_wf; eauto | auto with wf].
  - injection E as <- _ _. eapply mutate_set_wf; eauto.
  - destruct (is_nil (fst (entry (ensure_props i o) p))); injection E as <- _ _; [auto with wf | eapply mutate_set_wf; eauto].
  - injection E as <- _ _. eapply mutate_set_wf; eauto.
  - injection E as <- _ _. eapply mutate_set_wf; eauto.
  - injection E as <- _ _. auto with wf.
  - destruct (aget p (cache_of (ensure_props i o))); injection E as <- _ _; auto with wf.
  - injection E as <- _ _. apply wf_with_cprops; [|exact H]. cbn [odefault]. apply sp_keys_NoDup. constructor.
  - destruct v as [d|]; [|destruct (aget a (acache_of (ensure_atts i o)))]; injection E as <- _ _; auto with wf.
  - destruct (aentry (ensure_atts i o) a) as [d ow]. injection E as <- _ _. auto with wf.
  - destruct (aentry (ensure_atts i o) a) as [d ow]. injection E as <- _ _. auto with wf.
  - destruct (aget a (acache_of (ensure_atts i o))); injection E as <- _ _; auto with wf.
  - injection E as <- _ _. auto with wf.
  - injection E as <- _ _. auto with wf.
  - injection E as <- _ _. auto with wf.
  - injection E as <- _ _. auto with wf.
  - injection E as <- _ _. auto with wf.
  - destruct (x_kind o); injection E as <- _ _; auto with wf.
Qed.

Lemma ostep_wf i o e : wf o -> wf (fst (ostep i o e)).
Proof.
  intro H. unfold ostep. destruct (lstep i o e) as [[o1 ws] ok] eqn:L. cbn [fst].
  apply wf_settle. eapply lstep_wf; eauto.
Qed.

Lemma fresh_wf k s i : NoDup (akeys (s_props s)) -> NoDup (akeys (s_atts s)) -> wf (fresh k s i).
Proof. intros A B. repeat split; cbn; try assumption; constructor. Qed.

Lemma NoDup_live_props o : wf o -> NoDup (akeys (live_props o)).
Proof.
  intros (A & _ & C & _). unfold live_props. unfold cache_of in C. destruct (c_props o); [|exact A].
  apply NoDup_akeys_filter. rewrite (akeys_map_val (fun e : list str * nat => fst e)). exact C.
Qed.
Lemma NoDup_live_atts o : wf o -> NoDup (akeys (live_atts o)).
Proof.
  intros (_ & B & _ & D). unfold live_atts. unfold acache_of in D. destruct (c_atts o); [|exact B].
  apply NoDup_akeys_filter. rewrite (akeys_map_val (fun e : list (str * str) * nat => fst e)). exact D.
Qed.

Lemma copy_wf v o n : wf o -> wf (copy_obj v o n).
Proof.
  intro H. pose proof H as (A & B & C & D). unfold copy_obj. destruct (x_kind o); [destruct v|].
  - split; [|split; [|split]].
    + cbn [x_props]. apply NoDup_live_props, H.
    + cbn [x_atts]. apply NoDup_live_atts, H.
    + unfold cache_of; cbn [c_props odefault]. rewrite (akeys_map_val (fun vs : list str => (vs, n))). apply NoDup_live_props, H.
    + unfold acache_of; cbn [c_atts odefault]. rewrite (akeys_map_val (fun vs : list (str * str) => (vs, n))). apply NoDup_live_atts, H.
  - repeat split; assumption.
  - repeat split; cbn; try assumption; constructor.
Qed.

(* ---- what the views of a copy show ---- *)
Lemma live_props_view o p : wf o -> odefault [] (aget p (live_props o)) = view_props o p.
Proof.
  intros (_ & _ & C & _). unfold live_props, view_props. unfold cache_of in C. destruct (c_props o) as [c|]; [|reflexivity].
  rewrite aget_filter_nonempty by (rewrite (akeys_map_val (fun e : list str * nat => fst e)); exact C).
  rewrite (aget_map_snd (fun e : list str * nat => fst e)). destruct (aget p c); reflexivity.
Qed.
Lemma live_atts_view o a : wf o -> odefault [] (aget a (live_atts o)) = view_atts o a.
Proof.
  intros (_ & _ & _ & D). unfold live_atts, view_atts. unfold acache_of in D. destruct (c_atts o) as [c|]; [|reflexivity].
  rewrite aget_filter_nonempty by (rewrite (akeys_map_val (fun e : list (str * str) * nat => fst e)); exact D).
  rewrite (aget_map_snd (fun e : list (str * str) * nat => fst e)). destruct (aget a c); reflexivity.
Qed.

Definition same_content (o c : xobj) : Prop :=
  (forall p, view_props c p = view_props o p) /\ (forall a, view_atts c a = view_atts o a) /\
  x_parents c = x_parents o /\ x_typ c = x_typ o /\ x_src c = x_src o /\ x_foreign c = x_foreign o /\ x_kind c = x_kind o.

Lemma copy_same_content o n : wf o -> coherent o -> same_content o (copy_obj CopyFixed o n).
Proof.
  intros W [CP CA]. unfold copy_obj. destruct (x_kind o) eqn:K.
  - repeat split; try reflexivity; cbn [x_kind]; try (symmetry; exact K).
    + intro p. rewrite <- (live_props_view o p W). unfold view_props at 1; cbn.
      rewrite (aget_map_snd (fun vs : list str => (vs, n))). destruct (aget p (live_props o)); reflexivity.
    + intro a. rewrite <- (live_atts_view o a W). unfold view_atts at 1; cbn.
      rewrite (aget_map_snd (fun vs : list (str * str) => (vs, n))). destruct (aget a (live_atts o)); reflexivity.
  - repeat split; try reflexivity; cbn [x_kind]; try (symmetry; exact K).
    + intro p. rewrite CP. reflexivity.
    + intro a. rewrite CA. reflexivity.
Qed.

(* ---- heaps ---- *)
Definition hwf (h : heap) : Prop := forall i o, hget h i = Some o -> wf o.

Lemma hstep_wf h o : hinv h -> hwf h -> hwf (hstep CopyFixed h o).
Proof.
  intros HI HW. destruct o as [i e|i]; cbn [hstep].
  - destruct (hget h i) as [ob|] eqn:G.
    + destruct (HI i ob G) as [HO _]. rewrite (xstep_local h i ob e G HO). cbn [fst].
      intros j oj Hj. destruct (Nat.eq_dec i j) as [->|N].
      * rewrite (hget_hupd_same h j _ ob G) in Hj. injection Hj as <-. apply ostep_wf. exact (HW j ob G).
      * rewrite (hget_hupd_other h i j _ N) in Hj. exact (HW j oj Hj).
    + unfold xstep. rewrite G. exact HW.
  - destruct (hget h i) as [ob|] eqn:G; [|exact HW].
    intros j oj Hj. unfold hget in *. destruct (Nat.lt_ge_cases j (length h)) as [L|L].
    + rewrite nth_error_app1 in Hj by exact L. exact (HW j oj Hj).
    + rewrite nth_error_app2 in Hj by exact L. destruct (j - length h) as [|k] eqn:D; cbn in Hj; [|destruct k; discriminate].
      injection Hj as <-. apply copy_wf. exact (HW i ob G).
Qed.

Lemma hrun_wf ops : forall h, hinv h -> hwf h -> hinv (hrun CopyFixed h ops) /\ hwf (hrun CopyFixed h ops).
Proof.
  induction ops as [|o r IH]; intros h HI HW; cbn; [split; assumption|].
  apply IH; [apply hstep_inv; exact HI | apply hstep_wf; assumption].
Qed.

Lemma single_inv k s : hinv [fresh k s 0].
Proof.
  intros i o H. destruct i as [|i]; cbn in H; [|destruct i; discriminate]. injection H as <-.
  split; [apply fresh_owned | apply fresh_coherent].
Qed.
Lemma single_wf k s : NoDup (akeys (s_props s)) -> NoDup (akeys (s_atts s)) -> hwf [fresh k s 0].
Proof.
  intros A B i o H. destruct i as [|i]; cbn in H; [|destruct i; discriminate]. injection H as <-.
  apply fresh_wf; assumption.
Qed.

(* In every heap reached from one event (its properties and attachments given as dictionaries) by any history of
   mutations and copies: copying event i appends an event that shows exactly the content of event i — through its
   views and, being coherent, in its XML — and every existing event, the original included, is left as it was. *)
Lemma copy_shows_original k s0 ops i o :
  NoDup (akeys (s_props s0)) -> NoDup (akeys (s_atts s0)) ->
  let h := hrun CopyFixed [fresh k s0 0] ops in
  hget h i = Some o ->
  exists c, hget (hstep CopyFixed h (Copy i)) (length h) = Some c /\
            same_content o c /\ coherent c /\
            (forall p, xml_props c p = view_props o p) /\ (forall a, xml_atts c a = view_atts o a) /\
            hget (hstep CopyFixed h (Copy i)) i = Some o.
Proof.
  intros A B h G. destruct (hrun_wf ops [fresh k s0 0] (single_inv k s0) (single_wf k s0 A B)) as [HI HW].
  fold h in HI, HW. destruct (HI i o G) as [_ HC]. pose proof (HW i o G) as W.
  exists (copy_obj CopyFixed o (length h)). cbn [hstep]. rewrite G.
  pose proof (copy_same_content o (length h) W HC) as SC.
  pose proof (proj2 (copy_fixed_inv o (length h))) as [CP CA].
  split; [|split; [exact SC | split; [split; assumption | split; [|split]]]].
  - unfold hget. rewrite nth_error_app2 by lia. rewrite Nat.sub_diag. reflexivity.
  - intro p. rewrite <- CP. apply SC.
  - intro a. rewrite <- CA. apply SC.
  - unfold hget in *. rewrite nth_error_app1; [exact G|]. apply nth_error_Some. congruence.
Qed.

(* without the invariant the statement is false: a cached view that holds a name twice, the first entry
   emptied, makes the copy show the hidden second entry *)
Definition dup_obj : xobj :=
  {| x_kind := KElement; x_typ := []; x_src := []; x_props := []; x_atts := []; x_parents := []; x_foreign := [];
     c_props := Some [(wp, ([], 0)); (wp, ([[97]%N], 0))]; c_props_owner := 0; c_atts := None; c_atts_owner := 0 |}.
Lemma copy_needs_distinct_names : view_props dup_obj wp = [] /\ view_props (copy_obj CopyFixed dup_obj 1) wp = [[97]%N].
Proof. vm_compute. split; reflexivity. Qed.

(* a copy refines the dictionary-of-sets state its original refines, so every later history of mutations of the copy
   behaves as the model run from the ORIGINAL's state (interchangeability extends over copies) *)
Lemma copy_R o s n : wf o -> coherent o -> R o s -> R (copy_obj CopyFixed o n) s.
Proof.
  intros W HC (R1 & R2 & R3 & R4 & R5 & R6).
  destruct (copy_same_content o n W HC) as (S1 & S2 & S3 & S4 & S5 & S6 & _).
  split; [intro p; rewrite S1; apply R1|]. split; [intro a; rewrite S2; apply R2|].
  split; [congruence|]. split; [congruence|]. split; congruence.
Qed.

Lemma copy_then_mutations o s n ops : wf o -> coherent o -> R o s ->
  let c := copy_obj CopyFixed o n in
  snd (orun n c ops) = snd (srun s ops) /\ R (fst (orun n c ops)) (fst (srun s ops)) /\ coherent (fst (orun n c ops)).
Proof.
  intros W HC HR c. destruct (copy_fixed_inv o n) as [CO CC].
  destruct (orun_refines n ops c s CO CC (copy_R o s n W HC HR)) as (A & B & C & _).
  split; [exact A|]. split; [exact B | exact C].
Qed.

(* mutations keep wf along a whole history on one object *)
Lemma orun_wf i : forall ops o, wf o -> wf (fst (orun i o ops)).
Proof.
  induction ops as [|e r IH]; intros o W; cbn [orun]; [exact W|].
  pose proof (ostep_wf i o e W) as W1. destruct (ostep i o e) as [o1 ok]. cbn [fst] in W1.
  specialize (IH o1 W1). destruct (orun i o1 r) as [o2 fl]. exact IH.
Qed.
