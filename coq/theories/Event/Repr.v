(* C07 — event representations.
   Spec: the dictionary-of-sets model.  Implementation model: XML backed events
   (EventElement / ParsedEvent of edxml/event.py) living in a heap: every object has the
   content of its XML element and lazily built cached views (PropertySet / AttachmentSet)
   whose update callbacks are bound methods of an OWNER object (normally the event itself;
   after the pre-fix deepcopy of an EventElement: the original).

   Object sets are kept in canonical form (sorted, duplicate free), dictionaries are
   association lists read with `aget`; all statements are pointwise. *)
From EdxmlVerif Require Import Base.Prelude Base.Bytes.

Definition sset (l : list str) : list str := canon l.                 (* set(l) *)
Definition set_add (v : str) (s : list str) : list str := canon (v :: s).
Definition set_del (v : str) (s : list str) : list str := filter (fun x => negb (str_eqb x v)) s.

Fixpoint aremove {V} (k : str) (d : list (str * V)) : list (str * V) :=
  match d with
  | [] => []
  | (k', v) :: r => if str_eqb k k' then aremove k r else (k', v) :: aremove k r
  end.
(* d[k] = v, an empty value meaning "absent" *)
Definition aput {V} (empty : V -> bool) (k : str) (v : V) (d : list (str * V)) : list (str * V) :=
  if empty v then aremove k d else aset k v d.
Definition is_nil {A} (l : list A) : bool := match l with [] => true | _ => false end.

Definition atts_t := list (str * list (str * str)).     (* name -> id -> value *)

(* ---------------- the dictionary-of-sets model ---------------- *)
Record sstate := {
  s_typ : str; s_src : str;
  s_props : list (str * list str);
  s_atts : atts_t;
  s_parents : list str;
  s_foreign : list (str * str)
}.

Inductive eop :=
| SetItem (p : str) (vs : list str)          (* event[p] = vs *)
| DelItem (p : str)                          (* del event[p] *)
| ObjAdd (p v : str) | ObjRemove (p v : str) | ObjDiscard (p v : str)
| ObjPop (p v : str)                         (* event[p].pop() returned v *)
| ObjClear (p : str) | ObjUpdate (p : str) (vs : list str)
| PropsSetItem (p : str) (vs : list str)     (* event.properties[p] = vs *)
| PropsDelItem (p : str)                     (* del event.properties[p] *)
| SetProperties (m : list (str * list str))
| SetAttachment (a : str) (v : option (list (str * str)))   (* None removes; ids already computed *)
| AttSetValue (a i v : str) | AttDelValue (a i : str) | DelAttachment (a : str)
| SetParents (ps : list str) | AddParents (ps : list str)
| SetType (t : str) | SetSource (s : str) | SetForeign (f : list (str * str))
| Flush.

Definition sget (s : sstate) (p : str) : list str := odefault [] (aget p (s_props s)).
Definition sgeta (s : sstate) (a : str) : list (str * str) := odefault [] (aget a (s_atts s)).

Definition s_setp (s : sstate) (p : str) (vs : list str) : sstate :=
  {| s_typ := s_typ s; s_src := s_src s; s_props := aput is_nil p vs (s_props s);
     s_atts := s_atts s; s_parents := s_parents s; s_foreign := s_foreign s |}.
Definition s_seta (s : sstate) (a : str) (d : list (str * str)) : sstate :=
  {| s_typ := s_typ s; s_src := s_src s; s_props := s_props s;
     s_atts := aput is_nil a d (s_atts s); s_parents := s_parents s; s_foreign := s_foreign s |}.

(* spec step; result false = the operation raises KeyError (state unchanged) *)
Definition sstep (s : sstate) (o : eop) : sstate * bool :=
  match o with
  | SetItem p vs | PropsSetItem p vs => (s_setp s p (sset vs), true)
  | DelItem p | PropsDelItem p | ObjClear p => (s_setp s p [], true)
  | ObjAdd p v => (s_setp s p (set_add v (sget s p)), true)
  | ObjRemove p v => if mem v (sget s p) then (s_setp s p (set_del v (sget s p)), true) else (s, false)
  | ObjDiscard p v => (s_setp s p (set_del v (sget s p)), true)
  | ObjPop p v => if is_nil (sget s p) then (s, false) else (s_setp s p (set_del v (sget s p)), true)
  | ObjUpdate p vs => (s_setp s p (canon (vs ++ sget s p)), true)
  | SetProperties m =>
      ({| s_typ := s_typ s; s_src := s_src s;
          s_props := fold_left (fun d kv => aput is_nil (fst kv) (sset (snd kv)) d) m [];
          s_atts := s_atts s; s_parents := s_parents s; s_foreign := s_foreign s |}, true)
  | SetAttachment a None | DelAttachment a => (s_seta s a [], true)
  | SetAttachment a (Some d) => (s_seta s a (fold_left (fun acc iv => aset (fst iv) (snd iv) acc) d []), true)
  | AttSetValue a i v => (s_seta s a (aset i v (sgeta s a)), true)
  | AttDelValue a i => (s_seta s a (aremove i (sgeta s a)), true)
  | SetParents ps =>
      ({| s_typ := s_typ s; s_src := s_src s; s_props := s_props s; s_atts := s_atts s;
          s_parents := canon ps; s_foreign := s_foreign s |}, true)
  | AddParents ps =>
      ({| s_typ := s_typ s; s_src := s_src s; s_props := s_props s; s_atts := s_atts s;
          s_parents := canon (s_parents s ++ ps); s_foreign := s_foreign s |}, true)
  | SetType t =>
      ({| s_typ := t; s_src := s_src s; s_props := s_props s; s_atts := s_atts s;
          s_parents := s_parents s; s_foreign := s_foreign s |}, true)
  | SetSource u =>
      ({| s_typ := s_typ s; s_src := u; s_props := s_props s; s_atts := s_atts s;
          s_parents := s_parents s; s_foreign := s_foreign s |}, true)
  | SetForeign f =>
      ({| s_typ := s_typ s; s_src := s_src s; s_props := s_props s; s_atts := s_atts s;
          s_parents := s_parents s; s_foreign := fold_left (fun acc kv => aset (fst kv) (snd kv) acc) f [] |}, true)
  | Flush => (s, true)
  end.

(* ---------------- XML backed events in a heap ---------------- *)
Inductive kind := KElement | KParsed.

Record xobj := {
  x_kind : kind;
  x_typ : str; x_src : str;
  x_props : list (str * list str);          (* <properties> children grouped by tag; no empty groups *)
  x_atts : atts_t;                          (* <attachments> children; no empty groups *)
  x_parents : list str; x_foreign : list (str * str);
  c_props : option (list (str * (list str * nat)));          (* cached PropertySet: objects, owner of the set *)
  c_props_owner : nat;                                        (* owner of the PropertySet itself *)
  c_atts : option (list (str * (list (str * str) * nat)));   (* cached AttachmentSet: values, owner of the value dict *)
  c_atts_owner : nat
}.
Definition heap := list xobj.

Definition hget (h : heap) (i : nat) : option xobj := nth_error h i.
Fixpoint hupd (h : heap) (i : nat) (f : xobj -> xobj) : heap :=
  match h, i with
  | [], _ => []
  | o :: r, O => f o :: r
  | o :: r, S j => o :: hupd r j f
  end.

Definition with_xprops (o : xobj) (d : list (str * list str)) : xobj :=
  {| x_kind := x_kind o; x_typ := x_typ o; x_src := x_src o; x_props := d; x_atts := x_atts o; x_parents := x_parents o;
     x_foreign := x_foreign o; c_props := c_props o; c_props_owner := c_props_owner o; c_atts := c_atts o; c_atts_owner := c_atts_owner o |}.
Definition with_xatts (o : xobj) (d : atts_t) : xobj :=
  {| x_kind := x_kind o; x_typ := x_typ o; x_src := x_src o; x_props := x_props o; x_atts := d; x_parents := x_parents o;
     x_foreign := x_foreign o; c_props := c_props o; c_props_owner := c_props_owner o; c_atts := c_atts o; c_atts_owner := c_atts_owner o |}.
Definition with_cprops (o : xobj) (c : option (list (str * (list str * nat)))) (ow : nat) : xobj :=
  {| x_kind := x_kind o; x_typ := x_typ o; x_src := x_src o; x_props := x_props o; x_atts := x_atts o; x_parents := x_parents o;
     x_foreign := x_foreign o; c_props := c; c_props_owner := ow; c_atts := c_atts o; c_atts_owner := c_atts_owner o |}.
Definition with_catts (o : xobj) (c : option (list (str * (list (str * str) * nat)))) (ow : nat) : xobj :=
  {| x_kind := x_kind o; x_typ := x_typ o; x_src := x_src o; x_props := x_props o; x_atts := x_atts o; x_parents := x_parents o;
     x_foreign := x_foreign o; c_props := c_props o; c_props_owner := c_props_owner o; c_atts := c; c_atts_owner := ow |}.
Definition with_attrs (o : xobj) (t s : str) (ps : list str) (f : list (str * str)) : xobj :=
  {| x_kind := x_kind o; x_typ := t; x_src := s; x_props := x_props o; x_atts := x_atts o; x_parents := ps;
     x_foreign := f; c_props := c_props o; c_props_owner := c_props_owner o; c_atts := c_atts o; c_atts_owner := c_atts_owner o |}.

(* the update callbacks rewrite the XML of the OWNER of the cached view: XML writes are data *)
Inductive write :=
| WProp (owner : nat) (p : str) (vs : list str)            (* replace the <p> children by vs (none when empty) *)
| WAtt (owner : nat) (a : str) (d : list (str * str))      (* replace the <a> attachment children by d *)
| WClearProps (owner : nat).                               (* properties_element.clear() *)

Definition w_owner (w : write) : nat := match w with WProp o _ _ | WAtt o _ _ | WClearProps o => o end.

Definition apply_write_obj (o : xobj) (w : write) : xobj :=
  match w with
  | WProp _ p vs => with_xprops o (aput is_nil p vs (x_props o))
  | WAtt _ a d => with_xatts o (aput is_nil a d (x_atts o))
  | WClearProps _ => with_xprops o []
  end.
Definition apply_write (h : heap) (w : write) : heap := hupd h (w_owner w) (fun o => apply_write_obj o w).

(* get_properties() / get_attachments(): build the cached view from the XML on first use *)
Definition ensure_props (i : nat) (o : xobj) : xobj :=
  match c_props o with
  | Some _ => o
  | None => with_cprops o (Some (map (fun kv => (fst kv, (snd kv, i))) (x_props o))) i
  end.
Definition ensure_atts (i : nat) (o : xobj) : xobj :=
  match c_atts o with
  | Some _ => o
  | None => with_catts o (Some (map (fun kv => (fst kv, (snd kv, i))) (x_atts o))) i
  end.

Definition cache_of (o : xobj) : list (str * (list str * nat)) := odefault [] (c_props o).
Definition acache_of (o : xobj) : list (str * (list (str * str) * nat)) := odefault [] (c_atts o).

(* event[p] : PropertySet.__getitem__ creates an empty set (owned by the PropertySet's owner) when missing *)
Definition entry (o : xobj) (p : str) : list str * nat := odefault ([], c_props_owner o) (aget p (cache_of o)).
Definition aentry (o : xobj) (a : str) : list (str * str) * nat := odefault ([], c_atts_owner o) (aget a (acache_of o)).

Definition set_cache (o : xobj) (p : str) (e : list str * nat) : xobj :=
  with_cprops o (Some (aset p e (cache_of o))) (c_props_owner o).
Definition del_cache (o : xobj) (p : str) : xobj :=
  with_cprops o (Some (aremove p (cache_of o))) (c_props_owner o).
Definition set_acache (o : xobj) (a : str) (e : list (str * str) * nat) : xobj :=
  with_catts o (Some (aset a e (acache_of o))) (c_atts_owner o).
Definition del_acache (o : xobj) (a : str) : xobj :=
  with_catts o (Some (aremove a (acache_of o))) (c_atts_owner o).

(* a mutation of the object set event[p]: store the new set, call the set's update callback *)
Definition mutate_set (i : nat) (o : xobj) (p : str) (f : list str -> list str) : xobj * list write :=
  let o1 := ensure_props i o in
  let '(objs, ow) := entry o1 p in
  (set_cache o1 p (f objs, ow), [WProp ow p (f objs)]).

(* local effect of one operation on the target object: its new cached views / attributes, the XML writes
   issued through update callbacks, and whether the call returned normally (false = KeyError) *)
Definition lstep (i : nat) (o : xobj) (e : eop) : xobj * list write * bool :=
  match e with
  | SetItem p vs =>
      (* a fresh object set bound to the event itself; the XML of the event is rewritten first, the
         cached view is built (from that XML) if it did not exist yet *)
      let o1 := ensure_props i (apply_write_obj o (WProp i p (sset vs))) in
      (set_cache (with_xprops o1 (x_props o)) p (sset vs, i), [WProp i p (sset vs)], true)
  | DelItem p =>
      match x_kind o with
      | KElement =>
          let o1 := ensure_props i o in
          match aget p (cache_of o1) with
          | Some _ => (del_cache o1 p, [WProp (c_props_owner o1) p []], true)
          | None => (o1, [], true)
          end
      | KParsed => (with_cprops o None i, [WProp i p []], true)
      end
  | ObjAdd p v => let '(o1, ws) := mutate_set i o p (set_add v) in (o1, ws, true)
  | ObjRemove p v =>
      let o1 := ensure_props i o in
      if mem v (fst (entry o1 p)) then let '(o2, ws) := mutate_set i o p (set_del v) in (o2, ws, true)
      else (set_cache o1 p (entry o1 p), [], false)
  | ObjDiscard p v => let '(o1, ws) := mutate_set i o p (set_del v) in (o1, ws, true)
  | ObjPop p v =>
      let o1 := ensure_props i o in
      if is_nil (fst (entry o1 p)) then (set_cache o1 p (entry o1 p), [], false)
      else let '(o2, ws) := mutate_set i o p (set_del v) in (o2, ws, true)
  | ObjClear p => let '(o1, ws) := mutate_set i o p (fun _ => []) in (o1, ws, true)
  | ObjUpdate p vs => let '(o1, ws) := mutate_set i o p (fun s => canon (vs ++ s)) in (o1, ws, true)
  | PropsSetItem p vs =>
      let o1 := ensure_props i o in
      (set_cache o1 p (sset vs, c_props_owner o1), [WProp (c_props_owner o1) p (sset vs)], true)
  | PropsDelItem p =>
      let o1 := ensure_props i o in
      match aget p (cache_of o1) with
      | Some _ => (del_cache o1 p, [WProp (c_props_owner o1) p []], true)
      | None => (o1, [], true)
      end
  | SetProperties m =>
      let c := fold_left (fun d kv => aset (fst kv) (sset (snd kv), i) d) m [] in
      (with_cprops o (Some c) i, WClearProps i :: map (fun kv => WProp i (fst kv) (fst (snd kv))) c, true)
  | SetAttachment a None | DelAttachment a =>
      let o1 := ensure_atts i o in
      match aget a (acache_of o1) with
      | Some _ => (del_acache o1 a, [WAtt (c_atts_owner o1) a []], true)
      | None => (o1, [], true)
      end
  | SetAttachment a (Some d) =>
      let o1 := ensure_atts i o in
      let d' := fold_left (fun acc iv => aset (fst iv) (snd iv) acc) d [] in
      (set_acache o1 a (d', c_atts_owner o1), [WAtt (c_atts_owner o1) a d'], true)
  | AttSetValue a id v =>
      let o1 := ensure_atts i o in
      let '(d, ow) := aentry o1 a in
      (set_acache o1 a (aset id v d, ow), [WAtt ow a (aset id v d)], true)
  | AttDelValue a id =>
      let o1 := ensure_atts i o in
      let '(d, ow) := aentry o1 a in
      (set_acache o1 a (aremove id d, ow), [WAtt ow a (aremove id d)], true)
  | SetParents ps => (with_attrs o (x_typ o) (x_src o) (canon ps) (x_foreign o), [], true)
  | AddParents ps => (with_attrs o (x_typ o) (x_src o) (canon (x_parents o ++ ps)) (x_foreign o), [], true)
  | SetType t => (with_attrs o t (x_src o) (x_parents o) (x_foreign o), [], true)
  | SetSource s => (with_attrs o (x_typ o) s (x_parents o) (x_foreign o), [], true)
  | SetForeign f => (with_attrs o (x_typ o) (x_src o) (x_parents o)
                                (fold_left (fun acc kv => aset (fst kv) (snd kv) acc) f []), [], true)
  | Flush => match x_kind o with
             | KParsed => (with_cprops o None i, [], true)
             | KElement => (o, [], true)
             end
  end.

Definition xstep (h : heap) (i : nat) (e : eop) : heap * bool :=
  match hget h i with
  | None => (h, true)
  | Some o => let '(o', ws, ok) := lstep i o e in
              (fold_left apply_write ws (hupd h i (fun _ => o')), ok)
  end.

(* ---- observations ---- *)
Definition view_props (o : xobj) (p : str) : list str :=
  match c_props o with
  | Some c => fst (odefault ([], 0) (aget p c))
  | None => odefault [] (aget p (x_props o))
  end.
Definition xml_props (o : xobj) (p : str) : list str := odefault [] (aget p (x_props o)).
Definition view_atts (o : xobj) (a : str) : list (str * str) :=
  match c_atts o with
  | Some c => fst (odefault ([], 0) (aget a c))
  | None => odefault [] (aget a (x_atts o))
  end.
Definition xml_atts (o : xobj) (a : str) : list (str * str) := odefault [] (aget a (x_atts o)).

(* ---- copies ---- *)
Inductive copyvariant := CopyFixed | CopyDeep.   (* create_from_event vs. the pre-fix deepcopy *)

Definition live_props (o : xobj) : list (str * list str) :=
  match c_props o with
  | Some c => filter (fun kv => negb (is_nil (snd kv))) (map (fun kv => (fst kv, fst (snd kv))) c)
  | None => x_props o
  end.
Definition live_atts (o : xobj) : atts_t :=
  match c_atts o with
  | Some c => filter (fun kv => negb (is_nil (snd kv))) (map (fun kv => (fst kv, fst (snd kv))) c)
  | None => x_atts o
  end.

Definition copy_obj (v : copyvariant) (o : xobj) (new : nat) : xobj :=
  match x_kind o, v with
  | KParsed, _ =>       (* deepcopy of the lxml element: the Python-side caches are not copied *)
      {| x_kind := KParsed; x_typ := x_typ o; x_src := x_src o; x_props := x_props o; x_atts := x_atts o;
         x_parents := x_parents o; x_foreign := x_foreign o; c_props := None; c_props_owner := new; c_atts := None; c_atts_owner := new |}
  | KElement, CopyFixed =>
      {| x_kind := KElement; x_typ := x_typ o; x_src := x_src o; x_props := live_props o; x_atts := live_atts o;
         x_parents := x_parents o; x_foreign := x_foreign o;
         c_props := Some (map (fun kv => (fst kv, (snd kv, new))) (live_props o)); c_props_owner := new;
         c_atts := Some (map (fun kv => (fst kv, (snd kv, new))) (live_atts o)); c_atts_owner := new |}
  | KElement, CopyDeep =>   (* the cached views are copied together with their callbacks, bound to the original *)
      {| x_kind := KElement; x_typ := x_typ o; x_src := x_src o; x_props := x_props o; x_atts := x_atts o;
         x_parents := x_parents o; x_foreign := x_foreign o;
         c_props := c_props o; c_props_owner := c_props_owner o; c_atts := c_atts o; c_atts_owner := c_atts_owner o |}
  end.

Inductive hop := Op (target : nat) (o : eop) | Copy (target : nat).

Definition hstep (v : copyvariant) (h : heap) (o : hop) : heap :=
  match o with
  | Op i e => fst (xstep h i e)
  | Copy i => match hget h i with
              | Some ob => h ++ [copy_obj v ob (length h)]
              | None => h
              end
  end.
Definition hrun (v : copyvariant) (h : heap) (ops : list hop) : heap := fold_left (hstep v) ops h.

(* initial object built from given content (caches not yet built) *)
Definition fresh (k : kind) (s : sstate) (i : nat) : xobj :=
  {| x_kind := k; x_typ := s_typ s; x_src := s_src s; x_props := s_props s; x_atts := s_atts s;
     x_parents := s_parents s; x_foreign := s_foreign s; c_props := None; c_props_owner := i; c_atts := None; c_atts_owner := i |}.
