(* C07 — observation functions used by the correspondence run (cases.v). *)
From EdxmlVerif Require Import Base.Prelude Base.Bytes Event.Repr.

Definition obs_t := (list (list str) * list (list (option str)) * list str * str * str * list (option str))%type.

Definition obs_view (o : xobj) (ps ats ids fks : list str) : obs_t :=
  (map (view_props o) ps, map (fun a => map (fun i => aget i (view_atts o a)) ids) ats,
   x_parents o, x_typ o, x_src o, map (fun k => aget k (x_foreign o)) fks).
Definition obs_xml (o : xobj) (ps ats ids fks : list str) : obs_t :=
  (map (xml_props o) ps, map (fun a => map (fun i => aget i (xml_atts o a)) ids) ats,
   x_parents o, x_typ o, x_src o, map (fun k => aget k (x_foreign o)) fks).
Definition obs_spec (s : sstate) (ps ats ids fks : list str) : obs_t :=
  (map (sget s) ps, map (fun a => map (fun i => aget i (sgeta s a)) ids) ats,
   s_parents s, s_typ s, s_src s, map (fun k => aget k (s_foreign s)) fks).

Definition ostr_eqb := option_eqb str_eqb.
Definition obs_eqb (a b : obs_t) : bool :=
  match a, b with
  | (p1, a1, r1, t1, s1, f1), (p2, a2, r2, t2, s2, f2) =>
      list_eqb strs_eqb p1 p2 && list_eqb (list_eqb ostr_eqb) a1 a2 && strs_eqb r1 r2 &&
      str_eqb t1 t2 && str_eqb s1 s2 && list_eqb ostr_eqb f1 f2
  end.

Fixpoint forall2b {A B} (f : A -> B -> bool) (l1 : list A) (l2 : list B) : bool :=
  match l1, l2 with
  | [], [] => true
  | x :: xs, y :: ys => f x y && forall2b f xs ys
  | _, _ => false
  end.

Fixpoint hrun_flags (h : heap) (ops : list hop) : heap * list bool :=
  match ops with
  | [] => (h, [])
  | Op i e :: r => let '(h1, ok) := xstep h i e in
                   let '(h2, fl) := hrun_flags h1 r in (h2, ok :: fl)
  | Copy i :: r => let '(h2, fl) := hrun_flags (hstep CopyFixed h (Copy i)) r in (h2, true :: fl)
  end.

Definition check_history (k : kind) (s0 : sstate) (ops : list hop) (ps ats ids fks : list str)
           (exp : list (obs_t * obs_t)) (flags : list bool) : bool :=
  let '(h, fl) := hrun_flags [fresh k s0 0] ops in
  list_eqb Bool.eqb fl flags &&
  forall2b (fun o e => obs_eqb (obs_view o ps ats ids fks) (fst e) && obs_eqb (obs_xml o ps ats ids fks) (snd e))
           h exp.

Fixpoint srun_flags (s : sstate) (ops : list eop) : sstate * list bool :=
  match ops with
  | [] => (s, [])
  | e :: r => let '(s1, ok) := sstep s e in let '(s2, fl) := srun_flags s1 r in (s2, ok :: fl)
  end.
Definition check_plain (s0 : sstate) (ops : list eop) (ps ats ids fks : list str) (exp : obs_t) (flags : list bool) : bool :=
  let '(s, fl) := srun_flags s0 ops in
  list_eqb Bool.eqb fl flags && obs_eqb (obs_spec s ps ats ids fks) exp.
