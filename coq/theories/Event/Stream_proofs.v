(* C05 — the buffering stream merger of edxml-merge realises the batching law: whatever the buffer size,
   the logical events of its output are the logical events of its input (model: Event/Stream.v). *)
From EdxmlVerif Require Import Base.Prelude Base.Bytes Event.Merge Event.Merge_proofs Event.Merge_order_proofs
  Event.Stream Event.Collection Event.Collection_proofs Event.Collection_perm.
From Coq Require Import Permutation Lia.

Lemma sel_app h a b : sel h (a ++ b) = sel h a ++ sel h b.
Proof. unfold sel. rewrite filter_app, map_app. reflexivity. Qed.

Lemma sel_notin h (o : list item) : ~ In h (akeys o) -> sel h o = [].
Proof.
  induction o as [|[k m] r IH]; intro Hn; [reflexivity|]. unfold sel in *. cbn [filter fst].
  destruct (str_eqb h k) eqn:E.
  - apply str_eqb_eq in E. subst k. exfalso. apply Hn. left. reflexivity.
  - apply IH. intro Hin. apply Hn. right. exact Hin.
Qed.

Lemma sel_nodup h (o : list item) : NoDup (akeys o) ->
  sel h o = match aget h o with Some m => [m] | None => [] end.
Proof.
  induction o as [|[k m] r IH]; intro ND; [reflexivity|]. cbn [akeys map fst] in ND. inversion ND as [|? ? Hn ND']; subst.
  unfold sel in *. cbn [filter fst aget]. destruct (str_eqb h k) eqn:E.
  - apply str_eqb_eq in E. subst k. cbn [map snd]. f_equal. apply (sel_notin h r Hn).
  - apply IH. exact ND'.
Qed.

Lemma group_by_app a : forall b acc, group_by (a ++ b) acc = group_by b (group_by a acc).
Proof. induction a as [|[h e] r IH]; intros b acc; cbn [app group_by]; [reflexivity | apply IH]. Qed.

Section StreamLaws.
  Variable rank : str -> str -> Z.
  Variable et : etype.
  Notation select := (select rank FirstSet et).
  Notation merge_core := (merge_core rank FirstSet et).
  Notation mrg := (mrg rank FirstSet et).
  Notation flush := (flush rank FirstSet et).
  Notation logical := (logical rank FirstSet et).
  Notation buffered := (buffered rank FirstSet et).

  Hypothesis no_version : et_version et = None.
  Hypothesis no_replace : forall p, strat_of et p <> SReplace.

  (* what a flush writes for a block of instances *)
  Definition rep (b : list mevent) : mevent := match b with [e] => e | _ => merge_core b end.

  (* valid events hold at most one object for a property merged by min / max *)
  Definition single_valued_extremes (e : mevent) : Prop :=
    forall p, match strat_of et p with SMin | SMax => length (get e p) <= 1 | _ => True end.

  Lemma allvals_gets evs p : allvals evs p = concat (map (fun e => get e p) evs).
  Proof. unfold allvals. apply flat_map_concat_map. Qed.

  Lemma select_gets evs evs' p :
    map (fun e => get e p) evs = map (fun e => get e p) evs' -> select evs p = select evs' p.
  Proof.
    intro H. unfold Merge.select. rewrite !allvals_gets, H.
    destruct (strat_of et p) eqn:S; try reflexivity. exfalso. exact (no_replace p S).
  Qed.

  Lemma get_single e p : wf e -> single_valued_extremes e -> strat_of et p <> SAdd ->
    get (merge_core [e]) p = get e p.
  Proof.
    intros W SV NA. rewrite (get_block rank et [e] p) by (constructor; [exact W | constructor]).
    unfold Merge.select. specialize (SV p). unfold allvals. cbn [flat_map map]. rewrite app_nil_r.
    destruct (strat_of et p) eqn:S.
    - cbn. destruct (get e p); reflexivity.
    - cbn. destruct (get e p); reflexivity.
    - contradiction.
    - cbn. destruct (get e p); reflexivity.
    - exfalso. exact (no_replace p S).
    - destruct (get e p) as [|x [|y r]]; cbn in *; try reflexivity. lia.
    - destruct (get e p) as [|x [|y r]]; cbn in *; try reflexivity. lia.
  Qed.

  Lemma get_single_add e p x : wf e -> strat_of et p = SAdd ->
    (In x (get (merge_core [e]) p) <-> In x (get e p)).
  Proof.
    intros W S. rewrite (get_block rank et [e] p) by (constructor; [exact W | constructor]).
    unfold Merge.select. rewrite S. unfold allvals. cbn [flat_map]. rewrite app_nil_r. apply dedup_In.
  Qed.

  Lemma rep_wf b : Forall wf b -> wf (rep b).
  Proof.
    intro W. destruct b as [|e [|e2 r]]; cbn [rep]; try apply wf_merged. inversion W; assumption.
  Qed.

  Lemma get_rep b p : Forall wf b -> Forall single_valued_extremes b -> strat_of et p <> SAdd ->
    get (rep b) p = get (merge_core b) p.
  Proof.
    intros W SV NA. destruct b as [|e [|e2 r]]; cbn [rep]; try reflexivity.
    symmetry. apply get_single; [inversion W; assumption | inversion SV; assumption | exact NA].
  Qed.

  Lemma get_rep_add b p x : Forall wf b -> strat_of et p = SAdd ->
    (In x (get (rep b) p) <-> In x (get (merge_core b) p)).
  Proof.
    intros W S. destruct b as [|e [|e2 r]]; cbn [rep]; try tauto.
    symmetry. apply get_single_add; [inversion W; assumption | exact S].
  Qed.

  (* batching with the written representatives *)
  Lemma select_reps (bs : list (list mevent)) p :
    Forall (Forall wf) bs -> Forall (Forall single_valued_extremes) bs ->
    seteq (select (map rep bs) p) (select (concat bs) p).
  Proof.
    intros W SV x. rewrite <- (select_blocks rank et bs p W (no_replace p) x).
    destruct (strat_of et p) eqn:S.
    1,2,4,5,6,7:
      (assert (select (map rep bs) p = select (map merge_core bs) p) as ->; [|tauto];
       apply select_gets; rewrite !map_map; apply map_ext_in; intros b Hb;
       rewrite Forall_forall in W, SV; apply get_rep; [apply W; exact Hb | apply SV; exact Hb | congruence]).
    unfold Merge.select. rewrite S, !dedup_In. unfold allvals. rewrite !in_flat_map.
    rewrite Forall_forall in W.
    split; intros (r & Hr & Hx); apply in_map_iff in Hr as (b & <- & Hb).
    - exists (merge_core b). split; [apply in_map; exact Hb|]. apply (get_rep_add b p x (W b Hb) S). exact Hx.
    - exists (rep b). split; [apply in_map; exact Hb|]. apply (get_rep_add b p x (W b Hb) S). exact Hx.
  Qed.

  Lemma parents_rep b h : In h (me_parents (rep b)) -> exists e, In e b /\ In h (me_parents e).
  Proof.
    destruct b as [|e [|e2 r]]; cbn [rep]; intro H; try (apply (merge_parents rank et) in H; exact H).
    exists e. split; [left; reflexivity | exact H].
  Qed.
  Lemma parents_rep' b e h : In e b -> In h (me_parents e) -> In h (me_parents (rep b)).
  Proof.
    intros He Hh. destruct b as [|e1 [|e2 r]]; cbn [rep]; try (apply (merge_parents rank et); eauto).
    destruct He as [<-|[]]. exact Hh.
  Qed.

  Lemma parents_reps (bs : list (list mevent)) h :
    In h (me_parents (merge_core (map rep bs))) <-> In h (me_parents (merge_core (concat bs))).
  Proof.
    rewrite !(merge_parents rank et). split.
    - intros (m & Hm & Hh). apply in_map_iff in Hm as (b & <- & Hb). apply parents_rep in Hh as (e & He & Hh).
      exists e. split; [apply in_concat; eauto | exact Hh].
    - intros (e & He & Hh). apply in_concat in He as (b & Hb & He). exists (rep b).
      split; [apply in_map; exact Hb | eapply parents_rep'; eassumption].
  Qed.

  Lemma tag_rep b : b <> [] -> me_tag (rep b) = match b with e :: _ => me_tag e | [] => 0%N end.
  Proof. destruct b as [|e [|e2 r]]; [contradiction | reflexivity | reflexivity]. Qed.

  Lemma merge_reps_eqb (bs : list (list mevent)) :
    Forall (fun b => b <> []) bs -> Forall (Forall wf) bs -> Forall (Forall single_valued_extremes) bs ->
    mevent_eqb (merge_core (map rep bs)) (merge_core (concat bs)) = true.
  Proof.
    intros NE W SV. unfold mevent_eqb. rewrite !andb_true_iff. split; [split|].
    - apply props_eqb_of_get; try apply wf_merged. intro p.
      rewrite (get_block rank et (map rep bs) p), (get_block rank et (concat bs) p).
      + apply select_reps; assumption.
      + apply Forall_concat. exact W.
      + apply Forall_forall. intros r Hr. apply in_map_iff in Hr as (b & <- & Hb). apply rep_wf.
        rewrite Forall_forall in W. apply W. exact Hb.
    - apply set_eqb_spec. intro h. apply parents_reps.
    - apply N.eqb_eq. cbn [me_tag Merge.merge_core]. destruct bs as [|b r]; [reflexivity|].
      inversion NE as [|? ? Hb _]; subst. cbn [map concat]. rewrite (tag_rep b Hb).
      destruct b as [|e b']; [contradiction | reflexivity].
  Qed.

  (* ---------- the buffering merger cuts the stream into consecutive segments ---------- *)
  Inductive batched : list item -> list item -> Prop :=
  | bt_end seg o : logical seg = Some o -> batched seg o
  | bt_cons seg rest o out : logical seg = Some o -> batched rest out -> batched (seg ++ rest) (o ++ out).

  Lemma buffered_batched n : forall s pre out,
    buffered true n (group_by pre []) (length pre) s = Some out -> batched (pre ++ s) out.
  Proof.
    induction s as [|[h e] r IH]; intros pre out H.
    - cbn [Stream.buffered] in H. rewrite app_nil_r. apply bt_end. exact H.
    - cbn [Stream.buffered] in H.
      assert (E : match aget h (group_by pre []) with
                  | None => aset h [e] (group_by pre [])
                  | Some l => aset h (l ++ [e]) (group_by pre [])
                  end = group_by (pre ++ [(h, e)]) []) by (rewrite group_by_app; reflexivity).
      rewrite E in H. clear E.
      destruct (Nat.leb n (S (length pre))).
      + destruct (flush (group_by (pre ++ [(h, e)]) [])) as [o|] eqn:F; [|discriminate].
        destruct (buffered true n [] 0 r) as [out'|] eqn:B; [|discriminate]. injection H as <-.
        pose proof (bt_cons (pre ++ [(h, e)]) r o out' F (IH [] out' B)) as X. rewrite <- app_assoc in X. exact X.
      + replace (S (length pre)) with (length (pre ++ [(h, e)])) in H by (rewrite app_length; cbn; lia).
        apply IH in H. rewrite <- app_assoc in H. exact H.
  Qed.

  Lemma group_val_rep b : group_val rank et b = match b with [] => None | _ => Some (Some (rep b)) end.
  Proof.
    destruct b as [|e [|e2 r]]; try reflexivity. cbn [group_val rep]. unfold Stream.mrg, merge. rewrite no_version. reflexivity.
  Qed.

  Lemma logical_total c : exists r, logical c = Some r.
  Proof.
    destruct (logical c) as [r|] eqn:E; [eauto|]. exfalso.
    apply (resolve_none rank et c) in E as (h & Hv). rewrite group_val_rep in Hv. destruct (sel h c); discriminate.
  Qed.

  Lemma logical_sel seg o h : logical seg = Some o ->
    sel h o = match sel h seg with [] => [] | b => [rep b] end.
  Proof.
    intro H. rewrite (sel_nodup h o (resolve_NoDup rank et seg o H)), (resolve_get rank et seg o h H), group_val_rep.
    destruct (sel h seg); reflexivity.
  Qed.

  Lemma batched_blocks s out h : batched s out ->
    exists bs, Forall (fun b => b <> []) bs /\ concat bs = sel h s /\ sel h out = map rep bs.
  Proof.
    induction 1 as [seg o L | seg rest o out L B (bs & NE & Cc & So)].
    - pose proof (logical_sel seg o h L) as S. destruct (sel h seg) as [|m l] eqn:Es.
      + exists []. repeat split; [constructor | exact S].
      + exists [m :: l]. repeat split; [constructor; [discriminate | constructor] | cbn; rewrite app_nil_r; reflexivity | exact S].
    - pose proof (logical_sel seg o h L) as S. rewrite !sel_app. destruct (sel h seg) as [|m l] eqn:Es.
      + exists bs. rewrite S. repeat split; assumption.
      + exists ((m :: l) :: bs). rewrite S. repeat split; [constructor; [discriminate | exact NE] | cbn [concat]; rewrite Cc; reflexivity | cbn [map app]; rewrite So; reflexivity].
  Qed.

  Definition val (l : list mevent) : option mevent := match l with [] => None | _ => Some (rep l) end.
  Lemma group_val_val l : match group_val rank et l with Some (Some m) => Some m | _ => None end = val l.
  Proof. rewrite group_val_rep. destruct l; reflexivity. Qed.

  Lemma val_blocks (bs : list (list mevent)) :
    Forall (fun b => b <> []) bs -> Forall (Forall wf) bs -> Forall (Forall single_valued_extremes) bs ->
    match val (map rep bs), val (concat bs) with
    | Some e, Some e' => mevent_eqb e e' = true
    | None, None => True
    | _, _ => False
    end.
  Proof.
    intros NE Wb SVb. destruct bs as [|b1 [|b2 r]].
    - exact I.
    - cbn [map concat]. rewrite app_nil_r. inversion NE as [|? ? Hb _]; subst.
      destruct b1 as [|e b']; [contradiction|]. cbn [val map]. change (rep [rep (e :: b')]) with (rep (e :: b')).
      apply mevent_eqb_refl. apply rep_wf. inversion Wb; assumption.
    - inversion NE as [|? ? Hb1 NE']; subst. inversion NE' as [|? ? Hb2 _]; subst.
      destruct b1 as [|e1 b1']; [contradiction|]. destruct b2 as [|e2 b2']; [contradiction|].
      assert (exists x y t, concat ((e1 :: b1') :: (e2 :: b2') :: r) = x :: y :: t) as (x & y & t & Ec).
      { cbn [concat app]. destruct b1' as [|z b1'']; cbn [app]; eauto. }
      pose proof (merge_reps_eqb ((e1 :: b1') :: (e2 :: b2') :: r) NE Wb SVb) as M.
      rewrite Ec in *. cbn [map val rep] in *. exact M.
  Qed.

  (* whatever the buffer size: the logical events of the output are the logical events of the input *)
  Theorem buffered_logical n s out :
    Forall (fun it => wf (snd it)) s -> Forall (fun it => single_valued_extremes (snd it)) s ->
    buffered true n [] 0 s = Some out ->
    exists r1 r2, logical out = Some r1 /\ logical s = Some r2 /\ forall h, agree_at r1 r2 h.
  Proof.
    intros W SV H. pose proof (buffered_batched n s [] out H) as B. cbn [app] in B.
    destruct (logical_total out) as [r1 R1]. destruct (logical_total s) as [r2 R2].
    exists r1, r2. split; [exact R1|]. split; [exact R2|]. intro h. unfold agree_at.
    rewrite (resolve_get rank et out r1 h R1), (resolve_get rank et s r2 h R2), !group_val_val.
    destruct (batched_blocks s out h B) as (bs & NE & Cc & So). rewrite So, <- Cc.
    apply val_blocks; [exact NE | |].
    - apply Forall_concat. rewrite Cc. apply sel_wf. exact W.
    - apply Forall_concat. rewrite Cc. apply Forall_forall. intros e He. apply sel_In in He.
      rewrite Forall_forall in SV. apply (SV (h, e) He).
  Qed.

  (* ---------- the unbuffered merger: one running merge per hash ---------- *)
  Notation fold_merger := (fold_merger rank FirstSet et).

  (* acc stands for the instances l seen so far *)
  Definition stands_for (acc : mevent) (l : list mevent) : Prop :=
    wf acc /\ single_valued_extremes acc /\
    (forall p, seteq (get acc p) (get (rep l) p)) /\
    (forall h, In h (me_parents acc) <-> In h (me_parents (rep l))) /\
    me_tag acc = me_tag (rep l).

  Lemma seteq_le1 (a b : list str) : length a <= 1 -> length b <= 1 -> seteq a b -> a = b.
  Proof.
    intros La Lb H. destruct a as [|x [|? ?]], b as [|y [|? ?]]; cbn in *; try lia; try reflexivity.
    - exfalso. apply (H y). left. reflexivity.
    - exfalso. apply (H x). left. reflexivity.
    - f_equal. destruct (proj1 (H x) (or_introl eq_refl)) as [E|[]]. congruence.
  Qed.

  Lemma merged_single_valued l : single_valued_extremes (merge_core l).
  Proof.
    intro p. destruct (strat_of et p) eqn:S; try exact I; rewrite (get_merged rank et l p);
      destruct (mem p (present l)); cbn; try lia; unfold Merge.select; rewrite S.
    - destruct (argmin rank p (allvals l p)); cbn; lia.
    - destruct (argmax rank p (allvals l p)); cbn; lia.
  Qed.

  Lemma rep_single_valued l : Forall single_valued_extremes l -> single_valued_extremes (rep l).
  Proof. intro H. destruct l as [|e [|e2 r]]; cbn [rep]; try apply merged_single_valued. inversion H; assumption. Qed.

  Lemma select_pair_congr a a' e p :
    single_valued_extremes a -> single_valued_extremes a' -> seteq (get a p) (get a' p) ->
    seteq (select [a; e] p) (select [a'; e] p).
  Proof.
    intros Sa Sa' H. unfold Merge.select, allvals. cbn [flat_map map]. rewrite !app_nil_r.
    specialize (Sa p). specialize (Sa' p).
    assert (FN : seteq (first_nonempty [get a p; get e p]) (first_nonempty [get a' p; get e p])).
    { cbn [first_nonempty]. destruct (get a p) as [|x r] eqn:Ea, (get a' p) as [|x' r'] eqn:Ea'; cbn [nonempty].
      - intro z. tauto.
      - exfalso. apply (H x'). left. reflexivity.
      - exfalso. apply (H x). left. reflexivity.
      - exact H. }
    destruct (strat_of et p) eqn:S; try exact FN.
    - intro z. rewrite !dedup_In, !in_app_iff. rewrite (H z). tauto.
    - exfalso. exact (no_replace p S).
    - rewrite (seteq_le1 _ _ Sa Sa' H). intro z. tauto.
    - rewrite (seteq_le1 _ _ Sa Sa' H). intro z. tauto.
  Qed.

  Lemma rep_app_single prev e : prev <> [] -> rep (prev ++ [e]) = merge_core (prev ++ [e]).
  Proof. destruct prev as [|x [|y r]]; [contradiction | reflexivity | reflexivity]. Qed.

  Lemma stands_for_step acc prev e :
    prev <> [] -> Forall wf prev -> Forall single_valued_extremes prev -> wf e -> single_valued_extremes e ->
    stands_for acc prev -> stands_for (merge_core [acc; e]) (prev ++ [e]).
  Proof.
    intros NE Wp SVp We SVe (Wa & SVa & G & P & T). unfold stands_for. rewrite (rep_app_single prev e NE).
    assert (Wl : Forall wf (prev ++ [e])) by (apply Forall_app; split; [exact Wp | constructor; [exact We | constructor]]).
    assert (W2 : Forall wf [acc; e]) by (repeat constructor; assumption).
    split; [apply wf_merged|]. split; [apply merged_single_valued|]. split; [|split].
    - intro p. rewrite (get_block rank et [acc; e] p W2), (get_block rank et (prev ++ [e]) p Wl).
      intro z. rewrite (select_pair_congr acc (rep prev) e p SVa (rep_single_valued prev SVp) (G p) z).
      pose proof (select_reps [prev; [e]] p) as R. cbn [map concat] in R. rewrite app_nil_r in R.
      change (rep [e]) with e in R. apply R.
      + constructor; [exact Wp | constructor; [constructor; [exact We | constructor] | constructor]].
      + constructor; [exact SVp | constructor; [constructor; [exact SVe | constructor] | constructor]].
    - intro h. rewrite !(merge_parents rank et). split.
      + intros (x & [<-|[<-|[]]] & Hh).
        * apply P in Hh. apply parents_rep in Hh as (y & Hy & Hh). exists y. split; [apply in_app_iff; left; exact Hy | exact Hh].
        * exists e. split; [apply in_app_iff; right; left; reflexivity | exact Hh].
      + intros (x & Hx & Hh). apply in_app_iff in Hx as [Hx|[<-|[]]].
        * exists acc. split; [left; reflexivity|]. apply P. eapply parents_rep'; eassumption.
        * exists e. split; [right; left; reflexivity | exact Hh].
    - cbn [me_tag Merge.merge_core]. rewrite T, (tag_rep prev NE). destruct prev as [|x r]; [contradiction | reflexivity].
  Qed.

  Lemma stands_for_self e : wf e -> single_valued_extremes e -> stands_for e [e].
  Proof. intros W SV. repeat split; auto; intro; tauto. Qed.

  (* invariant of the buffer after the prefix `pre` *)
  Definition buf_inv (buf : list (str * mevent)) (pre : list item) : Prop :=
    forall h, match aget h buf with
              | None => sel h pre = []
              | Some acc => sel h pre <> [] /\ stands_for acc (sel h pre)
              end.

  Lemma sel_snoc h pre k e : sel h (pre ++ [(k, e)]) = if str_eqb h k then sel h pre ++ [e] else sel h pre.
  Proof. rewrite sel_app. unfold sel at 2. cbn [filter fst]. destruct (str_eqb h k); cbn [map snd]; [reflexivity | apply app_nil_r]. Qed.

  Lemma fold_merger_inv : forall s pre buf out,
    Forall (fun it => wf (snd it)) (pre ++ s) -> Forall (fun it => single_valued_extremes (snd it)) (pre ++ s) ->
    buf_inv buf pre -> fold_merger buf s = Some out -> buf_inv out (pre ++ s).
  Proof.
    induction s as [|[k e] r IH]; intros pre buf out W SV Inv H.
    - cbn in H. injection H as <-. rewrite app_nil_r. exact Inv.
    - cbn [Stream.fold_merger] in H.
      assert (We : wf e) by (rewrite Forall_forall in W; apply (W (k, e)); apply in_app_iff; right; left; reflexivity).
      assert (SVe : single_valued_extremes e) by (rewrite Forall_forall in SV; apply (SV (k, e)); apply in_app_iff; right; left; reflexivity).
      assert (Wpre : forall h, Forall wf (sel h pre)).
      { intro h. apply sel_wf. apply Forall_app in W. tauto. }
      assert (SVpre : forall h, Forall single_valued_extremes (sel h pre)).
      { intro h. apply Forall_forall. intros x Hx. apply sel_In in Hx. rewrite Forall_forall in SV. apply (SV (h, x)). apply in_app_iff. left. exact Hx. }
      replace (pre ++ (k, e) :: r) with ((pre ++ [(k, e)]) ++ r) in * by (rewrite <- app_assoc; reflexivity).
      pose proof (Inv k) as Ik. destruct (aget k buf) as [acc|] eqn:G.
      + unfold Stream.mrg, merge in H. rewrite no_version in H.
        apply (IH (pre ++ [(k, e)]) (aset k (merge_core [acc; e]) buf) out W SV); [|exact H].
        intro h. rewrite sel_snoc. destruct (str_eqb h k) eqn:E.
        * apply str_eqb_eq in E. subst h. rewrite aget_aset_same. destruct Ik as [NEk Sk]. split.
          -- destruct (sel k pre); [contradiction | discriminate].
          -- apply stands_for_step; auto.
        * apply str_eqb_neq in E. rewrite aget_aset_other by congruence. apply Inv.
      + apply (IH (pre ++ [(k, e)]) (aset k e buf) out W SV); [|exact H].
        intro h. rewrite sel_snoc. destruct (str_eqb h k) eqn:E.
        * apply str_eqb_eq in E. subst h. rewrite aget_aset_same, Ik. cbn [app]. split; [discriminate | apply stands_for_self; assumption].
        * apply str_eqb_neq in E. rewrite aget_aset_other by congruence. apply Inv.
  Qed.

  Theorem fold_merger_logical s out :
    Forall (fun it => wf (snd it)) s -> Forall (fun it => single_valued_extremes (snd it)) s ->
    fold_merger [] s = Some out ->
    exists r2, logical s = Some r2 /\ forall h, agree_at out r2 h.
  Proof.
    intros W SV H. destruct (logical_total s) as [r2 R2]. exists r2. split; [exact R2|]. intro h.
    pose proof (fold_merger_inv s [] [] out W SV (fun h => eq_refl) H h) as I. cbn [app] in I.
    unfold agree_at. rewrite (resolve_get rank et s r2 h R2), group_val_val.
    destruct (aget h out) as [acc|].
    - destruct I as [NE (Wa & _ & G & P & T)]. unfold val. destruct (sel h s) as [|x l] eqn:Es; [contradiction|]. rewrite <- Es in *.
      unfold mevent_eqb. rewrite !andb_true_iff. split; [split|].
      + apply props_eqb_of_get; [exact Wa | apply rep_wf; apply sel_wf; exact W | exact G].
      + apply set_eqb_spec. exact P.
      + apply N.eqb_eq. exact T.
    - rewrite I. exact Logic.I.
  Qed.
End StreamLaws.
