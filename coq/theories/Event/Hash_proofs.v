(* C01 — proofs about the sticky-hash pre-image model. *)
From EdxmlVerif Require Import Base.Prelude Base.Bytes Event.Hash.
From Coq Require Import Permutation.

Definition OBJFMT : str := [37; 115; 58; 37; 115]%N.                      (* '%s:%s' *)
Definition LAYOUT : bytes := [37; 115; 10; 37; 115; 10; 37; 115]%N.        (* b'%s\n%s\n%s' *)

Lemma fmt_obj p v : fmt OBJFMT [p; v] = p ++ [58%N] ++ v.
Proof. cbn. rewrite app_nil_r. reflexivity. Qed.

Lemma fmt_layout a b c : fmt LAYOUT [a; b; c] = a ++ [10%N] ++ b ++ [10%N] ++ c.
Proof. cbn. rewrite app_nil_r. reflexivity. Qed.

Lemma object_string_spec p v : utf8 (fmt OBJFMT [p; v]) = spec_object_string p v.
Proof. rewrite fmt_obj, !utf8_app. reflexivity. Qed.

Lemma in_object_strings hashed props b :
  In b (object_strings OBJFMT hashed props) <->
  exists p vs v, In (p, vs) props /\ In v vs /\ mem p hashed = true /\ b = spec_object_string p v.
Proof.
  unfold object_strings. rewrite in_flat_map. split.
  - intros ([p vs] & Hin & Hb). cbn [fst snd] in Hb. destruct (mem p hashed) eqn:M; [|contradiction].
    apply in_map_iff in Hb as (v & <- & Hv). exists p, vs, v. rewrite object_string_spec. auto.
  - intros (p & vs & v & Hin & Hv & M & ->). exists (p, vs). split; [exact Hin|]. cbn [fst snd]. rewrite M.
    apply in_map_iff. exists v. rewrite object_string_spec. auto.
Qed.

(* the pre-image has exactly the specified byte layout, and the joined strings are
   the sorted, duplicate-free list of the identity set *)
Lemma preimage_spec hashed e :
  preimage SEP OBJFMT LAYOUT hashed e =
  spec_preimage (h_src e) (h_typ e) (canon (object_strings OBJFMT hashed (h_props e))).
Proof. unfold preimage, spec_preimage. rewrite fmt_layout. reflexivity. Qed.

Lemma canon_is_identity hashed e :
  let l := canon (object_strings OBJFMT hashed (h_props e)) in
  Sorted.StronglySorted le l /\ NoDup l /\ forall b, In b l <-> in_identity hashed e b.
Proof.
  cbn zeta. unfold canon. split; [apply sort_sorted|]. split.
  - eapply Permutation_NoDup; [apply sort_perm | apply dedup_NoDup].
  - intro b. unfold in_identity. rewrite <- in_object_strings.
    rewrite <- (dedup_In b (object_strings OBJFMT hashed (h_props e))).
    split; intro H; [eapply Permutation_in; [apply Permutation_sym, sort_perm | exact H]
                    | eapply Permutation_in; [apply sort_perm | exact H]].
Qed.

(* the hash input depends only on (source, type, identity set) *)
Lemma preimage_invariant hashed1 hashed2 e1 e2 :
  h_src e1 = h_src e2 -> h_typ e1 = h_typ e2 ->
  (forall b, in_identity hashed1 e1 b <-> in_identity hashed2 e2 b) ->
  preimage SEP OBJFMT LAYOUT hashed1 e1 = preimage SEP OBJFMT LAYOUT hashed2 e2.
Proof.
  intros Hs Ht Hi. rewrite !preimage_spec, Hs, Ht. f_equal.
  apply canon_set_ext. intro b. unfold in_identity in Hi. rewrite !in_object_strings. apply Hi.
Qed.

(* corollaries: property order, object order, non-hashed properties *)
Lemma identity_perm hashed src typ props1 props2 :
  Permutation props1 props2 ->
  forall b, in_identity hashed {| h_src := src; h_typ := typ; h_props := props1 |} b <->
            in_identity hashed {| h_src := src; h_typ := typ; h_props := props2 |} b.
Proof.
  intros P b. unfold in_identity; cbn. split; intros (p & vs & v & Hin & R);
    exists p, vs, v; (split; [|exact R]); eapply Permutation_in; try exact Hin; [exact P | apply Permutation_sym; exact P].
Qed.

Lemma preimage_property_order hashed src typ props1 props2 :
  Permutation props1 props2 ->
  preimage SEP OBJFMT LAYOUT hashed {| h_src := src; h_typ := typ; h_props := props1 |} =
  preimage SEP OBJFMT LAYOUT hashed {| h_src := src; h_typ := typ; h_props := props2 |}.
Proof. intro P. apply preimage_invariant; try reflexivity. apply identity_perm. exact P. Qed.

Lemma preimage_object_order hashed src typ pre post p vs1 vs2 :
  (forall v, In v vs1 <-> In v vs2) ->
  preimage SEP OBJFMT LAYOUT hashed {| h_src := src; h_typ := typ; h_props := pre ++ (p, vs1) :: post |} =
  preimage SEP OBJFMT LAYOUT hashed {| h_src := src; h_typ := typ; h_props := pre ++ (p, vs2) :: post |}.
Proof.
  intro E. apply preimage_invariant; try reflexivity. intro b. unfold in_identity; cbn.
  split; intros (q & ws & v & Hin & Hv & R); apply in_app_iff in Hin as [Hin|[Hin|Hin]];
    try (exists q, ws, v; split; [apply in_app_iff; auto | auto]; fail);
    try (exists q, ws, v; split; [apply in_app_iff; right; right; exact Hin | auto]; fail);
    injection Hin as <- <-.
  - exists p, vs2, v. split; [apply in_app_iff; right; left; reflexivity|]. split; [apply E; exact Hv | exact R].
  - exists p, vs1, v. split; [apply in_app_iff; right; left; reflexivity|]. split; [apply E; exact Hv | exact R].
Qed.

Lemma preimage_ignores_unhashed hashed src typ pre post p vs1 vs2 :
  mem p hashed = false ->
  preimage SEP OBJFMT LAYOUT hashed {| h_src := src; h_typ := typ; h_props := pre ++ (p, vs1) :: post |} =
  preimage SEP OBJFMT LAYOUT hashed {| h_src := src; h_typ := typ; h_props := pre ++ (p, vs2) :: post |}.
Proof.
  intro M. apply preimage_invariant; try reflexivity. intro b. unfold in_identity; cbn.
  split; intros (q & ws & v & Hin & Hv & Hm & R); apply in_app_iff in Hin as [Hin|[Hin|Hin]];
    try (exists q, ws, v; split; [apply in_app_iff; auto | auto]; fail);
    try (exists q, ws, v; split; [apply in_app_iff; right; right; exact Hin | auto]; fail);
    injection Hin as <- <-; congruence.
Qed.

(* ---- the memo of hashed properties never goes stale ---- *)
Definition cache_ok (st : etstate) : Prop :=
  match et_cache st with Some c => c = fresh_hashed (et_props st) | None => True end.

Lemma estep_cache_ok st o : cache_ok st -> cache_ok (estep true st o).
Proof.
  unfold cache_ok. intro H. destruct o as [p b|p b|p|]; cbn [estep].
  - destruct (aget p (et_props st)); [|exact H]. destruct (Bool.eqb b0 b); [exact H | exact I].
  - destruct (aget p (et_props st)); [exact H | exact I].
  - destruct (aget p (et_props st)); [exact I | exact H].
  - destruct (et_cache st) eqn:E; cbn; [rewrite E; exact H | reflexivity].
Qed.

Lemma get_hashed_fresh st : cache_ok st -> get_hashed st = fresh_hashed (et_props st).
Proof. unfold cache_ok, get_hashed. destruct (et_cache st); auto. Qed.

(* memo-free reference: recompute from the current properties at every call *)
Fixpoint erun_spec (props : list (str * bool)) (ops : list eop) : list (list str) :=
  match ops with
  | [] => []
  | o :: r =>
      let props' := et_props (estep true {| et_props := props; et_cache := None |} o) in
      match o with GetHashed => fresh_hashed props' :: erun_spec props' r | _ => erun_spec props' r end
  end.

Lemma estep_props_indep st o c :
  et_props (estep true st o) = et_props (estep true {| et_props := et_props st; et_cache := c |} o).
Proof.
  destruct o as [p b|p b|p|]; cbn [estep et_props].
  - destruct (aget p (et_props st)); [|reflexivity]. destruct (Bool.eqb b0 b); reflexivity.
  - destruct (aget p (et_props st)); reflexivity.
  - destruct (aget p (et_props st)); reflexivity.
  - destruct (et_cache st), c; reflexivity.
Qed.

Lemma memo_correct : forall ops st, cache_ok st -> erun true st ops = erun_spec (et_props st) ops.
Proof.
  induction ops as [|o r IH]; intros st H; cbn [erun erun_spec]; [reflexivity|].
  pose proof (estep_cache_ok st o H) as H'.
  rewrite <- (estep_props_indep st o None).
  destruct o; rewrite ?(get_hashed_fresh _ H'), (IH _ H'); reflexivity.
Qed.

(* a property whose strategy change does not notify the event type makes the memo stale *)
Definition w_p : str := [112]%N.
Lemma memo_stale_without_callback :
  erun false {| et_props := [(w_p, false)]; et_cache := None |} [GetHashed; SetMerge w_p true; GetHashed]
  <> erun_spec [(w_p, false)] [GetHashed; SetMerge w_p true; GetHashed].
Proof. vm_compute. discriminate. Qed.
