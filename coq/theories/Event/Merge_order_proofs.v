(* C05 — order, duplication and batching laws of the merge model (variant FirstSet). *)
From EdxmlVerif Require Import Base.Prelude Base.Bytes Event.Merge Event.Merge_proofs.
From Coq Require Import Permutation.

Section Order.
  Variable rank : str -> str -> Z.
  Variable et : etype.
  Notation select := (select rank FirstSet et).
  Notation merge_core := (merge_core rank FirstSet et).

  (* ---------- permutations ---------- *)
  Lemma allvals_perm evs evs' p x : Permutation evs evs' -> (In x (allvals evs p) <-> In x (allvals evs' p)).
  Proof.
    intro P. unfold allvals. rewrite !in_flat_map.
    split; intros (e & He & Hx); exists e; (split; [|exact Hx]); eapply Permutation_in; try eassumption.
    apply Permutation_sym; exact P.
  Qed.

  (* the data type's ordering distinguishes the objects that are present *)
  Definition rank_injective_on (p : str) (l : list str) : Prop :=
    forall x y, In x l -> In y l -> rank p x = rank p y -> x = y.

  Lemma select_perm_add evs evs' p : Permutation evs evs' -> strat_of et p = SAdd ->
    seteq (select evs p) (select evs' p).
  Proof.
    intros P Hs x. unfold Merge.select. rewrite Hs, !dedup_In. apply allvals_perm. exact P.
  Qed.

  Lemma select_perm_min evs evs' p : Permutation evs evs' -> strat_of et p = SMin ->
    rank_injective_on p (allvals evs p) -> select evs p = select evs' p.
  Proof.
    intros P Hs Inj.
    destruct (allvals evs p) as [|v0 vs0] eqn:E.
    - assert (allvals evs' p = []) as E'.
      { destruct (allvals evs' p) as [|y ys] eqn:E'; [reflexivity|]. exfalso.
        assert (In y (allvals evs p)) by (apply (allvals_perm evs evs' p y P); rewrite E'; left; reflexivity).
        rewrite E in H. contradiction. }
      unfold Merge.select. rewrite Hs, E, E'. reflexivity.
    - assert (N1 : allvals evs p <> []) by (rewrite E; discriminate).
      assert (N2 : allvals evs' p <> []).
      { intro H. assert (In v0 (allvals evs' p)) by (apply (allvals_perm evs evs' p v0 P); rewrite E; left; reflexivity).
        rewrite H in H0. contradiction. }
      destruct (select_min rank et evs p Hs N1) as (r & Er & Hin & Hmin).
      destruct (select_min rank et evs' p Hs N2) as (r' & Er' & Hin' & Hmin').
      rewrite Er, Er'. f_equal. f_equal. rewrite <- E in Inj. apply Inj; [exact Hin | apply (allvals_perm evs evs' p r' P); exact Hin' |].
      apply Z.le_antisymm; [apply Hmin; apply (allvals_perm evs evs' p r' P); exact Hin' | apply Hmin'; apply (allvals_perm evs evs' p r P); exact Hin].
  Qed.

  Lemma select_perm_max evs evs' p : Permutation evs evs' -> strat_of et p = SMax ->
    rank_injective_on p (allvals evs p) -> select evs p = select evs' p.
  Proof.
    intros P Hs Inj.
    destruct (allvals evs p) as [|v0 vs0] eqn:E.
    - assert (allvals evs' p = []) as E'.
      { destruct (allvals evs' p) as [|y ys] eqn:E'; [reflexivity|]. exfalso.
        assert (In y (allvals evs p)) by (apply (allvals_perm evs evs' p y P); rewrite E'; left; reflexivity).
        rewrite E in H. contradiction. }
      unfold Merge.select. rewrite Hs, E, E'. reflexivity.
    - assert (N1 : allvals evs p <> []) by (rewrite E; discriminate).
      assert (N2 : allvals evs' p <> []).
      { intro H. assert (In v0 (allvals evs' p)) by (apply (allvals_perm evs evs' p v0 P); rewrite E; left; reflexivity).
        rewrite H in H0. contradiction. }
      destruct (select_max rank et evs p Hs N1) as (r & Er & Hin & Hmax).
      destruct (select_max rank et evs' p Hs N2) as (r' & Er' & Hin' & Hmax').
      rewrite Er, Er'. f_equal. f_equal. rewrite <- E in Inj. apply Inj; [exact Hin | apply (allvals_perm evs evs' p r' P); exact Hin' |].
      apply Z.le_antisymm; [apply Hmax'; apply (allvals_perm evs evs' p r P); exact Hin | apply Hmax; apply (allvals_perm evs evs' p r' P); exact Hin'].
  Qed.

  Lemma select_perm_match evs evs' p e0 : Permutation evs evs' -> strat_of et p = SMatch ->
    In e0 evs -> (forall e, In e evs -> seteq (get e p) (get e0 p)) ->
    seteq (select evs p) (select evs' p).
  Proof.
    intros P Hs H0 Hall x.
    assert (Ne : evs <> []) by (intro; subst; contradiction).
    assert (Ne' : evs' <> []) by (intro; subst; apply Permutation_sym, Permutation_nil in P; contradiction).
    pose proof (select_match rank et evs p (get e0 p) Hs Ne Hall x) as A.
    assert (Hall' : forall e, In e evs' -> seteq (get e p) (get e0 p))
      by (intros e He; apply Hall; eapply Permutation_in; [apply Permutation_sym; exact P | exact He]).
    pose proof (select_match rank et evs' p (get e0 p) Hs Ne' Hall' x) as B. tauto.
  Qed.

  (* ---------- duplicates ---------- *)
  Lemma first_nonempty_repeat (l : list str) n : first_nonempty (repeat l (S n)) = l.
  Proof.
    destruct l as [|x xs]; cbn [repeat first_nonempty nonempty]; [|reflexivity].
    induction n as [|n IH]; cbn; [reflexivity | exact IH].
  Qed.

  Lemma map_repeat' {A B} (f : A -> B) x n : map f (repeat x n) = repeat (f x) n.
  Proof. induction n as [|n IH]; cbn; [reflexivity | rewrite IH; reflexivity]. Qed.

  Lemma allvals_repeat e p n x : In x (allvals (repeat e (S n)) p) <-> In x (get e p).
  Proof.
    unfold allvals. rewrite in_flat_map. split.
    - intros (e' & He & Hx). apply repeat_spec in He. subst. exact Hx.
    - intro H. exists e. split; [left; reflexivity | exact H].
  Qed.

  (* merging an event with copies of itself returns an equal event (min/max/replace
     properties are single-valued, as the ontology requires) *)
  Lemma select_dup e n p :
    (match strat_of et p with SMin | SMax => length (get e p) <= 1 | _ => True end) ->
    seteq (select (repeat e (S n)) p) (get e p).
  Proof.
    intro H1. unfold Merge.select.
    assert (FN : first_nonempty (map (fun e' => get e' p) (repeat e (S n))) = get e p)
      by (rewrite map_repeat'; apply first_nonempty_repeat).
    destruct (strat_of et p) eqn:St; try (rewrite FN; intro; tauto).
    - intro x. rewrite dedup_In. apply allvals_repeat.
    - assert (last (repeat e (S n)) {| me_props := []; me_parents := []; me_tag := 0 |} = e) as ->.
      { clear. induction n as [|n IH]; [reflexivity|]. change (repeat e (S (S n))) with (e :: repeat e (S n)).
        cbn [last]. cbn [repeat] in *. exact IH. }
      cbn [repeat]. intro; tauto.
    - destruct (get e p) as [|a [|b r]] eqn:G; [| |cbn in H1; lia].
      + assert (allvals (repeat e (S n)) p = []) as ->; [|intro; tauto].
        destruct (allvals (repeat e (S n)) p) as [|y ys] eqn:E; [reflexivity|]. exfalso.
        assert (In y (get e p)) by (apply (allvals_repeat e p n y); rewrite E; left; reflexivity). rewrite G in H. contradiction.
      + assert (Ne : allvals (repeat e (S n)) p <> []).
        { intro E. assert (In a (allvals (repeat e (S n)) p)) by (apply allvals_repeat; rewrite G; left; reflexivity).
          rewrite E in H. contradiction. }
        destruct (argmin_spec rank p _ Ne) as (r & Er & Hin & _). rewrite Er.
        apply allvals_repeat in Hin. rewrite G in Hin. destruct Hin as [<-|[]]. intro; tauto.
    - destruct (get e p) as [|a [|b r]] eqn:G; [| |cbn in H1; lia].
      + assert (allvals (repeat e (S n)) p = []) as ->; [|intro; tauto].
        destruct (allvals (repeat e (S n)) p) as [|y ys] eqn:E; [reflexivity|]. exfalso.
        assert (In y (get e p)) by (apply (allvals_repeat e p n y); rewrite E; left; reflexivity). rewrite G in H. contradiction.
      + assert (Ne : allvals (repeat e (S n)) p <> []).
        { intro E. assert (In a (allvals (repeat e (S n)) p)) by (apply allvals_repeat; rewrite G; left; reflexivity).
          rewrite E in H. contradiction. }
        destruct (argmax_spec rank p _ Ne) as (r & Er & Hin & _). rewrite Er.
        apply allvals_repeat in Hin. rewrite G in Hin. destruct Hin as [<-|[]]. intro; tauto.
  Qed.

  (* ---------- batching: merging partial merges = merging everything ---------- *)
  (* select on a list of events whose objects for p are given by `ls` *)
  Lemma first_nonempty_concat (bs : list (list (list str))) :
    first_nonempty (map first_nonempty bs) = first_nonempty (concat bs).
  Proof.
    induction bs as [|b r IH]; cbn; [reflexivity|].
    induction b as [|l b' IHb]; cbn.
    - exact IH.
    - destruct l as [|x xs]; cbn [nonempty]; [|reflexivity]. exact IHb.
  Qed.

  Definition pick_min p (a b : option str) : option str :=
    match a, b with
    | None, _ => b
    | _, None => a
    | Some x, Some y => if (rank p x <=? rank p y)%Z then Some x else Some y
    end.

  Lemma argmin_app p l1 l2 : argmin rank p (l1 ++ l2) = pick_min p (argmin rank p l1) (argmin rank p l2).
  Proof.
    induction l1 as [|x xs IH]; cbn [app argmin]; [destruct (argmin rank p l2); reflexivity|].
    rewrite IH. destruct (argmin rank p xs) as [a|], (argmin rank p l2) as [b|]; cbn [pick_min]; try reflexivity.
    all: repeat (match goal with |- context [(?u <=? ?w)%Z] => destruct (Z.leb_spec u w) end; cbn [pick_min]);
      try reflexivity; exfalso; lia.
  Qed.

  Definition pick_max p (a b : option str) : option str :=
    match a, b with
    | None, _ => b
    | _, None => a
    | Some x, Some y => if (rank p y <=? rank p x)%Z then Some x else Some y
    end.

  Lemma argmax_app p l1 l2 : argmax rank p (l1 ++ l2) = pick_max p (argmax rank p l1) (argmax rank p l2).
  Proof.
    induction l1 as [|x xs IH]; cbn [app argmax]; [destruct (argmax rank p l2); reflexivity|].
    rewrite IH. destruct (argmax rank p xs) as [a|], (argmax rank p l2) as [b|]; cbn [pick_max]; try reflexivity.
    all: repeat (match goal with |- context [(?u <=? ?w)%Z] => destruct (Z.leb_spec u w) end; cbn [pick_max]);
      try reflexivity; exfalso; lia.
  Qed.

  Definition olist (o : option str) : list str := match o with Some x => [x] | None => [] end.

  Lemma argmin_blocks p (bs : list (list str)) :
    argmin rank p (flat_map (fun b => olist (argmin rank p b)) bs) = argmin rank p (concat bs).
  Proof.
    induction bs as [|b r IH]; cbn [flat_map concat]; [reflexivity|].
    rewrite !argmin_app, IH. destruct (argmin rank p b) as [x|] eqn:E; cbn [olist argmin]; reflexivity.
  Qed.
  Lemma argmax_blocks p (bs : list (list str)) :
    argmax rank p (flat_map (fun b => olist (argmax rank p b)) bs) = argmax rank p (concat bs).
  Proof.
    induction bs as [|b r IH]; cbn [flat_map concat]; [reflexivity|].
    rewrite !argmax_app, IH. destruct (argmax rank p b) as [x|] eqn:E; cbn [olist argmax]; reflexivity.
  Qed.

  (* reading p from a merged block *)
  Lemma select_absent evs p : (forall e, In e evs -> get e p = []) -> select evs p = [].
  Proof.
    intro H. unfold Merge.select.
    assert (AV : allvals evs p = []).
    { unfold allvals. induction evs as [|e r IH]; [reflexivity|]. cbn. rewrite (H e (or_introl eq_refl)). cbn.
      apply IH. intros e' He'. apply H. right. exact He'. }
    assert (FN : first_nonempty (map (fun e => get e p) evs) = []).
    { induction evs as [|e r IH]; [reflexivity|]. cbn. rewrite (H e (or_introl eq_refl)). cbn.
      apply IH; [intros e' He'; apply H; right; exact He' |].
      unfold allvals in *. cbn in AV. rewrite (H e (or_introl eq_refl)) in AV. exact AV. }
    destruct (strat_of et p); rewrite ?AV, ?FN; try reflexivity.
    destruct evs as [|e0 r]; [reflexivity|]. apply H.
    destruct (@exists_last _ (e0 :: r)) as (l' & a & E); [discriminate|]. rewrite E, last_last. apply in_app_iff. right. left. reflexivity.
  Qed.

  Lemma get_block b p : Forall wf b -> get (merge_core b) p = select b p.
  Proof.
    intro W. rewrite get_merged. destruct (mem p (present b)) eqn:M; [reflexivity|].
    symmetry. apply select_absent. intros e He. destruct (get e p) eqn:G; [reflexivity|]. exfalso.
    assert (mem p (present b) = true) by (apply present_spec; [exact W|]; exists e; split; [exact He | congruence]).
    congruence.
  Qed.

  Lemma allvals_concat (bs : list (list mevent)) p :
    allvals (concat bs) p = concat (map (fun b => allvals b p) bs).
  Proof. unfold allvals. induction bs as [|b r IH]; cbn; [reflexivity|]. rewrite flat_map_app, IH. reflexivity. Qed.

  (* generalised bracketing: any partition of a group into consecutive blocks *)
  Lemma select_blocks (bs : list (list mevent)) p :
    Forall (Forall wf) bs -> strat_of et p <> SReplace ->
    seteq (select (map merge_core bs) p) (select (concat bs) p).
  Proof.
    intros W NR.
    assert (G : map (fun e => get e p) (map merge_core bs) = map (fun b => select b p) bs).
    { rewrite map_map. apply map_ext_in. intros b Hb. apply get_block. rewrite Forall_forall in W. apply W. exact Hb. }
    assert (A : allvals (map merge_core bs) p = flat_map (fun b => select b p) bs).
    { unfold allvals. rewrite flat_map_concat_map, G, <- flat_map_concat_map. reflexivity. }
    unfold Merge.select at 1 2. rewrite G, A.
    assert (FN : first_nonempty (map (fun b => select b p) bs) = first_nonempty (map (fun e => get e p) (concat bs)) ->
                 forall x, In x (first_nonempty (map (fun b => select b p) bs)) <-> In x (first_nonempty (map (fun e => get e p) (concat bs))))
      by (intros -> x; tauto).
    assert (FNeq : (forall b, select b p = first_nonempty (map (fun e => get e p) b)) ->
                   first_nonempty (map (fun b => select b p) bs) = first_nonempty (map (fun e => get e p) (concat bs))).
    { intro H. rewrite (map_ext _ _ H), concat_map, <- first_nonempty_concat, map_map. reflexivity. }
    unfold seteq. destruct (strat_of et p) eqn:S; try contradiction.
    - apply FN, FNeq. intro b. unfold Merge.select. rewrite S. reflexivity.
    - apply FN, FNeq. intro b. unfold Merge.select. rewrite S. reflexivity.
    - intro x. rewrite !dedup_In, allvals_concat, in_flat_map, in_concat. split.
      + intros (b & Hb & Hx). unfold Merge.select in Hx. rewrite S in Hx. apply (dedup_In x (allvals b p)) in Hx.
        exists (allvals b p). split; [apply in_map_iff; eauto | exact Hx].
      + intros (l & Hl & Hx). apply in_map_iff in Hl as (b & <- & Hb). exists b. split; [exact Hb|].
        unfold Merge.select. rewrite S. apply dedup_In. exact Hx.
    - apply FN, FNeq. intro b. unfold Merge.select. rewrite S. reflexivity.
    - assert (flat_map (fun b => select b p) bs = flat_map (fun b => olist (argmin rank p b)) (map (fun b => allvals b p) bs)) as ->.
      { rewrite flat_map_concat_map, flat_map_concat_map, map_map. f_equal. apply map_ext. intro b.
        unfold Merge.select. rewrite S. destruct (argmin rank p (allvals b p)); reflexivity. }
      rewrite argmin_blocks, allvals_concat. intro; tauto.
    - assert (flat_map (fun b => select b p) bs = flat_map (fun b => olist (argmax rank p b)) (map (fun b => allvals b p) bs)) as ->.
      { rewrite flat_map_concat_map, flat_map_concat_map, map_map. f_equal. apply map_ext. intro b.
        unfold Merge.select. rewrite S. destruct (argmax rank p (allvals b p)); reflexivity. }
      rewrite argmax_blocks, allvals_concat. intro; tauto.
  Qed.

  Lemma parents_blocks (bs : list (list mevent)) h :
    In h (me_parents (merge_core (map merge_core bs))) <-> In h (me_parents (merge_core (concat bs))).
  Proof.
    rewrite !merge_parents. split.
    - intros (m & Hm & Hh). apply in_map_iff in Hm as (b & <- & Hb). apply merge_parents in Hh as (e & He & Hh).
      exists e. split; [apply in_concat; eauto | exact Hh].
    - intros (e & He & Hh). apply in_concat in He as (b & Hb & He). exists (merge_core b).
      split; [apply in_map; exact Hb | apply merge_parents; eauto].
  Qed.
End Order.

Section ReplaceOrder.
  Variable rank : str -> str -> Z.
  Variable et : etype.

  (* replace under an event version: the result does not depend on arrival order *)
  Lemma replace_perm vp g g' p m :
    et_version et = Some vp -> Permutation g g' -> g <> [] ->
    merge rank FirstSet et g = Some m ->                                 (* no merge conflict *)
    (forall a b, In a g -> In b g -> vkey rank vp a = vkey rank vp b -> version_str vp a = version_str vp b) ->
    strat_of et p = SReplace -> In p (map fst (et_strat et)) ->
    seteq (select rank FirstSet et (vsort rank vp g) p) (select rank FirstSet et (vsort rank vp g') p).
  Proof.
    intros Hv P Hne Hm Hfaith Hs Hdecl.
    assert (Hne' : g' <> []) by (intro; subst; apply Permutation_sym, Permutation_nil in P; contradiction).
    destruct (merged_replace rank et vp g p Hv Hne Hs) as (t & Ht & Hmax & ->).
    destruct (merged_replace rank et vp g' p Hv Hne' Hs) as (t' & Ht' & Hmax' & ->).
    assert (Ht'g : In t' g) by (eapply Permutation_in; [apply Permutation_sym; exact P | exact Ht']).
    assert (K : vkey rank vp t = vkey rank vp t').
    { apply Z.le_antisymm; [apply Hmax'; eapply Permutation_in; eassumption | apply Hmax; exact Ht'g]. }
    specialize (Hfaith t t' Ht Ht'g K).
    destruct (differ et t t') eqn:D.
    - exfalso. assert (merge rank FirstSet et g = None); [|congruence].
      apply conflict_iff. exists vp. split; [exact Hv|]. exists t, t'. auto.
    - unfold differ in D. apply in_map_iff in Hdecl as ([k s] & <- & Hin). cbn [fst].
      assert (negb (set_eqb (get t k) (get t' k)) = false) as E.
      { destruct (negb (set_eqb (get t k) (get t' k))) eqn:E; [|reflexivity].
        assert (existsb (fun kv => negb (set_eqb (get t (fst kv)) (get t' (fst kv)))) (et_strat et) = true)
          by (apply existsb_exists; exists (k, s); auto). congruence. }
      apply negb_false_iff in E. apply set_eqb_spec. exact E.
  Qed.
End ReplaceOrder.
