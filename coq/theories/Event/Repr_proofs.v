(* C07 — proofs about the representation model. *)
From EdxmlVerif Require Import Base.Prelude Base.Bytes Event.Repr.

(* ---- association list facts ---- *)
Section AssocMore.
  Context {V : Type}.
  Implicit Types d : list (str * V).
  Lemma aget_aremove_same k d : aget k (aremove k d) = None.
  Proof. induction d as [|[k' v] r IH]; cbn; [reflexivity|]. destruct (str_eqb k k') eqn:E; cbn; [exact IH | rewrite E; exact IH]. Qed.
  Lemma aget_aremove_other k k' d : k <> k' -> aget k' (aremove k d) = aget k' d.
  Proof.
    intro N. induction d as [|[k2 v] r IH]; cbn; [reflexivity|]. destruct (str_eqb k k2) eqn:E; cbn.
    - apply str_eqb_eq in E; subst k2. assert (str_eqb k' k = false) as -> by (apply str_eqb_neq; congruence). exact IH.
    - rewrite IH. reflexivity.
  Qed.
  Lemma aget_aput_same (e : V -> bool) k v d : aget k (aput e k v d) = if e v then None else Some v.
  Proof. unfold aput. destruct (e v); [apply aget_aremove_same | apply aget_aset_same]. Qed.
  Lemma aget_aput_other (e : V -> bool) k k' v d : k <> k' -> aget k' (aput e k v d) = aget k' d.
  Proof. intro N. unfold aput. destruct (e v); [apply aget_aremove_other | apply aget_aset_other]; exact N. Qed.
End AssocMore.

Lemma aget_map_snd {V W} (f : V -> W) (d : list (str * V)) k :
  aget k (map (fun kv => (fst kv, f (snd kv))) d) = option_map f (aget k d).
Proof. induction d as [|[k' v] r IH]; cbn; [reflexivity|]. destruct (str_eqb k k'); [reflexivity | exact IH]. Qed.

(* ---- heap facts ---- *)
Lemma hget_hupd_same h i f o : hget h i = Some o -> hget (hupd h i f) i = Some (f o).
Proof.
  revert i; induction h as [|x r IH]; intros [|i]; cbn; try discriminate.
  - intro H; injection H as ->; reflexivity.
  - apply IH.
Qed.
Lemma hget_hupd_other h i j f : i <> j -> hget (hupd h i f) j = hget h j.
Proof.
  revert i j; induction h as [|x r IH]; intros [|i] [|j] N; cbn; try reflexivity; try contradiction.
  apply IH. congruence.
Qed.
Lemma hupd_length h i f : length (hupd h i f) = length h.
Proof. revert i; induction h as [|x r IH]; intros [|i]; cbn; auto. Qed.
Lemma hget_hupd_none h i f : hget h i = None -> hupd h i f = h.
Proof. revert i; induction h as [|x r IH]; intros [|i]; cbn; try discriminate; auto. intro H. rewrite IH; auto. Qed.

Lemma hupd_hupd_const h i x f : hupd (hupd h i (fun _ => x)) i f = hupd h i (fun _ => f x).
Proof. revert i; induction h as [|y r IH]; intros [|i]; cbn; try reflexivity. rewrite IH. reflexivity. Qed.

(* ---- ownership: every update callback of object i is bound to object i itself ---- *)
Definition owned (i : nat) (o : xobj) : Prop :=
  c_props_owner o = i /\ c_atts_owner o = i /\
  (forall p e, aget p (cache_of o) = Some e -> snd e = i) /\
  (forall a e, aget a (acache_of o) = Some e -> snd e = i).

(* the object after its own XML writes have been applied *)
Definition settle (o : xobj) (ws : list write) : xobj := fold_left apply_write_obj ws o.
Definition ostep (i : nat) (o : xobj) (e : eop) : xobj * bool :=
  let '(o', ws, ok) := lstep i o e in (settle o' ws, ok).

Lemma apply_writes_local h i x ws :
  Forall (fun w => w_owner w = i) ws ->
  fold_left apply_write ws (hupd h i (fun _ => x)) = hupd h i (fun _ => settle x ws).
Proof.
  revert x. induction ws as [|w r IH]; intros x F; cbn; [reflexivity|].
  inversion F as [|w' r' Hw Fr E1]. unfold apply_write at 2. rewrite Hw, hupd_hupd_const. apply IH. exact Fr.
Qed.

Lemma aget_aset_inv {V} k k' (v e : V) d : aget k' (aset k v d) = Some e -> (k' = k /\ e = v) \/ aget k' d = Some e.
Proof.
  destruct (str_eqb k k') eqn:E.
  - apply str_eqb_eq in E; subst. rewrite aget_aset_same. intro H; injection H as <-. left; auto.
  - apply str_eqb_neq in E. rewrite aget_aset_other by exact E. auto.
Qed.
Lemma aget_aremove_inv {V} k k' (e : V) d : aget k' (aremove k d) = Some e -> aget k' d = Some e.
Proof.
  destruct (str_eqb k k') eqn:E.
  - apply str_eqb_eq in E; subst. rewrite aget_aremove_same. discriminate.
  - apply str_eqb_neq in E. rewrite aget_aremove_other by exact E. auto.
Qed.

Lemma owned_ensure_props i o : owned i o -> owned i (ensure_props i o).
Proof.
  intros (H1 & H2 & H3 & H4). unfold ensure_props. destruct (c_props o) eqn:C; [repeat split; assumption|].
  repeat split; cbn; try assumption; try reflexivity.
  intros p e H. unfold cache_of in H; cbn in H.
  rewrite (aget_map_snd (fun vs : list str => (vs, i))) in H. destruct (aget p (x_props o)); cbn in H; [injection H as <-; reflexivity | discriminate].
Qed.
Lemma owned_ensure_atts i o : owned i o -> owned i (ensure_atts i o).
Proof.
  intros (H1 & H2 & H3 & H4). unfold ensure_atts. destruct (c_atts o) eqn:C; [repeat split; assumption|].
  repeat split; cbn; try assumption; try reflexivity.
  intros p e H. unfold acache_of in H; cbn in H.
  rewrite (aget_map_snd (fun vs : list (str * str) => (vs, i))) in H. destruct (aget p (x_atts o)); cbn in H; [injection H as <-; reflexivity | discriminate].
Qed.

Lemma entry_owner i o p : owned i o -> snd (entry o p) = i.
Proof.
  intros (H1 & _ & H3 & _). unfold entry. destruct (aget p (cache_of o)) eqn:G; cbn; [apply (H3 p); exact G | exact H1].
Qed.
Lemma aentry_owner i o a : owned i o -> snd (aentry o a) = i.
Proof.
  intros (_ & H2 & _ & H4). unfold aentry. destruct (aget a (acache_of o)) eqn:G; cbn; [apply (H4 a); exact G | exact H2].
Qed.

Lemma owned_set_cache i o p vs : owned i o -> owned i (set_cache o p (vs, i)).
Proof.
  intros (H1 & H2 & H3 & H4). repeat split; cbn; try assumption.
  intros q e H. unfold cache_of in H; cbn in H. apply aget_aset_inv in H as [[_ ->]|H]; [reflexivity | apply (H3 q); exact H].
Qed.
Lemma owned_del_cache i o p : owned i o -> owned i (del_cache o p).
Proof.
  intros (H1 & H2 & H3 & H4). repeat split; cbn; try assumption.
  intros q e H. unfold cache_of in H; cbn in H. apply aget_aremove_inv in H. apply (H3 q); exact H.
Qed.
Lemma owned_set_acache i o a d : owned i o -> owned i (set_acache o a (d, i)).
Proof.
  intros (H1 & H2 & H3 & H4). repeat split; cbn; try assumption.
  intros q e H. unfold acache_of in H; cbn in H. apply aget_aset_inv in H as [[_ ->]|H]; [reflexivity | apply (H4 q); exact H].
Qed.
Lemma owned_del_acache i o a : owned i o -> owned i (del_acache o a).
Proof.
  intros (H1 & H2 & H3 & H4). repeat split; cbn; try assumption.
  intros q e H. unfold acache_of in H; cbn in H. apply aget_aremove_inv in H. apply (H4 q); exact H.
Qed.
Lemma owned_with_xprops i o d : owned i o -> owned i (with_xprops o d).
Proof. intros (H1 & H2 & H3 & H4). repeat split; assumption. Qed.
Lemma owned_with_xatts i o d : owned i o -> owned i (with_xatts o d).
Proof. intros (H1 & H2 & H3 & H4). repeat split; assumption. Qed.
Lemma owned_with_attrs i o t s ps f : owned i o -> owned i (with_attrs o t s ps f).
Proof. intros (H1 & H2 & H3 & H4). repeat split; assumption. Qed.
Lemma owned_drop_cache i o : owned i o -> owned i (with_cprops o None i).
Proof. intros (H1 & H2 & H3 & H4). repeat split; cbn; try assumption; try reflexivity. intros p e H. discriminate. Qed.

Lemma owned_settle i o ws : owned i o -> owned i (settle o ws).
Proof.
  revert o. induction ws as [|w r IH]; intros o H; cbn; [exact H|]. apply IH.
  destruct w; cbn; [apply owned_with_xprops | apply owned_with_xatts | apply owned_with_xprops]; exact H.
Qed.

Lemma mutate_set_owned i o p f o1 ws : owned i o -> mutate_set i o p f = (o1, ws) ->
  owned i o1 /\ Forall (fun w => w_owner w = i) ws.
Proof.
  intros H E. unfold mutate_set in E. pose proof (owned_ensure_props i o H) as H1.
  pose proof (entry_owner i (ensure_props i o) p H1) as Ho.
  destruct (entry (ensure_props i o) p) as [objs ow]. cbn in Ho. subst ow. injection E as <- <-.
  split; [apply owned_set_cache; exact H1 | repeat constructor].
Qed.

(* every operation keeps the callbacks bound to the object and only writes its own XML *)
Lemma lstep_owned i o e o1 ws ok : owned i o -> lstep i o e = (o1, ws, ok) ->
  owned i o1 /\ Forall (fun w => w_owner w = i) ws.
Proof.
  intros H E. destruct e; cbn [lstep] in E.
  - injection E as <- <- _. split; [|repeat constructor].
    apply owned_set_cache, owned_with_xprops, owned_ensure_props, owned_with_xprops. exact H.
  - destruct (x_kind o).
    + pose proof (owned_ensure_props i o H) as H1. destruct (aget p (cache_of (ensure_props i o))).
      * injection E as <- <- _. split; [apply owned_del_cache; exact H1 | constructor; [cbn; apply H1 | constructor]].
      * injection E as <- <- _. split; [exact H1 | constructor].
    + injection E as <- <- _. split; [apply owned_drop_cache; exact H | repeat constructor].
  - destruct (mutate_set i o p (set_add v)) as [o2 ws2] eqn:M. injection E as <- <- _. exact (mutate_set_owned _ _ _ _ _ _ H M).
  - pose proof (owned_ensure_props i o H) as H1. destruct (mem v (fst (entry (ensure_props i o) p))).
    + destruct (mutate_set i o p (set_del v)) as [o2 ws2] eqn:M. injection E as <- <- _. exact (mutate_set_owned _ _ _ _ _ _ H M).
    + injection E as <- <- _. split; [|constructor].
      pose proof (entry_owner i _ p H1) as Ho. destruct (entry (ensure_props i o) p) as [objs ow]. cbn in Ho; subst.
      apply owned_set_cache; exact H1.
  - destruct (mutate_set i o p (set_del v)) as [o2 ws2] eqn:M. injection E as <- <- _. exact (mutate_set_owned _ _ _ _ _ _ H M).
  - pose proof (owned_ensure_props i o H) as H1. destruct (is_nil (fst (entry (ensure_props i o) p))).
    + injection E as <- <- _. split; [|constructor].
      pose proof (entry_owner i _ p H1) as Ho. destruct (entry (ensure_props i o) p) as [objs ow]. cbn in Ho; subst.
      apply owned_set_cache; exact H1.
    + destruct (mutate_set i o p (set_del v)) as [o2 ws2] eqn:M. injection E as <- <- _. exact (mutate_set_owned _ _ _ _ _ _ H M).
  - destruct (mutate_set i o p (fun _ => [])) as [o2 ws2] eqn:M. injection E as <- <- _. exact (mutate_set_owned _ _ _ _ _ _ H M).
  - destruct (mutate_set i o p (fun s => canon (vs ++ s))) as [o2 ws2] eqn:M. injection E as <- <- _. exact (mutate_set_owned _ _ _ _ _ _ H M).
  - pose proof (owned_ensure_props i o H) as H1. injection E as <- <- _.
    assert (c_props_owner (ensure_props i o) = i) as -> by apply H1.
    split; [apply owned_set_cache; exact H1 | repeat constructor].
  - pose proof (owned_ensure_props i o H) as H1. destruct (aget p (cache_of (ensure_props i o))).
    + injection E as <- <- _. split; [apply owned_del_cache; exact H1 | constructor; [cbn; apply H1 | constructor]].
    + injection E as <- <- _. split; [exact H1 | constructor].
  - injection E as <- <- _. split.
    + destruct H as (H1 & H2 & H3 & H4). repeat split; cbn; try assumption; try reflexivity.
      intros q e. unfold cache_of; cbn.
      assert (G : forall acc, (forall q e, aget q acc = Some e -> snd e = i) ->
                  forall q e, aget q (fold_left (fun d kv => aset (fst kv) (sset (snd kv), i) d) m acc) = Some e -> snd e = i).
      { induction m as [|[k vs] r IH]; intros acc Ha q0 e0 Hq; cbn in Hq; [eapply Ha; eauto|].
        eapply IH; [|exact Hq]. intros q1 e1 Hq1. cbn in Hq1. apply aget_aset_inv in Hq1 as [[_ ->]|Hq1]; [reflexivity | eapply Ha; eauto]. }
      apply G. intros ? ? Hn; discriminate.
    + constructor; [reflexivity|]. apply Forall_forall. intros w Hw. apply in_map_iff in Hw as (kv & <- & _). reflexivity.
  - pose proof (owned_ensure_atts i o H) as H1. destruct v as [d|].
    + injection E as <- <- _. assert (c_atts_owner (ensure_atts i o) = i) as -> by apply H1.
      split; [apply owned_set_acache; exact H1 | repeat constructor].
    + destruct (aget a (acache_of (ensure_atts i o))).
      * injection E as <- <- _. split; [apply owned_del_acache; exact H1 | constructor; [cbn; apply H1 | constructor]].
      * injection E as <- <- _. split; [exact H1 | constructor].
  - pose proof (owned_ensure_atts i o H) as H1. pose proof (aentry_owner i _ a H1) as Ho.
    destruct (aentry (ensure_atts i o) a) as [d ow]. cbn in Ho; subst. injection E as <- <- _.
    split; [apply owned_set_acache; exact H1 | repeat constructor].
  - pose proof (owned_ensure_atts i o H) as H1. pose proof (aentry_owner i _ a H1) as Ho.
    destruct (aentry (ensure_atts i o) a) as [d ow]. cbn in Ho; subst. injection E as <- <- _.
    split; [apply owned_set_acache; exact H1 | repeat constructor].
  - pose proof (owned_ensure_atts i o H) as H1. destruct (aget a (acache_of (ensure_atts i o))).
    + injection E as <- <- _. split; [apply owned_del_acache; exact H1 | constructor; [cbn; apply H1 | constructor]].
    + injection E as <- <- _. split; [exact H1 | constructor].
  - injection E as <- <- _. split; [apply owned_with_attrs; exact H | constructor].
  - injection E as <- <- _. split; [apply owned_with_attrs; exact H | constructor].
  - injection E as <- <- _. split; [apply owned_with_attrs; exact H | constructor].
  - injection E as <- <- _. split; [apply owned_with_attrs; exact H | constructor].
  - injection E as <- <- _. split; [apply owned_with_attrs; exact H | constructor].
  - destruct (x_kind o); injection E as <- <- _; (split; [|constructor]); [exact H | apply owned_drop_cache; exact H].
Qed.

(* the heap step is local to the target object *)
Lemma xstep_local h i o e : hget h i = Some o -> owned i o ->
  xstep h i e = (hupd h i (fun _ => fst (ostep i o e)), snd (ostep i o e)).
Proof.
  intros G H. unfold xstep, ostep. rewrite G. destruct (lstep i o e) as [[o1 ws] ok] eqn:L.
  destruct (lstep_owned i o e o1 ws ok H L) as [_ F]. rewrite (apply_writes_local h i o1 ws F). reflexivity.
Qed.

Lemma ostep_owned i o e : owned i o -> owned i (fst (ostep i o e)).
Proof.
  intro H. unfold ostep. destruct (lstep i o e) as [[o1 ws] ok] eqn:L. cbn.
  apply owned_settle. eapply lstep_owned; eauto.
Qed.

(* ---- effect of the operations on what the views show and what the XML holds ---- *)
Definition coherent (o : xobj) : Prop :=
  (forall p, view_props o p = xml_props o p) /\ (forall a, view_atts o a = xml_atts o a).

Definition same_attrs (o o2 : xobj) : Prop :=
  x_parents o2 = x_parents o /\ x_typ o2 = x_typ o /\ x_src o2 = x_src o /\ x_foreign o2 = x_foreign o /\ x_kind o2 = x_kind o.

Definition prop_update (o o2 : xobj) (p : str) (new : list str) : Prop :=
  (forall q, view_props o2 q = if str_eqb q p then new else view_props o q) /\
  (forall q, xml_props o2 q = if str_eqb q p then new else xml_props o q) /\
  (forall a, view_atts o2 a = view_atts o a) /\ (forall a, xml_atts o2 a = xml_atts o a) /\ same_attrs o o2.

Definition att_update (o o2 : xobj) (a : str) (new : list (str * str)) : Prop :=
  (forall q, view_atts o2 q = if str_eqb q a then new else view_atts o q) /\
  (forall q, xml_atts o2 q = if str_eqb q a then new else xml_atts o q) /\
  (forall p, view_props o2 p = view_props o p) /\ (forall p, xml_props o2 p = xml_props o p) /\ same_attrs o o2.

Lemma view_ensure_props i o p : view_props (ensure_props i o) p = view_props o p.
Proof.
  unfold ensure_props, view_props. destruct (c_props o) eqn:C; [rewrite C; reflexivity|]. cbn.
  rewrite (aget_map_snd (fun vs : list str => (vs, i))). destruct (aget p (x_props o)); reflexivity.
Qed.
Lemma view_ensure_atts i o a : view_atts (ensure_atts i o) a = view_atts o a.
Proof.
  unfold ensure_atts, view_atts. destruct (c_atts o) eqn:C; [rewrite C; reflexivity|]. cbn.
  rewrite (aget_map_snd (fun vs : list (str * str) => (vs, i))). destruct (aget a (x_atts o)); reflexivity.
Qed.
Lemma ensure_props_some i o : c_props (ensure_props i o) <> None.
Proof. unfold ensure_props. destruct (c_props o) eqn:C; [rewrite C; discriminate | cbn; discriminate]. Qed.
Lemma ensure_atts_some i o : c_atts (ensure_atts i o) <> None.
Proof. unfold ensure_atts. destruct (c_atts o) eqn:C; [rewrite C; discriminate | cbn; discriminate]. Qed.

Lemma entry_view i o p : fst (entry (ensure_props i o) p) = view_props o p.
Proof.
  rewrite <- (view_ensure_props i o p). unfold entry, view_props, cache_of.
  destruct (c_props (ensure_props i o)) eqn:C; [|exfalso; eapply ensure_props_some; eauto]. cbn.
  destruct (aget p l); reflexivity.
Qed.
Lemma aentry_view i o a : fst (aentry (ensure_atts i o) a) = view_atts o a.
Proof.
  rewrite <- (view_ensure_atts i o a). unfold aentry, view_atts, acache_of.
  destruct (c_atts (ensure_atts i o)) eqn:C; [|exfalso; eapply ensure_atts_some; eauto]. cbn.
  destruct (aget a l); reflexivity.
Qed.

Lemma odefault_aput_nil {A} k q (v : list A) d :
  odefault [] (aget q (aput is_nil k v d)) = if str_eqb q k then v else odefault [] (aget q d).
Proof.
  destruct (str_eqb q k) eqn:E.
  - apply str_eqb_eq in E; subst. rewrite aget_aput_same. destruct v; reflexivity.
  - apply str_eqb_neq in E. rewrite aget_aput_other by congruence. reflexivity.
Qed.

(* store a set in the cached view and write it to the XML *)
Lemma prop_update_set i o p new ow :
  prop_update o (settle (set_cache (ensure_props i o) p (new, ow)) [WProp ow p new]) p new.
Proof.
  pose proof (ensure_props_some i o) as S. pose proof (view_ensure_props i o) as V.
  unfold settle; cbn [fold_left apply_write_obj]. unfold set_cache, cache_of.
  destruct (c_props (ensure_props i o)) as [c|] eqn:C; [|contradiction]. cbn [odefault].
  repeat split; try (cbn; reflexivity).
  - intro q. unfold view_props at 1. cbn. destruct (str_eqb q p) eqn:E.
    + apply str_eqb_eq in E; subst. rewrite aget_aset_same. reflexivity.
    + apply str_eqb_neq in E. rewrite aget_aset_other by congruence. rewrite <- V. unfold view_props. rewrite C. reflexivity.
  - intro q. unfold xml_props. cbn -[aput]. rewrite odefault_aput_nil.
    unfold ensure_props. destruct (c_props o); reflexivity.
  - intro a. unfold view_atts. cbn. unfold ensure_props. destruct (c_props o); reflexivity.
  - intro a. unfold xml_atts. cbn. unfold ensure_props. destruct (c_props o); reflexivity.
  - cbn. unfold ensure_props. destruct (c_props o); reflexivity.
  - cbn. unfold ensure_props. destruct (c_props o); reflexivity.
  - cbn. unfold ensure_props. destruct (c_props o); reflexivity.
  - cbn. unfold ensure_props. destruct (c_props o); reflexivity.
  - cbn. unfold ensure_props. destruct (c_props o); reflexivity.
Qed.

Lemma prop_update_del i o p ow :
  prop_update o (settle (del_cache (ensure_props i o) p) [WProp ow p []]) p [].
Proof.
  pose proof (ensure_props_some i o) as S. pose proof (view_ensure_props i o) as V.
  unfold settle; cbn [fold_left apply_write_obj]. unfold del_cache, cache_of.
  destruct (c_props (ensure_props i o)) as [c|] eqn:C; [|contradiction]. cbn [odefault].
  repeat split; try (cbn; reflexivity).
  - intro q. unfold view_props at 1. cbn. destruct (str_eqb q p) eqn:E.
    + apply str_eqb_eq in E; subst. rewrite aget_aremove_same. reflexivity.
    + apply str_eqb_neq in E. rewrite aget_aremove_other by congruence. rewrite <- V. unfold view_props. rewrite C. reflexivity.
  - intro q. unfold xml_props. cbn -[aput]. rewrite odefault_aput_nil.
    unfold ensure_props. destruct (c_props o); reflexivity.
  - intro a. unfold view_atts. cbn. unfold ensure_props. destruct (c_props o); reflexivity.
  - intro a. unfold xml_atts. cbn. unfold ensure_props. destruct (c_props o); reflexivity.
  - cbn. unfold ensure_props. destruct (c_props o); reflexivity.
  - cbn. unfold ensure_props. destruct (c_props o); reflexivity.
  - cbn. unfold ensure_props. destruct (c_props o); reflexivity.
  - cbn. unfold ensure_props. destruct (c_props o); reflexivity.
  - cbn. unfold ensure_props. destruct (c_props o); reflexivity.
Qed.

Lemma att_update_set i o a new ow :
  att_update o (settle (set_acache (ensure_atts i o) a (new, ow)) [WAtt ow a new]) a new.
Proof.
  pose proof (ensure_atts_some i o) as S. pose proof (view_ensure_atts i o) as V.
  unfold settle; cbn [fold_left apply_write_obj]. unfold set_acache, acache_of.
  destruct (c_atts (ensure_atts i o)) as [c|] eqn:C; [|contradiction]. cbn [odefault].
  repeat split; try (cbn; reflexivity).
  - intro q. unfold view_atts at 1. cbn. destruct (str_eqb q a) eqn:E.
    + apply str_eqb_eq in E; subst. rewrite aget_aset_same. reflexivity.
    + apply str_eqb_neq in E. rewrite aget_aset_other by congruence. rewrite <- V. unfold view_atts. rewrite C. reflexivity.
  - intro q. unfold xml_atts. cbn -[aput]. rewrite odefault_aput_nil.
    unfold ensure_atts. destruct (c_atts o); reflexivity.
  - intro p. unfold view_props. cbn. unfold ensure_atts. destruct (c_atts o); reflexivity.
  - intro p. unfold xml_props. cbn. unfold ensure_atts. destruct (c_atts o); reflexivity.
  - cbn. unfold ensure_atts. destruct (c_atts o); reflexivity.
  - cbn. unfold ensure_atts. destruct (c_atts o); reflexivity.
  - cbn. unfold ensure_atts. destruct (c_atts o); reflexivity.
  - cbn. unfold ensure_atts. destruct (c_atts o); reflexivity.
  - cbn. unfold ensure_atts. destruct (c_atts o); reflexivity.
Qed.

Lemma att_update_del i o a ow :
  att_update o (settle (del_acache (ensure_atts i o) a) [WAtt ow a []]) a [].
Proof.
  pose proof (ensure_atts_some i o) as S. pose proof (view_ensure_atts i o) as V.
  unfold settle; cbn [fold_left apply_write_obj]. unfold del_acache, acache_of.
  destruct (c_atts (ensure_atts i o)) as [c|] eqn:C; [|contradiction]. cbn [odefault].
  repeat split; try (cbn; reflexivity).
  - intro q. unfold view_atts at 1. cbn. destruct (str_eqb q a) eqn:E.
    + apply str_eqb_eq in E; subst. rewrite aget_aremove_same. reflexivity.
    + apply str_eqb_neq in E. rewrite aget_aremove_other by congruence. rewrite <- V. unfold view_atts. rewrite C. reflexivity.
  - intro q. unfold xml_atts. cbn -[aput]. rewrite odefault_aput_nil.
    unfold ensure_atts. destruct (c_atts o); reflexivity.
  - intro p. unfold view_props. cbn. unfold ensure_atts. destruct (c_atts o); reflexivity.
  - intro p. unfold xml_props. cbn. unfold ensure_atts. destruct (c_atts o); reflexivity.
  - cbn. unfold ensure_atts. destruct (c_atts o); reflexivity.
  - cbn. unfold ensure_atts. destruct (c_atts o); reflexivity.
  - cbn. unfold ensure_atts. destruct (c_atts o); reflexivity.
  - cbn. unfold ensure_atts. destruct (c_atts o); reflexivity.
  - cbn. unfold ensure_atts. destruct (c_atts o); reflexivity.
Qed.

(* ---- refinement of the dictionary-of-sets model ---- *)
Definition R (o : xobj) (s : sstate) : Prop :=
  (forall p, view_props o p = sget s p) /\ (forall a, view_atts o a = sgeta s a) /\
  x_parents o = s_parents s /\ x_typ o = s_typ s /\ x_src o = s_src s /\ x_foreign o = s_foreign s.

Lemma sget_setp s p new q : sget (s_setp s p new) q = if str_eqb q p then new else sget s q.
Proof. unfold sget, s_setp; cbn -[aput]. apply odefault_aput_nil. Qed.
Lemma sgeta_seta s a new q : sgeta (s_seta s a new) q = if str_eqb q a then new else sgeta s q.
Proof. unfold sgeta, s_seta; cbn -[aput]. apply odefault_aput_nil. Qed.

Lemma R_prop_update o o2 s p new : R o s -> prop_update o o2 p new -> R o2 (s_setp s p new).
Proof.
  intros (R1 & R2 & R3 & R4 & R5 & R6) (U1 & U2 & U3 & U4 & A1 & A2 & A3 & A4 & A5).
  repeat split; cbn; try congruence.
  - intro q. rewrite U1, sget_setp, R1. reflexivity.
  - intro a. rewrite U3. apply R2.
Qed.
Lemma R_att_update o o2 s a new : R o s -> att_update o o2 a new -> R o2 (s_seta s a new).
Proof.
  intros (R1 & R2 & R3 & R4 & R5 & R6) (U1 & U2 & U3 & U4 & A1 & A2 & A3 & A4 & A5).
  repeat split; cbn; try congruence.
  - intro p. rewrite U3. apply R1.
  - intro q. rewrite U1, sgeta_seta, R2. reflexivity.
Qed.
Lemma coherent_prop_update o o2 p new : coherent o -> prop_update o o2 p new -> coherent o2.
Proof.
  intros [C1 C2] (U1 & U2 & U3 & U4 & _). split.
  - intro q. rewrite U1, U2, C1. reflexivity.
  - intro a. rewrite U3, U4. apply C2.
Qed.
Lemma coherent_att_update o o2 a new : coherent o -> att_update o o2 a new -> coherent o2.
Proof.
  intros [C1 C2] (U1 & U2 & U3 & U4 & _). split.
  - intro p. rewrite U3, U4. apply C1.
  - intro q. rewrite U1, U2, C2. reflexivity.
Qed.

Lemma mutate_set_update i o p f o1 ws : mutate_set i o p f = (o1, ws) ->
  prop_update o (settle o1 ws) p (f (view_props o p)).
Proof.
  unfold mutate_set. pose proof (entry_view i o p) as EV.
  destruct (entry (ensure_props i o) p) as [objs ow]. cbn in EV. subst objs.
  intro E; injection E as <- <-. apply prop_update_set.
Qed.

(* an update that does not change anything *)
Lemma prop_update_noop o o2 p :
  (forall q, view_props o2 q = view_props o q) -> (forall q, xml_props o2 q = xml_props o q) ->
  (forall a, view_atts o2 a = view_atts o a) -> (forall a, xml_atts o2 a = xml_atts o a) -> same_attrs o o2 ->
  view_props o p = [] -> xml_props o p = [] -> prop_update o o2 p [].
Proof.
  intros V X VA XA SA Vp Xp. repeat split; try apply SA; try assumption.
  - intro q. rewrite V. destruct (str_eqb q p) eqn:E; [apply str_eqb_eq in E; subst; exact Vp | reflexivity].
  - intro q. rewrite X. destruct (str_eqb q p) eqn:E; [apply str_eqb_eq in E; subst; exact Xp | reflexivity].
Qed.
Lemma att_update_noop o o2 a :
  (forall q, view_atts o2 q = view_atts o q) -> (forall q, xml_atts o2 q = xml_atts o q) ->
  (forall p, view_props o2 p = view_props o p) -> (forall p, xml_props o2 p = xml_props o p) -> same_attrs o o2 ->
  view_atts o a = [] -> xml_atts o a = [] -> att_update o o2 a [].
Proof.
  intros V X VA XA SA Vp Xp. repeat split; try apply SA; try assumption.
  - intro q. rewrite V. destruct (str_eqb q a) eqn:E; [apply str_eqb_eq in E; subst; exact Vp | reflexivity].
  - intro q. rewrite X. destruct (str_eqb q a) eqn:E; [apply str_eqb_eq in E; subst; exact Xp | reflexivity].
Qed.

Lemma ensure_props_frame i o :
  (forall q, xml_props (ensure_props i o) q = xml_props o q) /\ (forall a, view_atts (ensure_props i o) a = view_atts o a) /\
  (forall a, xml_atts (ensure_props i o) a = xml_atts o a) /\ same_attrs o (ensure_props i o).
Proof. unfold ensure_props. destruct (c_props o); repeat split; reflexivity. Qed.
Lemma ensure_atts_frame i o :
  (forall q, xml_atts (ensure_atts i o) q = xml_atts o q) /\ (forall p, view_props (ensure_atts i o) p = view_props o p) /\
  (forall p, xml_props (ensure_atts i o) p = xml_props o p) /\ same_attrs o (ensure_atts i o).
Proof. unfold ensure_atts. destruct (c_atts o); repeat split; reflexivity. Qed.

Lemma cache_miss_view i o p : aget p (cache_of (ensure_props i o)) = None -> view_props o p = [].
Proof.
  intro G. rewrite <- (view_ensure_props i o p). unfold view_props, cache_of in *.
  destruct (c_props (ensure_props i o)) eqn:C; [|exfalso; eapply ensure_props_some; eauto]. cbn in G. rewrite G. reflexivity.
Qed.
Lemma acache_miss_view i o a : aget a (acache_of (ensure_atts i o)) = None -> view_atts o a = [].
Proof.
  intro G. rewrite <- (view_ensure_atts i o a). unfold view_atts, acache_of in *.
  destruct (c_atts (ensure_atts i o)) eqn:C; [|exfalso; eapply ensure_atts_some; eauto]. cbn in G. rewrite G. reflexivity.
Qed.

(* touching event[p] without changing it (the failed remove / pop) *)
Lemma touch_entry i o p :
  let o2 := set_cache (ensure_props i o) p (entry (ensure_props i o) p) in
  (forall q, view_props o2 q = view_props o q) /\ (forall q, xml_props o2 q = xml_props o q) /\
  (forall a, view_atts o2 a = view_atts o a) /\ (forall a, xml_atts o2 a = xml_atts o a) /\ same_attrs o o2.
Proof.
  cbn zeta. pose proof (ensure_props_some i o) as S. pose proof (view_ensure_props i o) as V.
  pose proof (entry_view i o p) as EV. destruct (ensure_props_frame i o) as (F1 & F2 & F3 & F4).
  unfold set_cache, cache_of in *. destruct (c_props (ensure_props i o)) as [c|] eqn:C; [|contradiction]. cbn [odefault].
  repeat split; try apply F4.
  - intro q. unfold view_props at 1. cbn. destruct (str_eqb q p) eqn:E.
    + apply str_eqb_eq in E; subst. rewrite aget_aset_same. exact EV.
    + apply str_eqb_neq in E. rewrite aget_aset_other by congruence. rewrite <- V. unfold view_props. rewrite C. reflexivity.
  - intro q. rewrite <- F1. reflexivity.
  - intro a. rewrite <- F2. unfold view_atts. reflexivity.
  - intro a. rewrite <- F3. reflexivity.
Qed.

(* ---- set_properties ---- *)
Lemma sp_cache_spec i (m : list (str * list str)) : forall acc acc',
  (forall q, fst (odefault ([], 0) (aget q acc)) = odefault [] (aget q acc')) ->
  forall q, fst (odefault ([], 0) (aget q (fold_left (fun d kv => aset (fst kv) (sset (snd kv), i) d) m acc))) =
            odefault [] (aget q (fold_left (fun d kv => aput is_nil (fst kv) (sset (snd kv)) d) m acc')).
Proof.
  induction m as [|[k vs] r IH]; intros acc acc' H q; cbn [fold_left]; [apply H|].
  apply IH. intro q'. cbn [fst snd]. rewrite odefault_aput_nil. destruct (str_eqb q' k) eqn:E.
  - apply str_eqb_eq in E; subst. rewrite aget_aset_same. reflexivity.
  - apply str_eqb_neq in E. rewrite aget_aset_other by congruence. apply H.
Qed.

Lemma sp_keys_NoDup i (m : list (str * list str)) : forall acc : list (str * (list str * nat)),
  NoDup (akeys acc) -> NoDup (akeys (fold_left (fun d kv => aset (fst kv) (sset (snd kv), i) d) m acc)).
Proof.
  induction m as [|[k vs] r IH]; intros acc ND; cbn [fold_left]; [exact ND|]. apply IH.
  rewrite akeys_aset. cbn [fst]. destruct (mem k (akeys acc)) eqn:M; [exact ND|].
  apply NoDup_snoc; [exact ND|]. intro H. apply mem_In in H. congruence.
Qed.

Lemma sp_xml (c : list (str * (list str * nat))) i : forall o, NoDup (akeys c) ->
  forall q, xml_props (settle o (map (fun kv => WProp i (fst kv) (fst (snd kv))) c)) q =
            match aget q c with Some e => fst e | None => xml_props o q end.
Proof.
  induction c as [|[k [vs ow]] r IH]; intros o ND q; cbn [map settle fold_left]; [reflexivity|].
  cbn [akeys map fst] in ND. inversion ND as [|? ? Hn ND']; subst.
  change (fold_left apply_write_obj (map (fun kv => WProp i (fst kv) (fst (snd kv))) r) ?x) with
         (settle x (map (fun kv => WProp i (fst kv) (fst (snd kv))) r)).
  rewrite IH by exact ND'. cbn [aget fst snd]. destruct (str_eqb q k) eqn:E.
  - apply str_eqb_eq in E; subst q.
    assert (aget k r = None) as -> by (apply aget_none_mem; destruct (mem k (akeys r)) eqn:M; [apply mem_In in M; contradiction | reflexivity]).
    unfold xml_props. cbn -[aput]. rewrite odefault_aput_nil, str_eqb_refl. reflexivity.
  - destruct (aget q r); [reflexivity|]. unfold xml_props. cbn -[aput]. rewrite odefault_aput_nil, E. reflexivity.
Qed.

Lemma settle_frame o ws :
  (forall w, In w ws -> match w with WAtt _ _ _ => False | _ => True end) ->
  (forall a, xml_atts (settle o ws) a = xml_atts o a) /\ c_props (settle o ws) = c_props o /\ c_atts (settle o ws) = c_atts o /\
  same_attrs o (settle o ws).
Proof.
  revert o. induction ws as [|w r IH]; intros o H; cbn [settle fold_left]; [repeat split; reflexivity|].
  assert (Hr : forall w0, In w0 r -> match w0 with WAtt _ _ _ => False | _ => True end) by (intros; apply H; right; assumption).
  specialize (IH (apply_write_obj o w) Hr). destruct IH as (I1 & I2 & I3 & I4 & I5 & I6 & I7 & I8).
  specialize (H w (or_introl eq_refl)). destruct w; try contradiction; cbn in *; repeat split; try assumption.
Qed.

(* ---- one step: the views follow the dictionary-of-sets model, the XML follows the views ---- *)
Ltac done_update HR HC U :=
  split; [reflexivity|]; split; [eapply R_prop_update; [exact HR | exact U] | eapply coherent_prop_update; [exact HC | exact U]].
Ltac done_aupdate HR HC U :=
  split; [reflexivity|]; split; [eapply R_att_update; [exact HR | exact U] | eapply coherent_att_update; [exact HC | exact U]].

Lemma R_sget o s p : R o s -> sget s p = view_props o p.
Proof. intros (R1 & _). symmetry. apply R1. Qed.
Lemma R_sgeta o s a : R o s -> sgeta s a = view_atts o a.
Proof. intros (_ & R2 & _). symmetry. apply R2. Qed.

Lemma ostep_sim i o s e : coherent o -> R o s ->
  snd (ostep i o e) = snd (sstep s e) /\ R (fst (ostep i o e)) (fst (sstep s e)) /\ coherent (fst (ostep i o e)).
Proof.
  intros HC HR. unfold ostep. destruct e; cbn [lstep sstep].
  - (* SetItem *)
    cbn [fst snd].
    assert (U : prop_update o (settle (set_cache (with_xprops (ensure_props i (apply_write_obj o (WProp i p (sset vs)))) (x_props o)) p (sset vs, i))
                                      [WProp i p (sset vs)]) p (sset vs)).
    { unfold settle; cbn [fold_left apply_write_obj]. unfold set_cache, cache_of, ensure_props.
      cbn -[aput]. destruct (c_props o) as [c|] eqn:C; cbn -[aput]; rewrite ?C; cbn -[aput].
      - repeat split; try reflexivity.
        + intro q. unfold view_props at 1. cbn. destruct (str_eqb q p) eqn:E.
          * apply str_eqb_eq in E; subst. rewrite aget_aset_same. reflexivity.
          * apply str_eqb_neq in E. rewrite aget_aset_other by congruence. unfold view_props. rewrite C. reflexivity.
        + intro q. unfold xml_props. cbn -[aput]. apply odefault_aput_nil.
      - repeat split; try reflexivity.
        + intro q. unfold view_props at 1. cbn -[aput]. destruct (str_eqb q p) eqn:E.
          * apply str_eqb_eq in E; subst. rewrite aget_aset_same. reflexivity.
          * pose proof E as E'. apply str_eqb_neq in E. rewrite aget_aset_other by congruence.
            rewrite (aget_map_snd (fun vs0 : list str => (vs0, i))). unfold view_props. rewrite C.
            pose proof (odefault_aput_nil p q (sset vs) (x_props o)) as O. rewrite E' in O.
            destruct (aget q (aput is_nil p (sset vs) (x_props o))), (aget q (x_props o)); cbn in *; congruence.
        + intro q. unfold xml_props. cbn -[aput]. apply odefault_aput_nil.
        }
    done_update HR HC U.
  - (* DelItem *)
    destruct (x_kind o) eqn:K.
    + destruct (aget p (cache_of (ensure_props i o))) eqn:G; cbn [fst snd].
      * pose proof (prop_update_del i o p (c_props_owner (ensure_props i o))) as U. done_update HR HC U.
      * destruct (ensure_props_frame i o) as (F1 & F2 & F3 & F4).
        assert (U : prop_update o (settle (ensure_props i o) []) p []).
        { apply prop_update_noop; try assumption; [apply view_ensure_props | apply (cache_miss_view i o p G) |].
          destruct HC as [C1 _]. rewrite <- C1. apply (cache_miss_view i o p G). }
        done_update HR HC U.
    + cbn [fst snd].
      assert (U : prop_update o (settle (with_cprops o None i) [WProp i p []]) p []).
      { destruct HC as [C1 C2]. unfold settle; cbn [fold_left apply_write_obj]. repeat split; try reflexivity.
        - intro q. unfold view_props at 1. cbn -[aput]. rewrite odefault_aput_nil.
          destruct (str_eqb q p); [reflexivity | rewrite C1; reflexivity].
        - intro q. unfold xml_props. cbn -[aput]. apply odefault_aput_nil. }
      done_update HR HC U.
  - (* ObjAdd *)
    destruct (mutate_set i o p (set_add v)) as [o1 ws] eqn:M. cbn [fst snd].
    pose proof (mutate_set_update i o p _ o1 ws M) as U. rewrite (R_sget o s p HR). done_update HR HC U.
  - (* ObjRemove *)
    rewrite (entry_view i o p), (R_sget o s p HR). destruct (mem v (view_props o p)).
    + destruct (mutate_set i o p (set_del v)) as [o1 ws] eqn:M. cbn [fst snd].
      pose proof (mutate_set_update i o p _ o1 ws M) as U. done_update HR HC U.
    + cbn [fst snd settle fold_left]. destruct (touch_entry i o p) as (T1 & T2 & T3 & T4 & T5 & T6 & T7 & T8 & T9).
      split; [reflexivity|]. destruct HR as (R1 & R2 & R3 & R4 & R5 & R6). destruct HC as [C1 C2]. split.
      * repeat split; try congruence; try (intro q; rewrite T1; apply R1); try (intro a; rewrite T3; apply R2).
      * split; [intro q; rewrite T1, T2; apply C1 | intro a; rewrite T3, T4; apply C2].
  - (* ObjDiscard *)
    destruct (mutate_set i o p (set_del v)) as [o1 ws] eqn:M. cbn [fst snd].
    pose proof (mutate_set_update i o p _ o1 ws M) as U. rewrite (R_sget o s p HR). done_update HR HC U.
  - (* ObjPop *)
    rewrite (entry_view i o p), (R_sget o s p HR). destruct (is_nil (view_props o p)).
    + cbn [fst snd settle fold_left]. destruct (touch_entry i o p) as (T1 & T2 & T3 & T4 & T5 & T6 & T7 & T8 & T9).
      split; [reflexivity|]. destruct HR as (R1 & R2 & R3 & R4 & R5 & R6). destruct HC as [C1 C2]. split.
      * repeat split; try congruence; try (intro q; rewrite T1; apply R1); try (intro a; rewrite T3; apply R2).
      * split; [intro q; rewrite T1, T2; apply C1 | intro a; rewrite T3, T4; apply C2].
    + destruct (mutate_set i o p (set_del v)) as [o1 ws] eqn:M. cbn [fst snd].
      pose proof (mutate_set_update i o p _ o1 ws M) as U. done_update HR HC U.
  - (* ObjClear *)
    destruct (mutate_set i o p (fun _ => [])) as [o1 ws] eqn:M. cbn [fst snd].
    pose proof (mutate_set_update i o p _ o1 ws M) as U. cbn beta in U. done_update HR HC U.
  - (* ObjUpdate *)
    destruct (mutate_set i o p (fun s0 => canon (vs ++ s0))) as [o1 ws] eqn:M. cbn [fst snd].
    pose proof (mutate_set_update i o p _ o1 ws M) as U. cbn beta in U. rewrite (R_sget o s p HR). done_update HR HC U.
  - (* PropsSetItem *)
    cbn [fst snd]. pose proof (prop_update_set i o p (sset vs) (c_props_owner (ensure_props i o))) as U. done_update HR HC U.
  - (* PropsDelItem *)
    destruct (aget p (cache_of (ensure_props i o))) eqn:G; cbn [fst snd].
    + pose proof (prop_update_del i o p (c_props_owner (ensure_props i o))) as U. done_update HR HC U.
    + destruct (ensure_props_frame i o) as (F1 & F2 & F3 & F4).
      assert (U : prop_update o (settle (ensure_props i o) []) p []).
      { apply prop_update_noop; try assumption; [apply view_ensure_props | apply (cache_miss_view i o p G) |].
        destruct HC as [C1 _]. rewrite <- C1. apply (cache_miss_view i o p G). }
      done_update HR HC U.
  - (* SetProperties *)
    cbn [fst snd]. split; [reflexivity|].
    set (c := fold_left (fun d kv => aset (fst kv) (sset (snd kv), i) d) m []).
    assert (ND : NoDup (akeys c)) by (apply sp_keys_NoDup; constructor).
    assert (V : forall q, view_props (settle (with_cprops o (Some c) i) (WClearProps i :: map (fun kv => WProp i (fst kv) (fst (snd kv))) c)) q
                          = fst (odefault ([], 0) (aget q c))).
    { intro q. destruct (settle_frame (with_cprops o (Some c) i) (WClearProps i :: map (fun kv => WProp i (fst kv) (fst (snd kv))) c)) as (_ & S2 & _).
      - intros w [<-|Hw]; [exact I|]. apply in_map_iff in Hw as (kv & <- & _). exact I.
      - unfold view_props. rewrite S2. reflexivity. }
    assert (X : forall q, xml_props (settle (with_cprops o (Some c) i) (WClearProps i :: map (fun kv => WProp i (fst kv) (fst (snd kv))) c)) q
                          = fst (odefault ([], 0) (aget q c))).
    { intro q. cbn [settle fold_left apply_write_obj].
      change (fold_left apply_write_obj ?l ?x) with (settle x l). rewrite sp_xml by exact ND.
      destruct (aget q c); reflexivity. }
    destruct (settle_frame (with_cprops o (Some c) i) (WClearProps i :: map (fun kv => WProp i (fst kv) (fst (snd kv))) c)) as (S1 & S2 & S3 & S4 & S5 & S6 & S7 & S8).
    { intros w [<-|Hw]; [exact I|]. apply in_map_iff in Hw as (kv & <- & _). exact I. }
    assert (VA : forall a, view_atts (settle (with_cprops o (Some c) i) (WClearProps i :: map (fun kv => WProp i (fst kv) (fst (snd kv))) c)) a
                           = view_atts o a).
    { intro a. unfold view_atts. rewrite S3. cbn [c_atts with_cprops]. destruct (c_atts o); [reflexivity|]. apply (S1 a). }
    destruct HR as (R1 & R2 & R3 & R4 & R5 & R6). destruct HC as [C1 C2]. split.
    + split; [|split; [|split; [|split; [|split]]]].
      * intro q. rewrite V. unfold sget; cbn [s_props]. apply (sp_cache_spec i m [] []). intro; reflexivity.
      * intro a. rewrite VA. apply R2.
      * rewrite S4. exact R3.
      * rewrite S5. exact R4.
      * rewrite S6. exact R5.
      * rewrite S7. exact R6.
    + split; [intro q; rewrite V, X; reflexivity|]. intro a. rewrite VA, S1. apply C2.
  - (* SetAttachment *)
    destruct v as [d|].
    + cbn [fst snd]. pose proof (att_update_set i o a (fold_left (fun acc iv => aset (fst iv) (snd iv) acc) d []) (c_atts_owner (ensure_atts i o))) as U.
      done_aupdate HR HC U.
    + destruct (aget a (acache_of (ensure_atts i o))) eqn:G; cbn [fst snd].
      * pose proof (att_update_del i o a (c_atts_owner (ensure_atts i o))) as U. done_aupdate HR HC U.
      * destruct (ensure_atts_frame i o) as (F1 & F2 & F3 & F4).
        assert (U : att_update o (settle (ensure_atts i o) []) a []).
        { apply att_update_noop; try assumption; [apply view_ensure_atts | apply (acache_miss_view i o a G) |].
          destruct HC as [_ C2]. rewrite <- C2. apply (acache_miss_view i o a G). }
        done_aupdate HR HC U.
  - (* AttSetValue *)
    pose proof (aentry_view i o a) as EV. destruct (aentry (ensure_atts i o) a) as [d ow]. cbn in EV. subst d. cbn [fst snd].
    pose proof (att_update_set i o a (aset i0 v (view_atts o a)) ow) as U. rewrite (R_sgeta o s a HR). done_aupdate HR HC U.
  - (* AttDelValue *)
    pose proof (aentry_view i o a) as EV. destruct (aentry (ensure_atts i o) a) as [d ow]. cbn in EV. subst d. cbn [fst snd].
    pose proof (att_update_set i o a (aremove i0 (view_atts o a)) ow) as U. rewrite (R_sgeta o s a HR). done_aupdate HR HC U.
  - (* DelAttachment *)
    destruct (aget a (acache_of (ensure_atts i o))) eqn:G; cbn [fst snd].
    + pose proof (att_update_del i o a (c_atts_owner (ensure_atts i o))) as U. done_aupdate HR HC U.
    + destruct (ensure_atts_frame i o) as (F1 & F2 & F3 & F4).
      assert (U : att_update o (settle (ensure_atts i o) []) a []).
      { apply att_update_noop; try assumption; [apply view_ensure_atts | apply (acache_miss_view i o a G) |].
        destruct HC as [_ C2]. rewrite <- C2. apply (acache_miss_view i o a G). }
      done_aupdate HR HC U.
  - (* SetParents *) cbn. split; [reflexivity|]. destruct HR as (R1 & R2 & R3 & R4 & R5 & R6). split; [repeat split; cbn; auto | exact HC].
  - (* AddParents *) cbn. split; [reflexivity|]. destruct HR as (R1 & R2 & R3 & R4 & R5 & R6). split; [repeat split; cbn; auto; congruence | exact HC].
  - (* SetType *) cbn. split; [reflexivity|]. destruct HR as (R1 & R2 & R3 & R4 & R5 & R6). split; [repeat split; cbn; auto | exact HC].
  - (* SetSource *) cbn. split; [reflexivity|]. destruct HR as (R1 & R2 & R3 & R4 & R5 & R6). split; [repeat split; cbn; auto | exact HC].
  - (* SetForeign *) cbn. split; [reflexivity|]. destruct HR as (R1 & R2 & R3 & R4 & R5 & R6). split; [repeat split; cbn; auto | exact HC].
  - (* Flush *)
    destruct (x_kind o); cbn; (split; [reflexivity|]); [split; [exact HR | exact HC]|].
    destruct HR as (R1 & R2 & R3 & R4 & R5 & R6). destruct HC as [C1 C2]. split.
    + repeat split; auto. intro q. unfold view_props; cbn. fold (xml_props o q). rewrite <- C1. apply R1.
    + split; [intro q; reflexivity | exact C2].
Qed.

(* ---- sequences of operations on one object ---- *)
Fixpoint orun (i : nat) (o : xobj) (ops : list eop) : xobj * list bool :=
  match ops with
  | [] => (o, [])
  | e :: r => let '(o1, ok) := ostep i o e in let '(o2, fl) := orun i o1 r in (o2, ok :: fl)
  end.
Fixpoint srun (s : sstate) (ops : list eop) : sstate * list bool :=
  match ops with
  | [] => (s, [])
  | e :: r => let '(s1, ok) := sstep s e in let '(s2, fl) := srun s1 r in (s2, ok :: fl)
  end.

Lemma orun_refines i : forall ops o s, owned i o -> coherent o -> R o s ->
  snd (orun i o ops) = snd (srun s ops) /\ R (fst (orun i o ops)) (fst (srun s ops)) /\
  coherent (fst (orun i o ops)) /\ owned i (fst (orun i o ops)).
Proof.
  induction ops as [|e r IH]; intros o s HO HC HR; cbn [orun srun]; [cbn [fst snd]; split; [reflexivity|]; split; [exact HR|]; split; [exact HC | exact HO]|].
  destruct (ostep_sim i o s e HC HR) as (E1 & E2 & E3). pose proof (ostep_owned i o e HO) as E4.
  destruct (ostep i o e) as [o1 ok]. destruct (sstep s e) as [s1 ok']. cbn [fst snd] in *. subst ok'.
  destruct (IH o1 s1 E4 E3 E2) as (I1 & I2 & I3 & I4).
  destruct (orun i o1 r) as [o2 fl]. destruct (srun s1 r) as [s2 fl']. cbn [fst snd] in *. subst fl'.
  split; [reflexivity|]. split; [exact I2|]. split; [exact I3 | exact I4].
Qed.

Lemma fresh_owned k s i : owned i (fresh k s i).
Proof. repeat split; cbn; try reflexivity; intros ? ? H; discriminate. Qed.
Lemma fresh_coherent k s i : coherent (fresh k s i).
Proof. split; intro; reflexivity. Qed.
Lemma fresh_R k s i : R (fresh k s i) s.
Proof. repeat split; reflexivity. Qed.

(* every object refines SOME dictionary-of-sets state: the one its views show *)
Definition abs (o : xobj) : sstate :=
  {| s_typ := x_typ o; s_src := x_src o;
     s_props := match c_props o with Some c => map (fun kv => (fst kv, fst (snd kv))) c | None => x_props o end;
     s_atts := match c_atts o with Some c => map (fun kv => (fst kv, fst (snd kv))) c | None => x_atts o end;
     s_parents := x_parents o; s_foreign := x_foreign o |}.
Lemma abs_R o : R o (abs o).
Proof.
  repeat split; try reflexivity.
  - intro p. unfold view_props, sget, abs; cbn. destruct (c_props o); [|reflexivity].
    rewrite (aget_map_snd (fun e : list str * nat => fst e)). destruct (aget p l); reflexivity.
  - intro a. unfold view_atts, sgeta, abs; cbn. destruct (c_atts o); [|reflexivity].
    rewrite (aget_map_snd (fun e : list (str * str) * nat => fst e)). destruct (aget a l); reflexivity.
Qed.

(* ---- heaps: operations on one event never touch another one ---- *)
Definition hinv (h : heap) : Prop := forall i o, hget h i = Some o -> owned i o /\ coherent o.

Lemma copy_fixed_inv o n : owned n (copy_obj CopyFixed o n) /\ coherent (copy_obj CopyFixed o n).
Proof.
  unfold copy_obj. destruct (x_kind o).
  - split.
    + repeat split; cbn; try reflexivity; intros q e H.
      * unfold cache_of in H; cbn in H. rewrite (aget_map_snd (fun vs : list str => (vs, n))) in H.
        destruct (aget q (live_props o)); cbn in H; [injection H as <-; reflexivity | discriminate].
      * unfold acache_of in H; cbn in H. rewrite (aget_map_snd (fun vs : list (str * str) => (vs, n))) in H.
        destruct (aget q (live_atts o)); cbn in H; [injection H as <-; reflexivity | discriminate].
    + split; intro q.
      * unfold view_props, xml_props; cbn. rewrite (aget_map_snd (fun vs : list str => (vs, n))). destruct (aget q (live_props o)); reflexivity.
      * unfold view_atts, xml_atts; cbn. rewrite (aget_map_snd (fun vs : list (str * str) => (vs, n))). destruct (aget q (live_atts o)); reflexivity.
  - split; [repeat split; cbn; try reflexivity; intros ? ? H; discriminate | split; intro; reflexivity].
Qed.

Lemma hstep_inv h o : hinv h -> hinv (hstep CopyFixed h o).
Proof.
  intros HI. destruct o as [i e|i]; cbn [hstep].
  - destruct (hget h i) as [ob|] eqn:G.
    + destruct (HI i ob G) as [HO HC]. rewrite (xstep_local h i ob e G HO). cbn [fst].
      intros j oj Hj. destruct (Nat.eq_dec i j) as [->|N].
      * rewrite (hget_hupd_same h j _ ob G) in Hj. injection Hj as <-.
        split; [apply ostep_owned; exact HO|].
        exact (proj2 (proj2 (ostep_sim j ob (abs ob) e HC (abs_R ob)))).
      * rewrite (hget_hupd_other h i j _ N) in Hj. apply HI. exact Hj.
    + unfold xstep. rewrite G. exact HI.
  - destruct (hget h i) as [ob|] eqn:G; [|exact HI].
    intros j oj Hj. unfold hget in *. destruct (Nat.lt_ge_cases j (length h)) as [L|L].
    + rewrite nth_error_app1 in Hj by exact L. apply HI. exact Hj.
    + rewrite nth_error_app2 in Hj by exact L. destruct (j - length h) as [|k] eqn:D; cbn in Hj; [|destruct k; discriminate].
      injection Hj as <-. assert (j = length h) as -> by lia. apply copy_fixed_inv.
Qed.

Lemma hrun_inv ops : forall h, hinv h -> hinv (hrun CopyFixed h ops).
Proof. induction ops as [|o r IH]; intros h H; cbn; [exact H | apply IH, hstep_inv, H]. Qed.

(* an operation on event i leaves every other event (its views AND its XML) untouched; a copy adds a new
   event and leaves all existing ones untouched *)
Lemma hstep_frame h o j oj : hinv h -> hget h j = Some oj ->
  (match o with Op i _ => i <> j | Copy _ => True end) ->
  hget (hstep CopyFixed h o) j = Some oj.
Proof.
  intros HI Hj Hne. destruct o as [i e|i]; cbn [hstep].
  - destruct (hget h i) as [ob|] eqn:G.
    + destruct (HI i ob G) as [HO _]. rewrite (xstep_local h i ob e G HO). cbn [fst].
      rewrite hget_hupd_other by exact Hne. exact Hj.
    + unfold xstep. rewrite G. exact Hj.
  - destruct (hget h i); [|exact Hj]. unfold hget in *. rewrite nth_error_app1; [exact Hj|].
    apply nth_error_Some. congruence.
Qed.

(* ---- the pre-fix deepcopy of an EventElement shares its callbacks with the original ---- *)
Definition wp : str := [112]%N.
Definition w_s0 : sstate := {| s_typ := [116]%N; s_src := [47]%N; s_props := [(wp, [[97]%N])]; s_atts := []; s_parents := []; s_foreign := [] |}.
Definition w_hist := [Op 0 (ObjAdd wp [97]%N); Copy 0; Op 1 (ObjAdd wp [98]%N)].

Lemma deepcopy_shares_state :
  let h := hrun CopyDeep [fresh KElement w_s0 0] w_hist in
  (* the original's XML was rewritten by a mutation of the copy ... *)
  option_map (fun o => xml_props o wp) (hget h 0) = Some [[97]%N; [98]%N] /\
  (* ... while the copy's own XML is stale with respect to what the copy shows *)
  option_map (fun o => (view_props o wp, xml_props o wp)) (hget h 1) = Some ([[97]%N; [98]%N], [[97]%N]).
Proof. vm_compute. split; reflexivity. Qed.

Lemma fixed_copy_independent_example :
  let h := hrun CopyFixed [fresh KElement w_s0 0] w_hist in
  option_map (fun o => xml_props o wp) (hget h 0) = Some [[97]%N] /\
  option_map (fun o => (view_props o wp, xml_props o wp)) (hget h 1) = Some ([[97]%N; [98]%N], [[97]%N; [98]%N]).
Proof. vm_compute. split; reflexivity. Qed.
