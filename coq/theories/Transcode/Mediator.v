(* C17 — model of ObjectTranscoder.generate (dotted selectors into nested records, empty value elision, the property map)
   and of the ontology / event bookkeeping of TranscoderMediator (edxml/transcode/mediator.py). *)
From Coq Require Import String.
From EdxmlVerif Require Import Base.Prelude Valid.Normalize.

(* ---- records ---- *)
Inductive jv :=
| JNull | JBool (b : bool) | JStr (s : str) | JInt (z : Z)
| JList (l : list jv) | JDict (d : list (str * jv)).

Definition nonempty_l {A} (l : list A) : bool := match l with [] => false | _ => true end.

(* int(field) of a selector part: optional sign, ASCII digits (other spellings do not occur in selectors) *)
Definition part_index (p : str) : option Z := Valid.Gate.parse_int p.

(* one step into a value: dictionaries by key (a missing key gives None, like dict.get); lists and strings by position
   (negative positions count from the end, out of range gives None); anything else gives None *)
Definition step (v : jv) (part : str) : jv :=
  match v with
  | JDict d => odefault JNull (aget part d)
  | JList l =>
      match part_index part with
      | Some i => let n := Z.of_nat (length l) in
                  if (0 <=? i)%Z && (i <? n)%Z then nth (Z.to_nat i) l JNull
                  else if (i <? 0)%Z && (- n <=? i)%Z then nth (Z.to_nat (n + i)) l JNull else JNull
      | None => JNull
      end
  | JStr s =>
      match part_index part with
      | Some i => let n := Z.of_nat (length s) in
                  if (0 <=? i)%Z && (i <? n)%Z then JStr [nth (Z.to_nat i) s 0%N]
                  else if (i <? 0)%Z && (- n <=? i)%Z then JStr [nth (Z.to_nat (n + i)) s 0%N] else JNull
      | None => JNull
      end
  | _ => JNull
  end.
Definition jlookup (rec : jv) (path : list str) : jv := fold_left step path rec.

(* ---- values of a field ---- *)
Definition jv_eqb_str (v : jv) (s : str) : bool := match v with JStr x => str_eqb x s | _ => false end.
Definition is_empty (empties : list str) (v : jv) : bool := existsb (jv_eqb_str v) ([] :: empties).

(* the object values a field contributes: None when the field is absent (the property is not touched) *)
Definition field_values (empties : list str) (v : jv) : option (list jv) :=
  match v with
  | JNull => None
  | JList l => Some (filter (fun x => negb (is_empty empties x)) l)
  | JBool b => Some [JStr (if b then s2l "true" else s2l "false")]
  | _ => Some (if is_empty empties v then [] else [v])
  end.

Record tconf := {
  c_pmap : list (list str * list str);          (* selector path -> property names, in PROPERTY_MAP order *)
  c_empty : list (list str * list str)          (* selector path -> EMPTY_VALUES of that field *)
}.
Definition path_eqb := list_eqb str_eqb.
Fixpoint pget {V} (k : list str) (d : list (list str * V)) : option V :=
  match d with [] => None | (k', v) :: r => if path_eqb k k' then Some v else pget k r end.

(* `shared_empties`: the list of empty markers is created once per record and grows (a seeded mistake), instead of per field *)
Fixpoint gen_props (shared : bool) (c : tconf) (rec : jv) (entries : list (list str * list str)) (carried : list str) (acc : list (str * list jv)) : list (str * list jv) :=
  match entries with
  | [] => acc
  | (sel, names) :: r =>
      let v := jlookup rec sel in
      match v with
      | JNull => gen_props shared c rec r carried acc
      | _ =>
          let empties := (if shared then carried else []) ++ odefault [] (pget sel (c_empty c)) in
          match field_values empties v with
          | Some vals => gen_props shared c rec r empties (fold_left (fun a n => aset n vals a) names acc)
          | None => gen_props shared c rec r empties acc
          end
      end
  end.
Definition generate (c : tconf) (rec : jv) : list (str * list jv) := gen_props false c rec (c_pmap c) [] [].

(* ---- the mediator ---- *)
Inductive ev_outcome := EvNone | EvValid | EvInvalid.       (* no transcoder / the writer accepts the event (possibly after repair) / it rejects it *)
Inductive mop := OSource (uri : str) | ORecord (o : ev_outcome) (src : str) | OClose.
Inductive mitem := MOnt (version : nat) (sources : list str) | MEv (src : str).
Inductive mresult := MOk | MRaised.

Record mstate := { m_version : nat; m_sources : list str; m_written : nat; m_closed : bool }.
Definition m_init : mstate := {| m_version := 1; m_sources := []; m_written := 0; m_closed := false |}.

(* _write_ontology_update *)
Definition write_onto (st : mstate) : mstate * list mitem :=
  let st1 := match m_sources st with
             | [] => {| m_version := S (m_version st); m_sources := [s2l "/undefined/"]; m_written := m_written st; m_closed := m_closed st |}
             | _ => st
             end in
  if Nat.ltb (m_written st1) (m_version st1)
  then ({| m_version := m_version st1; m_sources := m_sources st1; m_written := m_version st1; m_closed := m_closed st1 |}, [MOnt (m_version st1) (m_sources st1)])
  else (st1, []).

Definition mstep (ignore_invalid : bool) (st : mstate) (o : mop) : mstate * list mitem * mresult :=
  match o with
  | OSource u =>
      if mem u (m_sources st) then (st, [], MRaised)       (* create_event_source of an existing URI: left to the ontology; not used here *)
      else ({| m_version := S (m_version st); m_sources := m_sources st ++ [u]; m_written := m_written st; m_closed := m_closed st |}, [], MOk)
  | ORecord EvNone _ => if m_closed st then (st, [], MRaised) else (st, [], MOk)
  | ORecord out src =>
      if m_closed st then (st, [], MRaised)
      else
        let '(st1, items) := write_onto st in
        match out with
        | EvValid => if mem src (m_sources st1) then (st1, items ++ [MEv src], MOk)
                     else (st1, items, if ignore_invalid then MOk else MRaised)       (* unknown source: rejected by the writer *)
        | _ => (st1, items, if ignore_invalid then MOk else MRaised)
        end
  | OClose =>
      if m_closed st then (st, [], MOk)
      else let '(st1, items) := write_onto st in
           ({| m_version := m_version st1; m_sources := m_sources st1; m_written := m_written st1; m_closed := true |}, items, MOk)
  end.

(* a history stops at the first exception *)
Fixpoint mrun (ignore_invalid : bool) (st : mstate) (ops : list mop) : list mitem * mresult :=
  match ops with
  | [] => ([], MOk)
  | o :: r => let '(st1, items, res) := mstep ignore_invalid st o in
              match res with
              | MRaised => (items, MRaised)
              | MOk => let '(more, res2) := mrun ignore_invalid st1 r in (items ++ more, res2)
              end
  end.

(* what a reader of the output knows when it meets an event: the sources of the most recent ontology item *)
Fixpoint well_ordered (known : list str) (items : list mitem) : bool :=
  match items with
  | [] => true
  | MOnt _ s :: r => well_ordered s r
  | MEv src :: r => mem src known && well_ordered known r
  end.

Fixpoint jv_eqb (a b : jv) : bool :=
  match a, b with
  | JNull, JNull => true
  | JBool x, JBool y => Bool.eqb x y
  | JStr x, JStr y => str_eqb x y
  | JInt x, JInt y => Z.eqb x y
  | JList x, JList y => (fix go (x y : list jv) : bool := match x, y with [] , [] => true | a :: x', b :: y' => jv_eqb a b && go x' y' | _, _ => false end) x y
  | JDict x, JDict y => (fix go (x y : list (str * jv)) : bool := match x, y with [], [] => true | (k, a) :: x', (k', b) :: y' => str_eqb k k' && jv_eqb a b && go x' y' | _, _ => false end) x y
  | _, _ => false
  end.
Definition props_eqb (a b : list (str * list jv)) : bool := list_eqb (pair_eqb str_eqb (list_eqb jv_eqb)) a b.
Definition mitem_eqb (a b : mitem) : bool :=
  match a, b with MOnt _ s, MOnt _ s' => strs_eqb s s' | MEv x, MEv y => str_eqb x y | _, _ => false end.
