(* C17 — proofs about the mediator bookkeeping and the property map. *)
From Coq Require Import String Lia.
From EdxmlVerif Require Import Base.Prelude Transcode.Mediator.

(* ---- ordering: every event is preceded by an ontology item that holds its source ---- *)
Fixpoint last_known (known : list str) (items : list mitem) : list str :=
  match items with [] => known | MOnt _ s :: r => last_known s r | MEv _ :: r => last_known known r end.

Lemma well_ordered_app a : forall known b, well_ordered known (a ++ b) = well_ordered known a && well_ordered (last_known known a) b.
Proof.
  induction a as [|i r IH]; intros known b; cbn; [reflexivity|]. destruct i; [apply IH|]. rewrite IH, andb_assoc. reflexivity.
Qed.

(* what the output already tells a reader, relative to the mediator state *)
Definition inv (st : mstate) (known : list str) : Prop :=
  m_written st <= m_version st /\ (m_written st = m_version st -> known = m_sources st /\ m_sources st <> []).

Lemma write_onto_spec st known : inv st known ->
  let '(st1, items) := write_onto st in
  m_written st1 = m_version st1 /\ m_sources st1 <> [] /\ last_known known items = m_sources st1 /\ well_ordered known items = true /\
  m_closed st1 = m_closed st /\ inv st1 (m_sources st1).
Proof.
  intros (L & E). unfold write_onto.
  destruct (m_sources st) as [|s0 sr] eqn:SRC.
  - cbn [m_version m_written m_sources m_closed].
    assert (Nat.ltb (m_written st) (S (m_version st)) = true) as -> by (apply Nat.ltb_lt; lia).
    cbn. repeat split; try reflexivity; try discriminate; try lia.
  - destruct (Nat.ltb (m_written st) (m_version st)) eqn:LT.
    + cbn. rewrite SRC. repeat split; try reflexivity; try discriminate; try lia.
    + apply Nat.ltb_ge in LT. assert (W : m_written st = m_version st) by lia. destruct (E W) as (K & NE).
      cbn. rewrite SRC. split; [exact W|]. split; [discriminate|]. split; [exact K|]. split; [reflexivity|]. split; [reflexivity|].
      split; [lia|]. intros _. rewrite SRC. split; [reflexivity | discriminate].
Qed.

Theorem output_well_ordered ig ops : forall st known, inv st known -> well_ordered known (fst (mrun ig st ops)) = true.
Proof.
  induction ops as [|o r IH]; intros st known I; cbn [mrun]; [reflexivity|].
  destruct o as [u|out src|]; cbn [mstep].
  - (* a new source *)
    destruct (mem u (m_sources st)); [reflexivity|].
    match goal with |- context [mrun ig ?s r] => specialize (IH s known) end.
    destruct (mrun ig _ r) as (more, res2). cbn. apply IH. destruct I as (L & E). split; cbn; [lia|]. intros W. lia.
  - (* a record *)
    destruct out.
    + destruct (m_closed st); [reflexivity|]. specialize (IH st known I). destruct (mrun ig st r) as (more, res2). exact IH.
    + destruct (m_closed st); [reflexivity|].
      pose proof (write_onto_spec st known I) as W. destruct (write_onto st) as (st1, items).
      destruct W as (W1 & NE & LK & WO & CL & I1).
      destruct (mem src (m_sources st1)) eqn:M.
      * specialize (IH st1 (m_sources st1) I1). destruct (mrun ig st1 r) as (more, res2). cbn [fst] in *.
        rewrite <- app_assoc, well_ordered_app, WO, LK. cbn. rewrite M, IH. reflexivity.
      * destruct ig.
        -- specialize (IH st1 (m_sources st1) I1). destruct (mrun true st1 r) as (more, res2). cbn [fst] in *.
           rewrite well_ordered_app, WO, LK, IH. reflexivity.
        -- exact WO.
    + destruct (m_closed st); [reflexivity|].
      pose proof (write_onto_spec st known I) as W. destruct (write_onto st) as (st1, items).
      destruct W as (W1 & NE & LK & WO & CL & I1).
      destruct ig.
      * specialize (IH st1 (m_sources st1) I1). destruct (mrun true st1 r) as (more, res2). cbn [fst] in *.
        rewrite well_ordered_app, WO, LK, IH. reflexivity.
      * exact WO.
  - (* close *)
    destruct (m_closed st) eqn:C.
    + specialize (IH st known I). destruct (mrun ig st r) as (more, res2). exact IH.
    + pose proof (write_onto_spec st known I) as W. destruct (write_onto st) as (st1, items).
      destruct W as (W1 & NE & LK & WO & CL & I1).
      match goal with |- context [mrun ig ?s r] => specialize (IH s (m_sources st1)) end.
      destruct (mrun ig _ r) as (more, res2). cbn [fst] in *. rewrite well_ordered_app, WO, LK. cbn. apply IH.
      destruct I1 as (L1 & E1). split; cbn; [exact L1 | exact E1].
Qed.

Lemma inv_init : inv m_init [].
Proof. split; cbn; [lia | intros; lia]. Qed.

(* only events that the writer accepted are written *)
Theorem only_valid_events_written ig ops : forall st src, In (MEv src) (fst (mrun ig st ops)) -> In (ORecord EvValid src) ops.
Proof.
  induction ops as [|o r IH]; intros st src H; cbn [mrun] in H; [destruct H|].
  assert (ONT : forall s, ~ In (MEv src) (snd (write_onto s))).
  { intros s. unfold write_onto. destruct (m_sources s); destruct (Nat.ltb _ _); cbn; intuition discriminate. }
  destruct o as [u|out s0|]; cbn [mstep] in H.
  - destruct (mem u (m_sources st)); [destruct H|].
    match type of H with context [mrun ig ?s r] => pose proof (IH s src) as I; destruct (mrun ig s r) as (more, res2) end.
    right. apply I. exact H.
  - destruct out.
    + destruct (m_closed st); [destruct H|]. pose proof (IH st src) as I. destruct (mrun ig st r) as (more, res2). right. apply I. exact H.
    + destruct (m_closed st); [destruct H|].
      pose proof (ONT st) as O. destruct (write_onto st) as (st1, items). cbn [snd] in O.
      destruct (mem s0 (m_sources st1)).
      * pose proof (IH st1 src) as I. destruct (mrun ig st1 r) as (more, res2). cbn [fst] in H.
        rewrite <- app_assoc in H. apply in_app_or in H. destruct H as [H|H]; [tauto|].
        cbn in H. destruct H as [H|H]; [injection H as ->; left; reflexivity | right; apply I; exact H].
      * destruct ig.
        -- pose proof (IH st1 src) as I. destruct (mrun true st1 r) as (more, res2). cbn [fst] in H.
           apply in_app_or in H. destruct H as [H|H]; [tauto | right; apply I; exact H].
        -- cbn in H. tauto.
    + destruct (m_closed st); [destruct H|].
      pose proof (ONT st) as O. destruct (write_onto st) as (st1, items). cbn [snd] in O.
      destruct ig.
      * pose proof (IH st1 src) as I. destruct (mrun true st1 r) as (more, res2). cbn [fst] in H.
        apply in_app_or in H. destruct H as [H|H]; [tauto | right; apply I; exact H].
      * cbn in H. tauto.
  - destruct (m_closed st).
    + pose proof (IH st src) as I. destruct (mrun ig st r) as (more, res2). right. apply I. exact H.
    + pose proof (ONT st) as O. destruct (write_onto st) as (st1, items). cbn [snd] in O.
      match type of H with context [mrun ig ?s r] => pose proof (IH s src) as I; destruct (mrun ig s r) as (more, res2) end.
      cbn [fst] in H. apply in_app_or in H. destruct H as [H|H]; [tauto | right; apply I; exact H].
Qed.

(* without ignore_invalid_events an invalid event ends the run with an error: a run that completes had none *)
Theorem invalid_event_raises ops : forall st, snd (mrun false st ops) = MOk -> forall src, ~ In (ORecord EvInvalid src) ops.
Proof.
  induction ops as [|o r IH]; intros st H src Hin; [destruct Hin|]. cbn [mrun] in H.
  destruct o as [u|out s0|]; cbn [mstep] in H.
  - destruct Hin as [E|Hin]; [discriminate|]. destruct (mem u (m_sources st)); [discriminate|].
    match type of H with context [mrun false ?s r] => pose proof (IH s) as I; destruct (mrun false s r) as (more, res2) end.
    cbn in H. exact (I H src Hin).
  - destruct out.
    + destruct Hin as [E|Hin]; [discriminate|]. destruct (m_closed st); [discriminate|].
      pose proof (IH st) as I. destruct (mrun false st r) as (more, res2). cbn in H. exact (I H src Hin).
    + destruct Hin as [E|Hin]; [discriminate|]. destruct (m_closed st); [discriminate|].
      destruct (write_onto st) as (st1, items). destruct (mem s0 (m_sources st1)); [|discriminate].
      pose proof (IH st1) as I. destruct (mrun false st1 r) as (more, res2). cbn in H. exact (I H src Hin).
    + destruct (m_closed st); [discriminate|]. destruct (write_onto st) as (st1, items). discriminate.
  - destruct Hin as [E|Hin]; [discriminate|]. destruct (m_closed st).
    + pose proof (IH st) as I. destruct (mrun false st r) as (more, res2). cbn in H. exact (I H src Hin).
    + destruct (write_onto st) as (st1, items).
      match type of H with context [mrun false ?s r] => pose proof (IH s) as I; destruct (mrun false s r) as (more, res2) end.
      cbn in H. exact (I H src Hin).
Qed.

(* ---- the property map: every object value of a generated event comes from the selected record field and is not an empty marker ---- *)
Lemma aset_In {V} k (x : V) a p v : In (p, v) (aset k x a) -> (p = k /\ v = x) \/ In (p, v) a.
Proof.
  induction a as [|(k', v') r IH]; cbn; [intros [E|[]]; injection E as <- <-; auto|].
  destruct (str_eqb k k') eqn:Q; cbn; intros [E|H].
  - injection E as <- <-. apply str_eqb_eq in Q. subst. auto.
  - auto.
  - auto.
  - destruct (IH H); auto.
Qed.

Definition provenance (c : tconf) (rec : jv) (p : str) (vals : list jv) : Prop :=
  exists sel names, In (sel, names) (c_pmap c) /\ In p names /\ field_values (odefault [] (pget sel (c_empty c))) (jlookup rec sel) = Some vals.

Lemma fold_aset_In {V} (names : list str) (vals : V) : forall (acc : list (str * V)) p v, In (p, v) (fold_left (fun a n => aset n vals a) names acc) -> (In p names /\ v = vals) \/ In (p, v) acc.
Proof.
  induction names as [|n r IH]; intros acc p v H; cbn in H; [auto|].
  destruct (IH _ _ _ H) as [(I & E)|I]; [left; split; [right; exact I | exact E]|].
  destruct (aset_In _ _ _ _ _ I) as [(-> & ->)|I2]; [left; split; [left; reflexivity | reflexivity] | auto].
Qed.

Theorem generated_values_come_from_the_record c rec : forall p vals, In (p, vals) (generate c rec) -> provenance c rec p vals.
Proof.
  unfold generate.
  assert (G : forall entries carried acc, (forall e, In e entries -> In e (c_pmap c)) -> (forall p v, In (p, v) acc -> provenance c rec p v) ->
              forall p v, In (p, v) (gen_props false c rec entries carried acc) -> provenance c rec p v).
  { induction entries as [|(sel, names) r IH]; intros carried acc SUB ACC p v H; cbn [gen_props] in H; [apply ACC; exact H|].
    assert (SUBr : forall e, In e r -> In e (c_pmap c)) by (intros; apply SUB; right; assumption).
    destruct (jlookup rec sel) eqn:LK; try (eapply IH; [exact SUBr | exact ACC | exact H]);
      cbn [app] in H;
      match type of H with context [field_values ?e ?x] => destruct (field_values e x) as [vals|] eqn:FV end;
      try (eapply IH; [exact SUBr | exact ACC | exact H]);
      (eapply IH; [exact SUBr | | exact H]); intros p0 v0 H0;
      (destruct (fold_aset_In _ _ _ _ _ H0) as [(I & ->)|I]; [|apply ACC; exact I]);
      exists sel, names; (split; [apply SUB; left; reflexivity | split; [exact I | rewrite LK; exact FV]]). }
  intros p vals H. apply (G (c_pmap c) [] [] (fun e He => He) (fun p0 v0 (F : In (p0, v0) []) => match F with end) p vals H).
Qed.

Lemma field_values_sound empties v vals : field_values empties v = Some vals ->
  forall x, In x vals ->
    (x = v /\ is_empty empties x = false) \/ (exists l, v = JList l /\ In x l /\ is_empty empties x = false) \/
    (exists b, v = JBool b /\ x = JStr (if b then s2l "true" else s2l "false")).
Proof.
  intros H x Hx. destruct v; cbn [field_values] in H; try discriminate.
  - injection H as <-. destruct Hx as [<-|[]]. right; right. exists b. auto.
  - injection H as <-. destruct (is_empty empties (JStr s)) eqn:E; cbn in Hx; [destruct Hx|]. destruct Hx as [<-|[]]. auto.
  - injection H as <-. destruct (is_empty empties (JInt z)) eqn:E; cbn in Hx; [destruct Hx|]. destruct Hx as [<-|[]]. auto.
  - injection H as <-. apply filter_In in Hx. destruct Hx as (I & N). apply negb_true_iff in N. right; left. exists l. auto.
  - injection H as <-. destruct (is_empty empties (JDict d)) eqn:E; cbn in Hx; [destruct Hx|]. destruct Hx as [<-|[]]. auto.
Qed.

(* markers configured for one field must not affect another field: creating the list of empty markers once per record does *)
Theorem shared_empty_markers_refuted : exists c rec, gen_props true c rec (c_pmap c) [] [] <> generate c rec.
Proof.
  exists {| c_pmap := [([s2l "status"], [s2l "status"]); ([s2l "alias"], [s2l "alias"])]; c_empty := [([s2l "status"], [s2l "none"])] |},
         (JDict [(s2l "status", JStr (s2l "active")); (s2l "alias", JStr (s2l "none"))]).
  vm_compute. discriminate.
Qed.
