(* Ontology layer (C09, C10, C11, C12): a generic model of versioned ontology elements.
   Every element kind of edxml/ontology/*.py is a node with a version (its own, or the owning
   event type's for sub-elements), attributes, and groups of keyed child elements.
   All __cmp__ implementations follow one scheme, driven here by a per-kind rule table. *)
From EdxmlVerif Require Import Base.Prelude.

Inductive aval := VNone | VStr (s : str) | VBool (b : bool) | VInt (z : Z).

Definition aval_eqb (a b : aval) : bool :=
  match a, b with
  | VNone, VNone => true
  | VStr x, VStr y => str_eqb x y
  | VBool x, VBool y => Bool.eqb x y
  | VInt x, VInt y => Z.eqb x y
  | _, _ => false
  end.

Lemma aval_eqb_eq a b : aval_eqb a b = true <-> a = b.
Proof.
  destruct a, b; cbn; try (split; [discriminate | intro H; discriminate]); try (split; reflexivity).
  - rewrite str_eqb_eq. split; [intros -> | intro H; injection H]; auto.
  - rewrite Bool.eqb_true_iff. split; [intros -> | intro H; injection H]; auto.
  - rewrite Z.eqb_eq. split; [intros -> | intro H; injection H]; auto.
Qed.

(* how a difference in an attribute counts *)
Inductive rule :=
| Plain        (* cosmetic: the definitions are not equal, any change is a valid upgrade *)
| Frozen       (* may never change *)
| Grow         (* boolean that may only change from false to true (single->multi valued, mandatory->optional) *)
| RegexHard    (* hard regular expression: may be dropped or extended as "old|..." *)
| DataType.    (* data type: only enum extension *)

(* groups of child elements *)
Record gspec := {
  g_name : str;
  g_add_unequal : bool;          (* adding a child makes the definitions unequal (false only for the pinned attachments bug) *)
  g_add_needs_optional : bool;   (* added children must be optional (properties) *)
  g_timeless_rule : bool         (* adding children to a timeless event type must keep it timeless (properties) *)
}.

Record kspec := { k_rules : list (str * rule); k_groups : list gspec }.

Record node (C : Type) := { n_version : Z; n_attrs : list (str * aval); n_groups : list (str * list (str * C)) }.
Arguments n_version {C}. Arguments n_attrs {C}. Arguments n_groups {C}.

Inductive cmpres := Eq | Older | Newer | Incompat.   (* Older: self is older than other (Python -1) *)

Definition attr {C} (n : node C) (a : str) : aval := odefault VNone (aget a (n_attrs n)).
Definition kids {C} (n : node C) (g : str) : list (str * C) := odefault [] (aget g (n_groups n)).

(* string helpers *)
Fixpoint prefixb (p s : str) : bool :=
  match p, s with
  | [], _ => true
  | x :: ps, y :: ss => N.eqb x y && prefixb ps ss
  | _ :: _, [] => false
  end.
Fixpoint split_on (c : N) (s : str) : list str :=
  match s with
  | [] => [[]]
  | x :: r => if N.eqb x c then [] :: split_on c r
              else match split_on c r with
                   | h :: t => (x :: h) :: t
                   | [] => [[x]]
                   end
  end.
Definition ENUM : str := [101; 110; 117; 109]%N.
Definition family (dt : str) : str := match split_on 58%N dt with h :: _ => h | [] => [] end.

Fixpoint lprefixb (p l : list str) : bool :=
  match p, l with
  | [], _ => true
  | x :: ps, y :: ls => str_eqb x y && lprefixb ps ls
  | _ :: _, [] => false
  end.
(* DataType.is_valid_upgrade_of: both enums, more choices, the existing choices kept in place *)
Definition dt_upgrade (old new : str) : bool :=
  str_eqb (family new) ENUM && str_eqb (family old) ENUM &&
  Nat.ltb (length (split_on 58%N old)) (length (split_on 58%N new)) &&
  lprefixb (split_on 58%N old) (split_on 58%N new).
(* the pinned code compared the data type strings: enum:a:b -> enum:a:bc:d passed *)
Definition dt_upgrade_pinned (old new : str) : bool :=
  str_eqb (family new) ENUM && str_eqb (family old) ENUM &&
  Nat.ltb (length (split_on 58%N old)) (length (split_on 58%N new)) &&
  prefixb old new.

Definition rule_step (r : rule) (ov nv : aval) (st : bool * bool) : bool * bool :=
  let '(eq, valid) := st in
  if aval_eqb ov nv then (eq, valid)
  else match r with
       | Plain => (false, valid)
       | Frozen => (false, false)
       | Grow => (false, valid && aval_eqb nv (VBool true))
       | RegexHard =>
           (false, valid && match ov, nv with
                            | VNone, _ => false
                            | _, VNone => true
                            | VStr o, VStr n => prefixb (o ++ [124%N]) n
                            | _, _ => false
                            end)
       | DataType =>
           (false, valid && match ov, nv with VStr o, VStr n => dt_upgrade o n | _, _ => false end)
       end.

Definition IS_DATETIME : str := [105; 115; 45; 100; 97; 116; 101; 116; 105; 109; 101]%N.   (* derived flag of a property *)
Definition OPTIONAL : str := [111; 112; 116; 105; 111; 110; 97; 108]%N.

Definition nonempty_b {A} (l : list A) : bool := match l with [] => false | _ => true end.

Section Cmp.
  Context {C : Type}.
  Variable child_attr : C -> str -> aval.          (* attribute lookup on children (for optional / is-datetime) *)
  Variable childcmp : str -> C -> C -> cmpres.     (* comparison of child definitions (old, new), per group *)

  Definition timeless (l : list (str * C)) : bool :=
    forallb (fun kc => negb (aval_eqb (child_attr (snd kc) IS_DATETIME) (VBool true))) l.

  Definition kid_step (gn : str) (okids : list (str * C)) (acc : option (bool * bool)) (kc : str * C) : option (bool * bool) :=
    match acc with
    | None => None
    | Some (e, v) =>
        match aget (fst kc) okids with
        | None => Some (e, v)
        | Some oc =>
            match childcmp gn oc (snd kc) with
            | Eq => Some (e, v)
            | Older => Some (false, v)
            | Newer => Some (false, false)
            | Incompat => None          (* the comparison of the child definitions raises *)
            end
        end
    end.

  Definition group_step (g : gspec) (okids nkids : list (str * C)) (st : bool * bool) : option (bool * bool) :=
    let '(eq, valid) := st in
    let missing := filter (fun kc => negb (mem (fst kc) (akeys nkids))) okids in
    let added := filter (fun kc => negb (mem (fst kc) (akeys okids))) nkids in
    let '(eq1, valid1) := if nonempty_b missing then (false, false) else (eq, valid) in
    let '(eq2, valid2) :=
      if nonempty_b added then
        (if g_add_unequal g then false else eq1,
         valid1 &&
         (if g_add_needs_optional g then forallb (fun kc => aval_eqb (child_attr (snd kc) OPTIONAL) (VBool true)) added else true) &&
         (if g_timeless_rule g then (if timeless okids then timeless nkids else true) else true))
      else (eq1, valid1) in
    fold_left (kid_step (g_name g) okids) nkids (Some (eq2, valid2)).

  Definition cmp_node (ks : kspec) (a b : node C) : cmpres :=
    let other_newer := (n_version a <? n_version b)%Z in
    let differ := negb (n_version a =? n_version b)%Z in
    let old := if other_newer then a else b in
    let new := if other_newer then b else a in
    let st0 := fold_left (fun st ar => rule_step (snd ar) (attr old (fst ar)) (attr new (fst ar)) st)
                         (k_rules ks) (negb differ, true) in
    let st1 := fold_left (fun acc g => match acc with
                                       | None => None
                                       | Some st => group_step g (kids old (g_name g)) (kids new (g_name g)) st
                                       end) (k_groups ks) (Some st0) in
    match st1 with
    | None => Incompat
    | Some (eq, valid) =>
        if eq then Eq
        else if valid && differ then (if other_newer then Older else Newer)
        else Incompat
    end.
End Cmp.

(* the three nesting levels: association < property < event type *)
Definition T0 := node unit.
Definition T1 := node T0.
Definition T2 := node T1.

Definition cmp0 (ks : kspec) : T0 -> T0 -> cmpres := cmp_node (fun _ _ => VNone) (fun _ _ _ => Eq) ks.
Definition cmp1 (ks ks0 : kspec) : T1 -> T1 -> cmpres := cmp_node attr (fun _ => cmp0 ks0) ks.
(* children of an event type have different kinds per group: kind table by group name *)
Definition cmp2 (ks : kspec) (child_ks : str -> kspec * kspec) : T2 -> T2 -> cmpres :=
  cmp_node attr (fun g => cmp1 (fst (child_ks g)) (snd (child_ks g))) ks.

Definition cmpres_code (c : cmpres) : N := match c with Eq => 0 | Older => 1 | Newer => 2 | Incompat => 3 end.
