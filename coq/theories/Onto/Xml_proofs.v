(* C08 — reading back what was written gives the definition again. *)
From Coq Require Import String Lia.
From EdxmlVerif Require Import Base.Prelude Base.Bytes Onto.Tree Onto.Cmp_proofs Valid.Normalize Onto.Xml.

Section RoundTrip.
  Variable read_int : str -> option Z.
  Hypothesis read_render : forall z, read_int (render_Z z) = Some z.

  Lemma enc_dec c v o : codec_wf c v = true -> enc c v = Some o -> dec read_int c o = Some v.
  Proof.
    destruct c, v; cbn; try discriminate; intros W E; try (injection E as <-; cbn; try rewrite read_render; reflexivity).
    - (* KStrDefault *) injection E as <-. destruct (str_eqb s d) eqn:Q; cbn; [apply str_eqb_eq in Q; subst; reflexivity | reflexivity].
    - (* KBoolWritten *) injection E as <-. destruct b; reflexivity.
    - (* KBoolDefaultFalse *) injection E as <-. destruct b; reflexivity.
    - (* KFalsyReq *) injection E as <-. destruct s; [discriminate | reflexivity].
    - (* KFalsyOpt *) injection E as <-. destruct s; [discriminate | reflexivity].
    - (* KChoice2 *) injection E as <-. cbn. apply orb_true_iff in W. destruct W as [W|W]; apply str_eqb_eq in W; subst.
      + rewrite str_eqb_refl. reflexivity.
      + destruct (str_eqb b a) eqn:Q; [apply str_eqb_eq in Q; subst; reflexivity | reflexivity].
    - (* KRawOpt, VNone *) injection E as <-. cbn. apply orb_true_iff in W. destruct W as [W|W]; [|discriminate].
      destruct d; cbn in W; try discriminate. reflexivity.
  Qed.

  Variable k : ekind.
  Variable d : list (str * aval).
  Notation val a := (odefault VNone (aget a d)).

  Lemma aget_encode : forall tbl x, encode_attrs k d tbl = Some x -> forall a, ~ In a (map fst tbl) -> aget a x = None.
  Proof.
    induction tbl as [|(a0, c0) rest IH]; intros x E a NI; cbn in E.
    - injection E as <-. reflexivity.
    - destruct (enc c0 (val a0)) as [o|]; [|discriminate]. destruct (encode_attrs k d rest) as [r|] eqn:ER; [|discriminate].
      injection E as <-. cbn in NI.
      assert (aget a r = None) as AR by (apply (IH r eq_refl); tauto).
      destruct (if dropped k d a0 then None else o) as [s|]; [|exact AR].
      cbn. destruct (str_eqb a a0) eqn:Q; [apply str_eqb_eq in Q; subst; tauto | exact AR].
  Qed.

  Lemma decode_skip a s r : forall tbl, ~ In a (map fst tbl) -> decode_attrs read_int ((a, s) :: r) tbl = decode_attrs read_int r tbl.
  Proof.
    induction tbl as [|(a0, c0) rest IH]; intros NI; [reflexivity|]. cbn in NI. cbn [decode_attrs aget].
    destruct (str_eqb a0 a) eqn:Q; [apply str_eqb_eq in Q; subst; tauto|]. rewrite IH by tauto. reflexivity.
  Qed.

  Definition vals (tbl : list (str * codec)) : list (str * aval) := map (fun ac => (fst ac, val (fst ac))) tbl.

  Lemma decode_encode : forall tbl x, NoDup (map fst tbl) ->
    (forall a c, In (a, c) tbl -> codec_wf c (val a) = true /\ (dropped k d a = true -> absent_value read_int c = Some (val a))) ->
    encode_attrs k d tbl = Some x -> decode_attrs read_int x tbl = Some (vals tbl).
  Proof.
    induction tbl as [|(a0, c0) rest IH]; intros x ND H E; [reflexivity|].
    cbn in ND. inversion ND as [|? ? NI ND']; subst. cbn in E.
    destruct (enc c0 (val a0)) as [o|] eqn:EN; [|discriminate]. destruct (encode_attrs k d rest) as [r|] eqn:ER; [|discriminate].
    destruct (H a0 c0 (or_introl eq_refl)) as (W & DR).
    assert (IHr : decode_attrs read_int r rest = Some (vals rest)) by (apply IH; [exact ND' | intros; apply H; right; assumption | reflexivity]).
    injection E as <-. cbn [decode_attrs vals map fst].
    destruct (dropped k d a0) eqn:DP.
    - rewrite (aget_encode rest r ER a0 NI). unfold absent_value in DR. rewrite (DR eq_refl), IHr. reflexivity.
    - destruct o as [s|].
      + cbn [aget]. rewrite str_eqb_refl. rewrite (enc_dec c0 (val a0) (Some s) W EN), (decode_skip a0 s r rest NI), IHr. reflexivity.
      + rewrite (aget_encode rest r ER a0 NI), (enc_dec c0 (val a0) None W EN), IHr. reflexivity.
  Qed.

  Lemma vals_shaped : forall tbl dpart, shaped tbl dpart = true -> NoDup (map fst tbl) ->
    (forall a, In a (map fst tbl) -> aget a d = aget a dpart) -> vals tbl = dpart.
  Proof.
    induction tbl as [|(a0, c0) rest IH]; intros dpart S ND H; destruct dpart as [|(a', v) drest]; cbn in S; try discriminate; [reflexivity|].
    apply andb_true_iff in S. destruct S as (S & SR). apply andb_true_iff in S. destruct S as (EA & _). apply str_eqb_eq in EA. subst a'.
    cbn in ND. inversion ND as [|? ? NI ND']; subst.
    cbn [vals map fst]. rewrite (H a0 (or_introl eq_refl)). cbn [aget]. rewrite str_eqb_refl. cbn [odefault]. f_equal.
    apply IH; [exact SR | exact ND'|]. intros a Ha. rewrite (H a (or_intror Ha)). cbn [aget].
    destruct (str_eqb a a0) eqn:Q; [apply str_eqb_eq in Q; subst; tauto | reflexivity].
  Qed.

  Lemma shaped_wf : forall tbl dpart, shaped tbl dpart = true -> NoDup (map fst tbl) ->
    forall a c, In (a, c) tbl -> codec_wf c (odefault VNone (aget a dpart)) = true.
  Proof.
    induction tbl as [|(a0, c0) rest IH]; intros dpart S ND a c Hin; destruct dpart as [|(a', v) drest]; cbn in S; try discriminate; [destruct Hin|].
    apply andb_true_iff in S. destruct S as (S & SR). apply andb_true_iff in S. destruct S as (EA & W). apply str_eqb_eq in EA. subst a'.
    cbn in ND. inversion ND as [|? ? NI ND']; subst. destruct Hin as [Q|Hin].
    - injection Q as <- <-. cbn. rewrite str_eqb_refl. exact W.
    - cbn [aget]. destruct (str_eqb a a0) eqn:Q.
      + apply str_eqb_eq in Q. subst. exfalso. apply NI. apply in_map_iff. exists (a0, c). auto.
      + apply (IH drest SR ND' a c Hin).
  Qed.
End RoundTrip.

(* the whole element: for a definition in the normal shape whose jointly dropped attributes are at their defaults *)
Theorem element_round_trip read_int (read_render : forall z, read_int (render_Z z) = Some z) k d x :
  NoDup (map fst (e_attrs k)) -> shaped (e_attrs k) d = true -> rules_lossless read_int k d = true ->
  encode k d = Some x -> decode read_int k x = Some d.
Proof.
  intros ND S L E. unfold encode, decode in *.
  rewrite (decode_encode read_int read_render k d (e_attrs k) x ND); [f_equal; apply vals_shaped; auto|  | exact E].
  intros a c Hin. split.
  - apply (shaped_wf (e_attrs k) d S ND a c Hin).
  - intros DP. unfold rules_lossless in L. rewrite forallb_forall in L. specialize (L (a, c) Hin). cbn [fst snd] in L.
    rewrite DP in L. cbn in L. destruct (absent_value read_int c) as [dv|]; [|discriminate]. apply aval_eqb_eq in L. congruence.
Qed.

(* hence the second cycle writes the same attributes again *)
Corollary second_cycle_identical read_int (read_render : forall z, read_int (render_Z z) = Some z) k d x :
  NoDup (map fst (e_attrs k)) -> shaped (e_attrs k) d = true -> rules_lossless read_int k d = true ->
  encode k d = Some x -> exists d', decode read_int k x = Some d' /\ encode k d' = Some x.
Proof. intros ND S L E. exists d. split; [eapply element_round_trip; eauto | exact E]. Qed.

(* every class table has distinct attribute names *)
Fixpoint nodupb (l : list str) : bool := match l with [] => true | x :: r => negb (mem x r) && nodupb r end.
Lemma nodupb_NoDup l : nodupb l = true -> NoDup l.
Proof.
  induction l as [|x r IH]; intros H; [constructor|]. cbn in H. apply andb_true_iff in H. destruct H as (M & R).
  constructor; [|apply IH; exact R]. intros Hin. apply mem_In in Hin. rewrite Hin in M. discriminate.
Qed.
Lemma tables_nodup :
  Forall (fun k => NoDup (map fst (e_attrs k)))
         [xk_objtype; xk_concept; xk_source; xk_etype; xk_prop; xk_assoc true; xk_assoc false; xk_rel_full; xk_rel_other; xk_rel_simple; xk_att; xk_parent].
Proof. repeat (apply Forall_cons; [apply nodupb_NoDup; vm_compute; reflexivity|]). apply Forall_nil. Qed.

(* child order: a permutation of the keys, sorted — so it does not depend on the order in which children were added *)
Lemma child_order_perm keys : Permutation.Permutation keys (child_order keys).
Proof. apply sort_perm. Qed.
Lemma child_order_canonical k1 k2 : Permutation.Permutation k1 k2 -> child_order k1 = child_order k2.
Proof.
  intros P. unfold child_order. apply sorted_perm_eq; [apply sort_sorted | apply sort_sorted|].
  eapply Permutation.perm_trans; [apply Permutation.Permutation_sym; apply sort_perm|]. eapply Permutation.perm_trans; [exact P | apply sort_perm].
Qed.

(* the pinned association class wrote empty display name attributes, which the schema (minLength 1) rejects *)
Theorem pinned_assoc_writes_empty_names : exists d x,
  shaped (e_attrs (xk_assoc false)) d = true /\ encode (xk_assoc false) d = Some x /\ aget (s2l "attr-display-name-singular") x = Some [].
Proof.
  exists [(s2l "name", VStr (s2l "c")); (s2l "confidence", VInt 10); (s2l "cnp", VInt 128); (s2l "attr-extension", VStr (s2l "ext"));
          (s2l "attr-display-name-singular", VStr []); (s2l "attr-display-name-plural", VStr [])].
  eexists. split; [vm_compute; reflexivity|]. split; vm_compute; reflexivity.
Qed.
