(* C08 — model of the attribute level of generate_xml / create_from_xml of every ontology element class:
   a definition is a dictionary of typed attribute values, its XML form a dictionary of strings.
   Each attribute has a codec (how it is written, when it is left out, how it is read back); a few
   classes drop groups of attributes together (rules).  Children are written in the order of their keys. *)
From Coq Require Import String.
From EdxmlVerif Require Import Base.Prelude Base.Bytes Onto.Tree Valid.Normalize.

Inductive codec :=
| KStr                          (* required string, written as it is *)
| KInt                          (* required integer, written in decimal, read with int() *)
| KOptStr                       (* None <-> attribute absent *)
| KOptInt                       (* None <-> absent, otherwise decimal / int() *)
| KStrDefault (d : str)         (* the default value d is left out; absent reads as d *)
| KBoolWritten                  (* always written as true / false; read as (text == 'true') *)
| KBoolDefaultFalse             (* written only when true; absent reads as false *)
| KFalsyReq                     (* event type: left out when falsy (None or ''), required when reading *)
| KFalsyOpt                     (* event type: left out when falsy, absent reads as None *)
| KChoice2 (a b : str)          (* attachment encoding: read as (text == a) ? a : b *)
| KRawOpt (d : aval).           (* written as it is unless a rule drops it; absent reads as d *)

Definition S_TRUE : str := s2l "true".
Definition S_FALSE : str := s2l "false".

Section Codec.
  Variable read_int : str -> option Z.     (* Python int(text) *)

  (* writing: outer None = the value has the wrong type for this attribute (Python would fail or write garbage);
     inner None = the attribute is left out *)
  Definition enc (c : codec) (v : aval) : option (option str) :=
    match c, v with
    | KStr, VStr s => Some (Some s)
    | KInt, VInt z => Some (Some (render_Z z))
    | KOptStr, VNone => Some None
    | KOptStr, VStr s => Some (Some s)
    | KOptInt, VNone => Some None
    | KOptInt, VInt z => Some (Some (render_Z z))
    | KStrDefault d, VStr s => Some (if str_eqb s d then None else Some s)
    | KBoolWritten, VBool b => Some (Some (if b then S_TRUE else S_FALSE))
    | KBoolDefaultFalse, VBool b => Some (if b then Some S_TRUE else None)
    | KFalsyReq, VStr s | KFalsyOpt, VStr s => Some (match s with [] => None | _ => Some s end)
    | KFalsyOpt, VNone => Some None
    | KChoice2 _ _, VStr s => Some (Some s)
    | KRawOpt _, VStr s => Some (Some s)
    | KRawOpt _, VNone => Some None
    | _, _ => None
    end.

  (* reading: None = create_from_xml raises *)
  Definition dec (c : codec) (x : option str) : option aval :=
    match c, x with
    | KStr, Some s => Some (VStr s)
    | KStr, None => None
    | KInt, Some s => option_map VInt (read_int s)
    | KInt, None => None
    | KOptStr, Some s => Some (VStr s)
    | KOptStr, None => Some VNone
    | KOptInt, Some s => option_map VInt (read_int s)
    | KOptInt, None => Some VNone
    | KStrDefault d, Some s => Some (VStr s)
    | KStrDefault d, None => Some (VStr d)
    | KBoolWritten, Some s | KBoolDefaultFalse, Some s => Some (VBool (str_eqb s S_TRUE))
    | KBoolWritten, None | KBoolDefaultFalse, None => Some (VBool false)
    | KFalsyReq, Some s => Some (VStr s)
    | KFalsyReq, None => None
    | KFalsyOpt, Some s => Some (VStr s)
    | KFalsyOpt, None => Some VNone
    | KChoice2 a b, Some s => Some (VStr (if str_eqb s a then a else b))
    | KChoice2 _ _, None => None
    | KRawOpt d, Some s => Some (VStr s)
    | KRawOpt d, None => Some d
    end.

  (* values for which writing and reading are inverse *)
  Definition codec_wf (c : codec) (v : aval) : bool :=
    match c, v with
    | KStr, VStr _ | KInt, VInt _ | KOptStr, VNone | KOptStr, VStr _ | KOptInt, VNone | KOptInt, VInt _
    | KStrDefault _, VStr _ | KBoolWritten, VBool _ | KBoolDefaultFalse, VBool _ => true
    | KFalsyReq, VStr s => nonempty_b s
    | KFalsyOpt, VStr s => nonempty_b s
    | KFalsyOpt, VNone => true
    | KChoice2 a b, VStr s => str_eqb s a || str_eqb s b
    | KRawOpt d, v => aval_eqb v d || match v with VStr _ => true | _ => false end
    | _, _ => false
    end.

  (* ---- an element: table of (attribute, codec), drop rules *)
  Record rule_ := { r_trigger : list str; r_drops : list str }.   (* when every trigger attribute is None or '', the listed attributes are left out *)
  Record ekind := { e_attrs : list (str * codec); e_rules : list rule_ }.

  Definition falsy (v : aval) : bool := match v with VNone => true | VStr [] => true | _ => false end.
  Definition fires (d : list (str * aval)) (r : rule_) : bool :=
    forallb (fun a => falsy (odefault VNone (aget a d))) (r_trigger r).
  Definition dropped (k : ekind) (d : list (str * aval)) (a : str) : bool :=
    existsb (fun r => fires d r && mem a (r_drops r)) (e_rules k).

  (* generate_xml: the attribute dictionary of the element (None: some value has the wrong type) *)
  Fixpoint encode_attrs (k : ekind) (d : list (str * aval)) (tbl : list (str * codec)) : option (list (str * str)) :=
    match tbl with
    | [] => Some []
    | (a, c) :: rest =>
        match enc c (odefault VNone (aget a d)), encode_attrs k d rest with
        | Some o, Some r => Some (match (if dropped k d a then None else o) with Some s => (a, s) :: r | None => r end)
        | _, _ => None
        end
    end.
  Definition encode (k : ekind) (d : list (str * aval)) : option (list (str * str)) := encode_attrs k d (e_attrs k).

  (* create_from_xml (+ the constructor): the typed attribute dictionary *)
  Fixpoint decode_attrs (x : list (str * str)) (tbl : list (str * codec)) : option (list (str * aval)) :=
    match tbl with
    | [] => Some []
    | (a, c) :: rest =>
        match dec c (aget a x), decode_attrs x rest with
        | Some v, Some r => Some ((a, v) :: r)
        | _, _ => None
        end
    end.
  Definition decode (k : ekind) (x : list (str * str)) : option (list (str * aval)) := decode_attrs x (e_attrs k).

  (* a definition in the normal shape: exactly the attributes of the table, in its order *)
  Fixpoint shaped (tbl : list (str * codec)) (d : list (str * aval)) : bool :=
    match tbl, d with
    | [], [] => true
    | (a, c) :: rest, (a', v) :: drest => str_eqb a a' && codec_wf c v && shaped rest drest
    | _, _ => false
    end.

  (* the joint constraints under which the rules lose nothing: an attribute that a firing rule drops is at its absent-default *)
  Definition absent_value (c : codec) : option aval := dec c None.
  Definition rules_lossless (k : ekind) (d : list (str * aval)) : bool :=
    forallb (fun ac => negb (dropped k d (fst ac)) ||
                       match absent_value (snd ac) with
                       | Some dv => aval_eqb (odefault VNone (aget (fst ac) d)) dv
                       | None => false
                       end) (e_attrs k).
End Codec.

(* ---- the element classes ---- *)
Definition a_ (s : string) (c : codec) : str * codec := (s2l s, c).
Definition ru (t d : list string) : rule_ := {| r_trigger := map s2l t; r_drops := map s2l d |}.

Definition xk_objtype : ekind :=
  {| e_attrs := [a_ "name" KStr; a_ "display-name-singular" KStr; a_ "display-name-plural" KStr; a_ "description" KStr; a_ "data-type" KStr;
                 a_ "unit-name" (KRawOpt VNone); a_ "unit-symbol" (KRawOpt VNone); a_ "prefix-radix" KOptInt; a_ "xref" KOptStr;
                 a_ "compress" KBoolDefaultFalse; a_ "fuzzy-matching" KOptStr; a_ "regex-hard" KOptStr; a_ "regex-soft" KOptStr; a_ "version" KInt];
     e_rules := [ru ["unit-name"] ["unit-name"; "unit-symbol"]; ru ["unit-symbol"] ["unit-name"; "unit-symbol"]] |}%string.
Definition xk_concept : ekind :=
  {| e_attrs := [a_ "name" KStr; a_ "display-name-singular" KStr; a_ "display-name-plural" KStr; a_ "description" KStr; a_ "version" KInt]; e_rules := [] |}%string.
Definition xk_source : ekind :=
  {| e_attrs := [a_ "uri" KStr; a_ "description" KStr; a_ "date-acquired" KOptStr; a_ "version" KInt]; e_rules := [] |}%string.
Definition xk_etype : ekind :=
  {| e_attrs := [a_ "name" KFalsyReq; a_ "display-name-singular" KFalsyReq; a_ "display-name-plural" KFalsyReq; a_ "description" KFalsyReq;
                 a_ "summary" KFalsyReq; a_ "story" KFalsyReq; a_ "timespan-start" KFalsyOpt; a_ "timespan-end" KFalsyOpt;
                 a_ "event-version" KFalsyOpt; a_ "sequence" KFalsyOpt; a_ "version" KInt]; e_rules := [] |}%string.
Definition xk_prop : ekind :=
  {| e_attrs := [a_ "name" KStr; a_ "object-type" KStr; a_ "description" KStr; a_ "optional" KBoolWritten; a_ "multivalued" KBoolWritten;
                 a_ "merge" (KStrDefault (s2l "any")); a_ "similar" (KStrDefault []); a_ "confidence" KInt]; e_rules := [] |}%string.
(* `names_rule` = the repaired class also leaves out the display names when both are empty *)
Definition xk_assoc (names_rule : bool) : ekind :=
  {| e_attrs := [a_ "name" KStr; a_ "confidence" KInt; a_ "cnp" KInt; a_ "attr-extension" (KRawOpt (VStr []));
                 a_ "attr-display-name-singular" (KRawOpt (VStr [])); a_ "attr-display-name-plural" (KRawOpt (VStr []))];
     e_rules := ru ["attr-extension"] ["attr-extension"; "attr-display-name-singular"; "attr-display-name-plural"] ::
                (if names_rule then [ru ["attr-display-name-singular"; "attr-display-name-plural"] ["attr-display-name-singular"; "attr-display-name-plural"]] else []) |}%string.
Definition xk_rel_full : ekind :=      (* inter, intra *)
  {| e_attrs := [a_ "source" KStr; a_ "target" KStr; a_ "source-concept" KOptStr; a_ "target-concept" KOptStr; a_ "description" KOptStr;
                 a_ "predicate" KOptStr; a_ "confidence" KInt]; e_rules := [] |}%string.
Definition xk_rel_other : ekind :=
  {| e_attrs := [a_ "source" KStr; a_ "target" KStr; a_ "description" KOptStr; a_ "predicate" KOptStr; a_ "confidence" KInt]; e_rules := [] |}%string.
Definition xk_rel_simple : ekind :=    (* name, description, container, original *)
  {| e_attrs := [a_ "source" KStr; a_ "target" KStr]; e_rules := [] |}%string.
Definition xk_att : ekind :=
  {| e_attrs := [a_ "name" KStr; a_ "media-type" KStr; a_ "display-name-singular" KStr; a_ "display-name-plural" KStr; a_ "description" KStr;
                 a_ "encoding" (KChoice2 (s2l "base64") (s2l "unicode"))]; e_rules := [] |}%string.
Definition xk_parent : ekind :=
  {| e_attrs := [a_ "event-type" KStr; a_ "property-map" KStr; a_ "parent-description" KStr; a_ "siblings-description" KStr]; e_rules := [] |}%string.

(* children are written in the order of their keys *)
Definition child_order (keys : list str) : list str := Bytes.sort keys.

Definition attrs_eqb (a b : list (str * str)) : bool := list_eqb (pair_eqb str_eqb str_eqb) a b.
Definition def_eqb (a b : list (str * aval)) : bool := list_eqb (pair_eqb str_eqb aval_eqb) a b.
