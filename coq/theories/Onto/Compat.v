(* C10 — what an ontology means for events: validity of an event under (object types, event type),
   the hashed properties, the merge configuration — all read off the same generic nodes that the
   comparison model (Onto/Tree.v, Onto/Kinds.v) decides upgrades on. *)
From Coq Require Import String.
From EdxmlVerif Require Import Base.Prelude Base.Bytes Onto.Tree Onto.Kinds Event.Hash Event.Merge.

Definition A (s : string) : str := s2l s.
Definition astr (v : aval) : str := match v with VStr s => s | _ => [] end.
Definition abool (v : aval) : bool := match v with VBool b => b | _ => false end.

Definition props (et : T2) : list (str * T1) := kids et (A "properties").
Definition atts (et : T2) : list (str * T1) := kids et (A "attachments").
Definition p_objtype (p : T1) : str := astr (attr p (A "object-type")).
Definition p_optional (p : T1) : bool := abool (attr p OPTIONAL).
Definition p_multi (p : T1) : bool := abool (attr p (A "multivalued")).
Definition p_merge (p : T1) : str := astr (attr p (A "merge")).

(* an event, as far as the ontology is concerned: object sets per property, names of its attachments *)
Record event := { ev_props : list (str * list str); ev_atts : list str }.
Definition objs (e : event) (p : str) : list str := odefault [] (aget p (ev_props e)).

Section Sem.
  Variable dt_valid : str -> str -> bool.    (* value space of a data type other than enum, by its data type string *)
  Variable re_match : str -> str -> bool.    (* whole-value match of a hard regular expression given as text *)

  Definition enum_values (dt : str) : list str := tl (split_on 58%N dt).
  Definition value_ok (ot : T0) (v : str) : bool :=
    let dt := astr (attr ot (A "data-type")) in
    (if str_eqb (family dt) ENUM then mem v (enum_values dt) else dt_valid dt v) &&
    match attr ot (A "regex-hard") with VStr r => re_match r v | _ => true end.

  Definition prop_ok (ots : list (str * T0)) (e : event) (kp : str * T1) : bool :=
    let vs := objs e (fst kp) in
    (p_optional (snd kp) || nonempty_b vs) &&
    (p_multi (snd kp) || Nat.leb (length vs) 1) &&
    forallb (fun v => match aget (p_objtype (snd kp)) ots with Some ot => value_ok ot v | None => false end) vs.

  Definition declared_only (et : T2) (e : event) : bool :=
    forallb (fun kv => negb (nonempty_b (snd kv)) || mem (fst kv) (akeys (props et))) (ev_props e).

  Definition valid_event (ots : list (str * T0)) (et : T2) (e : event) : bool :=
    declared_only et e &&
    forallb (prop_ok ots e) (props et) &&
    forallb (fun a => mem a (akeys (atts et))) (ev_atts e).
End Sem.

(* EventType.get_hashed_properties *)
Definition MATCH : str := A "match".
Definition hashed_of (et : T2) : list str :=
  map fst (filter (fun kp => str_eqb (p_merge (snd kp)) MATCH) (props et)).

(* merge configuration *)
Definition strat_parse (s : str) : strategy :=
  if str_eqb s (A "match") then SMatch else if str_eqb s (A "add") then SAdd else if str_eqb s (A "set") then SSet
  else if str_eqb s (A "replace") then SReplace else if str_eqb s (A "min") then SMin else if str_eqb s (A "max") then SMax else SAny.
Definition etype_of (et : T2) : etype :=
  {| et_strat := map (fun kp => (fst kp, strat_parse (p_merge (snd kp)))) (props et);
     et_version := match attr et (A "event-version") with VStr s => Some s | _ => None end |}.

(* the upgrade decisions, as Ontology.update applies them: an element is kept (identical) or replaced by a valid upgrade *)
Definition ot_step (old new : T0) : Prop := new = old \/ cmp_objtype old new = Older.
Definition et_step (old new : T2) : Prop := new = old \/ cmp_etype true old new = Older.
Definition ots_step (old new : list (str * T0)) : Prop :=
  forall n o, aget n old = Some o -> exists o', aget n new = Some o' /\ ot_step o o'.

(* well-formedness of what the parser / API builds: keys are unique (Python dicts) *)
Definition wf_et (et : T2) : Prop := NoDup (akeys (props et)).

(* executable counterparts for the correspondence run *)
Definition lookup2 (tbl : list (str * list (str * bool))) (a b : str) : bool :=
  match aget a tbl with Some l => odefault false (aget b l) | None => false end.
