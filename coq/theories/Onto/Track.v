(* C12 — change tracking.  Elements form ownership chains that end in an ontology (the root); a mutator
   execution is a sequence of primitive events: W l = a write that may change what element l serialises to,
   Nf l = _child_modified_callback() invoked on element l, which walks the chain of l to its root and
   increments the root's change counter. *)
From EdxmlVerif Require Import Base.Prelude.

Inductive tev := W (l : nat) | Nf (l : nat).

Section Track.
  Variable root : nat -> nat.             (* the ontology at the end of the ownership chain of element l *)

  Definition counters := nat -> nat.
  Definition tstep (c : counters) (e : tev) : counters :=
    match e with
    | W _ => c
    | Nf l => fun r => if Nat.eqb r (root l) then S (c r) else c r
    end.
  Definition trun (c : counters) (evs : list tev) : counters := fold_left tstep evs c.

  (* ontology r may serialise differently afterwards only if an element owned by r was written *)
  Definition written (r : nat) (evs : list tev) : bool :=
    existsb (fun e => match e with W l => Nat.eqb (root l) r | Nf _ => false end) evs.

  (* every write is followed, before the mutator returns, by a notification that reaches the same ontology *)
  Fixpoint well_notified (evs : list tev) : bool :=
    match evs with
    | [] => true
    | W l :: rest => existsb (fun e => match e with Nf l' => Nat.eqb (root l') (root l) | W _ => false end) rest && well_notified rest
    | Nf _ :: rest => well_notified rest
    end.
End Track.

(* ---- the mutator table (Generated/C12_gen.v) ---- *)
Definition row := (str * str * bool * bool * bool * bool)%type.
Definition row_class (r : row) : str := match r with (c, _, _, _, _, _) => c end.
Definition row_method (r : row) : str := match r with (_, m, _, _, _, _) => m end.
Definition row_writes (r : row) : bool := match r with (_, _, w, _, _, _) => w end.
Definition row_notifies (r : row) : bool := match r with (_, _, _, n, _, _) => n end.
Definition row_resets (r : row) : bool := match r with (_, _, _, _, _, x) => x end.

Definition listed (ex : list (str * str)) (r : row) : bool :=
  existsb (fun cm => str_eqb (fst cm) (row_class r) && str_eqb (snd cm) (row_method r)) ex.
(* every method that writes content directly also calls the change callback; no method assigns the counter *)
Definition table_ok (ex : list (str * str)) (t : list row) : bool :=
  forallb (fun r => listed ex r || ((negb (row_writes r) || row_notifies r) && negb (row_resets r))) t.
