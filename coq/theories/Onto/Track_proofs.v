From EdxmlVerif Require Import Base.Prelude Onto.Track.

Section Proofs.
  Variable root : nat -> nat.
  Notation trun := (trun root).
  Notation tstep := (tstep root).

  Lemma tstep_mono c e r : c r <= tstep c e r.
  Proof. destruct e; cbn; [lia|]. destruct (Nat.eqb r (root l)); lia. Qed.

  Lemma trun_mono evs : forall c r, c r <= trun c evs r.
  Proof.
    induction evs as [|e rest IH]; intros c r; cbn; [lia|].
    etransitivity; [apply (tstep_mono c e r) | apply IH].
  Qed.

  Lemma notified_increases evs : forall c r,
    existsb (fun e => match e with Nf l' => Nat.eqb (root l') r | W _ => false end) evs = true ->
    c r < trun c evs r.
  Proof.
    induction evs as [|e rest IH]; intros c r H; cbn in H; [discriminate|].
    apply orb_true_iff in H as [H|H].
    - destruct e as [l|l]; [discriminate|]. apply Nat.eqb_eq in H. cbn [Track.trun fold_left].
      eapply Nat.lt_le_trans; [|apply trun_mono]. cbn. rewrite <- H, Nat.eqb_refl. lia.
    - cbn [Track.trun fold_left]. eapply Nat.le_lt_trans; [apply (tstep_mono c e r) | apply IH; exact H].
  Qed.

  (* any change of what ontology r serialises to strictly increases r's counter *)
  Lemma tracking_sound evs : forall c r,
    well_notified root evs = true -> written root r evs = true -> c r < trun c evs r.
  Proof.
    induction evs as [|e rest IH]; intros c r WN Wr; cbn in Wr; [discriminate|].
    destruct e as [l|l]; cbn [well_notified] in WN.
    - apply andb_true_iff in WN as [N WN]. apply orb_true_iff in Wr as [Wr|Wr].
      + apply Nat.eqb_eq in Wr. subst r. cbn [Track.trun fold_left tstep Track.tstep]. apply notified_increases. exact N.
      + cbn [Track.trun fold_left Track.tstep]. apply IH; assumption.
    - cbn in Wr. cbn [Track.trun fold_left]. eapply Nat.le_lt_trans; [apply (tstep_mono c (Nf l) r) | apply IH; assumption].
  Qed.

  (* hence is_modified_since(v) is true for every v observed before the change *)
  Lemma modified_since evs c r v :
    well_notified root evs = true -> written root r evs = true -> v <= c r -> v < trun c evs r.
  Proof. intros WN Wr Hv. eapply Nat.le_lt_trans; [exact Hv | apply tracking_sound; assumption]. Qed.

  (* a mutator that writes without notifying is not covered *)
  Lemma missing_callback_unsound : exists evs c r, written root r evs = true /\ trun c evs r = c r.
  Proof. exists [W 0], (fun _ => 0), (root 0). cbn. rewrite Nat.eqb_refl. split; reflexivity. Qed.
End Proofs.
