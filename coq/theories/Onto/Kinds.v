(* Rule tables of the ontology element kinds, as read from the __cmp__ implementations of
   edxml/ontology/*.py.  The cosmetic attribute lists are the ones extracted from the source on
   this run (Generated/C09_gen.v); the restricted attributes and child groups are written here. *)
From EdxmlVerif Require Import Base.Prelude Onto.Tree Generated.C09_gen.
From Coq Require Import String.
Local Open Scope string_scope.

Definition plain (l : list str) : list (str * rule) := map (fun a => (a, Plain)) l.
Definition r (a : string) (x : rule) : str * rule := (s2l a, x).

Definition ks_objtype : kspec :=
  {| k_rules := plain gen_plain_objtype ++ [r "regex-hard" RegexHard; r "data-type" DataType]; k_groups := [] |}.
Definition ks_concept : kspec := {| k_rules := plain gen_plain_concept; k_groups := [] |}.
Definition ks_source : kspec := {| k_rules := plain gen_plain_source; k_groups := [] |}.
Definition ks_assoc : kspec :=
  {| k_rules := [r "attr-extension" Frozen] ++ plain gen_plain_assoc; k_groups := [] |}.
Definition ks_rel : kspec :=
  {| k_rules := [r "source" Frozen; r "target" Frozen; r "source-concept" Frozen; r "target-concept" Frozen; r "type" Frozen]
                ++ plain gen_plain_rel; k_groups := [] |}.
Definition ks_parent : kspec :=
  {| k_rules := [r "event-type" Frozen; r "property-map" Frozen] ++ plain gen_plain_parent; k_groups := [] |}.
Definition ks_att : kspec :=
  {| k_rules := [r "media-type" Frozen; r "encoding" Frozen] ++ plain gen_plain_att; k_groups := [] |}.
Definition ks_prop : kspec :=
  {| k_rules := [r "object-type" Frozen; r "merge" Frozen; r "multivalued" Grow; r "optional" Grow] ++ plain gen_plain_prop;
     k_groups := [ {| g_name := s2l "concepts"; g_add_unequal := true; g_add_needs_optional := false; g_timeless_rule := false |} ] |}.

(* `att_add_unequal`: false models the pinned code, in which adding an attachment left the definitions "equal" *)
Definition ks_etype (att_add_unequal : bool) : kspec :=
  {| k_rules := plain gen_plain_etype ++
                [r "event-version" Frozen; r "sequence" Frozen; r "timespan-start" Frozen; r "timespan-end" Frozen];
     k_groups := [ {| g_name := s2l "parent"; g_add_unequal := true; g_add_needs_optional := false; g_timeless_rule := false |};
                   {| g_name := s2l "properties"; g_add_unequal := true; g_add_needs_optional := true; g_timeless_rule := true |};
                   {| g_name := s2l "relations"; g_add_unequal := true; g_add_needs_optional := false; g_timeless_rule := false |};
                   {| g_name := s2l "attachments"; g_add_unequal := att_add_unequal; g_add_needs_optional := false; g_timeless_rule := false |} ] |}.

Definition empty_ks : kspec := {| k_rules := []; k_groups := [] |}.
(* kinds of the children of an event type, by group: (kind of the child, kind of the child's children) *)
Definition etype_children (g : str) : kspec * kspec :=
  if str_eqb g (s2l "properties") then (ks_prop, ks_assoc)
  else if str_eqb g (s2l "relations") then (ks_rel, empty_ks)
  else if str_eqb g (s2l "attachments") then (ks_att, empty_ks)
  else (ks_parent, empty_ks).

Definition cmp_objtype := cmp0 ks_objtype.
Definition cmp_concept := cmp0 ks_concept.
Definition cmp_source := cmp0 ks_source.
Definition cmp_etype (fixed : bool) := cmp2 (ks_etype fixed) etype_children.
Definition cmp_prop := cmp1 ks_prop ks_assoc.
Definition cmp_leaf1 (ks : kspec) := cmp1 ks empty_ks.
