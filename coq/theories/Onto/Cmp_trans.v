(* C09 — accepted upgrades compose, for element kinds WITH child elements (properties with their concept
   associations, event types with parents, properties, relations and attachments).
   `cmp_node` is the comparison scheme of Onto/Tree.v; Older = "the other definition is a valid upgrade". *)
From Coq Require Import String Lia.
From EdxmlVerif Require Import Base.Prelude Onto.Tree Onto.Kinds Onto.Cmp_proofs Onto.Compat Onto.Compat_proofs.

Section Trans.
  Context {C : Type}.
  Variable child_attr : C -> str -> aval.
  Variable childcmp : str -> C -> C -> cmpres.
  Variable ks : kspec.
  Notation cmp := (cmp_node child_attr childcmp ks).
  Notation group_ok := (group_ok child_attr childcmp).
  Notation groups_ok := (groups_ok child_attr childcmp).
  Notation nn := not_newer.

  (* "b validly upgrades a", spelled out *)
  Lemma cmp_older_iff a b :
    cmp a b = Older <->
    (n_version a < n_version b)%Z /\ all_ok (k_rules ks) a b = true /\ groups_ok (k_groups ks) a b = true.
  Proof.
    unfold cmp_node. destruct (Z.ltb_spec (n_version a) (n_version b)) as [L|L].
    - assert ((n_version a =? n_version b)%Z = false) as -> by (apply Z.eqb_neq; lia). cbn [negb].
      rewrite rules_fold. cbn [andb]. fold (all_ok (k_rules ks) a b).
      match goal with |- context [fold_left ?f (k_groups ks) (Some (false, ?y))] =>
        pose proof (groups_fold_v child_attr childcmp (k_groups ks) a b false y) as G;
        pose proof (groups_fold_eq child_attr childcmp (k_groups ks) a b false y) as E;
        destruct (fold_left f (k_groups ks) (Some (false, y))) as [[e' v']|] end.
      + cbn [andb] in E. subst e'. rewrite andb_true_r. subst v'.
        destruct (all_ok (k_rules ks) a b), (groups_ok (k_groups ks) a b); cbn [andb];
          (split; [intro H; try discriminate; auto | intros (_ & H1 & H2); try discriminate; reflexivity]).
      + split; [discriminate|]. intros (_ & _ & H). congruence.
    - split.
      + destruct (n_version a =? n_version b)%Z; cbn [negb]; rewrite rules_fold;
          match goal with |- context [fold_left ?f (k_groups ks) (Some (?x, ?y))] =>
            destruct (fold_left f (k_groups ks) (Some (x, y))) as [[e' v']|] end; try discriminate;
          destruct e'; try discriminate; destruct (v' && _); discriminate.
      + intros (H & _). lia.
  Qed.

  Lemma all_ok_trans (a b c : node C) :
    all_ok (k_rules ks) a b = true -> all_ok (k_rules ks) b c = true -> all_ok (k_rules ks) a c = true.
  Proof.
    unfold all_ok. rewrite !forallb_forall. intros O1 O2 ar Hin.
    eapply rule_ok_trans; [apply O1 | apply O2]; exact Hin.
  Qed.

  Lemma missing_none' (o n : list (str * C)) :
    nonempty_b (missing_of o n) = false -> forall k, mem k (akeys o) = true -> mem k (akeys n) = true.
  Proof.
    intros H k M. unfold missing_of in H.
    destruct (mem k (akeys n)) eqn:E; [reflexivity|exfalso].
    apply mem_In in M. unfold akeys in M. apply in_map_iff in M. destruct M as ((k', c) & Ek & Hin). cbn in Ek. subst k'.
    assert (In (k, c) (filter (fun kc => negb (mem (fst kc) (akeys n))) o)) as F
      by (apply filter_In; split; [exact Hin | cbn; rewrite E; reflexivity]).
    destruct (filter _ o); [exact F | discriminate].
  Qed.

  Lemma In_mem_akeys' {V} (d : list (str * V)) k v : In (k, v) d -> mem k (akeys d) = true.
  Proof. intros H. apply mem_In. unfold akeys. apply in_map_iff. exists (k, v). auto. Qed.

  Lemma missing_empty_intro (o n : list (str * C)) :
    (forall k, mem k (akeys o) = true -> mem k (akeys n) = true) -> nonempty_b (missing_of o n) = false.
  Proof.
    intro H. unfold missing_of.
    assert (filter (fun kc : str * C => negb (mem (fst kc) (akeys n))) o = []) as ->; [|reflexivity].
    apply (filter_all_mem o (akeys n)). intros x Hx. apply mem_In. apply H. apply mem_In. exact Hx.
  Qed.

  (* the three parts of group_ok *)
  Lemma group_ok_parts g o n : group_ok g o n = true <->
    nonempty_b (missing_of o n) = false /\
    (nonempty_b (missing_of n o) = true -> added_ok child_attr g o n = true) /\
    kids_ok childcmp (g_name g) o n = true.
  Proof.
    unfold Compat_proofs.group_ok. rewrite !andb_true_iff, negb_true_iff, orb_true_iff, negb_true_iff.
    split.
    - intros [[M A] K]. split; [exact M|]. split; [|exact K]. intro Hn. destruct A as [A|A]; [congruence | exact A].
    - intros (M & A & K). split; [split; [exact M|] | exact K].
      destruct (nonempty_b (missing_of n o)); [right; apply A; reflexivity | left; reflexivity].
  Qed.

  Lemma kids_ok_at gn o n k y x : kids_ok childcmp gn o n = true -> In (k, y) n -> aget k o = Some x ->
    nn (childcmp gn x y) = true.
  Proof.
    unfold kids_ok. rewrite forallb_forall. intros K Hin G. specialize (K (k, y) Hin). cbn [fst snd] in K. rewrite G in K. exact K.
  Qed.

  (* a valid step of a group with the timeless rule keeps a timeless event type timeless *)
  Lemma timeless_step g o n :
    g_timeless_rule g = true -> group_ok g o n = true ->
    (forall k x y, In (k, x) o -> In (k, y) n -> nn (childcmp (g_name g) x y) = true ->
                   child_attr x IS_DATETIME = child_attr y IS_DATETIME) ->
    timeless child_attr o = true -> timeless child_attr n = true.
  Proof.
    intros TR G St To. apply group_ok_parts in G as (M & A & K).
    destruct (nonempty_b (missing_of n o)) eqn:Ad.
    - specialize (A eq_refl). unfold added_ok in A. rewrite TR, To in A. apply andb_true_iff in A as [_ A]. exact A.
    - unfold timeless in *. rewrite forallb_forall in *. intros [k y] Hin. cbn [snd].
      pose proof (missing_none' n o Ad k (In_mem_akeys' n k y Hin)) as Mk.
      destruct (mem_akeys_aget o k Mk) as [x Gx]. pose proof (aget_In_any o k x Gx) as Hx.
      rewrite <- (St k x y Hx Hin (kids_ok_at _ o n k y x K Hin Gx)). apply (To (k, x) Hx).
  Qed.

  Lemma group_ok_trans g (ka kb kc : list (str * C)) :
    (forall k x y z, In (k, x) ka -> In (k, y) kb -> In (k, z) kc ->
       nn (childcmp (g_name g) x y) = true -> nn (childcmp (g_name g) y z) = true -> nn (childcmp (g_name g) x z) = true) ->
    (g_add_needs_optional g = true -> forall k y z, In (k, y) kb -> In (k, z) kc -> nn (childcmp (g_name g) y z) = true ->
       child_attr y OPTIONAL = VBool true -> child_attr z OPTIONAL = VBool true) ->
    (g_timeless_rule g = true -> forall k x y, In (k, x) ka -> In (k, y) kb -> nn (childcmp (g_name g) x y) = true ->
       child_attr x IS_DATETIME = child_attr y IS_DATETIME) ->
    (g_timeless_rule g = true -> forall k x y, In (k, x) kb -> In (k, y) kc -> nn (childcmp (g_name g) x y) = true ->
       child_attr x IS_DATETIME = child_attr y IS_DATETIME) ->
    group_ok g ka kb = true -> group_ok g kb kc = true -> group_ok g ka kc = true.
  Proof.
    intros Tr Opt Dt1 Dt2 G1 G2.
    pose proof G1 as G1'. pose proof G2 as G2'.
    apply group_ok_parts in G1 as (M1 & A1 & K1). apply group_ok_parts in G2 as (M2 & A2 & K2).
    apply group_ok_parts. split; [|split].
    - apply missing_empty_intro. intros k Hk. apply (missing_none' kb kc M2). apply (missing_none' ka kb M1). exact Hk.
    - intros _. unfold added_ok. apply andb_true_iff. split.
      + destruct (g_add_needs_optional g) eqn:ON; [|reflexivity]. apply forallb_forall. intros [k z] Hin. cbn [snd].
        apply aval_eqb_eq. unfold missing_of in Hin. apply filter_In in Hin as [Hz Hna]. cbn [fst] in Hna. apply negb_true_iff in Hna.
        destruct (mem k (akeys kb)) eqn:Mb.
        * destruct (mem_akeys_aget kb k Mb) as [y Gy]. pose proof (aget_In_any kb k y Gy) as Hy.
          assert (In (k, y) (missing_of kb ka)) as Hm by (unfold missing_of; apply filter_In; split; [exact Hy | cbn; rewrite Hna; reflexivity]).
          assert (nonempty_b (missing_of kb ka) = true) as Ne by (destruct (missing_of kb ka); [contradiction | reflexivity]).
          specialize (A1 Ne). unfold added_ok in A1. rewrite ON in A1. apply andb_true_iff in A1 as [A1 _].
          rewrite forallb_forall in A1. specialize (A1 (k, y) Hm). cbn [snd] in A1. apply aval_eqb_eq in A1.
          apply (Opt eq_refl k y z Hy Hz (kids_ok_at _ kb kc k z y K2 Hz Gy) A1).
        * assert (In (k, z) (missing_of kc kb)) as Hm by (unfold missing_of; apply filter_In; split; [exact Hz | cbn; rewrite Mb; reflexivity]).
          assert (nonempty_b (missing_of kc kb) = true) as Ne by (destruct (missing_of kc kb); [contradiction | reflexivity]).
          specialize (A2 Ne). unfold added_ok in A2. rewrite ON in A2. apply andb_true_iff in A2 as [A2 _].
          rewrite forallb_forall in A2. specialize (A2 (k, z) Hm). cbn [snd] in A2. apply aval_eqb_eq in A2. exact A2.
      + destruct (g_timeless_rule g) eqn:TR; [|reflexivity].
        destruct (timeless child_attr ka) eqn:Ta; [|reflexivity].
        apply (timeless_step g kb kc TR G2' (Dt2 eq_refl)). apply (timeless_step g ka kb TR G1' (Dt1 eq_refl)). exact Ta.
    - unfold kids_ok. apply forallb_forall. intros [k z] Hz. cbn [fst snd].
      destruct (aget k ka) as [x|] eqn:Gx; [|reflexivity].
      pose proof (aget_In_any ka k x Gx) as Hx.
      pose proof (missing_none' ka kb M1 k (In_mem_akeys' ka k x Hx)) as Mb.
      destruct (mem_akeys_aget kb k Mb) as [y Gy]. pose proof (aget_In_any kb k y Gy) as Hy.
      apply (Tr k x y z Hx Hy Hz); [apply (kids_ok_at _ ka kb k y x K1 Hy Gx) | apply (kids_ok_at _ kb kc k z y K2 Hz Gy)].
  Qed.

  (* hypotheses about the children of the three definitions *)
  Definition child_nn_trans (a b c : node C) : Prop :=
    forall g k x y z, In g (k_groups ks) ->
      In (k, x) (kids a (g_name g)) -> In (k, y) (kids b (g_name g)) -> In (k, z) (kids c (g_name g)) ->
      nn (childcmp (g_name g) x y) = true -> nn (childcmp (g_name g) y z) = true -> nn (childcmp (g_name g) x z) = true.
  Definition child_opt_mono (b c : node C) : Prop :=
    forall g k y z, In g (k_groups ks) -> g_add_needs_optional g = true ->
      In (k, y) (kids b (g_name g)) -> In (k, z) (kids c (g_name g)) -> nn (childcmp (g_name g) y z) = true ->
      child_attr y OPTIONAL = VBool true -> child_attr z OPTIONAL = VBool true.
  Definition child_dt_stable (a b : node C) : Prop :=
    forall g k x y, In g (k_groups ks) -> g_timeless_rule g = true ->
      In (k, x) (kids a (g_name g)) -> In (k, y) (kids b (g_name g)) -> nn (childcmp (g_name g) x y) = true ->
      child_attr x IS_DATETIME = child_attr y IS_DATETIME.

  Theorem cmp_trans a b c :
    child_nn_trans a b c -> child_opt_mono b c -> child_dt_stable a b -> child_dt_stable b c ->
    cmp a b = Older -> cmp b c = Older -> cmp a c = Older.
  Proof.
    intros Tr Opt D1 D2. rewrite !cmp_older_iff. intros (L1 & R1 & G1) (L2 & R2 & G2).
    split; [lia|]. split; [eapply all_ok_trans; eassumption|].
    unfold Compat_proofs.groups_ok in *. rewrite forallb_forall in *. intros g Hg.
    apply (group_ok_trans g (kids a (g_name g)) (kids b (g_name g)) (kids c (g_name g))).
    - intros k x y z. apply (Tr g k x y z Hg).
    - intros ON k y z. apply (Opt g k y z Hg ON).
    - intros TR k x y. apply (D1 g k x y Hg TR).
    - intros TR k x y. apply (D2 g k x y Hg TR).
    - apply G1. exact Hg.
    - apply G2. exact Hg.
  Qed.

  (* definitions with different versions never compare equal *)
  Lemma nn_lt_older a b : (n_version a < n_version b)%Z -> nn (cmp a b) = true -> cmp a b = Older.
  Proof.
    intros L H. destruct (cmp a b) eqn:E; try discriminate; [|reflexivity].
    apply (cmp_eq_same_version child_attr childcmp ks) in E. lia.
  Qed.
End Trans.

(* ---------------- leaves: the four compositions of equal / older ---------------- *)
Section LeafNN.
  Context {C : Type}.
  Variable child_attr : C -> str -> aval.
  Variable childcmp : str -> C -> C -> cmpres.
  Variable rules : list (str * rule).
  Notation cmp := (cmp_node child_attr childcmp {| k_rules := rules; k_groups := [] |}).

  Lemma leaf_nn_spec a b : not_newer (cmp a b) = true <->
    ((n_version a < n_version b)%Z /\ all_ok rules a b = true) \/ (n_version a = n_version b /\ all_eq rules b a = true).
  Proof.
    rewrite (cmp_leaf_spec child_attr childcmp rules).
    destruct (Z.ltb_spec (n_version a) (n_version b)).
    - destruct (all_ok rules a b); cbn; split; auto; try discriminate. intros [[_ H']|[H' _]]; [discriminate | lia].
    - destruct (Z.ltb_spec (n_version b) (n_version a)).
      + destruct (all_ok rules b a); cbn; (split; [discriminate | intros [[H' _]|[H' _]]; lia]).
      + destruct (all_eq rules b a); cbn; split; auto; try discriminate; [intros _; right; split; [lia | reflexivity]|].
        intros [[H' _]|[_ H']]; [lia | discriminate].
  Qed.

  Lemma all_eq_attr (a b : node C) ar : all_eq rules b a = true -> In ar rules -> attr a (fst ar) = attr b (fst ar).
  Proof.
    unfold all_eq. rewrite forallb_forall. intros H Hin. specialize (H ar Hin). apply aval_eqb_eq in H. congruence.
  Qed.

  Lemma rule_ok_refl r v : rule_ok r v v = true.
  Proof. unfold rule_ok. rewrite aval_eqb_refl. reflexivity. Qed.

  Lemma leaf_nn_trans a b c : not_newer (cmp a b) = true -> not_newer (cmp b c) = true -> not_newer (cmp a c) = true.
  Proof.
    rewrite !leaf_nn_spec. intros [[L1 O1]|[E1 Q1]] [[L2 O2]|[E2 Q2]].
    - left. split; [lia|]. unfold all_ok in *. rewrite forallb_forall in *. intros ar Hin.
      eapply rule_ok_trans; [apply O1 | apply O2]; exact Hin.
    - left. split; [lia|]. unfold all_ok in *. rewrite forallb_forall in *. intros ar Hin.
      rewrite <- (all_eq_attr b c ar Q2 Hin). apply O1. exact Hin.
    - left. split; [lia|]. unfold all_ok in *. rewrite forallb_forall in *. intros ar Hin.
      rewrite (all_eq_attr a b ar Q1 Hin). apply O2. exact Hin.
    - right. split; [lia|]. unfold all_eq. apply forallb_forall. intros ar Hin. apply aval_eqb_eq.
      rewrite <- (all_eq_attr b c ar Q2 Hin), <- (all_eq_attr a b ar Q1 Hin). reflexivity.
  Qed.
End LeafNN.

(* ---------------- properties (children: concept associations) ---------------- *)
Lemma prop_groups_flags g : In g (k_groups ks_prop) -> g_add_needs_optional g = false /\ g_timeless_rule g = false.
Proof. cbn. intros [<-|[]]. split; reflexivity. Qed.

Theorem prop_upgrades_compose (a b c : T1) :
  cmp_prop a b = Older -> cmp_prop b c = Older -> cmp_prop a c = Older.
Proof.
  unfold cmp_prop, cmp1. apply cmp_trans.
  - intros g k x y z Hg _ _ _. unfold cmp0, ks_assoc. apply leaf_nn_trans.
  - intros g k y z Hg ON. destruct (prop_groups_flags g Hg) as [F _]. congruence.
  - intros g k x y Hg TR. destruct (prop_groups_flags g Hg) as [_ F]. congruence.
  - intros g k x y Hg TR. destruct (prop_groups_flags g Hg) as [_ F]. congruence.
Qed.

(* ---------------- event types ---------------- *)
(* sub-elements are versioned by their event type (edxml/ontology/event_property.py __cmp__ and siblings) *)
Definition kids_versioned (a : T2) : Prop :=
  forall g k x, In g (k_groups (ks_etype true)) -> In (k, x) (kids a (g_name g)) -> n_version x = n_version a.

(* the derived "is a datetime" flag of a property is a function of its object type
   (the data type family of an object type cannot change) *)
Definition dt_flag_by_objtype (a b : T2) : Prop :=
  forall k x y, In (k, x) (props a) -> In (k, y) (props b) ->
    attr y (A "object-type") = attr x (A "object-type") -> attr x IS_DATETIME = attr y IS_DATETIME.

Lemma etype_group_names g : In g (k_groups (ks_etype true)) ->
  g_name g = A "parent" \/ g_name g = A "properties" \/ g_name g = A "relations" \/ g_name g = A "attachments".
Proof. cbn. intros [<-|[<-|[<-|[<-|[]]]]]; cbn; auto. Qed.

Lemma etype_child_trans gn (x y z : T1) :
  cmp1 (fst (etype_children gn)) (snd (etype_children gn)) x y = Older ->
  cmp1 (fst (etype_children gn)) (snd (etype_children gn)) y z = Older ->
  cmp1 (fst (etype_children gn)) (snd (etype_children gn)) x z = Older.
Proof.
  unfold etype_children.
  destruct (str_eqb gn (s2l "properties")); [apply prop_upgrades_compose|].
  destruct (str_eqb gn (s2l "relations")); [|destruct (str_eqb gn (s2l "attachments"))]; cbn [fst snd]; unfold cmp1.
  - apply (leaf_trans attr (fun _ => cmp0 empty_ks) (k_rules ks_rel)).
  - apply (leaf_trans attr (fun _ => cmp0 empty_ks) (k_rules ks_att)).
  - apply (leaf_trans attr (fun _ => cmp0 empty_ks) (k_rules ks_parent)).
Qed.

Lemma prop_nn_objtype (x y : T1) :
  not_newer (cmp1 (fst (etype_children (A "properties"))) (snd (etype_children (A "properties"))) x y) = true ->
  attr y (A "object-type") = attr x (A "object-type").
Proof.
  change (etype_children (A "properties")) with (ks_prop, ks_assoc). cbn [fst snd].
  destruct prop_rules_in as (I1 & _).
  unfold cmp1. destruct (cmp_node attr (fun _ => cmp0 ks_assoc) ks_prop x y) eqn:E; try discriminate; intros _.
  - pose proof (cmp_eq_attrs _ _ _ _ _ E _ _ I1) as Q. unfold T0 in *. congruence.
  - apply cmp_older_facts in E. destruct E as (R & _).
    pose proof (rule_ok_frozen _ _ (all_ok_In _ _ _ _ _ R I1)) as Q. unfold T0 in *. exact Q.
Qed.

Lemma timeless_group g : In g (k_groups (ks_etype true)) -> g_timeless_rule g = true -> g_name g = A "properties".
Proof. cbn. intros [<-|[<-|[<-|[<-|[]]]]]; cbn; intro TR; try discriminate. reflexivity. Qed.

Lemma vbool_true v : abool v = true -> v = VBool true.
Proof. destruct v as [| |[|]|]; cbn; try discriminate; reflexivity. Qed.

Theorem etype_upgrades_compose (a b c : T2) :
  kids_versioned a -> kids_versioned b -> kids_versioned c ->
  dt_flag_by_objtype a b -> dt_flag_by_objtype b c ->
  cmp_etype true a b = Older -> cmp_etype true b c = Older -> cmp_etype true a c = Older.
Proof.
  intros Va Vb Vc D1 D2 H1 H2.
  assert (L1 : (n_version a < n_version b)%Z) by (apply (cmp_older_iff attr _ (ks_etype true)) in H1; tauto).
  assert (L2 : (n_version b < n_version c)%Z) by (apply (cmp_older_iff attr _ (ks_etype true)) in H2; tauto).
  revert H1 H2. unfold cmp_etype, cmp2. apply cmp_trans.
  - intros g k x y z Hg Hx Hy Hz N1 N2.
    pose proof (Va g k x Hg Hx) as Vx. pose proof (Vb g k y Hg Hy) as Vy. pose proof (Vc g k z Hg Hz) as Vz.
    unfold cmp1 in *. unfold T2, T1, T0 in *. apply nn_lt_older in N1; [|lia]. apply nn_lt_older in N2; [|lia].
    pose proof (etype_child_trans (g_name g) x y z N1 N2) as T. unfold cmp1 in T. rewrite T. reflexivity.
  - intros g k y z Hg ON Hy Hz N Oy.
    assert (g_name g = A "properties") as Gn.
    { cbn in Hg. destruct Hg as [<-|[<-|[<-|[<-|[]]]]]; cbn in ON; try discriminate. reflexivity. }
    rewrite Gn in N. unfold etype_children in N. cbn [fst snd] in N.
    change (str_eqb (A "properties") (s2l "properties")) with true in N. cbn [fst snd] in N.
    apply prop_step_rel in N. unfold prop_rel in N. destruct N as (_ & _ & _ & Po). unfold p_optional in Po.
    apply vbool_true. apply Po. rewrite Oy. reflexivity.
  - intros g k x y Hg TR Hx Hy N. pose proof (timeless_group g Hg TR) as Gn.
    rewrite Gn in N, Hx, Hy. apply (D1 k x y Hx Hy). apply prop_nn_objtype. exact N.
  - intros g k x y Hg TR Hx Hy N. pose proof (timeless_group g Hg TR) as Gn.
    rewrite Gn in N, Hx, Hy. apply (D2 k x y Hx Hy). apply prop_nn_objtype. exact N.
Qed.
