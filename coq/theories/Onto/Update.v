(* C11 — model of element.update() and Ontology.update() on the generic node model (value level). *)
From EdxmlVerif Require Import Base.Prelude Onto.Tree Onto.Kinds.
From Coq Require Import String.

Section Upd.
  Context {C : Type}.
  Variable child_attr : C -> str -> aval.
  Variable childcmp : str -> C -> C -> cmpres.
  Variable childupd : str -> C -> C -> option C.     (* update of a child definition; None = raises *)

  (* children after an update: existing children updated from their counterpart, new children adopted *)
  Fixpoint upd_kids (gn : str) (akids bkids : list (str * C)) : option (list (str * C)) :=
    match akids with
    | [] => Some []
    | (k, ca) :: r =>
        match upd_kids gn r bkids with
        | None => None
        | Some r' =>
            match aget k bkids with
            | None => Some ((k, ca) :: r')
            | Some cb => match childupd gn ca cb with Some c' => Some ((k, c') :: r') | None => None end
            end
        end
    end.
  Definition merged_kids (gn : str) (akids bkids : list (str * C)) : option (list (str * C)) :=
    match upd_kids gn akids bkids with
    | None => None
    | Some l => Some (l ++ filter (fun kc => negb (mem (fst kc) (akeys akids))) bkids)
    end.

  Fixpoint merged_groups (gs : list gspec) (a b : node C) : option (list (str * list (str * C))) :=
    match gs with
    | [] => Some []
    | g :: r =>
        match merged_kids (g_name g) (kids a (g_name g)) (kids b (g_name g)), merged_groups r a b with
        | Some l, Some rest => Some ((g_name g, l) :: rest)
        | _, _ => None
        end
    end.

  (* self.update(other): when other is newer take its attributes and version, update / adopt children *)
  Definition upd_node (ks : kspec) (a b : node C) : option (node C) :=
    match cmp_node child_attr childcmp ks a b with
    | Incompat => None
    | Eq | Newer => Some a
    | Older =>
        match merged_groups (k_groups ks) a b with
        | Some gs => Some {| n_version := n_version b; n_attrs := n_attrs b; n_groups := gs |}
        | None => None
        end
    end.
End Upd.

Definition upd0 (ks : kspec) : T0 -> T0 -> option T0 := upd_node (fun _ _ => VNone) (fun _ _ _ => Eq) (fun _ a _ => Some a) ks.
Definition upd1 (ks ks0 : kspec) : T1 -> T1 -> option T1 := upd_node attr (fun _ => cmp0 ks0) (fun _ => upd0 ks0) ks.
Definition upd2 (ks : kspec) (child_ks : str -> kspec * kspec) : T2 -> T2 -> option T2 :=
  upd_node attr (fun g => cmp1 (fst (child_ks g)) (snd (child_ks g))) (fun g => upd1 (fst (child_ks g)) (snd (child_ks g))) ks.

(* ---- Ontology.update ---- *)
Section Category.
  Context {E : Type}.
  Variable upd : E -> E -> option E.
  (* for every element of b: update the element of a with that name, or adopt it *)
  Fixpoint cat_update (a b : list (str * E)) : option (list (str * E)) :=
    match b with
    | [] => Some a
    | (k, eb) :: r =>
        match aget k a with
        | None => cat_update (a ++ [(k, eb)]) r
        | Some ea => match upd ea eb with
                     | Some e' => cat_update (aset k e' a) r
                     | None => None
                     end
        end
    end.
End Category.

Record onto := { o_objtypes : list (str * T0); o_concepts : list (str * T0); o_sources : list (str * T0); o_etypes : list (str * T2) }.

Definition onto_update (a b : onto) : option onto :=
  match cat_update (upd0 ks_objtype) (o_objtypes a) (o_objtypes b),
        cat_update (upd2 (ks_etype true) etype_children) (o_etypes a) (o_etypes b),
        cat_update (upd0 ks_concept) (o_concepts a) (o_concepts b),
        cat_update (upd0 ks_source) (o_sources a) (o_sources b) with
  | Some ot, Some et, Some co, Some so => Some {| o_objtypes := ot; o_concepts := co; o_sources := so; o_etypes := et |}
  | _, _, _, _ => None
  end.

(* observable equality of two ontologies: same element names, elements compare equal *)
Definition cat_equiv {E} (cmp : E -> E -> cmpres) (a b : list (str * E)) : bool :=
  forallb (fun ke => match aget (fst ke) b with Some e' => match cmp (snd ke) e' with Eq => true | _ => false end | None => false end) a &&
  forallb (fun ke => match aget (fst ke) a with Some _ => true | None => false end) b.
Definition onto_equiv (a b : onto) : bool :=
  cat_equiv (cmp0 ks_objtype) (o_objtypes a) (o_objtypes b) && cat_equiv (cmp0 ks_concept) (o_concepts a) (o_concepts b) &&
  cat_equiv (cmp0 ks_source) (o_sources a) (o_sources b) && cat_equiv (cmp2 (ks_etype true) etype_children) (o_etypes a) (o_etypes b).
Definition oonto_equiv (a b : option onto) : bool :=
  match a, b with Some x, Some y => onto_equiv x y | None, None => true | _, _ => false end.
