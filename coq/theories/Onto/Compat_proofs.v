(* C10 — accepted upgrades keep old events valid, keep their hash and their merge result. *)
From Coq Require Import String Lia.
From EdxmlVerif Require Import Base.Prelude Base.Bytes Onto.Tree Onto.Kinds Onto.Cmp_proofs Onto.Compat Event.Hash Event.Merge.

(* ------------------------------------------------------------------ the "valid upgrade" half of the comparison fold *)
Definition not_newer (c : cmpres) : bool := match c with Eq | Older => true | _ => false end.

Section Valid.
  Context {C : Type}.
  Variable child_attr : C -> str -> aval.
  Variable childcmp : str -> C -> C -> cmpres.

  Definition kids_ok (gn : str) (okids nkids : list (str * C)) : bool :=
    forallb (fun kc => match aget (fst kc) okids with
                       | Some oc => not_newer (childcmp gn oc (snd kc))
                       | None => true
                       end) nkids.

  Lemma kid_fold_v gn okids : forall nkids e v,
    match fold_left (kid_step childcmp gn okids) nkids (Some (e, v)) with
    | Some (_, v') => v' = v && kids_ok gn okids nkids
    | None => kids_ok gn okids nkids = false
    end.
  Proof.
    induction nkids as [|kc r IH]; intros e v; cbn [fold_left kids_ok forallb]; [rewrite andb_true_r; reflexivity|].
    unfold kid_step at 2. destruct (aget (fst kc) okids) as [oc|] eqn:G.
    - destruct (childcmp gn oc (snd kc)) eqn:CC; cbn [not_newer andb].
      + apply IH.
      + apply IH.
      + specialize (IH false false). destruct (fold_left _ r (Some (false, false))) as [[e' v']|]; [rewrite IH, andb_false_r; reflexivity | reflexivity].
      + rewrite kid_fold_none. reflexivity.
    - cbn [andb]. apply IH.
  Qed.

  Definition added_ok (g : gspec) (okids nkids : list (str * C)) : bool :=
    (if g_add_needs_optional g
     then forallb (fun kc => aval_eqb (child_attr (snd kc) OPTIONAL) (VBool true)) (missing_of nkids okids) else true) &&
    (if g_timeless_rule g then (if timeless child_attr okids then timeless child_attr nkids else true) else true).

  Definition group_ok (g : gspec) (okids nkids : list (str * C)) : bool :=
    negb (nonempty_b (missing_of okids nkids)) &&
    (negb (nonempty_b (missing_of nkids okids)) || added_ok g okids nkids) &&
    kids_ok (g_name g) okids nkids.

  Lemma group_step_v g okids nkids e v :
    match group_step child_attr childcmp g okids nkids (e, v) with
    | Some (_, v') => v' = v && group_ok g okids nkids
    | None => group_ok g okids nkids = false
    end.
  Proof.
    unfold group_step, group_ok, added_ok. fold (missing_of okids nkids). fold (missing_of nkids okids).
    destruct (nonempty_b (missing_of okids nkids)) eqn:M; destruct (nonempty_b (missing_of nkids okids)) eqn:Ad; cbn [negb andb orb];
      match goal with |- context [fold_left ?f nkids (Some (?x, ?y))] =>
        pose proof (kid_fold_v (g_name g) okids nkids x y) as K; destruct (fold_left f nkids (Some (x, y))) as [[e' v']|] end;
      cbn [andb] in *; rewrite ?andb_false_r, ?andb_true_r in *; try reflexivity; try exact K.
    - rewrite K. rewrite <- !andb_assoc. reflexivity.
    - rewrite K, andb_false_r. reflexivity.
  Qed.

  Definition groups_ok (gs : list gspec) (old new : node C) : bool :=
    forallb (fun g => group_ok g (kids old (g_name g)) (kids new (g_name g))) gs.

  Lemma groups_fold_v gs (old new : node C) : forall e v,
    match fold_left (fun acc g => match acc with
                                  | None => None
                                  | Some st => group_step child_attr childcmp g (kids old (g_name g)) (kids new (g_name g)) st
                                  end) gs (Some (e, v)) with
    | Some (_, v') => v' = v && groups_ok gs old new
    | None => groups_ok gs old new = false
    end.
  Proof.
    induction gs as [|g r IH]; intros e v; cbn [fold_left groups_ok forallb]; [rewrite andb_true_r; reflexivity|].
    fold (groups_ok r old new).
    pose proof (group_step_v g (kids old (g_name g)) (kids new (g_name g)) e v) as G.
    destruct (group_step child_attr childcmp g (kids old (g_name g)) (kids new (g_name g)) (e, v)) as [[e1 v1]|].
    - specialize (IH e1 v1). destruct (fold_left _ r (Some (e1, v1))) as [[e' v']|].
      + rewrite IH, G, andb_assoc. reflexivity.
      + rewrite IH, andb_false_r. reflexivity.
    - rewrite (groups_fold_none child_attr childcmp), G. reflexivity.
  Qed.

  Variable ks : kspec.

  (* a strictly newer definition is accepted only if every attribute rule and every child group agrees *)
  Lemma cmp_older_facts a b : cmp_node child_attr childcmp ks a b = Older ->
    all_ok (k_rules ks) a b = true /\ groups_ok (k_groups ks) a b = true.
  Proof.
    unfold cmp_node. destruct (Z.ltb_spec (n_version a) (n_version b)) as [L|L].
    - assert ((n_version a =? n_version b)%Z = false) as -> by (apply Z.eqb_neq; lia). cbn [negb].
      rewrite rules_fold. cbn [andb].
      match goal with |- context [fold_left ?f (k_groups ks) (Some (false, ?y))] =>
        pose proof (groups_fold_v (k_groups ks) a b false y) as G; destruct (fold_left f (k_groups ks) (Some (false, y))) as [[e' v']|] end;
        [|discriminate].
      destruct e'; [discriminate|]. rewrite andb_true_r. destruct v' eqn:V; [|discriminate]. intros _.
      symmetry in G. apply andb_true_iff in G. exact G.
    - destruct (n_version a =? n_version b)%Z; cbn [negb]; rewrite rules_fold;
      match goal with |- context [fold_left ?f (k_groups ks) (Some (?x, ?y))] =>
        destruct (fold_left f (k_groups ks) (Some (x, y))) as [[e' v']|] end; try discriminate;
      destruct e'; try discriminate; destruct (v' && _); discriminate.
  Qed.

  (* equal definitions agree on every compared attribute *)
  Lemma cmp_eq_attrs a b : cmp_node child_attr childcmp ks a b = Eq ->
    forall x r, In (x, r) (k_rules ks) -> attr b x = attr a x.
  Proof.
    intros H x r Hin. pose proof (cmp_eq_same_version child_attr childcmp ks a b H) as V.
    rewrite (cmp_same_version child_attr childcmp ks a b V) in H.
    destruct (defs_equal childcmp ks b a) eqn:D; [|discriminate].
    unfold defs_equal in D. apply andb_true_iff in D. destruct D as (D & _).
    unfold all_eq in D. rewrite forallb_forall in D. specialize (D (x, r) Hin). cbn in D. apply aval_eqb_eq in D. exact D.
  Qed.
End Valid.

Lemma all_ok_In {C} rules (a b : node C) x r : all_ok rules a b = true -> In (x, r) rules -> rule_ok r (attr a x) (attr b x) = true.
Proof. unfold all_ok. rewrite forallb_forall. intros H Hin. exact (H (x, r) Hin). Qed.

Lemma rule_ok_frozen ov nv : rule_ok Frozen ov nv = true -> nv = ov.
Proof. unfold rule_ok. rewrite orb_false_r. intros H. apply aval_eqb_eq in H. congruence. Qed.

Lemma rule_ok_grow ov nv : rule_ok Grow ov nv = true -> abool ov = true -> abool nv = true.
Proof.
  unfold rule_ok. intros H Ho. apply orb_true_iff in H. destruct H as [H|H]; apply aval_eqb_eq in H; subst; [exact Ho | reflexivity].
Qed.

Lemma flat_map_ext_in_strong {X Y} (f g : X -> list Y) l : (forall x, In x l -> f x = g x) -> flat_map f l = flat_map g l.
Proof. induction l as [|x r IH]; intros H; cbn; [reflexivity|]. rewrite (H x (or_introl eq_refl)), IH; [reflexivity|]. intros; apply H; right; assumption. Qed.

(* ------------------------------------------------------------------ strings *)
Lemma prefixb_app_inv p : forall s, prefixb p s = true -> exists r, s = p ++ r.
Proof.
  induction p as [|x xs IH]; intros s H; [exists s; reflexivity|].
  destruct s as [|y ys]; [discriminate|]. cbn in H. apply andb_true_iff in H. destruct H as (E & P).
  apply N.eqb_eq in E. subst. destruct (IH _ P) as (r & ->). exists r. reflexivity.
Qed.

Lemma lprefixb_app_inv p : forall l, lprefixb p l = true -> exists r, l = p ++ r.
Proof.
  induction p as [|x xs IH]; intros l H; [exists l; reflexivity|].
  destruct l as [|y ys]; [discriminate|]. cbn in H. apply andb_true_iff in H. destruct H as (E & P).
  apply str_eqb_eq in E. subst. destruct (IH _ P) as (r & ->). exists r. reflexivity.
Qed.

Lemma split_on_nonempty c s : split_on c s <> [].
Proof. induction s as [|x r IH]; cbn; [discriminate|]. destruct (N.eqb x c); [discriminate|]. destruct (split_on c r); discriminate. Qed.

Lemma enum_values_grow o n v : dt_upgrade o n = true -> mem v (enum_values o) = true -> mem v (enum_values n) = true.
Proof.
  unfold dt_upgrade, enum_values. intros H M. apply andb_true_iff in H. destruct H as (_ & P).
  destruct (lprefixb_app_inv _ _ P) as (r & E). rewrite E.
  destruct (split_on 58%N o) as [|h t] eqn:S; [exfalso; exact (split_on_nonempty _ _ S)|].
  cbn [tl app] in *. rewrite mem_app, M. reflexivity.
Qed.

(* ------------------------------------------------------------------ values stay valid when their object type is upgraded *)
Section Compat.
  Variable dt_valid : str -> str -> bool.
  Variable re_match : str -> str -> bool.
  (* the engine's reading of  old|more : whatever old matched still matches *)
  Hypothesis re_alt : forall a b s, re_match a s = true -> re_match (a ++ [124%N] ++ b) s = true.

  Lemma objtype_rules_in : In (A "regex-hard", RegexHard) (k_rules ks_objtype) /\ In (A "data-type", DataType) (k_rules ks_objtype).
  Proof. unfold ks_objtype; cbn [k_rules]. split; apply in_or_app; right; cbn; auto. Qed.

  Theorem value_ok_step old new v : ot_step old new -> value_ok dt_valid re_match old v = true -> value_ok dt_valid re_match new v = true.
  Proof.
    intros [->|H] V; [exact V|].
    unfold cmp_objtype, cmp0 in H. apply cmp_older_facts in H. destruct H as (R & _).
    destruct objtype_rules_in as (I1 & I2).
    pose proof (all_ok_In _ _ _ _ _ R I1) as RH. pose proof (all_ok_In _ _ _ _ _ R I2) as RD.
    unfold value_ok in *. apply andb_true_iff in V. destruct V as (VD & VR). apply andb_true_iff. split.
    - unfold rule_ok in RD. apply orb_true_iff in RD. destruct RD as [E|U].
      + apply aval_eqb_eq in E. rewrite <- E. exact VD.
      + destruct (attr old (A "data-type")) as [|o| |] eqn:EO; try discriminate.
        destruct (attr new (A "data-type")) as [|n| |] eqn:EN; try discriminate.
        cbn [astr] in *. pose proof U as U'. unfold dt_upgrade in U'.
        apply andb_true_iff in U'. destruct U' as (U' & _). apply andb_true_iff in U'. destruct U' as (U' & _).
        apply andb_true_iff in U'. destruct U' as (Fn & Fo). rewrite Fn. rewrite Fo in VD.
        eapply enum_values_grow; eauto.
    - unfold rule_ok in RH. apply orb_true_iff in RH. destruct RH as [E|U].
      + apply aval_eqb_eq in E. rewrite <- E. exact VR.
      + destruct (attr old (A "regex-hard")) as [|o| |] eqn:EO; destruct (attr new (A "regex-hard")) as [|n| |] eqn:EN; try discriminate; try reflexivity.
        destruct (prefixb_app_inv _ _ U) as (r & ->). rewrite <- app_assoc. apply re_alt. exact VR.
  Qed.

  (* ---------------------------------------------------------------- what an accepted event type upgrade guarantees *)
  Definition prop_rel (op np : T1) : Prop :=
    p_objtype np = p_objtype op /\ p_merge np = p_merge op /\
    (p_multi op = true -> p_multi np = true) /\ (p_optional op = true -> p_optional np = true).

  Definition et_facts (old new : T2) : Prop :=
    (forall k, mem k (akeys (props old)) = true -> mem k (akeys (props new)) = true) /\
    (forall k np, In (k, np) (props new) -> aget k (props old) = None -> p_optional np = true) /\
    (forall k np op, In (k, np) (props new) -> aget k (props old) = Some op -> prop_rel op np) /\
    (forall a, mem a (akeys (atts old)) = true -> mem a (akeys (atts new)) = true) /\
    attr new (A "event-version") = attr old (A "event-version").

  Lemma missing_none {C} (okids nkids : list (str * C)) :
    nonempty_b (missing_of okids nkids) = false -> forall k, mem k (akeys okids) = true -> mem k (akeys nkids) = true.
  Proof.
    intros H k M. unfold missing_of in H.
    destruct (mem k (akeys nkids)) eqn:E; [reflexivity|exfalso].
    apply mem_In in M. unfold akeys in M. apply in_map_iff in M. destruct M as ((k', c) & Ek & Hin). cbn in Ek. subst k'.
    assert (In (k, c) (filter (fun kc => negb (mem (fst kc) (akeys nkids))) okids)) as F
      by (apply filter_In; split; [exact Hin | cbn; rewrite E; reflexivity]).
    destruct (filter _ okids); [exact F | discriminate].
  Qed.

  Lemma prop_rules_in :
    In (A "object-type", Frozen) (k_rules ks_prop) /\ In (A "merge", Frozen) (k_rules ks_prop) /\
    In (A "multivalued", Grow) (k_rules ks_prop) /\ In (OPTIONAL, Grow) (k_rules ks_prop).
  Proof. unfold ks_prop; cbn [k_rules app]. repeat split; cbn; auto 6. Qed.

  Lemma prop_step_rel op np : not_newer (cmp1 ks_prop ks_assoc op np) = true -> prop_rel op np.
  Proof.
    destruct prop_rules_in as (I1 & I2 & I3 & I4).
    unfold cmp1. destruct (cmp_node attr (fun _ => cmp0 ks_assoc) ks_prop op np) eqn:E; try discriminate; intros _.
    - pose proof (cmp_eq_attrs _ _ _ _ _ E) as Q. unfold prop_rel, p_objtype, p_merge, p_multi, p_optional.
      pose proof (Q _ _ I1) as Q1. pose proof (Q _ _ I2) as Q2. pose proof (Q _ _ I3) as Q3. pose proof (Q _ _ I4) as Q4.
      unfold T0 in *. repeat split; congruence.
    - apply cmp_older_facts in E. destruct E as (R & _).
      unfold prop_rel, p_objtype, p_merge, p_multi, p_optional.
      pose proof (rule_ok_frozen _ _ (all_ok_In _ _ _ _ _ R I1)) as Q1. pose proof (rule_ok_frozen _ _ (all_ok_In _ _ _ _ _ R I2)) as Q2.
      pose proof (rule_ok_grow _ _ (all_ok_In _ _ _ _ _ R I3)) as Q3. pose proof (rule_ok_grow _ _ (all_ok_In _ _ _ _ _ R I4)) as Q4.
      unfold T0 in *. repeat split; [congruence | congruence | exact Q3 | exact Q4].
  Qed.

  Lemma In_mem_akeys {V} (d : list (str * V)) k v : In (k, v) d -> mem k (akeys d) = true.
  Proof. intros H. apply mem_In. unfold akeys. apply in_map_iff. exists (k, v). auto. Qed.

  Lemma prop_rel_refl p : prop_rel p p.
  Proof. unfold prop_rel. auto. Qed.

  Theorem et_step_facts old new : wf_et old -> et_step old new -> et_facts old new.
  Proof.
    intros WF [->|H].
    - unfold et_facts. split; [auto | split; [| split; [| split; [auto | reflexivity]]]].
      + intros k np Hin Hn. apply In_mem_akeys in Hin. apply aget_none_mem in Hn. congruence.
      + intros k np op Hin Hg. rewrite (aget_In_nd _ _ _ WF Hin) in Hg. injection Hg as <-. apply prop_rel_refl.
    - unfold cmp_etype, cmp2 in H. apply cmp_older_facts in H. destruct H as (R & G).
      unfold ks_etype in G; cbn [k_groups groups_ok forallb g_name] in G.
      apply andb_true_iff in G. destruct G as (_ & G). apply andb_true_iff in G. destruct G as (GP & G).
      apply andb_true_iff in G. destruct G as (_ & G). apply andb_true_iff in G. destruct G as (GA & _).
      unfold group_ok in GP, GA. fold (props old) in GP. fold (props new) in GP. fold (atts old) in GA. fold (atts new) in GA.
      apply andb_true_iff in GP. destruct GP as (GP & KP). apply andb_true_iff in GP. destruct GP as (MP & AP).
      apply andb_true_iff in GA. destruct GA as (GA & _). apply andb_true_iff in GA. destruct GA as (MA & _).
      apply negb_true_iff in MP, MA.
      unfold et_facts. unfold props, atts, A in *. unfold T2, T1, T0 in *. split; [| split; [| split; [| split]]].
      + apply missing_none. exact MP.
      + intros k np Hin Hn. apply orb_true_iff in AP. destruct AP as [AP|AP].
        * apply negb_true_iff in AP. exfalso. apply aget_none_mem in Hn.
          match type of AP with nonempty_b ?m = false => assert (In (k, np) m) as F
            by (apply filter_In; split; [exact Hin | cbn [fst]; apply negb_true_iff; exact Hn]); destruct m; [exact F | discriminate] end.
        * unfold added_ok in AP. cbn [g_add_needs_optional] in AP. apply andb_true_iff in AP. destruct AP as (AP & _).
          rewrite forallb_forall in AP. apply aget_none_mem in Hn.
          match type of AP with forall x, In x ?m -> _ => assert (In (k, np) m) as F
            by (apply filter_In; split; [exact Hin | cbn [fst]; apply negb_true_iff; exact Hn]) end.
          specialize (AP _ F). cbn in AP. apply aval_eqb_eq in AP. unfold p_optional. unfold T0 in *. rewrite AP. reflexivity.
      + intros k np op Hin Hg. unfold kids_ok in KP. rewrite forallb_forall in KP. specialize (KP _ Hin). cbn [fst snd] in KP.
        rewrite Hg in KP. apply prop_step_rel. unfold etype_children in KP.
        replace (str_eqb (A "properties") (s2l "properties")) with true in KP by reflexivity. exact KP.
      + apply missing_none. exact MA.
      + apply rule_ok_frozen. eapply all_ok_In; [exact R|]. unfold ks_etype; cbn [k_rules]. apply in_or_app. right. cbn. auto.
  Qed.

  (* ---------------------------------------------------------------- validity *)
  Theorem valid_preserved ots_old ots_new old new e :
    ots_step ots_old ots_new -> et_facts old new ->
    valid_event dt_valid re_match ots_old old e = true -> valid_event dt_valid re_match ots_new new e = true.
  Proof.
    intros OS (F1 & F2 & F3 & F4 & _) V. unfold valid_event in *.
    apply andb_true_iff in V. destruct V as (V & VA). apply andb_true_iff in V. destruct V as (VD & VP).
    apply andb_true_iff. split; [apply andb_true_iff; split|].
    - unfold declared_only in *. rewrite forallb_forall in *. intros kv Hin. specialize (VD kv Hin).
      apply orb_true_iff in VD. apply orb_true_iff. destruct VD as [VD|VD]; [left; exact VD | right; apply F1; exact VD].
    - rewrite forallb_forall in *. intros (k, np) Hin. unfold prop_ok. cbn [fst snd].
      destruct (aget k (props old)) as [op|] eqn:G.
      + destruct (F3 _ _ _ Hin G) as (RO & _ & RM & ROpt).
        pose proof (VP (k, op) (aget_In_any _ _ _ G)) as P. unfold prop_ok in P. cbn [fst snd] in P.
        apply andb_true_iff in P. destruct P as (P & PV). apply andb_true_iff in P. destruct P as (PO & PM).
        apply andb_true_iff. split; [apply andb_true_iff; split|].
        * apply orb_true_iff in PO. apply orb_true_iff. destruct PO as [PO|PO]; [left; apply ROpt; exact PO | right; exact PO].
        * apply orb_true_iff in PM. apply orb_true_iff. destruct PM as [PM|PM]; [left; apply RM; exact PM | right; exact PM].
        * rewrite forallb_forall in *. intros v Hv. specialize (PV v Hv). rewrite RO.
          destruct (aget (p_objtype op) ots_old) as [ot|] eqn:GO; [|discriminate].
          destruct (OS _ _ GO) as (ot' & GN & ST). rewrite GN. eapply value_ok_step; eauto.
      + (* a property the old definition does not have: the event has no objects for it *)
        assert (objs e k = []) as E0.
        { unfold objs. destruct (aget k (ev_props e)) as [vs|] eqn:GE; [|reflexivity]. cbn.
          unfold declared_only in VD. rewrite forallb_forall in VD. specialize (VD _ (aget_In_any _ _ _ GE)). cbn in VD.
          apply aget_none_mem in G. rewrite G, orb_false_r in VD. destruct vs; [reflexivity | discriminate]. }
        rewrite E0. cbn. rewrite (F2 _ _ Hin G). cbn. rewrite orb_true_r. reflexivity.
    - rewrite forallb_forall in *. intros a Ha. apply F4. apply VA. exact Ha.
  Qed.

  (* ---------------------------------------------------------------- sticky hash *)
  Lemma mem_hashed (f : str * T1 -> bool) l p : NoDup (akeys l) ->
    (forall k t, f (k, t) = f (p, t)) ->
    mem p (map fst (filter f l)) = match aget p l with Some t => f (p, t) | None => false end.
  Proof.
    intros ND Hf. induction l as [|(k, t) r IH]; [reflexivity|].
    cbn [akeys map] in ND. inversion ND as [|? ? Hn ND']; subst.
    cbn [filter aget]. destruct (str_eqb p k) eqn:E.
    - apply str_eqb_eq in E. subst k. destruct (f (p, t)) eqn:Fp.
      + cbn. rewrite str_eqb_refl. reflexivity.
      + rewrite (IH ND'). destruct (aget p r) as [t'|] eqn:G; [|reflexivity].
        exfalso. apply Hn. apply mem_In. eapply In_mem_akeys. eapply aget_In_any; eauto.
    - destruct (f (k, t)); [cbn; rewrite E|]; apply (IH ND').
  Qed.

  Definition is_hashed (et : T2) (p : str) : bool :=
    match aget p (props et) with Some t => str_eqb (p_merge t) MATCH | None => false end.

  Lemma hashed_of_spec et p : wf_et et -> mem p (hashed_of et) = is_hashed et p.
  Proof. intros WF. unfold hashed_of, is_hashed. rewrite (mem_hashed _ _ p WF); [reflexivity|]. intros; reflexivity. Qed.

  Theorem hash_preserved sep objfmt layout old new (he : hevent) :
    wf_et old -> wf_et new -> et_facts old new ->
    declared_only old {| ev_props := h_props he; ev_atts := [] |} = true ->
    preimage sep objfmt layout (hashed_of new) he = preimage sep objfmt layout (hashed_of old) he.
  Proof.
    intros WO WN (F1 & _ & F3 & _) D.
    assert (OS : object_strings objfmt (hashed_of new) (h_props he) = object_strings objfmt (hashed_of old) (h_props he));
      [|unfold preimage; rewrite OS; reflexivity].
    unfold object_strings. apply flat_map_ext_in_strong. intros (k, vs) Hin. cbn [fst snd].
    destruct vs as [|v vs]; [destruct (mem k _), (mem k _); reflexivity|].
    unfold declared_only in D. cbn [ev_props] in D. rewrite forallb_forall in D. specialize (D _ Hin). cbn in D.
    rewrite !hashed_of_spec by assumption. unfold is_hashed.
    destruct (mem_akeys_aget _ _ D) as (op & GO).
    destruct (mem_akeys_aget _ _ (F1 _ D)) as (np & GN).
    rewrite GO, GN. destruct (F3 _ _ _ (aget_In_any _ _ _ GN) GO) as (_ & -> & _). reflexivity.
  Qed.
End Compat.

(* ------------------------------------------------------------------ merging colliding old events *)
Definition within (old : T2) (evs : list mevent) : Prop :=
  forall e kv, In e evs -> In kv (me_props e) -> nonempty (snd kv) = true -> mem (fst kv) (akeys (props old)) = true.

Lemma aget_map_val {V W} (g : V -> W) (l : list (str * V)) p :
  aget p (map (fun kp => (fst kp, g (snd kp))) l) = option_map g (aget p l).
Proof. induction l as [|(k, t) r IH]; [reflexivity|]. cbn. destruct (str_eqb p k); [reflexivity | exact IH]. Qed.

Lemma strat_agree old new p : et_facts old new -> mem p (akeys (props old)) = true ->
  strat_of (etype_of new) p = strat_of (etype_of old) p.
Proof.
  intros (F1 & _ & F3 & _) M. unfold strat_of, etype_of. cbn [et_strat]. rewrite !(aget_map_val (fun t => strat_parse (p_merge t))).
  destruct (mem_akeys_aget _ _ M) as (op & GO). destruct (mem_akeys_aget _ _ (F1 _ M)) as (np & GN).
  rewrite GO, GN. cbn. destruct (F3 _ _ _ (aget_In_any _ _ _ GN) GO) as (_ & -> & _). reflexivity.
Qed.

Lemma get_undeclared old evs e p : within old evs -> In e evs -> mem p (akeys (props old)) = false -> get e p = [].
Proof.
  intros W He M. unfold get. destruct (aget p (me_props e)) as [l|] eqn:G; [|reflexivity]. cbn.
  destruct l as [|x l]; [reflexivity|]. specialize (W e (p, x :: l) He (aget_In_any _ _ _ G) eq_refl). cbn in W. congruence.
Qed.

Lemma present_declared old evs p : within old evs -> In p (present evs) -> mem p (akeys (props old)) = true.
Proof.
  intros W Hp. unfold present in Hp. apply mem_In in Hp. rewrite mem_union in Hp. cbn in Hp. apply mem_In in Hp.
  apply in_flat_map in Hp. destruct Hp as (e & He & Hk). unfold event_keys in Hk. apply in_map_iff in Hk.
  destruct Hk as (kv & <- & Hf). apply filter_In in Hf. destruct Hf as (Hin & Hne). exact (W e kv He Hin Hne).
Qed.

Lemma merge_core_ext rank v et1 et2 evs : (forall p, In p (present evs) -> strat_of et1 p = strat_of et2 p) ->
  merge_core rank v et1 evs = merge_core rank v et2 evs.
Proof.
  intros H. unfold merge_core. f_equal. f_equal. apply map_ext_in. intros p Hp. unfold select. rewrite (H p Hp). reflexivity.
Qed.

Lemma existsb_ext_in {X} (f g : X -> bool) l : (forall x, In x l -> f x = g x) -> existsb f l = existsb g l.
Proof. induction l as [|x r IH]; intros H; cbn; [reflexivity|]. rewrite (H x (or_introl eq_refl)), IH; [reflexivity|]. intros; apply H; right; assumption. Qed.

Lemma differ_keys et a b : differ et a b = existsb (fun k => negb (set_eqb (get a k) (get b k))) (map fst (et_strat et)).
Proof. unfold differ. induction (et_strat et) as [|kv r IH]; cbn; [reflexivity|]. rewrite IH. reflexivity. Qed.

Lemma etype_keys et : map fst (et_strat (etype_of et)) = akeys (props et).
Proof. unfold etype_of, akeys. cbn [et_strat]. rewrite map_map. reflexivity. Qed.

Lemma differ_agree old new evs a b : et_facts old new -> within old evs -> In a evs -> In b evs ->
  differ (etype_of new) a b = differ (etype_of old) a b.
Proof.
  intros F W Ha Hb. pose proof F as (F1 & _). rewrite !differ_keys, !etype_keys.
  apply Bool.eq_iff_eq_true. split; intros H; apply existsb_exists in H; destruct H as (k & Hk & Hd); apply existsb_exists.
  - destruct (mem k (akeys (props old))) eqn:M.
    + exists k. split; [apply mem_In; exact M | exact Hd].
    + rewrite (get_undeclared _ _ _ _ W Ha M), (get_undeclared _ _ _ _ W Hb M) in Hd. discriminate.
  - exists k. split; [apply mem_In; apply F1; apply mem_In; exact Hk | exact Hd].
Qed.

Lemma vinsert_In rank vp e l x : In x (vinsert rank vp e l) -> x = e \/ In x l.
Proof.
  induction l as [|y r IH]; cbn; [intuition|]. destruct (_ <=? _)%Z; cbn; [intuition|].
  intros [->|H]; [right; left; reflexivity|]. destruct (IH H); [left; assumption | right; right; assumption].
Qed.
Lemma vsort_In rank vp l x : In x (vsort rank vp l) -> In x l.
Proof.
  induction l as [|e r IH]; cbn; [auto|]. intros H. apply vinsert_In in H. destruct H as [->|H]; [left; reflexivity | right; apply IH; exact H].
Qed.

Theorem merge_preserved rank v old new evs : et_facts old new -> within old evs ->
  merge rank v (etype_of new) evs = merge rank v (etype_of old) evs.
Proof.
  intros F W. pose proof F as (_ & _ & _ & _ & F5). unfold merge.
  assert (EV : et_version (etype_of new) = et_version (etype_of old)) by (unfold etype_of; cbn [et_version]; rewrite F5; reflexivity).
  rewrite EV. destruct (et_version (etype_of old)) as [vp|].
  - assert (W' : within old (vsort rank vp evs)) by (intros e kv He; apply W; eapply vsort_In; exact He).
    assert (CF : conflict (etype_of new) vp (vsort rank vp evs) = conflict (etype_of old) vp (vsort rank vp evs)).
    { unfold conflict. apply existsb_ext_in. intros a Ha. apply existsb_ext_in. intros b Hb.
      rewrite (differ_agree old new _ a b F W' Ha Hb). reflexivity. }
    rewrite CF. destruct (conflict (etype_of old) vp (vsort rank vp evs)) eqn:CO; [reflexivity|]. f_equal.
    apply merge_core_ext. intros p Hp. apply strat_agree; [exact F|]. eapply present_declared; eauto.
  - f_equal. apply merge_core_ext. intros p Hp. apply strat_agree; [exact F|]. eapply present_declared; eauto.
Qed.

(* ------------------------------------------------------------------ chains of upgrades *)
Lemma ots_step_refl ots : ots_step ots ots.
Proof. intros n o H. exists o. split; [exact H | left; reflexivity]. Qed.

(* the pinned enum rule (string prefix) accepted a renamed choice: a value valid before is invalid after *)
Theorem pinned_enum_rule_refuted :
  exists o n v, dt_upgrade_pinned o n = true /\ mem v (enum_values o) = true /\ mem v (enum_values n) = false.
Proof.
  exists (s2l "enum:a:b"), (s2l "enum:a:bc:d"), (s2l "b"). repeat split; vm_compute; reflexivity.
Qed.

Lemma last_cons {X} (l : list X) : forall x d, last (x :: l) d = last l x.
Proof. induction l as [|y r IH]; intros x d; [reflexivity|]. cbn [last] in *. rewrite (IH y d), (IH y x). reflexivity. Qed.

Section Chain.
  Variable dt_valid : str -> str -> bool.
  Variable re_match : str -> str -> bool.
  Hypothesis re_alt : forall a b s, re_match a s = true -> re_match (a ++ [124%N] ++ b) s = true.

  Definition ostate := (list (str * T0) * T2)%type.
  Fixpoint chain_ok (s : ostate) (l : list ostate) : Prop :=
    match l with
    | [] => True
    | s' :: r => ots_step (fst s) (fst s') /\ wf_et (snd s) /\ et_step (snd s) (snd s') /\ chain_ok s' r
    end.

  Theorem chain_valid l : forall s e, chain_ok s l ->
    valid_event dt_valid re_match (fst s) (snd s) e = true ->
    valid_event dt_valid re_match (fst (last l s)) (snd (last l s)) e = true.
  Proof.
    induction l as [|s' r IH]; intros s e C V; [exact V|].
    destruct C as (OS & WF & ES & C).
    assert (V' : valid_event dt_valid re_match (fst s') (snd s') e = true).
    { exact (valid_preserved dt_valid re_match re_alt (fst s) (fst s') (snd s) (snd s') e OS (et_step_facts _ _ WF ES) V). }
    rewrite last_cons. exact (IH s' e C V').
  Qed.
End Chain.
