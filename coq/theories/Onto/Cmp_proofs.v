(* C09 — proofs about the generic comparison of ontology element definitions. *)
From EdxmlVerif Require Import Base.Prelude Onto.Tree.

Definition flip (c : cmpres) : cmpres :=
  match c with Eq => Eq | Older => Newer | Newer => Older | Incompat => Incompat end.

Lemma aval_eqb_refl a : aval_eqb a a = true.
Proof. apply aval_eqb_eq. reflexivity. Qed.
Lemma aval_eqb_sym a b : aval_eqb a b = aval_eqb b a.
Proof.
  destruct (aval_eqb a b) eqn:E1, (aval_eqb b a) eqn:E2; try reflexivity.
  - apply aval_eqb_eq in E1. subst. rewrite aval_eqb_refl in E2. discriminate.
  - apply aval_eqb_eq in E2. subst. rewrite aval_eqb_refl in E1. discriminate.
Qed.

Lemma forallb_ext_eq {A} (f g : A -> bool) l : (forall x, f x = g x) -> forallb f l = forallb g l.
Proof. intro H. induction l as [|x r IH]; cbn; [reflexivity | rewrite H, IH; reflexivity]. Qed.

(* validity of one attribute change, as a boolean *)
Definition rule_ok (r : rule) (ov nv : aval) : bool :=
  aval_eqb ov nv ||
  match r with
  | Plain => true
  | Frozen => false
  | Grow => aval_eqb nv (VBool true)
  | RegexHard => match ov, nv with
                 | VNone, _ => false
                 | _, VNone => true
                 | VStr o, VStr n => prefixb (o ++ [124%N]) n
                 | _, _ => false
                 end
  | DataType => match ov, nv with VStr o, VStr n => dt_upgrade o n | _, _ => false end
  end.

Lemma rule_step_spec r ov nv e v :
  rule_step r ov nv (e, v) = (e && aval_eqb ov nv, v && rule_ok r ov nv).
Proof.
  unfold rule_step, rule_ok. destruct (aval_eqb ov nv) eqn:E; cbn.
  - rewrite !andb_true_r. reflexivity.
  - rewrite andb_false_r. destruct r; cbn; rewrite ?andb_true_r, ?andb_false_r; reflexivity.
Qed.

Section Rules.
  Context {C : Type}.
  Lemma rules_fold (rules : list (str * rule)) (old new : node C) : forall e v,
    fold_left (fun st ar => rule_step (snd ar) (attr old (fst ar)) (attr new (fst ar)) st) rules (e, v) =
    (e && forallb (fun ar => aval_eqb (attr old (fst ar)) (attr new (fst ar))) rules,
     v && forallb (fun ar => rule_ok (snd ar) (attr old (fst ar)) (attr new (fst ar))) rules).
  Proof.
    induction rules as [|[a r] rest IH]; intros e v; cbn [fold_left forallb fst snd]; [rewrite !andb_true_r; reflexivity|].
    rewrite rule_step_spec, IH, <- !andb_assoc. reflexivity.
  Qed.
End Rules.

(* ---------------- leaf kinds (no child groups) ---------------- *)
Section Leaf.
  Context {C : Type}.
  Variable child_attr : C -> str -> aval.
  Variable childcmp : str -> C -> C -> cmpres.
  Variable rules : list (str * rule).
  Let ks := {| k_rules := rules; k_groups := [] |}.
  Notation cmp := (cmp_node child_attr childcmp ks).

  Definition all_eq (a b : node C) : bool := forallb (fun ar => aval_eqb (attr a (fst ar)) (attr b (fst ar))) rules.
  Definition all_ok (old new : node C) : bool := forallb (fun ar => rule_ok (snd ar) (attr old (fst ar)) (attr new (fst ar))) rules.

  Lemma cmp_leaf_spec a b :
    cmp a b =
    if (n_version a <? n_version b)%Z then (if all_ok a b then Older else Incompat)
    else if (n_version b <? n_version a)%Z then (if all_ok b a then Newer else Incompat)
    else (if all_eq b a then Eq else Incompat).
  Proof.
    unfold cmp_node, ks, all_ok, all_eq; cbn [k_rules k_groups fold_left].
    destruct (Z.ltb_spec (n_version a) (n_version b)) as [L|L].
    - assert ((n_version a =? n_version b)%Z = false) as -> by (apply Z.eqb_neq; lia). cbn [negb].
      rewrite rules_fold. cbn [andb]. destruct (forallb _ rules); reflexivity.
    - destruct (Z.ltb_spec (n_version b) (n_version a)) as [L2|L2].
      + assert ((n_version a =? n_version b)%Z = false) as -> by (apply Z.eqb_neq; lia). cbn [negb].
        rewrite rules_fold. cbn [andb]. destruct (forallb _ rules); reflexivity.
      + assert ((n_version a =? n_version b)%Z = true) as -> by (apply Z.eqb_eq; lia). cbn [negb].
        rewrite rules_fold. cbn [andb]. destruct (forallb _ rules); [reflexivity|]. rewrite andb_false_r. reflexivity.
  Qed.

  Lemma all_eq_refl a : all_eq a a = true.
  Proof. unfold all_eq. apply forallb_forall. intros; apply aval_eqb_refl. Qed.
  Lemma all_eq_sym a b : all_eq a b = all_eq b a.
  Proof. unfold all_eq. apply forallb_ext_eq. intros; apply aval_eqb_sym. Qed.

  Lemma leaf_refl a : cmp a a = Eq.
  Proof. rewrite cmp_leaf_spec, Z.ltb_irrefl, all_eq_refl. reflexivity. Qed.

  Lemma leaf_antisym a b : cmp a b = flip (cmp b a).
  Proof.
    rewrite !cmp_leaf_spec.
    destruct (Z.ltb_spec (n_version a) (n_version b)), (Z.ltb_spec (n_version b) (n_version a)); try lia.
    - destruct (all_ok a b); reflexivity.
    - destruct (all_ok b a); reflexivity.
    - rewrite (all_eq_sym a b). destruct (all_eq b a); reflexivity.
  Qed.

  (* equal definitions have equal attributes (for every compared attribute) and the same version *)
  Lemma leaf_eq_attrs a b : cmp a b = Eq ->
    n_version a = n_version b /\ forall x r, In (x, r) rules -> attr a x = attr b x.
  Proof.
    rewrite cmp_leaf_spec.
    destruct (Z.ltb_spec (n_version a) (n_version b)); [destruct (all_ok a b); discriminate|].
    destruct (Z.ltb_spec (n_version b) (n_version a)); [destruct (all_ok b a); discriminate|].
    destruct (all_eq b a) eqn:E; [|discriminate]. intros _. split; [lia|].
    intros x r Hin. unfold all_eq in E. rewrite forallb_forall in E. specialize (E (x, r) Hin). cbn in E.
    apply aval_eqb_eq in E. congruence.
  Qed.
End Leaf.

(* ---------------- accepted upgrades compose ---------------- *)
Lemma prefixb_trans a b c : prefixb a b = true -> prefixb b c = true -> prefixb a c = true.
Proof.
  revert b c; induction a as [|x xs IH]; intros [|y ys] [|z zs]; cbn; try discriminate; auto.
  intros H1 H2. apply andb_true_iff in H1 as [E1 P1]. apply andb_true_iff in H2 as [E2 P2].
  apply N.eqb_eq in E1, E2. subst. rewrite N.eqb_refl. cbn. eapply IH; eauto.
Qed.
Lemma prefixb_app_l a b c : prefixb (a ++ b) c = true -> prefixb a c = true.
Proof.
  revert c; induction a as [|x xs IH]; intros [|z zs]; cbn; try discriminate; auto.
  intro H. apply andb_true_iff in H as [E P]. rewrite E. cbn. eapply IH; eauto.
Qed.

Lemma lprefixb_trans a : forall b c, lprefixb a b = true -> lprefixb b c = true -> lprefixb a c = true.
Proof.
  induction a as [|x xs IH]; intros [|y ys] [|z zs]; cbn; try discriminate; auto.
  intros H1 H2. apply andb_true_iff in H1 as [E1 P1]. apply andb_true_iff in H2 as [E2 P2].
  apply str_eqb_eq in E1, E2. subst. rewrite str_eqb_refl. cbn. eapply IH; eauto.
Qed.

Lemma dt_upgrade_trans a b c : dt_upgrade a b = true -> dt_upgrade b c = true -> dt_upgrade a c = true.
Proof.
  unfold dt_upgrade. intros H1 H2.
  apply andb_true_iff in H1 as [H1 P1]. apply andb_true_iff in H1 as [H1 L1]. apply andb_true_iff in H1 as [Fb Fa].
  apply andb_true_iff in H2 as [H2 P2]. apply andb_true_iff in H2 as [H2 L2]. apply andb_true_iff in H2 as [Fc Fb'].
  rewrite Fc, Fa, (lprefixb_trans _ _ _ P1 P2). cbn. rewrite andb_true_r.
  apply Nat.ltb_lt in L1, L2. apply Nat.ltb_lt. lia.
Qed.

Lemma rule_ok_trans r a b c : rule_ok r a b = true -> rule_ok r b c = true -> rule_ok r a c = true.
Proof.
  unfold rule_ok. intros H1 H2.
  destruct (aval_eqb a b) eqn:E1; [apply aval_eqb_eq in E1; subst; exact H2|].
  destruct (aval_eqb b c) eqn:E2; [apply aval_eqb_eq in E2; subst; rewrite E1; exact H1|].
  cbn [orb] in *. destruct (aval_eqb a c); [reflexivity|]. cbn [orb].
  destruct r; try discriminate; try reflexivity.
  - exact H2.
  - destruct a as [|o| |], b as [|n| |], c as [|m| |]; cbn in *; try discriminate; try reflexivity.
    apply prefixb_app_l in H2. eapply prefixb_trans; eauto.
  - destruct a as [|o| |]; try discriminate. destruct b as [|n| |]; try discriminate. destruct c as [|m| |]; try discriminate.
    eapply dt_upgrade_trans; eauto.
Qed.

Section LeafTrans.
  Context {C : Type}.
  Variable child_attr : C -> str -> aval.
  Variable childcmp : str -> C -> C -> cmpres.
  Variable rules : list (str * rule).
  Notation cmp := (cmp_node child_attr childcmp {| k_rules := rules; k_groups := [] |}).

  Lemma leaf_older_spec a b : cmp a b = Older <-> (n_version a < n_version b)%Z /\ all_ok rules a b = true.
  Proof.
    rewrite (cmp_leaf_spec child_attr childcmp rules).
    destruct (Z.ltb_spec (n_version a) (n_version b)).
    - destruct (all_ok rules a b); split; try discriminate; auto. intros [_ H']; discriminate.
    - destruct (Z.ltb_spec (n_version b) (n_version a)).
      + destruct (all_ok rules b a); (split; [discriminate | intros [H' _]; lia]).
      + destruct (all_eq rules b a); (split; [discriminate | intros [H' _]; lia]).
  Qed.

  Lemma leaf_trans a b c : cmp a b = Older -> cmp b c = Older -> cmp a c = Older.
  Proof.
    rewrite !leaf_older_spec. intros [L1 O1] [L2 O2]. split; [lia|].
    unfold all_ok in *. rewrite forallb_forall in *. intros ar Hin.
    eapply rule_ok_trans; [apply O1 | apply O2]; exact Hin.
  Qed.
End LeafTrans.

(* ---------------- kinds with child groups ---------------- *)
Definition is_eq (c : cmpres) : bool := match c with Eq => true | _ => false end.

Section Groups.
  Context {C : Type}.
  Variable child_attr : C -> str -> aval.
  Variable childcmp : str -> C -> C -> cmpres.

  Definition kids_all_eq (gn : str) (okids nkids : list (str * C)) : bool :=
    forallb (fun kc => match aget (fst kc) okids with
                       | Some oc => is_eq (childcmp gn oc (snd kc))
                       | None => true
                       end) nkids.

  Lemma kid_fold_none gn okids nkids : fold_left (kid_step childcmp gn okids) nkids None = None.
  Proof. induction nkids as [|kc r IH]; cbn; [reflexivity | exact IH]. Qed.

  Lemma kid_fold_eq gn okids : forall nkids e v,
    match fold_left (kid_step childcmp gn okids) nkids (Some (e, v)) with
    | Some (e', _) => e' = e && kids_all_eq gn okids nkids
    | None => kids_all_eq gn okids nkids = false
    end.
  Proof.
    induction nkids as [|kc r IH]; intros e v; cbn [fold_left kids_all_eq forallb]; [rewrite andb_true_r; reflexivity|].
    unfold kid_step at 2. destruct (aget (fst kc) okids) as [oc|] eqn:G.
    - destruct (childcmp gn oc (snd kc)) eqn:CC; cbn [is_eq andb].
      + apply IH.
      + specialize (IH false v). destruct (fold_left _ r (Some (false, v))) as [[e' v']|]; [rewrite IH, andb_false_r; reflexivity | reflexivity].
      + specialize (IH false false). destruct (fold_left _ r (Some (false, false))) as [[e' v']|]; [rewrite IH, andb_false_r; reflexivity | reflexivity].
      + rewrite kid_fold_none. reflexivity.
    - cbn [andb]. apply IH.
  Qed.

  Definition missing_of (okids nkids : list (str * C)) := filter (fun kc => negb (mem (fst kc) (akeys nkids))) okids.

  Definition group_all_eq (g : gspec) (okids nkids : list (str * C)) : bool :=
    negb (nonempty_b (missing_of okids nkids)) &&
    negb (nonempty_b (missing_of nkids okids) && g_add_unequal g) &&
    kids_all_eq (g_name g) okids nkids.

  Lemma group_step_eq g okids nkids e v :
    match group_step child_attr childcmp g okids nkids (e, v) with
    | Some (e', _) => e' = e && group_all_eq g okids nkids
    | None => group_all_eq g okids nkids = false
    end.
  Proof.
    unfold group_step, group_all_eq. fold (missing_of okids nkids). fold (missing_of nkids okids).
    destruct (nonempty_b (missing_of okids nkids)) eqn:M; destruct (nonempty_b (missing_of nkids okids)) eqn:A;
      destruct (g_add_unequal g) eqn:U; cbn [negb andb];
      match goal with |- context [fold_left ?f nkids (Some (?x, ?y))] =>
        pose proof (kid_fold_eq (g_name g) okids nkids x y) as K; destruct (fold_left f nkids (Some (x, y))) as [[e' v']|] end;
      cbn [andb] in *; rewrite ?andb_false_r, ?andb_true_r in *; try reflexivity; try exact K.
  Qed.

  Definition groups_all_eq (gs : list gspec) (old new : node C) : bool :=
    forallb (fun g => group_all_eq g (kids old (g_name g)) (kids new (g_name g))) gs.

  Lemma groups_fold_none gs (old new : node C) :
    fold_left (fun acc g => match acc with
                            | None => None
                            | Some st => group_step child_attr childcmp g (kids old (g_name g)) (kids new (g_name g)) st
                            end) gs None = None.
  Proof. induction gs as [|g r IH]; cbn; [reflexivity | exact IH]. Qed.

  Lemma groups_fold_eq gs (old new : node C) : forall e v,
    match fold_left (fun acc g => match acc with
                                  | None => None
                                  | Some st => group_step child_attr childcmp g (kids old (g_name g)) (kids new (g_name g)) st
                                  end) gs (Some (e, v)) with
    | Some (e', _) => e' = e && groups_all_eq gs old new
    | None => groups_all_eq gs old new = false
    end.
  Proof.
    induction gs as [|g r IH]; intros e v; cbn [fold_left groups_all_eq forallb]; [rewrite andb_true_r; reflexivity|].
    fold (groups_all_eq r old new).
    pose proof (group_step_eq g (kids old (g_name g)) (kids new (g_name g)) e v) as G.
    destruct (group_step child_attr childcmp g (kids old (g_name g)) (kids new (g_name g)) (e, v)) as [[e1 v1]|].
    - specialize (IH e1 v1). destruct (fold_left _ r (Some (e1, v1))) as [[e' v']|].
      + rewrite IH, G, andb_assoc. reflexivity.
      + rewrite IH, andb_false_r. reflexivity.
    - rewrite groups_fold_none, G. reflexivity.
  Qed.

  Variable ks : kspec.
  Notation cmp := (cmp_node child_attr childcmp ks).

  Definition defs_equal (old new : node C) : bool :=
    all_eq (k_rules ks) old new && groups_all_eq (k_groups ks) old new.

  (* equal versions: the verdict is Eq exactly when all compared parts are equal, a conflict otherwise *)
  Lemma cmp_same_version a b : n_version a = n_version b ->
    cmp a b = if defs_equal b a then Eq else Incompat.
  Proof.
    intro V. unfold cmp_node. rewrite V, Z.ltb_irrefl, Z.eqb_refl. cbn [negb].
    rewrite rules_fold. cbn [andb]. unfold defs_equal, all_eq.
    match goal with |- context [fold_left _ (k_groups ks) (Some (?x, ?y))] => pose proof (groups_fold_eq (k_groups ks) b a x y) as G end.
    destruct (fold_left _ (k_groups ks) _) as [[e' v']|].
    - rewrite G. destruct (forallb _ (k_rules ks) && groups_all_eq (k_groups ks) b a); [reflexivity|].
      rewrite andb_false_r. reflexivity.
    - rewrite G, andb_false_r. reflexivity.
  Qed.

  (* different versions: the same (old, new) pair is examined whichever operand comes first *)
  Lemma cmp_diff_version a b : (n_version a < n_version b)%Z -> cmp b a = flip (cmp a b).
  Proof.
    intro L. unfold cmp_node.
    assert ((n_version a <? n_version b)%Z = true) as -> by (apply Z.ltb_lt; exact L).
    assert ((n_version b <? n_version a)%Z = false) as -> by (apply Z.ltb_ge; lia).
    assert ((n_version a =? n_version b)%Z = false) as -> by (apply Z.eqb_neq; lia).
    assert ((n_version b =? n_version a)%Z = false) as -> by (apply Z.eqb_neq; lia).
    destruct (fold_left _ (k_groups ks) _) as [[e v]|]; [|reflexivity].
    destruct e; [reflexivity|]. destruct (v && negb false); reflexivity.
  Qed.

  Lemma cmp_eq_same_version a b : cmp a b = Eq -> n_version a = n_version b.
  Proof.
    intro H. destruct (Z.lt_trichotomy (n_version a) (n_version b)) as [L|[E|L]]; [exfalso | exact E | exfalso].
    - unfold cmp_node in H.
      assert ((n_version a <? n_version b)%Z = true) as Hl by (apply Z.ltb_lt; exact L).
      assert ((n_version a =? n_version b)%Z = false) as He by (apply Z.eqb_neq; lia).
      rewrite Hl, He in H. cbn [negb] in H. rewrite rules_fold in H. cbn [andb] in H.
      match type of H with context [fold_left ?f (k_groups ks) (Some (false, ?y))] =>
        pose proof (groups_fold_eq (k_groups ks) a b false y) as G; destruct (fold_left f (k_groups ks) (Some (false, y))) as [[e' v']|] end;
        [|discriminate]. cbn in G. subst e'. destruct (v' && true); discriminate.
    - unfold cmp_node in H.
      assert ((n_version a <? n_version b)%Z = false) as Hl by (apply Z.ltb_ge; lia).
      assert ((n_version a =? n_version b)%Z = false) as He by (apply Z.eqb_neq; lia).
      rewrite Hl, He in H. cbn [negb] in H. rewrite rules_fold in H. cbn [andb] in H.
      match type of H with context [fold_left ?f (k_groups ks) (Some (false, ?y))] =>
        pose proof (groups_fold_eq (k_groups ks) b a false y) as G; destruct (fold_left f (k_groups ks) (Some (false, y))) as [[e' v']|] end;
        [|discriminate]. cbn in G. subst e'. destruct (v' && true); discriminate.
  Qed.
End Groups.

(* ---------------- reflexivity / antisymmetry with child groups ---------------- *)
Lemma aget_In_nd {V} (d : list (str * V)) k v : NoDup (akeys d) -> In (k, v) d -> aget k d = Some v.
Proof.
  induction d as [|[k' v'] r IH]; cbn; intros ND H; [contradiction|].
  inversion ND as [|? ? Hn ND']; subst. destruct (str_eqb k k') eqn:E.
  - apply str_eqb_eq in E; subst k'. destruct H as [H|H]; [congruence|]. exfalso. apply Hn. apply in_map_iff. exists (k, v). auto.
  - destruct H as [H|H]; [injection H as -> ->; rewrite str_eqb_refl in E; discriminate | apply IH; assumption].
Qed.
Lemma aget_In_any {V} (d : list (str * V)) k v : aget k d = Some v -> In (k, v) d.
Proof.
  induction d as [|[k' v'] r IH]; cbn; [discriminate|]. destruct (str_eqb k k') eqn:E.
  - intro H. injection H as ->. apply str_eqb_eq in E; subst. left; reflexivity.
  - intro H. right. apply IH. exact H.
Qed.
Lemma mem_akeys_aget {V} (d : list (str * V)) k : mem k (akeys d) = true -> exists v, aget k d = Some v.
Proof.
  intro M. destruct (aget k d) eqn:G; [eauto|]. apply aget_none_mem in G. congruence.
Qed.

Section Sym.
  Context {C : Type}.
  Variable childcmp : str -> C -> C -> cmpres.

  Lemma filter_all_mem (r : list (str * C)) keys : (forall x, In x (akeys r) -> In x keys) ->
    filter (fun kc : str * C => negb (mem (fst kc) keys)) r = [].
  Proof.
    intro Hk. induction r as [|[k c] r IH]; cbn; [reflexivity|].
    assert (mem k keys = true) as -> by (apply mem_In, Hk; left; reflexivity). cbn. apply IH. intros x Hx. apply Hk. right. exact Hx.
  Qed.
  Lemma missing_self (l : list (str * C)) : missing_of l l = [].
  Proof. unfold missing_of. apply filter_all_mem. auto. Qed.

  Lemma missing_nil_spec (a b : list (str * C)) : nonempty_b (missing_of a b) = false ->
    forall k c, In (k, c) a -> mem k (akeys b) = true.
  Proof.
    unfold missing_of. intros H k c Hin. destruct (mem k (akeys b)) eqn:M; [reflexivity|]. exfalso.
    assert (In (k, c) (filter (fun kc => negb (mem (fst kc) (akeys b))) a)) as F by (apply filter_In; split; [exact Hin | cbn; rewrite M; reflexivity]).
    destruct (filter _ a); [contradiction | discriminate].
  Qed.

  Lemma kids_all_eq_swap gn (ok nk : list (str * C)) :
    NoDup (akeys ok) -> NoDup (akeys nk) ->
    nonempty_b (missing_of ok nk) = false ->
    (forall k x y, In (k, x) ok -> In (k, y) nk -> is_eq (childcmp gn y x) = is_eq (childcmp gn x y)) ->
    kids_all_eq childcmp gn ok nk = true -> kids_all_eq childcmp gn nk ok = true.
  Proof.
    intros Nok Nnk Miss Sym H. unfold kids_all_eq in *. rewrite forallb_forall in *. intros [k oc] Hin. cbn [fst snd].
    destruct (mem_akeys_aget nk k (missing_nil_spec ok nk Miss k oc Hin)) as [nc G]. rewrite G.
    pose proof (aget_In_any nk k nc G) as Hn. specialize (H (k, nc) Hn). cbn [fst snd] in H.
    rewrite (aget_In_nd ok k oc Nok Hin) in H. rewrite (Sym k oc nc Hin Hn). exact H.
  Qed.

  Definition wf_groups (gs : list gspec) (n : node C) : Prop :=
    forall g, In g gs -> NoDup (akeys (kids n (g_name g))).
  Definition all_add_unequal (gs : list gspec) : Prop := forall g, In g gs -> g_add_unequal g = true.
  Definition child_sym (gs : list gspec) (a b : node C) : Prop :=
    forall g k x y, In g gs -> In (k, x) (kids a (g_name g)) -> In (k, y) (kids b (g_name g)) ->
                    is_eq (childcmp (g_name g) y x) = is_eq (childcmp (g_name g) x y).

  Lemma group_all_eq_swap g (ok nk : list (str * C)) :
    g_add_unequal g = true -> NoDup (akeys ok) -> NoDup (akeys nk) ->
    (forall k x y, In (k, x) ok -> In (k, y) nk -> is_eq (childcmp (g_name g) y x) = is_eq (childcmp (g_name g) x y)) ->
    group_all_eq childcmp g ok nk = true -> group_all_eq childcmp g nk ok = true.
  Proof.
    intros U Nok Nnk Sym H. unfold group_all_eq in *. rewrite U in *. rewrite andb_true_r in *.
    apply andb_true_iff in H as [H K]. apply andb_true_iff in H as [M A].
    apply negb_true_iff in M, A. rewrite M, A. cbn [negb andb].
    apply kids_all_eq_swap; assumption.
  Qed.

  Variable child_attr : C -> str -> aval.
  Variable ks : kspec.
  Notation cmp := (cmp_node child_attr childcmp ks).

  Lemma defs_equal_swap a b :
    all_add_unequal (k_groups ks) -> wf_groups (k_groups ks) a -> wf_groups (k_groups ks) b ->
    child_sym (k_groups ks) a b ->
    defs_equal childcmp ks a b = true -> defs_equal childcmp ks b a = true.
  Proof.
    intros U Wa Wb Sym H. unfold defs_equal in *. apply andb_true_iff in H as [H1 H2].
    rewrite all_eq_sym, H1. cbn [andb]. unfold groups_all_eq in *. rewrite forallb_forall in *.
    intros g Hg. apply group_all_eq_swap; try (apply U; exact Hg); try (apply Wa; exact Hg); try (apply Wb; exact Hg).
    - intros k x y Hx Hy. apply (Sym g k x y Hg Hx Hy).
    - apply H2. exact Hg.
  Qed.

  (* antisymmetry: a is older than b exactly when b is newer than a, equality and conflicts are symmetric *)
  Lemma cmp_antisym a b :
    all_add_unequal (k_groups ks) -> wf_groups (k_groups ks) a -> wf_groups (k_groups ks) b ->
    child_sym (k_groups ks) a b -> child_sym (k_groups ks) b a ->
    cmp a b = flip (cmp b a).
  Proof.
    intros U Wa Wb S1 S2. destruct (Z.lt_trichotomy (n_version a) (n_version b)) as [L|[E|L]].
    - rewrite (cmp_diff_version child_attr childcmp ks a b L). destruct (cmp a b); reflexivity.
    - rewrite (cmp_same_version child_attr childcmp ks a b E), (cmp_same_version child_attr childcmp ks b a (eq_sym E)).
      destruct (defs_equal childcmp ks b a) eqn:D1, (defs_equal childcmp ks a b) eqn:D2; try reflexivity.
      + rewrite (defs_equal_swap b a U Wb Wa S2 D1) in D2. discriminate.
      + rewrite (defs_equal_swap a b U Wa Wb S1 D2) in D1. discriminate.
    - apply (cmp_diff_version child_attr childcmp ks b a L).
  Qed.

  (* reflexivity *)
  Lemma cmp_refl a :
    wf_groups (k_groups ks) a ->
    (forall g k x, In g (k_groups ks) -> In (k, x) (kids a (g_name g)) -> childcmp (g_name g) x x = Eq) ->
    cmp a a = Eq.
  Proof.
    intros W Rf. rewrite (cmp_same_version child_attr childcmp ks a a eq_refl).
    assert (defs_equal childcmp ks a a = true) as ->; [|reflexivity].
    unfold defs_equal. rewrite all_eq_refl. cbn [andb]. unfold groups_all_eq. apply forallb_forall. intros g Hg.
    unfold group_all_eq. rewrite missing_self. cbn [nonempty_b negb andb].
    unfold kids_all_eq. apply forallb_forall. intros [k x] Hin. cbn [fst snd].
    rewrite (aget_In_nd _ k x (W g Hg) Hin), (Rf g k x Hg Hin). reflexivity.
  Qed.

  (* definitions that compare equal agree on the version, on every compared attribute, on the child names of
     every group, and their children compare equal *)
  Lemma cmp_eq_parts a b : cmp a b = Eq ->
    n_version a = n_version b /\
    (forall x r, In (x, r) (k_rules ks) -> attr a x = attr b x) /\
    (forall g, In g (k_groups ks) -> g_add_unequal g = true ->
       (forall k c, In (k, c) (kids a (g_name g)) -> mem k (akeys (kids b (g_name g))) = true) /\
       (forall k c, In (k, c) (kids b (g_name g)) -> mem k (akeys (kids a (g_name g))) = true) /\
       (forall k x y, In (k, x) (kids a (g_name g)) -> aget k (kids b (g_name g)) = Some y -> childcmp (g_name g) y x = Eq)).
  Proof.
    intro H. pose proof (cmp_eq_same_version child_attr childcmp ks a b H) as V. split; [exact V|].
    rewrite (cmp_same_version child_attr childcmp ks a b V) in H.
    destruct (defs_equal childcmp ks b a) eqn:D; [|discriminate]. unfold defs_equal in D.
    apply andb_true_iff in D as [D1 D2]. split.
    - intros x r Hin. unfold all_eq in D1. rewrite forallb_forall in D1. specialize (D1 (x, r) Hin). cbn in D1.
      apply aval_eqb_eq in D1. congruence.
    - intros g Hg U. unfold groups_all_eq in D2. rewrite forallb_forall in D2. specialize (D2 g Hg).
      unfold group_all_eq in D2. rewrite U, andb_true_r in D2.
      apply andb_true_iff in D2 as [D2 K]. apply andb_true_iff in D2 as [M A]. apply negb_true_iff in M, A.
      split; [|split].
      + intros k c Hin. eapply missing_nil_spec; [exact A | exact Hin].
      + intros k c Hin. eapply missing_nil_spec; [exact M | exact Hin].
      + intros k x y Hin G. unfold kids_all_eq in K. rewrite forallb_forall in K. specialize (K (k, x) Hin). cbn [fst snd] in K.
        rewrite G in K. destruct (childcmp (g_name g) y x); try discriminate. reflexivity.
  Qed.
End Sym.
