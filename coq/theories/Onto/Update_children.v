(* C11 — update of definitions WITH child elements (properties with concept associations, event types with
   properties, relations, attachments, parent): when the other definition is a valid upgrade the result takes its
   version and attributes, keeps / updates / adopts the children, and compares EQUAL to the other definition. *)
From Coq Require Import String Lia.
From EdxmlVerif Require Import Base.Prelude Onto.Tree Onto.Kinds Onto.Cmp_proofs Onto.Compat Onto.Compat_proofs Onto.Cmp_trans Onto.Update Onto.Update_proofs.

Section UpdChildren.
  Context {C : Type}.
  Variable child_attr : C -> str -> aval.
  Variable childcmp : str -> C -> C -> cmpres.
  Variable childupd : str -> C -> C -> option C.
  Variable ks : kspec.
  Notation cmp := (cmp_node child_attr childcmp ks).
  Notation upd := (upd_node child_attr childcmp childupd ks).
  Notation nn := not_newer.

  (* ---- children of one group ---- *)
  Lemma upd_kids_keys gn bk : forall ak l, upd_kids childupd gn ak bk = Some l -> akeys l = akeys ak.
  Proof.
    induction ak as [|[k ca] r IH]; intros l H; cbn [upd_kids] in H.
    - injection H as <-. reflexivity.
    - destruct (upd_kids childupd gn r bk) as [r'|] eqn:U; [|discriminate].
      destruct (aget k bk) as [cb|].
      + destruct (childupd gn ca cb) as [c'|]; [|discriminate]. injection H as <-. cbn. f_equal. apply IH. reflexivity.
      + injection H as <-. cbn. f_equal. apply IH. reflexivity.
  Qed.

  Lemma upd_kids_in gn bk : forall ak l, upd_kids childupd gn ak bk = Some l ->
    forall k c', In (k, c') l -> exists ca, In (k, ca) ak /\
      match aget k bk with None => c' = ca | Some cb => childupd gn ca cb = Some c' end.
  Proof.
    induction ak as [|[k0 ca0] r IH]; intros l H k c' Hin; cbn [upd_kids] in H.
    - injection H as <-. contradiction.
    - destruct (upd_kids childupd gn r bk) as [r'|] eqn:U; [|discriminate].
      destruct (aget k0 bk) as [cb|] eqn:G.
      + destruct (childupd gn ca0 cb) as [c0|] eqn:CU; [|discriminate]. injection H as <-.
        destruct Hin as [Hin|Hin].
        * injection Hin as <- <-. exists ca0. split; [left; reflexivity|]. rewrite G. exact CU.
        * destruct (IH r' eq_refl k c' Hin) as (ca & Hca & M). exists ca. split; [right; exact Hca | exact M].
      + injection H as <-. destruct Hin as [Hin|Hin].
        * injection Hin as <- <-. exists ca0. split; [left; reflexivity|]. rewrite G. reflexivity.
        * destruct (IH r' eq_refl k c' Hin) as (ca & Hca & M). exists ca. split; [right; exact Hca | exact M].
  Qed.

  Lemma upd_kids_total gn bk : forall ak,
    (forall k ca cb, In (k, ca) ak -> aget k bk = Some cb -> childupd gn ca cb <> None) ->
    exists l, upd_kids childupd gn ak bk = Some l.
  Proof.
    induction ak as [|[k ca] r IH]; intro H; cbn [upd_kids]; [eauto|].
    destruct IH as [r' ->]; [intros k' ca' cb' Hin; apply H; right; exact Hin|].
    destruct (aget k bk) as [cb|] eqn:G; [|eauto].
    destruct (childupd gn ca cb) as [c'|] eqn:CU; [eauto|]. exfalso. exact (H k ca cb (or_introl eq_refl) G CU).
  Qed.

  Lemma mem_akeys_in {V} (d : list (str * V)) k : mem k (akeys d) = true <-> exists v, In (k, v) d.
  Proof.
    rewrite mem_In. unfold akeys. rewrite in_map_iff. split.
    - intros ([k' v] & E & Hin). cbn in E. subst. eauto.
    - intros (v & Hin). exists (k, v). auto.
  Qed.

  (* the merged children of one group compare equal to the children of the newer definition *)
  Lemma merged_kids_equal g (ka kb l : list (str * C)) :
    NoDup (akeys ka) -> NoDup (akeys kb) ->
    group_ok child_attr childcmp g ka kb = true ->
    (forall k ca cb c', In (k, ca) ka -> aget k kb = Some cb -> nn (childcmp (g_name g) ca cb) = true ->
                        childupd (g_name g) ca cb = Some c' -> childcmp (g_name g) cb c' = Eq) ->
    (forall k cb, In (k, cb) kb -> childcmp (g_name g) cb cb = Eq) ->
    merged_kids childupd (g_name g) ka kb = Some l ->
    group_all_eq childcmp g kb l = true.
  Proof.
    intros Na Nb G Hu Hr M. unfold merged_kids in M.
    destruct (upd_kids childupd (g_name g) ka kb) as [l0|] eqn:U; [|discriminate]. injection M as <-.
    apply (group_ok_parts child_attr childcmp) in G as (Miss & _ & K).
    pose proof (upd_kids_keys _ _ _ _ U) as Keys.
    assert (Sub : forall k, mem k (akeys ka) = true -> mem k (akeys kb) = true) by (apply (missing_none' ka kb Miss)).
    unfold group_all_eq.
    assert (M1 : nonempty_b (missing_of kb (l0 ++ filter (fun kc => negb (mem (fst kc) (akeys ka))) kb)) = false).
    { apply missing_empty_intro. intros k Hk. apply mem_akeys_in in Hk as (cb & Hcb). apply mem_In. unfold akeys. rewrite map_app. apply in_app_iff.
      destruct (mem k (akeys ka)) eqn:Mk.
      - left. fold (akeys l0). rewrite Keys. apply mem_In. exact Mk.
      - right. apply in_map_iff. exists (k, cb). split; [reflexivity|]. apply filter_In. split; [exact Hcb | cbn [fst]; change (mem k (map fst ka)) with (mem k (akeys ka)); rewrite Mk; reflexivity]. }
    assert (M2 : nonempty_b (missing_of (l0 ++ filter (fun kc => negb (mem (fst kc) (akeys ka))) kb) kb) = false).
    { apply missing_empty_intro. intros k Hk. apply mem_In in Hk. unfold akeys in Hk. rewrite map_app in Hk. apply in_app_iff in Hk as [Hk|Hk].
      - apply Sub. apply mem_In. fold (akeys l0) in Hk. rewrite Keys in Hk. exact Hk.
      - apply in_map_iff in Hk as ([k' cb] & E & Hf). cbn in E. subst k'. apply filter_In in Hf as [Hin _].
        apply mem_akeys_in. eauto. }
    rewrite M1, M2. cbn [negb andb].
    unfold kids_all_eq. apply forallb_forall. intros [k c'] Hin. cbn [fst snd]. apply in_app_iff in Hin as [Hin|Hin].
    - destruct (upd_kids_in _ _ _ _ U k c' Hin) as (ca & Hca & Mk).
      destruct (mem_akeys_aget kb k (Sub k (In_mem_akeys' ka k ca Hca))) as [cb Gb]. rewrite Gb in *.
      pose proof (aget_In_any kb k cb Gb) as Hb.
      assert (N : nn (childcmp (g_name g) ca cb) = true).
      { apply (kids_ok_at childcmp (g_name g) ka kb k cb ca K Hb). apply (aget_In_nd ka k ca Na Hca). }
      rewrite (Hu k ca cb c' Hca Gb N Mk). reflexivity.
    - apply filter_In in Hin as [Hin _]. rewrite (aget_In_nd kb k c' Nb Hin), (Hr k c' Hin). reflexivity.
  Qed.

  Lemma NoDup_app' {A} (l1 l2 : list A) : NoDup l1 -> NoDup l2 -> (forall x, In x l1 -> ~ In x l2) -> NoDup (l1 ++ l2).
  Proof.
    induction l1 as [|x r IH]; intros N1 N2 D; [exact N2|]. inversion N1 as [|? ? Hn N1']; subst. cbn. constructor.
    - intro Hin. apply in_app_iff in Hin as [Hin|Hin]; [contradiction|]. exact (D x (or_introl eq_refl) Hin).
    - apply IH; [exact N1' | exact N2 | intros y Hy; apply D; right; exact Hy].
  Qed.

  Lemma NoDup_keys_filter (f : str * C -> bool) (l : list (str * C)) : NoDup (akeys l) -> NoDup (akeys (filter f l)).
  Proof.
    induction l as [|[k c] r IH]; intro N; [constructor|]. cbn [akeys map fst] in N. inversion N as [|? ? Hn N']; subst.
    cbn [filter]. destruct (f (k, c)); [|apply IH; exact N'].
    cbn. constructor; [|apply IH; exact N']. intro Hin. apply Hn. unfold akeys in Hin. apply in_map_iff in Hin as ([k' c'] & E & Hf).
    cbn in E. subst k'. apply filter_In in Hf as [Hf _]. apply in_map_iff. exists (k, c'). auto.
  Qed.

  Lemma merged_kids_nodup gn (ka kb l : list (str * C)) :
    NoDup (akeys ka) -> NoDup (akeys kb) -> merged_kids childupd gn ka kb = Some l -> NoDup (akeys l).
  Proof.
    intros Na Nb M. unfold merged_kids in M. destruct (upd_kids childupd gn ka kb) as [l0|] eqn:U; [|discriminate]. injection M as <-.
    unfold akeys. rewrite map_app. fold (akeys l0). rewrite (upd_kids_keys _ _ _ _ U). apply NoDup_app'.
    - exact Na.
    - apply (NoDup_keys_filter _ kb Nb).
    - intros k Hk Hin. apply in_map_iff in Hin as ([k' c'] & E & Hf). cbn in E. subst k'. apply filter_In in Hf as [_ Hf].
      cbn [fst] in Hf. apply negb_true_iff in Hf. apply mem_In in Hk. unfold akeys in *. congruence.
  Qed.

  (* ---- all groups ---- *)
  Lemma merged_groups_get : forall gs a b gl, merged_groups childupd gs a b = Some gl ->
    NoDup (map g_name gs) -> forall g, In g gs ->
    exists l, merged_kids childupd (g_name g) (kids a (g_name g)) (kids b (g_name g)) = Some l /\ aget (g_name g) gl = Some l.
  Proof.
    induction gs as [|g0 r IH]; intros a b gl H ND g Hg; [contradiction|]. cbn [merged_groups] in H.
    destruct (merged_kids childupd (g_name g0) (kids a (g_name g0)) (kids b (g_name g0))) as [l0|] eqn:M0; [|discriminate].
    destruct (merged_groups childupd r a b) as [rest|] eqn:MR; [|discriminate]. injection H as <-.
    cbn [map] in ND. inversion ND as [|? ? Hn ND']; subst. cbn [aget].
    destruct Hg as [<-|Hg].
    - exists l0. split; [exact M0|]. rewrite (proj2 (str_eqb_eq _ _) eq_refl). reflexivity.
    - destruct (str_eqb (g_name g) (g_name g0)) eqn:E.
      + apply str_eqb_eq in E. exfalso. apply Hn. rewrite <- E. apply in_map. exact Hg.
      + apply (IH a b rest MR ND' g Hg).
  Qed.

  Lemma merged_groups_total : forall gs a b,
    (forall g, In g gs -> merged_kids childupd (g_name g) (kids a (g_name g)) (kids b (g_name g)) <> None) ->
    exists gl, merged_groups childupd gs a b = Some gl.
  Proof.
    induction gs as [|g0 r IH]; intros a b H; cbn [merged_groups]; [eauto|].
    destruct (merged_kids childupd (g_name g0) (kids a (g_name g0)) (kids b (g_name g0))) as [l0|] eqn:M0;
      [|exfalso; exact (H g0 (or_introl eq_refl) M0)].
    destruct (IH a b) as [rest ->]; [intros g Hg; apply H; right; exact Hg | eauto].
  Qed.

  (* hypotheses about the children of the two definitions *)
  Definition kids_nodup (a : node C) : Prop := forall g, In g (k_groups ks) -> NoDup (akeys (kids a (g_name g))).
  Definition child_update_ok (a b : node C) : Prop :=
    forall g k ca cb, In g (k_groups ks) -> In (k, ca) (kids a (g_name g)) -> aget k (kids b (g_name g)) = Some cb ->
      nn (childcmp (g_name g) ca cb) = true ->
      exists c', childupd (g_name g) ca cb = Some c' /\ childcmp (g_name g) cb c' = Eq.
  Definition child_refl (b : node C) : Prop :=
    forall g k cb, In g (k_groups ks) -> In (k, cb) (kids b (g_name g)) -> childcmp (g_name g) cb cb = Eq.

  Theorem upd_older a b :
    NoDup (map g_name (k_groups ks)) -> kids_nodup a -> kids_nodup b -> child_update_ok a b -> child_refl b ->
    cmp a b = Older ->
    exists r, upd a b = Some r /\ n_version r = n_version b /\ n_attrs r = n_attrs b /\ cmp r b = Eq /\ kids_nodup r.
  Proof.
    intros NDg Na Nb Hu Hr E. pose proof E as E'. apply (cmp_older_iff child_attr childcmp ks) in E' as (L & R & G).
    unfold Compat_proofs.groups_ok in G. rewrite forallb_forall in G.
    unfold upd_node. rewrite E.
    destruct (merged_groups_total (k_groups ks) a b) as [gl MG].
    { intros g Hg. unfold merged_kids.
      destruct (upd_kids_total (g_name g) (kids b (g_name g)) (kids a (g_name g))) as [l ->]; [|discriminate].
      intros k ca cb Hca Gb. specialize (G g Hg). apply (group_ok_parts child_attr childcmp) in G as (_ & _ & K).
      assert (N : nn (childcmp (g_name g) ca cb) = true).
      { apply (kids_ok_at childcmp (g_name g) _ _ k cb ca K (aget_In_any _ k cb Gb)). apply (aget_In_nd _ k ca (Na g Hg) Hca). }
      destruct (Hu g k ca cb Hg Hca Gb N) as (c' & -> & _). discriminate. }
    rewrite MG. eexists. split; [reflexivity|]. cbn [n_version n_attrs]. split; [reflexivity|]. split; [reflexivity|].
    split.
    2:{ intros g Hg. destruct (merged_groups_get (k_groups ks) a b gl MG NDg g Hg) as (l & Ml & Gl).
        unfold kids. cbn [n_groups]. rewrite Gl. cbn [odefault].
        apply (merged_kids_nodup (g_name g) _ _ l (Na g Hg) (Nb g Hg) Ml). }
    rewrite (cmp_same_version child_attr childcmp ks) by reflexivity.
    assert (defs_equal childcmp ks b {| n_version := n_version b; n_attrs := n_attrs b; n_groups := gl |} = true) as ->; [|reflexivity].
    unfold defs_equal. apply andb_true_iff. split.
    - unfold all_eq. apply forallb_forall. intros ar _. unfold attr. cbn [n_attrs]. apply aval_eqb_refl.
    - unfold groups_all_eq. apply forallb_forall. intros g Hg.
      destruct (merged_groups_get (k_groups ks) a b gl MG NDg g Hg) as (l & Ml & Gl).
      unfold kids at 2. cbn [n_groups]. rewrite Gl. cbn [odefault].
      apply (merged_kids_equal g (kids a (g_name g)) (kids b (g_name g)) l (Na g Hg) (Nb g Hg) (G g Hg)); [| |exact Ml].
      + intros k ca cb c' Hca Gb N CU. destruct (Hu g k ca cb Hg Hca Gb N) as (c2 & CU2 & Ec). congruence.
      + intros k cb Hcb. apply (Hr g k cb Hg Hcb).
  Qed.

  (* the update of a definition with children, completely *)
  Theorem upd_children_spec a b :
    NoDup (map g_name (k_groups ks)) -> kids_nodup a -> kids_nodup b -> child_update_ok a b -> child_refl b ->
    match cmp a b with
    | Incompat => upd a b = None
    | Eq | Newer => upd a b = Some a
    | Older => exists r, upd a b = Some r /\ n_version r = n_version b /\ n_attrs r = n_attrs b /\ cmp r b = Eq /\ kids_nodup r
    end.
  Proof.
    intros NDg Na Nb Hu Hr. destruct (cmp a b) eqn:E.
    - unfold upd_node. rewrite E. reflexivity.
    - apply upd_older; assumption.
    - unfold upd_node. rewrite E. reflexivity.
    - unfold upd_node. rewrite E. reflexivity.
  Qed.
End UpdChildren.

(* ---------------- leaves as children ---------------- *)
Definition ca0 : unit -> str -> aval := fun _ _ => VNone.
Definition cc0 : str -> unit -> unit -> cmpres := fun _ _ _ => Eq.
Definition cu0 : str -> unit -> unit -> option unit := fun _ a _ => Some a.

Lemma leaf_child_update_ok (ks0 : kspec) (ca cb : T0) : k_groups ks0 = [] ->
  not_newer (cmp0 ks0 ca cb) = true -> exists c', upd0 ks0 ca cb = Some c' /\ cmp0 ks0 cb c' = Eq.
Proof.
  intros G N. destruct ks0 as [rules groups]. cbn in G. subst groups. unfold upd0, cmp0 in *.
  fold ca0 cc0 cu0 in *.
  pose proof (upd_leaf_spec ca0 cc0 cu0 rules ca cb) as S.
  pose proof (leaf_antisym ca0 cc0 rules) as AS.
  destruct (cmp_node ca0 cc0 {| k_rules := rules; k_groups := [] |} ca cb) eqn:E; try discriminate.
  - exists ca. split; [exact S|]. rewrite (AS cb ca), E. reflexivity.
  - exists (taken_from cb). split; [exact S|].
    rewrite (AS cb (taken_from cb)), (cmp_taken_from ca0 cc0 rules cb). reflexivity.
Qed.

Lemma leaf_child_refl (ks0 : kspec) (c : T0) : k_groups ks0 = [] -> cmp0 ks0 c c = Eq.
Proof.
  intro G. destruct ks0 as [rules groups]. cbn in G. subst groups. unfold cmp0. apply leaf_refl.
Qed.

(* ---------------- properties (children: concept associations) ---------------- *)
Definition prop_wf (p : T1) : Prop := NoDup (akeys (kids p (s2l "concepts"))).

Theorem prop_update_spec (a b : T1) : prop_wf a -> prop_wf b ->
  match cmp_prop a b with
  | Incompat => upd1 ks_prop ks_assoc a b = None
  | Eq | Newer => upd1 ks_prop ks_assoc a b = Some a
  | Older => exists r, upd1 ks_prop ks_assoc a b = Some r /\ n_version r = n_version b /\ n_attrs r = n_attrs b /\ cmp_prop r b = Eq /\ prop_wf r
  end.
Proof.
  intros Wa Wb. unfold cmp_prop, cmp1, upd1.
  pose proof (upd_children_spec attr (fun _ => cmp0 ks_assoc) (fun _ => upd0 ks_assoc) ks_prop a b) as S.
  assert (forall r : T1, kids_nodup ks_prop r -> prop_wf r) as KW.
  { intros r H. apply (H {| g_name := s2l "concepts"; g_add_unequal := true; g_add_needs_optional := false; g_timeless_rule := false |}). left. reflexivity. }
  cut (match cmp_node attr (fun _ : str => cmp0 ks_assoc) ks_prop a b with
       | Eq | Newer => upd_node attr (fun _ => cmp0 ks_assoc) (fun _ => upd0 ks_assoc) ks_prop a b = Some a
       | Older => exists r, upd_node attr (fun _ => cmp0 ks_assoc) (fun _ => upd0 ks_assoc) ks_prop a b = Some r /\
                            n_version r = n_version b /\ n_attrs r = n_attrs b /\
                            cmp_node attr (fun _ => cmp0 ks_assoc) ks_prop r b = Eq /\ kids_nodup ks_prop r
       | Incompat => upd_node attr (fun _ => cmp0 ks_assoc) (fun _ => upd0 ks_assoc) ks_prop a b = None
       end).
  { destruct (cmp_node attr (fun _ : str => cmp0 ks_assoc) ks_prop a b); auto.
    intros (r & H1 & H2 & H3 & H4 & H5). exists r. repeat split; auto. }
  apply S.
  - cbn. repeat constructor; intuition.
  - intros g Hg. cbn in Hg. destruct Hg as [<-|[]]. exact Wa.
  - intros g Hg. cbn in Hg. destruct Hg as [<-|[]]. exact Wb.
  - intros g k ca cb _ _ _ N. apply leaf_child_update_ok; [reflexivity | exact N].
  - intros g k cb _ _. apply leaf_child_refl. reflexivity.
Qed.

(* ---------------- event types ---------------- *)
(* leaf kinds one level down (relations, attachments, parent) *)
Lemma leaf_update_ok {C} (child_attr : C -> str -> aval) childcmp childupd rules (x y : node C) :
  not_newer (cmp_node child_attr childcmp {| k_rules := rules; k_groups := [] |} x y) = true ->
  exists c', upd_node child_attr childcmp childupd {| k_rules := rules; k_groups := [] |} x y = Some c' /\
             cmp_node child_attr childcmp {| k_rules := rules; k_groups := [] |} y c' = Eq.
Proof.
  intro N.
  pose proof (upd_leaf_spec child_attr childcmp childupd rules x y) as S.
  pose proof (leaf_antisym child_attr childcmp rules) as AS.
  destruct (cmp_node child_attr childcmp {| k_rules := rules; k_groups := [] |} x y) eqn:E; try discriminate.
  - exists x. split; [exact S|]. rewrite (AS y x), E. reflexivity.
  - exists (taken_from y). split; [exact S|].
    rewrite (AS y (taken_from y)), (cmp_taken_from child_attr childcmp rules y). reflexivity.
Qed.

(* equality of properties is symmetric *)
Lemma prop_eq_sym (x y : T1) : prop_wf x -> prop_wf y -> cmp_prop x y = Eq -> cmp_prop y x = Eq.
Proof.
  intros Wx Wy E. unfold cmp_prop, cmp1 in *.
  assert (AS : cmp_node attr (fun _ => cmp0 ks_assoc) ks_prop y x = flip (cmp_node attr (fun _ => cmp0 ks_assoc) ks_prop x y));
    [|unfold T1, T0 in *; rewrite AS, E; reflexivity].
  apply (cmp_antisym (fun _ => cmp0 ks_assoc) attr ks_prop y x).
  - intros g Hg. cbn in Hg. destruct Hg as [<-|[]]. reflexivity.
  - intros g Hg. cbn in Hg. destruct Hg as [<-|[]]. exact Wy.
  - intros g Hg. cbn in Hg. destruct Hg as [<-|[]]. exact Wx.
  - intros g k u v _ _ _. unfold cmp0, ks_assoc. rewrite (leaf_antisym ca0 cc0 _ v u). fold ca0 cc0.
    destruct (cmp_node ca0 cc0 _ u v); reflexivity.
  - intros g k u v _ _ _. unfold cmp0, ks_assoc. rewrite (leaf_antisym ca0 cc0 _ v u). fold ca0 cc0.
    destruct (cmp_node ca0 cc0 _ u v); reflexivity.
Qed.

Definition etype_wf (a : T2) : Prop :=
  kids_nodup (ks_etype true) a /\ forall k p, In (k, p) (kids a (A "properties")) -> prop_wf p.

Lemma etype_child_update_ok gn (ca cb : T1) :
  (gn = A "properties" -> prop_wf ca /\ prop_wf cb) ->
  not_newer (cmp1 (fst (etype_children gn)) (snd (etype_children gn)) ca cb) = true ->
  exists c', upd1 (fst (etype_children gn)) (snd (etype_children gn)) ca cb = Some c' /\
             cmp1 (fst (etype_children gn)) (snd (etype_children gn)) cb c' = Eq.
Proof.
  unfold etype_children. destruct (str_eqb gn (s2l "properties")) eqn:Ep.
  - apply str_eqb_eq in Ep. intros W N. destruct (W Ep) as [Wa Wb]. cbn [fst snd] in *.
    pose proof (prop_update_spec ca cb Wa Wb) as S. unfold cmp_prop in S.
    destruct (cmp1 ks_prop ks_assoc ca cb) eqn:E; try discriminate.
    + exists ca. split; [exact S|]. apply (prop_eq_sym ca cb Wa Wb E).
    + destruct S as (r & U & _ & _ & Er & Wr). exists r. split; [exact U|]. apply (prop_eq_sym r cb Wr Wb Er).
  - intros _. destruct (str_eqb gn (s2l "relations")); [|destruct (str_eqb gn (s2l "attachments"))]; cbn [fst snd]; unfold cmp1, upd1.
    + apply (leaf_update_ok attr (fun _ => cmp0 empty_ks) (fun _ => upd0 empty_ks) (k_rules ks_rel)).
    + apply (leaf_update_ok attr (fun _ => cmp0 empty_ks) (fun _ => upd0 empty_ks) (k_rules ks_att)).
    + apply (leaf_update_ok attr (fun _ => cmp0 empty_ks) (fun _ => upd0 empty_ks) (k_rules ks_parent)).
Qed.

Lemma etype_child_refl gn (c : T1) : (gn = A "properties" -> prop_wf c) ->
  cmp1 (fst (etype_children gn)) (snd (etype_children gn)) c c = Eq.
Proof.
  unfold etype_children. destruct (str_eqb gn (s2l "properties")) eqn:Ep.
  - apply str_eqb_eq in Ep. intro W. specialize (W Ep). cbn [fst snd]. unfold cmp1.
    apply (cmp_refl (fun _ => cmp0 ks_assoc) attr ks_prop c).
    + intros g Hg. cbn in Hg. destruct Hg as [<-|[]]. exact W.
    + intros g k x _ _. apply leaf_child_refl. reflexivity.
  - intros _. destruct (str_eqb gn (s2l "relations")); [|destruct (str_eqb gn (s2l "attachments"))]; cbn [fst snd]; unfold cmp1.
    + apply (leaf_refl attr (fun _ => cmp0 empty_ks) (k_rules ks_rel)).
    + apply (leaf_refl attr (fun _ => cmp0 empty_ks) (k_rules ks_att)).
    + apply (leaf_refl attr (fun _ => cmp0 empty_ks) (k_rules ks_parent)).
Qed.

Theorem etype_update_spec (a b : T2) : etype_wf a -> etype_wf b ->
  match cmp_etype true a b with
  | Incompat => upd2 (ks_etype true) etype_children a b = None
  | Eq | Newer => upd2 (ks_etype true) etype_children a b = Some a
  | Older => exists r, upd2 (ks_etype true) etype_children a b = Some r /\ n_version r = n_version b /\ n_attrs r = n_attrs b /\
                       cmp_etype true r b = Eq
  end.
Proof.
  intros [Na Pa] [Nb Pb]. unfold cmp_etype, cmp2, upd2.
  pose proof (upd_children_spec attr (fun g => cmp1 (fst (etype_children g)) (snd (etype_children g)))
                (fun g => upd1 (fst (etype_children g)) (snd (etype_children g))) (ks_etype true) a b) as S.
  match type of S with _ -> _ -> _ -> _ -> _ -> ?G =>
    assert (G) as S'; [apply S|] end.
  - cbn. repeat constructor; cbn; intuition discriminate.
  - exact Na.
  - exact Nb.
  - intros g k ca cb Hg Hca Gb N. apply etype_child_update_ok; [|exact N].
    intro En. rewrite En in *. split; [apply (Pa k ca Hca) | apply (Pb k cb (aget_In_any _ k cb Gb))].
  - intros g k cb Hg Hcb. apply etype_child_refl. intro En. rewrite En in *. apply (Pb k cb Hcb).
  - destruct (cmp_node attr _ (ks_etype true) a b); auto.
    destruct S' as (r & H1 & H2 & H3 & H4 & _). exists r. auto.
Qed.

Corollary etype_update_idempotent (a b r : T2) : etype_wf a -> etype_wf b ->
  upd2 (ks_etype true) etype_children a b = Some r -> upd2 (ks_etype true) etype_children r b = Some r.
Proof.
  intros Wa Wb H. pose proof (etype_update_spec a b Wa Wb) as S. unfold cmp_etype, cmp2, upd2 in *.
  destruct (cmp_node attr _ (ks_etype true) a b) eqn:E.
  - rewrite S in H. injection H as <-. unfold upd_node. rewrite E. reflexivity.
  - destruct S as (r' & U & _ & _ & Er). rewrite U in H. injection H as <-. unfold upd_node. rewrite Er. reflexivity.
  - rewrite S in H. injection H as <-. unfold upd_node. rewrite E. reflexivity.
  - rewrite S in H. discriminate.
Qed.

Corollary etype_update_monotone (a b r : T2) : etype_wf a -> etype_wf b ->
  upd2 (ks_etype true) etype_children a b = Some r -> (n_version a <= n_version r)%Z.
Proof.
  intros Wa Wb H. pose proof (etype_update_spec a b Wa Wb) as S. unfold cmp_etype, cmp2, upd2 in *.
  destruct (cmp_node attr _ (ks_etype true) a b) eqn:E.
  - rewrite S in H. injection H as <-. lia.
  - destruct S as (r' & U & V & _). rewrite U in H. injection H as <-. rewrite V.
    apply (cmp_older_iff attr _ (ks_etype true)) in E. destruct E as (L & _). unfold T2, T1, T0 in *. lia.
  - rewrite S in H. injection H as <-. lia.
  - rewrite S in H. discriminate.
Qed.
