(* C11 — proofs about the update model. *)
From EdxmlVerif Require Import Base.Prelude Onto.Tree Onto.Kinds Onto.Cmp_proofs Onto.Update.

(* ---------------- element kinds without children ---------------- *)
Section LeafUpd.
  Context {C : Type}.
  Variable child_attr : C -> str -> aval.
  Variable childcmp : str -> C -> C -> cmpres.
  Variable childupd : str -> C -> C -> option C.
  Variable rules : list (str * rule).
  Let ks := {| k_rules := rules; k_groups := [] |}.
  Notation cmp := (cmp_node child_attr childcmp ks).
  Notation upd := (upd_node child_attr childcmp childupd ks).

  Definition taken_from (b : node C) : node C := {| n_version := n_version b; n_attrs := n_attrs b; n_groups := [] |}.

  Lemma upd_leaf_spec a b :
    upd a b = match cmp a b with
              | Incompat => None
              | Older => Some (taken_from b)
              | _ => Some a
              end.
  Proof. unfold upd_node, ks. cbn [k_groups merged_groups]. destruct (cmp_node child_attr childcmp _ a b); reflexivity. Qed.

  Lemma cmp_taken_from b : cmp (taken_from b) b = Eq.
  Proof.
    rewrite (cmp_leaf_spec child_attr childcmp rules). cbn [n_version taken_from]. rewrite Z.ltb_irrefl.
    assert (all_eq rules b (taken_from b) = true) as ->; [|reflexivity].
    unfold all_eq. apply forallb_forall. intros ar _. unfold attr; cbn. apply aval_eqb_refl.
  Qed.

  (* fails exactly when the two definitions are incompatible *)
  Lemma upd_leaf_error a b : upd a b = None <-> cmp a b = Incompat.
  Proof. rewrite upd_leaf_spec. destruct (cmp a b); split; congruence. Qed.

  (* the result is the newer definition: it compares equal to b when b is newer, and is a itself otherwise *)
  Lemma upd_leaf_newest a b r : upd a b = Some r ->
    (cmp a b = Older /\ cmp r b = Eq /\ n_version r = n_version b /\ n_attrs r = n_attrs b) \/
    ((cmp a b = Eq \/ cmp a b = Newer) /\ r = a).
  Proof.
    rewrite upd_leaf_spec. destruct (cmp a b) eqn:E; intro H; try discriminate; injection H as <-.
    - right. auto.
    - left. split; [reflexivity|]. split; [apply cmp_taken_from|]. split; reflexivity.
    - right. auto.
  Qed.

  Lemma cmp_attrs_only a a' b : n_version a = n_version a' -> n_attrs a = n_attrs a' -> cmp a b = cmp a' b.
  Proof.
    intros V A. rewrite !(cmp_leaf_spec child_attr childcmp rules), V.
    unfold all_ok, all_eq, attr. rewrite A. reflexivity.
  Qed.

  (* repeating the update changes nothing *)
  Lemma upd_leaf_idempotent a b r : upd a b = Some r -> upd r b = Some r.
  Proof.
    intro H. destruct (upd_leaf_newest a b r H) as [(E & Er & _)|([E|E] & ->)].
    - rewrite upd_leaf_spec, Er. reflexivity.
    - exact H.
    - exact H.
  Qed.

  (* versions never decrease *)
  Lemma upd_leaf_monotone a b r : upd a b = Some r -> (n_version a <= n_version r)%Z.
  Proof.
    intro H. destruct (upd_leaf_newest a b r H) as [(E & _ & V & _)|(_ & ->)]; [|lia].
    rewrite V. apply (leaf_older_spec child_attr childcmp rules) in E. lia.
  Qed.

  (* the result does not depend on which of the two is updated with the other *)
  Lemma upd_leaf_commutes a b r1 r2 : upd a b = Some r1 -> upd b a = Some r2 -> cmp r1 r2 = Eq.
  Proof.
    intros H1 H2.
    pose proof (leaf_antisym child_attr childcmp rules a b) as AS.
    destruct (upd_leaf_newest a b r1 H1) as [(E1 & Er1 & V1 & A1)|([E1|E1] & ->)];
      destruct (upd_leaf_newest b a r2 H2) as [(E2 & Er2 & V2 & A2)|([E2|E2] & ->)];
      fold ks in AS; rewrite ?E1 in AS; rewrite ?E2 in AS; cbn in AS; try discriminate; try assumption.
    (* b older: r1 = a, r2 taken from a *)
    pose proof (leaf_antisym child_attr childcmp rules a r2) as AS2. fold ks in AS2. rewrite Er2 in AS2. exact AS2.
  Qed.
End LeafUpd.

(* ---------------- Ontology.update on one category of elements ---------------- *)
Section CategoryLaws.
  Context {E : Type}.
  Variable upd : E -> E -> option E.

  Lemma aget_app_snoc (a : list (str * E)) k e k' :
    aget k' (a ++ [(k, e)]) = match aget k' a with Some x => Some x | None => if str_eqb k' k then Some e else None end.
  Proof.
    induction a as [|[k2 v2] r IH]; cbn; [destruct (str_eqb k' k); reflexivity|].
    destruct (str_eqb k' k2); [reflexivity | exact IH].
  Qed.

  Definition merged_lookup (a b : list (str * E)) (k : str) : option (option E) :=
    match aget k a, aget k b with
    | Some x, Some y => match upd x y with Some r => Some (Some r) | None => None end
    | Some x, None => Some (Some x)
    | None, Some y => Some (Some y)
    | None, None => Some None
    end.

  (* every element of either ontology is present afterwards, updated from its counterpart when both have it *)
  Lemma cat_update_lookup : forall b a r, NoDup (akeys b) -> cat_update upd a b = Some r ->
    forall k, merged_lookup a b k = Some (aget k r).
  Proof.
    induction b as [|[kb eb] rest IH]; intros a r ND H k; cbn [cat_update] in H.
    - injection H as <-. unfold merged_lookup. cbn. destruct (aget k a); reflexivity.
    - cbn [akeys map fst] in ND. inversion ND as [|? ? Hn ND']; subst.
      assert (Hrest : aget kb rest = None).
      { apply aget_none_mem. destruct (mem kb (akeys rest)) eqn:M; [apply mem_In in M; contradiction | reflexivity]. }
      destruct (aget kb a) as [ea|] eqn:Ga.
      + destruct (upd ea eb) as [e'|] eqn:U; [|discriminate].
        specialize (IH (aset kb e' a) r ND' H k). unfold merged_lookup in *. cbn [aget].
        destruct (str_eqb k kb) eqn:Ek.
        * apply str_eqb_eq in Ek; subst k. rewrite Ga, U. rewrite aget_aset_same, Hrest in IH. exact IH.
        * apply str_eqb_neq in Ek. rewrite aget_aset_other in IH by congruence. exact IH.
      + specialize (IH (a ++ [(kb, eb)]) r ND' H k). unfold merged_lookup in *. cbn [aget].
        rewrite aget_app_snoc in IH. destruct (str_eqb k kb) eqn:Ek.
        * apply str_eqb_eq in Ek; subst k. rewrite Ga in *. rewrite Hrest in IH. exact IH.
        * destruct (aget k a); exact IH.
  Qed.

  (* the update fails as soon as one pair of definitions cannot be updated *)
  Lemma cat_update_error : forall b a, NoDup (akeys b) -> cat_update upd a b = None ->
    exists k x y, aget k b = Some y /\ upd x y = None.
  Proof.
    induction b as [|[kb eb] rest IH]; intros a ND H; cbn [cat_update] in H; [discriminate|].
    cbn [akeys map fst] in ND. inversion ND as [|? ? Hn ND']; subst.
    destruct (aget kb a) as [ea|] eqn:Ga.
    - destruct (upd ea eb) as [e'|] eqn:U.
      + destruct (IH _ ND' H) as (k & x & y & G & Uxy). exists k, x, y. split; [|exact Uxy]. cbn.
        destruct (str_eqb k kb) eqn:Ek; [|exact G]. apply str_eqb_eq in Ek; subst.
        exfalso. apply Hn. apply in_map_iff. exists (kb, y). split; [reflexivity|]. apply aget_In_any. exact G.
      + exists kb, ea, eb. cbn. rewrite str_eqb_refl. auto.
    - destruct (IH _ ND' H) as (k & x & y & G & Uxy). exists k, x, y. split; [|exact Uxy]. cbn.
      destruct (str_eqb k kb) eqn:Ek; [|exact G]. apply str_eqb_eq in Ek; subst.
      exfalso. apply Hn. apply in_map_iff. exists (kb, y). split; [reflexivity|]. apply aget_In_any. exact G.
  Qed.
End CategoryLaws.
