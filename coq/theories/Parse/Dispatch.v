(* C14 — model of EDXMLParserBase handler registration and event dispatch
   (edxml/parser.py: set_event_type_handler, set_event_source_handler,
   __process_ontology, _get_event_handlers, __parse_event).

   Definitions only; proofs are in Dispatch_proofs.v. *)
From EdxmlVerif Require Import Base.Prelude.

Definition hid := N.                      (* identity of a registered callable; 0 = self._parsed_event *)

Inductive regop :=
| RegType (names : list str) (h : hid)     (* set_event_type_handler(names, h)   *)
| RegSource (pats : list str) (h : hid).   (* set_event_source_handler(pats, h)  *)

Inductive op :=
| Ont (types sources : list str)           (* an <ontology> element defining these names *)
| Ev (t s : str).                          (* an <event event-type=t source-uri=s>       *)

Inductive err := ENoOntology | EUnknownSource | EUnknownType.

Inductive cb :=
| CbOnt (types sources : list str)         (* _parsed_ontology(accumulated ontology)     *)
| CbEv (h : hid) (idx : N) (t s : str).    (* handler h invoked with the idx-th event    *)

(* Which behaviour of the two places where the pinned code and the repaired code differ. *)
Record variant := {
  aliased : bool;         (* _get_event_handlers extends the registered list in place *)
  reset_counters : bool   (* __process_ontology zeroes the per-type counters of every known type *)
}.
Definition Faithful := {| aliased := true; reset_counters := true |}.
Definition Repaired := {| aliased := false; reset_counters := false |}.

Record registry := { type_hs : list (str * list hid); src_hs : list (str * list hid) }.

Definition dict_append (k : str) (h : hid) (d : list (str * list hid)) :=
  match aget k d with
  | None => aset k [h] d
  | Some l => aset k (l ++ [h]) d
  end.

Definition apply_reg (r : registry) (o : regop) : registry :=
  match o with
  | RegType names h =>
      {| type_hs := fold_left (fun d k => dict_append k h d) names (type_hs r); src_hs := src_hs r |}
  | RegSource pats h =>
      {| type_hs := type_hs r; src_hs := fold_left (fun d k => dict_append k h d) pats (src_hs r) |}
  end.

Definition empty_registry := {| type_hs := []; src_hs := [] |}.
Definition build (regs : list regop) : registry := fold_left apply_reg regs empty_registry.

Record pstate := {
  reg : registry;
  pmap : list (str * list str);     (* __source_uri_pattern_map *)
  have_onto : bool;
  types : list str;                 (* event type names of the accumulated ontology *)
  sources : list str;               (* source URIs of the accumulated ontology *)
  total : N;                        (* __num_parsed_events *)
  per_type : list (str * N);        (* __num_parsed_event_types *)
  nev : N;                          (* index of the next event element *)
  log : list cb                     (* invocation log, most recent LAST *)
}.


Section WithRegex.
  Variable re_match : str -> str -> bool.     (* Python re.match(pattern, uri) is not None *)
  Variable fallback : bool.                   (* subclass overrides _parsed_event *)

  Definition rebuild_pmap (r : registry) (srcs : list str) : list (str * list str) :=
    map (fun kv => (fst kv, filter (re_match (fst kv)) srcs)) (src_hs r).

  Definition ext_handlers (st : pstate) (s : str) : list hid :=
    flat_map (fun kv => if mem s (odefault [] (aget (fst kv) (pmap st))) then snd kv else [])
             (src_hs (reg st)).

  (* returns (handlers to invoke, registry afterwards) *)
  Definition get_handlers (v : variant) (st : pstate) (t s : str) : list hid * registry :=
    let base := aget t (type_hs (reg st)) in
    let hs := odefault [] base ++ ext_handlers st s in
    let reg' := match base with
                | Some _ => if aliased v
                            then {| type_hs := aset t hs (type_hs (reg st)); src_hs := src_hs (reg st) |}
                            else reg st
                | None => reg st
                end in
    (match hs with [] => if fallback then [0%N] else [] | _ => hs end, reg').

  Definition zero_counters (v : variant) (ts : list str) (c : list (str * N)) : list (str * N) :=
    fold_left (fun d t => if reset_counters v then aset t 0%N d
                          else match aget t d with Some _ => d | None => aset t 0%N d end) ts c.

  Definition step (v : variant) (st : pstate) (o : op) : pstate + err :=
    match o with
    | Ont ts ss =>
        let types' := union (types st) ts in
        let sources' := union (sources st) ss in
        inl {| reg := reg st; pmap := rebuild_pmap (reg st) sources'; have_onto := true;
               types := types'; sources := sources'; total := total st;
               per_type := zero_counters v types' (per_type st); nev := nev st;
               log := log st ++ [CbOnt types' sources'] |}
    | Ev t s =>
        if negb (have_onto st) then inr ENoOntology
        else if negb (mem s (sources st)) then inr EUnknownSource
        else if negb (mem t (types st)) then inr EUnknownType
        else
          let (hs, reg') := get_handlers v st t s in
          inl {| reg := reg'; pmap := pmap st; have_onto := true; types := types st;
                 sources := sources st; total := total st + 1;
                 per_type := aset t (odefault 0%N (aget t (per_type st)) + 1)%N (per_type st);
                 nev := nev st + 1;
                 log := log st ++ map (fun h => CbEv h (nev st) t s) hs |}
    end.

  Fixpoint run_from (v : variant) (st : pstate) (doc : list op) : pstate * option err :=
    match doc with
    | [] => (st, None)
    | o :: rest => match step v st o with
                   | inl st' => run_from v st' rest
                   | inr e => (st, Some e)
                   end
    end.

  Definition init (regs : list regop) : pstate :=
    {| reg := build regs; pmap := []; have_onto := false; types := []; sources := [];
       total := 0; per_type := []; nev := 0; log := [] |}.

  Definition run (v : variant) (regs : list regop) (doc : list op) := run_from v (init regs) doc.

  (* ------------------------------------------------------------------ *)
  (* Specification, written from the property text over the raw list of
     registration calls (no dictionaries, no pattern map, no state).     *)

  Definition type_regs_for (t : str) (regs : list regop) : list hid :=
    flat_map (fun o => match o with
                       | RegType names h => flat_map (fun n => if str_eqb n t then [h] else []) names
                       | RegSource _ _ => [] end) regs.
  Definition src_regs_for (p : str) (regs : list regop) : list hid :=
    flat_map (fun o => match o with
                       | RegSource pats h => flat_map (fun q => if str_eqb q p then [h] else []) pats
                       | RegType _ _ => [] end) regs.
  Definition all_pats (regs : list regop) : list str :=
    flat_map (fun o => match o with RegSource pats _ => pats | RegType _ _ => [] end) regs.

  Definition spec_handlers (regs : list regop) (t s : str) : list hid :=
    let hs := type_regs_for t regs ++
              flat_map (fun p => if re_match p s then src_regs_for p regs else [])
                       (union [] (all_pats regs)) in
    match hs with [] => if fallback then [0%N] else [] | _ => hs end.

  (* spec of a whole parse: callbacks in document order, stop at the first error *)
  Fixpoint spec_from (regs : list regop) (have : bool) (ts ss : list str) (i : N) (doc : list op)
    : list cb * option err :=
    match doc with
    | [] => ([], None)
    | Ont ts' ss' :: rest =>
        let ts2 := union ts ts' in let ss2 := union ss ss' in
        let (l, e) := spec_from regs true ts2 ss2 i rest in (CbOnt ts2 ss2 :: l, e)
    | Ev t s :: rest =>
        if negb have then ([], Some ENoOntology)
        else if negb (mem s ss) then ([], Some EUnknownSource)
        else if negb (mem t ts) then ([], Some EUnknownType)
        else let (l, e) := spec_from regs have ts ss (i + 1) rest in
             (map (fun h => CbEv h i t s) (spec_handlers regs t s) ++ l, e)
    end.
  Definition spec_log regs doc := spec_from regs false [] [] 0 doc.

  (* number of events delivered before the parse stops, in total and of type t *)
  Fixpoint delivered (have : bool) (ts ss : list str) (doc : list op) : list str :=
    match doc with
    | [] => []
    | Ont ts' ss' :: rest => delivered true (union ts ts') (union ss ss') rest
    | Ev t s :: rest =>
        if negb have || negb (mem s ss) || negb (mem t ts) then []
        else t :: delivered have ts ss rest
    end.
  Definition count_str (t : str) (l : list str) : N :=
    N.of_nat (length (filter (str_eqb t) l)).

End WithRegex.

(* ---- helpers for the correspondence run (cases.v): regex given as a table ---- *)
Definition table_match (tbl : list (str * str)) (p s : str) : bool :=
  existsb (fun ps => str_eqb (fst ps) p && str_eqb (snd ps) s) tbl.

Definition cb_eqb (a b : cb) : bool :=
  match a, b with
  | CbOnt t1 s1, CbOnt t2 s2 => strs_eqb t1 t2 && strs_eqb s1 s2
  | CbEv h1 i1 t1 s1, CbEv h2 i2 t2 s2 => N.eqb h1 h2 && N.eqb i1 i2 && str_eqb t1 t2 && str_eqb s1 s2
  | _, _ => false
  end.
Definition err_code (e : option err) : N :=
  match e with None => 0 | Some ENoOntology => 1 | Some EUnknownSource => 2 | Some EUnknownType => 3 end.

(* observable outcome of one parse *)
Definition outcome := (list cb * N * N * list (str * N))%type.   (* log, error code, total, per-type *)
Definition observe (types_q : list str) (r : pstate * option err) : outcome :=
  (log (fst r), err_code (snd r), total (fst r),
   map (fun t => (t, odefault 0%N (aget t (per_type (fst r))))) types_q).
Definition outcome_eqb (a b : outcome) : bool :=
  match a, b with
  | (l1, e1, n1, p1), (l2, e2, n2, p2) =>
      list_eqb cb_eqb l1 l2 && N.eqb e1 e2 && N.eqb n1 n2 &&
      list_eqb (pair_eqb str_eqb N.eqb) p1 p2
  end.
