(* C02 — the character level of writing and reading XML with lxml / libxml2, as the SDK uses it:
   how text content and attribute values are escaped on serialisation, and how a reader turns the characters of a
   document back into content (line end normalisation, attribute value normalisation, references).
   This models library behaviour; it is validated against lxml by the correspondence run. *)
From EdxmlVerif Require Import Base.Prelude.

Definition AMP : str := [38; 97; 109; 112; 59]%N.          (* &amp; *)
Definition LT_ : str := [38; 108; 116; 59]%N.              (* &lt; *)
Definition GT_ : str := [38; 103; 116; 59]%N.              (* &gt; *)
Definition QUOT : str := [38; 113; 117; 111; 116; 59]%N.   (* &quot; *)
Definition R9 : str := [38; 35; 57; 59]%N.                 (* &#9; *)
Definition R10 : str := [38; 35; 49; 48; 59]%N.            (* &#10; *)
Definition R13 : str := [38; 35; 49; 51; 59]%N.            (* &#13; *)

Definition esc_text_c (c : N) : str :=
  if N.eqb c 38 then AMP else if N.eqb c 60 then LT_ else if N.eqb c 62 then GT_ else if N.eqb c 13 then R13 else [c].
Definition esc_attr_c (c : N) : str :=
  if N.eqb c 38 then AMP else if N.eqb c 60 then LT_ else if N.eqb c 62 then GT_ else if N.eqb c 34 then QUOT
  else if N.eqb c 9 then R9 else if N.eqb c 10 then R10 else if N.eqb c 13 then R13 else [c].
Definition esc_text (s : str) : str := flat_map esc_text_c s.
Definition esc_attr (s : str) : str := flat_map esc_attr_c s.

(* ---- reading ---- *)
Definition is_dec (c : N) : bool := (48 <=? c)%N && (c <=? 57)%N.
Definition hex_val (c : N) : option N :=
  if is_dec c then Some (c - 48)%N
  else if (97 <=? c)%N && (c <=? 102)%N then Some (c - 87)%N
  else if (65 <=? c)%N && (c <=? 70)%N then Some (c - 55)%N else None.
Fixpoint dec_num (s : str) (acc : N) : option N :=
  match s with [] => Some acc | c :: r => if is_dec c then dec_num r (acc * 10 + (c - 48))%N else None end.
Fixpoint hex_num (s : str) (acc : N) : option N :=
  match s with [] => Some acc | c :: r => match hex_val c with Some v => hex_num r (acc * 16 + v)%N | None => None end end.

(* the characters XML 1.0 allows *)
Definition xml_char (c : N) : bool :=
  N.eqb c 9 || N.eqb c 10 || N.eqb c 13 || ((32 <=? c) && (c <=? 55295))%N || ((57344 <=? c) && (c <=? 65533))%N || ((65536 <=? c) && (c <=? 1114111))%N.

(* the name between & and ; *)
Definition decode_ref (name : str) : option N :=
  match name with
  | [97; 109; 112]%N => Some 38%N
  | [108; 116]%N => Some 60%N
  | [103; 116]%N => Some 62%N
  | [113; 117; 111; 116]%N => Some 34%N
  | [97; 112; 111; 115]%N => Some 39%N
  | 35%N :: 120%N :: (_ :: _) as h => match hex_num h 0 with Some c => if xml_char c then Some c else None | None => None end
  | 35%N :: (_ :: _) as d => match dec_num d 0 with Some c => if xml_char c then Some c else None | None => None end
  | _ => None
  end.

Inductive rstate := SNormal | SCr | SRef (acc : str).

(* attr = attribute value (literal TAB / LF / CR become a space), otherwise text content (CR LF and CR become LF) *)
Fixpoint rd (attr : bool) (st : rstate) (s : str) : option str :=
  match s with
  | [] => match st with SRef _ => None | _ => Some [] end
  | c :: r =>
      match st with
      | SRef acc =>
          if N.eqb c 59 then
            match decode_ref (rev acc) with
            | Some ch => option_map (cons ch) (rd attr SNormal r)
            | None => None
            end
          else rd attr (SRef (c :: acc)) r
      | _ =>
          if N.eqb c 10 && match st with SCr => true | _ => false end then rd attr SNormal r       (* LF of a CR LF pair *)
          else if N.eqb c 13 then option_map (cons (if attr then 32%N else 10%N)) (rd attr SCr r)
          else if N.eqb c 38 then rd attr (SRef []) r
          else if N.eqb c 60 then None
          else if attr && (N.eqb c 9 || N.eqb c 10) then option_map (cons 32%N) (rd attr SNormal r)
          else if attr && N.eqb c 34 then None                                                      (* the closing quote: not part of a value *)
          else option_map (cons c) (rd attr SNormal r)
      end
  end.
Definition read_text (s : str) : option str := rd false SNormal s.
Definition read_attr (s : str) : option str := rd true SNormal s.

Definition ostr_eqb (a b : option str) : bool := option_eqb str_eqb a b.
