(* C15 — the control skeleton of EDXMLParserBase._parse_edxml (edxml/parser.py): in which order the stages run for the
   children of the root, which failures become which exception, and when callbacks are invoked.
   The stages themselves (RelaxNG validation of an ontology element, Ontology.update, event lookup, EventValidator)
   are represented by their results, which the harness computes with the real components. *)
From EdxmlVerif Require Import Base.Prelude.

Inductive exn := EdxmlErr | Foreign.
Inductive verdict := Fine | Raises (e : exn).

Inductive item :=
| IOnt (schema_ok : bool) (process : verdict)      (* <ontology>: RelaxNG verdict; Ontology.update of it *)
| IEv (has_attrs known gate_ok : bool)             (* <event>: has event-type and source-uri; both defined; EventValidator verdict *)
| IOther.                                          (* anything the parser does not visit *)

Inductive version_attr := VSupported | VUnsupported | VMissing | VMalformed | VNonNumeric.

Record flags := {
  f_attr_guard : bool;       (* missing event attributes are reported as validation errors (pinned: KeyError) *)
  f_version_guard : bool;    (* non numeric version components are reported as validation errors (pinned: ValueError) *)
  f_trial_fallback : bool    (* a schema-invalid ontology element is processed on a copy only (pinned: for real, invoking the callback) *)
}.
Definition repaired : flags := {| f_attr_guard := true; f_version_guard := true; f_trial_fallback := true |}.
Definition pinned : flags := {| f_attr_guard := false; f_version_guard := false; f_trial_fallback := false |}.

Inductive cb := COnt (schema_ok : bool) | CEv (gate_ok : bool).
Inductive outcome := Done | Raised (e : exn).

Section Run.
  Variable fl : flags.
  Variable validate : bool.

  Definition version_check (v : version_attr) : outcome :=
    match v with
    | VSupported => Done
    | VUnsupported | VMissing | VMalformed => Raised EdxmlErr
    | VNonNumeric => Raised (if f_version_guard fl then EdxmlErr else Foreign)
    end.

  (* children of the root in document order; the root's own end tag (version check) comes last *)
  Fixpoint run (have_onto : bool) (items : list item) (v : version_attr) : list cb * outcome :=
    match items with
    | [] => ([], version_check v)
    | IOther :: r => run have_onto r v
    | IOnt ok pr :: r =>
        if ok then
          match pr with
          | Fine => let '(c, o) := run true r v in (COnt ok :: c, o)
          | Raises e => ([], Raised e)
          end
        else
          (* schema validation failed: the element is processed once more for a better message, then the schema error is raised *)
          match pr with
          | Raises e => ([], Raised e)
          | Fine => (if f_trial_fallback fl then [] else [COnt ok], Raised EdxmlErr)
          end
    | IEv has_attrs known gate_ok :: r =>
        if negb have_onto then ([], Raised EdxmlErr)
        else if negb has_attrs then ([], Raised (if f_attr_guard fl then EdxmlErr else Foreign))
        else if negb known then ([], Raised EdxmlErr)
        else if validate && negb gate_ok then ([], Raised EdxmlErr)
        else let '(c, o) := run have_onto r v in (CEv gate_ok :: c, o)
    end.
End Run.

(* the stages never raise anything outside the EDXML family *)
Definition stage_safe (i : item) : bool := match i with IOnt _ (Raises Foreign) => false | _ => true end.
Definition cb_accepted (c : cb) : bool := match c with COnt ok => ok | CEv ok => ok end.

Definition cb_eqb (a b : cb) : bool := match a, b with COnt x, COnt y | CEv x, CEv y => Bool.eqb x y | _, _ => false end.
Definition outcome_eqb (a b : outcome) : bool :=
  match a, b with Done, Done => true | Raised EdxmlErr, Raised EdxmlErr | Raised Foreign, Raised Foreign => true | _, _ => false end.
Definition result_eqb (a b : list cb * outcome) : bool := list_eqb cb_eqb (fst a) (fst b) && outcome_eqb (snd a) (snd b).

(* ---- leak sites in the element classes, as extracted from the source (Generated/C15_gen.v) ---- *)
Inductive op := OSubscript | OInt.                 (* X.attrib['k'] raises KeyError; int(..) raises ValueError *)
Record site := { s_function : str; s_op : op; s_guarded : bool }.   (* guarded: inside a try whose handler catches that exception and raises an EDXML error *)
Definition sites_guarded (l : list site) : bool := forallb s_guarded l.
