From EdxmlVerif Require Import Base.Prelude Parse.Chunk.

Lemma take_complete_split p l : let '(a, b) := take_complete p l in a ++ b = l.
Proof.
  induction l as [|c r IH]; cbn; [reflexivity|]. destruct (N.leb (c_end c) p); [|reflexivity].
  destruct (take_complete p r) as [a b]. cbn. rewrite IH. reflexivity.
Qed.

Lemma take_complete_all p l : (forall c, In c l -> (c_end c <= p)%N) -> take_complete p l = (l, []).
Proof.
  induction l as [|c r IH]; intro H; cbn; [reflexivity|].
  assert (N.leb (c_end c) p = true) as -> by (apply N.leb_le, H; left; reflexivity).
  rewrite IH; [reflexivity|]. intros c' Hc'. apply H. right. exact Hc'.
Qed.

Lemma process_fixed p now later : process UpToCurrent p now later = (map entry now, false).
Proof.
  induction now as [|c r IH]; cbn; [reflexivity|]. rewrite IH. destruct (c_kind c); reflexivity.
Qed.

Lemma push_nil v cuts : push v [] cuts = ([], false).
Proof. induction cuts as [|p r IH]; cbn; [reflexivity|]. rewrite IH. reflexivity. Qed.

(* with the repaired validation no chunking raises an error *)
Lemma push_fixed_no_error : forall cuts und, snd (push UpToCurrent und cuts) = false.
Proof.
  induction cuts as [|p rest IH]; intro und; cbn; [reflexivity|].
  destruct (take_complete p und) as [now later]. rewrite process_fixed.
  specialize (IH later). destruct (push UpToCurrent later rest) as [l2 e2]. exact IH.
Qed.

Lemma push_fixed_covering : forall cuts und p0,
  In p0 cuts -> (forall c, In c und -> (c_end c <= p0)%N) ->
  fst (push UpToCurrent und cuts) = map entry und.
Proof.
  induction cuts as [|p rest IH]; intros und p0 Hin Hall; [contradiction|].
  cbn. pose proof (take_complete_split p und) as S. destruct (take_complete p und) as [now later] eqn:T.
  rewrite process_fixed. destruct Hin as [->|Hin].
  - rewrite (take_complete_all p0 und Hall) in T. injection T as <- <-. rewrite push_nil. cbn. apply app_nil_r.
  - assert (Hl : forall c, In c later -> (c_end c <= p0)%N) by (intros c Hc; apply Hall; rewrite <- S; apply in_app_iff; right; exact Hc).
    specialize (IH later p0 Hin Hl). destruct (push UpToCurrent later rest) as [l2 e2]. cbn in *. rewrite IH, <- S, map_app. reflexivity.
Qed.

(* C06: for every document and every chunking that eventually delivers everything, push = pull *)
Lemma chunking_independent doc cuts : covers doc cuts -> push UpToCurrent doc cuts = pull doc.
Proof.
  intros (p0 & Hin & Hall). unfold pull.
  pose proof (push_fixed_covering cuts doc p0 Hin Hall) as H1. pose proof (push_fixed_no_error cuts doc) as H2.
  destruct (push UpToCurrent doc cuts) as [l e]. cbn in *. subst. reflexivity.
Qed.

(* the pinned validation fails for a cut inside a later ontology element *)
Definition w_doc := [ {| c_kind := COnt; c_id := 0; c_start := 5%N; c_end := 10%N |}; {| c_kind := CEv; c_id := 1; c_start := 12%N; c_end := 20%N |};
                      {| c_kind := COnt; c_id := 2; c_start := 22%N; c_end := 30%N |}; {| c_kind := CEv; c_id := 3; c_start := 32%N; c_end := 40%N |} ].
Lemma whole_root_validation_depends_on_chunking :
  push WholeRoot w_doc [25; 40]%N <> pull w_doc /\ push WholeRoot w_doc [40]%N = pull w_doc.
Proof. vm_compute. split; [discriminate | reflexivity]. Qed.
