(* C14 — proofs about the dispatch model. *)
From EdxmlVerif Require Import Base.Prelude Parse.Dispatch.

(* ---------- registry built by the registration loops ---------- *)
Lemma dict_append_get k h d t :
  odefault [] (aget t (dict_append k h d)) =
  odefault [] (aget t d) ++ (if str_eqb k t then [h] else []).
Proof.
  unfold dict_append. destruct (str_eqb k t) eqn:E.
  - apply str_eqb_eq in E; subst. destruct (aget t d) eqn:G; rewrite aget_aset_same; cbn; reflexivity.
  - apply str_eqb_neq in E. destruct (aget k d) eqn:G; rewrite aget_aset_other by exact E;
      rewrite app_nil_r; reflexivity.
Qed.

Lemma dict_append_keys k h d :
  akeys (dict_append k h d) = union (akeys d) [k].
Proof.
  unfold dict_append. cbn.
  destruct (aget k d) eqn:G; rewrite akeys_aset.
  - assert (mem k (akeys d) = true) as ->; [|reflexivity].
    destruct (mem k (akeys d)) eqn:M; [reflexivity|]. apply aget_none_mem in M. congruence.
  - apply aget_none_mem in G. rewrite G. reflexivity.
Qed.

Lemma fold_append_get h names : forall d t,
  odefault [] (aget t (fold_left (fun d k => dict_append k h d) names d)) =
  odefault [] (aget t d) ++ flat_map (fun n => if str_eqb n t then [h] else []) names.
Proof.
  induction names as [|n ns IH]; intros d t; cbn; [rewrite app_nil_r; reflexivity|].
  rewrite IH, dict_append_get, <- app_assoc. reflexivity.
Qed.

Lemma fold_append_keys h names : forall d,
  akeys (fold_left (fun d k => dict_append k h d) names d) = union (akeys d) names.
Proof.
  induction names as [|n ns IH]; intros d; cbn [fold_left]; [reflexivity|].
  rewrite IH, dict_append_keys. rewrite union_app. reflexivity.
Qed.

Lemma build_snoc regs o : build (regs ++ [o]) = apply_reg (build regs) o.
Proof. unfold build. rewrite fold_left_app. reflexivity. Qed.

Lemma build_type_hs regs t :
  odefault [] (aget t (type_hs (build regs))) = type_regs_for t regs.
Proof.
  induction regs as [|o regs IH] using rev_ind; [reflexivity|].
  rewrite build_snoc. unfold type_regs_for in *. rewrite flat_map_app. cbn [flat_map].
  rewrite app_nil_r. destruct o as [names h|pats h]; cbn [apply_reg type_hs].
  - rewrite fold_append_get, IH. reflexivity.
  - rewrite IH, app_nil_r. reflexivity.
Qed.

Lemma build_src_get regs p :
  odefault [] (aget p (src_hs (build regs))) = src_regs_for p regs.
Proof.
  induction regs as [|o regs IH] using rev_ind; [reflexivity|].
  rewrite build_snoc. unfold src_regs_for in *. rewrite flat_map_app. cbn [flat_map].
  rewrite app_nil_r. destruct o as [names h|pats h]; cbn [apply_reg src_hs].
  - rewrite IH, app_nil_r. reflexivity.
  - rewrite fold_append_get, IH. reflexivity.
Qed.

Lemma build_src_keys regs : akeys (src_hs (build regs)) = union [] (all_pats regs).
Proof.
  induction regs as [|o regs IH] using rev_ind; [reflexivity|].
  rewrite build_snoc. unfold all_pats in *. rewrite flat_map_app. cbn [flat_map].
  rewrite app_nil_r, <- union_app, <- IH. destruct o as [names h|pats h]; cbn [apply_reg src_hs].
  - reflexivity.
  - apply fold_append_keys.
Qed.

Lemma build_src_hs regs :
  src_hs (build regs) = map (fun p => (p, src_regs_for p regs)) (union [] (all_pats regs)).
Proof.
  rewrite <- build_src_keys.
  rewrite (dict_canonical [] (src_hs (build regs))) at 1.
  - apply map_ext. intro p. f_equal. apply build_src_get.
  - rewrite build_src_keys. apply NoDup_union. constructor.
Qed.

(* ---------- one parse ---------- *)
Section Run.
  Variable re_match : str -> str -> bool.
  Variable fallback : bool.
  Variable regs : list regop.

  Notation step := (step re_match fallback).
  Notation run_from := (run_from re_match fallback).
  Notation spec_from := (spec_from re_match fallback).

  (* invariant of the repaired parser: registry untouched, pattern map consistent *)
  Definition inv (st : pstate) : Prop :=
    reg st = build regs /\
    (have_onto st = true -> pmap st = rebuild_pmap re_match (reg st) (sources st)).

  Lemma mem_filter s f l : mem s (filter f l) = f s && mem s l.
  Proof.
    induction l as [|x xs IH]; cbn; [rewrite andb_false_r; reflexivity|].
    destruct (f x) eqn:F; cbn; rewrite IH; destruct (str_eqb s x) eqn:E; cbn; try reflexivity;
      apply str_eqb_eq in E; subst; rewrite F; cbn; try rewrite andb_true_r; reflexivity.
  Qed.

  Lemma ext_handlers_spec st s :
    inv st -> have_onto st = true -> mem s (sources st) = true ->
    ext_handlers st s =
    flat_map (fun p => if re_match p s then src_regs_for p regs else []) (union [] (all_pats regs)).
  Proof.
    intros [Hreg Hpm] Hh Hs. unfold ext_handlers. rewrite (Hpm Hh), Hreg. unfold rebuild_pmap.
    rewrite flat_map_concat_map.
    rewrite (map_ext_in _ (fun kv => if re_match (fst kv) s then snd kv else [])).
    - rewrite build_src_hs, map_map, <- flat_map_concat_map. reflexivity.
    - intros kv Hin.
      rewrite (aget_map_key (fun p => filter (re_match p) (sources st))).
      assert (mem (fst kv) (akeys (src_hs (build regs))) = true) as ->.
      { apply mem_In. unfold akeys. apply in_map. exact Hin. }
      cbn [odefault]. rewrite mem_filter, Hs, andb_true_r. reflexivity.
  Qed.

  Lemma get_handlers_spec st t s :
    inv st -> have_onto st = true -> mem s (sources st) = true ->
    get_handlers fallback Repaired st t s = (spec_handlers re_match fallback regs t s, reg st).
  Proof.
    intros I Hh Hs. unfold get_handlers, spec_handlers.
    rewrite (ext_handlers_spec st s I Hh Hs).
    destruct I as [Hreg _]. rewrite Hreg, build_type_hs. cbn [aliased Repaired].
    f_equal. destruct (aget t (type_hs (build regs))); reflexivity.
  Qed.

  Lemma step_inv st o st' : inv st -> step Repaired st o = inl st' -> inv st'.
  Proof.
    intros I. destruct o as [ts ss|t s]; cbn [step].
    - intro E; injection E as <-. destruct I as [Hreg _]. split; cbn; [exact Hreg | reflexivity].
    - destruct (have_onto st) eqn:Hh; cbn [negb]; [|discriminate].
      destruct (mem s (sources st)) eqn:Hs; cbn [negb]; [|discriminate].
      destruct (mem t (types st)) eqn:Ht; cbn [negb]; [|discriminate].
      rewrite (get_handlers_spec st t s I Hh Hs).
      intro E; injection E as <-. destruct I as [Hreg Hpm]. split; cbn; [exact Hreg | intros _; exact (Hpm Hh)].
  Qed.

  Lemma run_from_spec : forall doc st, inv st ->
    let r := run_from Repaired st doc in
    let sp := spec_from regs (have_onto st) (types st) (sources st) (nev st) doc in
    log (fst r) = log st ++ fst sp /\ snd r = snd sp.
  Proof.
    induction doc as [|o doc IH]; intros st I; cbn [run_from spec_from].
    - cbn. rewrite app_nil_r. split; reflexivity.
    - destruct o as [ts ss|t s].
      + cbn [step].
        set (st' := {| reg := reg st |}).
        assert (I' : inv st') by (apply (step_inv st (Ont ts ss)); [exact I | reflexivity]).
        specialize (IH st' I'). cbn zeta in IH. cbn [have_onto types sources nev log st'] in IH.
        destruct (spec_from regs true (union (types st) ts) (union (sources st) ss) (nev st) doc) as [l e].
        cbn [fst snd] in *. destruct IH as [IH1 IH2]. rewrite IH1, <- app_assoc. split; [reflexivity | exact IH2].
      + cbn [step].
        destruct (have_onto st) eqn:Hh; cbn [negb]; [|cbn; rewrite app_nil_r; split; reflexivity].
        destruct (mem s (sources st)) eqn:Hs; cbn [negb]; [|cbn; rewrite app_nil_r; split; reflexivity].
        destruct (mem t (types st)) eqn:Ht; cbn [negb]; [|cbn; rewrite app_nil_r; split; reflexivity].
        pose proof (step_inv st (Ev t s)) as SI. cbn [step] in SI. rewrite Hh, Hs, Ht in SI. cbn [negb] in SI.
        rewrite (get_handlers_spec st t s I Hh Hs) in *.
        set (st' := {| reg := reg st |}) in *.
        specialize (SI st' I eq_refl). specialize (IH st' SI). cbn zeta in IH.
        cbn [have_onto types sources nev log st'] in IH.
        destruct (spec_from regs true (types st) (sources st) (nev st + 1) doc) as [l e].
        cbn [fst snd] in *. destruct IH as [IH1 IH2]. rewrite IH1, <- app_assoc. split; [reflexivity | exact IH2].
  Qed.

  Lemma init_inv : inv (init regs).
  Proof. split; cbn; [reflexivity | discriminate]. Qed.

  Lemma dispatch_correct doc :
    let r := run re_match fallback Repaired regs doc in
    (log (fst r), snd r) = spec_log re_match fallback regs doc.
  Proof.
    cbn zeta. unfold run, spec_log.
    destruct (run_from_spec doc (init regs) init_inv) as [H1 H2]. cbn [init log have_onto types sources nev] in *.
    rewrite H1, H2. cbn [app]. destruct (spec_from regs false [] [] 0 doc); reflexivity.
  Qed.

  Lemma registry_stable : forall doc st, inv st -> reg (fst (run_from Repaired st doc)) = build regs.
  Proof.
    induction doc as [|o doc IH]; intros st I; cbn [run_from]; [exact (proj1 I)|].
    destruct (step Repaired st o) as [st'|e] eqn:E; [|exact (proj1 I)].
    apply IH. exact (step_inv st o st' I E).
  Qed.
End Run.

(* ---------- counters ---------- *)
Section Counters.
  Variable re_match : str -> str -> bool.
  Variable fallback : bool.

  Lemma zero_counters_keep ts : forall c t,
    odefault 0%N (aget t (zero_counters Repaired ts c)) = odefault 0%N (aget t c).
  Proof.
    unfold zero_counters. cbn [reset_counters Repaired].
    induction ts as [|t0 ts IH]; intros c t; cbn [fold_left]; [reflexivity|].
    rewrite IH. destruct (aget t0 c) eqn:G; [reflexivity|].
    destruct (str_eqb t0 t) eqn:E.
    - apply str_eqb_eq in E; subst. rewrite aget_aset_same, G. reflexivity.
    - apply str_eqb_neq in E. rewrite aget_aset_other by exact E. reflexivity.
  Qed.

  Lemma count_str_cons t x l :
    count_str t (x :: l) = ((if str_eqb t x then 1 else 0) + count_str t l)%N.
  Proof. unfold count_str. cbn. destruct (str_eqb t x); cbn [length]; lia. Qed.

  Lemma counters_from : forall doc st,
    let r := run_from re_match fallback Repaired st doc in
    let d := delivered (have_onto st) (types st) (sources st) doc in
    total (fst r) = (total st + N.of_nat (length d))%N /\
    forall t, odefault 0%N (aget t (per_type (fst r))) =
              (odefault 0%N (aget t (per_type st)) + count_str t d)%N.
  Proof.
    induction doc as [|o doc IH]; intros st; cbn [run_from delivered].
    - cbn. split; [lia | intro; unfold count_str; cbn; lia].
    - destruct o as [ts ss|t s]; cbn [step].
      + specialize (IH {| reg := reg st; pmap := rebuild_pmap re_match (reg st) (union (sources st) ss);
                          have_onto := true; types := union (types st) ts; sources := union (sources st) ss;
                          total := total st;
                          per_type := zero_counters Repaired (union (types st) ts) (per_type st);
                          nev := nev st; log := log st ++ [CbOnt (union (types st) ts) (union (sources st) ss)] |}).
        cbn zeta in IH. cbn [have_onto types sources total per_type] in IH.
        destruct IH as [IH1 IH2]. split; [exact IH1|]. intro t. rewrite IH2, zero_counters_keep. reflexivity.
      + destruct (have_onto st) eqn:Hh; cbn [negb orb];
          [|cbn; split; [lia | intro; unfold count_str; cbn; lia]].
        destruct (mem s (sources st)) eqn:Hs; cbn [negb orb];
          [|cbn; split; [lia | intro; unfold count_str; cbn; lia]].
        destruct (mem t (types st)) eqn:Ht; cbn [negb orb];
          [|cbn; split; [lia | intro; unfold count_str; cbn; lia]].
        destruct (get_handlers fallback Repaired st t s) as [hs reg'].
        match goal with |- context [run_from _ _ _ ?S doc] => specialize (IH S) end.
        cbn zeta in IH. cbn [have_onto types sources total per_type] in IH.
        destruct IH as [IH1 IH2]. split.
        * rewrite IH1. cbn [length]. lia.
        * intro t'. rewrite IH2, count_str_cons. destruct (str_eqb t' t) eqn:E.
          -- apply str_eqb_eq in E; subst. rewrite aget_aset_same. cbn [odefault]. lia.
          -- apply str_eqb_neq in E. rewrite aget_aset_other by congruence. lia.
  Qed.

  Lemma counters_correct regs doc :
    let r := run re_match fallback Repaired regs doc in
    let d := delivered false [] [] doc in
    total (fst r) = N.of_nat (length d) /\
    forall t, odefault 0%N (aget t (per_type (fst r))) = count_str t d.
  Proof.
    cbn zeta. unfold run. destruct (counters_from doc (init regs)) as [H1 H2].
    cbn [init have_onto types sources total per_type] in *. split; [rewrite H1; lia|].
    intro t. rewrite H2. cbn. lia.
  Qed.
End Counters.

(* ---------- the ontology callback precedes the events that use it ---------- *)
Fixpoint onto_first (cur : option (list str * list str)) (l : list cb) : bool :=
  match l with
  | [] => true
  | CbOnt ts ss :: r => onto_first (Some (ts, ss)) r
  | CbEv _ _ t s :: r =>
      match cur with
      | Some (ts, ss) => mem t ts && mem s ss && onto_first cur r
      | None => false
      end
  end.

Section OntoFirst.
  Variable re_match : str -> str -> bool.
  Variable fallback : bool.
  Variable regs : list regop.

  Lemma onto_first_events ts ss t s i hs l :
    mem t ts = true -> mem s ss = true ->
    onto_first (Some (ts, ss)) (map (fun h => CbEv h i t s) hs ++ l) = onto_first (Some (ts, ss)) l.
  Proof. intros Ht Hs. induction hs as [|h hs IH]; cbn; [reflexivity|]. rewrite Ht, Hs. exact IH. Qed.

  Lemma spec_onto_first : forall doc (have : bool) ts ss i,
    onto_first (if have then Some (ts, ss) else None)
               (fst (spec_from re_match fallback regs have ts ss i doc)) = true.
  Proof.
    induction doc as [|o doc IH]; intros have ts ss i; cbn [spec_from]; [reflexivity|].
    destruct o as [ts' ss'|t s].
    - specialize (IH true (union ts ts') (union ss ss') i).
      destruct (spec_from re_match fallback regs true (union ts ts') (union ss ss') i doc). exact IH.
    - destruct have; cbn [negb]; [|reflexivity].
      destruct (mem s ss) eqn:Hs; cbn [negb]; [|reflexivity].
      destruct (mem t ts) eqn:Ht; cbn [negb]; [|reflexivity].
      specialize (IH true ts ss (i + 1)%N).
      destruct (spec_from re_match fallback regs true ts ss (i + 1) doc). cbn [fst] in *.
      rewrite onto_first_events by assumption. exact IH.
  Qed.
End OntoFirst.

(* ---------- the pinned (pre-fix) behaviour violates the statement ---------- *)
Definition w_ta : str := [116; 97]%N.
Definition w_s : str := [47; 115; 47]%N.
Definition w_regs := [RegType [w_ta] 1%N; RegSource [w_s] 2%N].
Definition w_doc := [Ont [w_ta] [w_s]; Ev w_ta w_s; Ev w_ta w_s].
Definition w_doc2 := [Ont [w_ta] [w_s]; Ev w_ta w_s; Ont [] []].

Lemma dispatch_faithful_refuted :
  let r := run (fun _ _ : str => true) false Faithful w_regs w_doc in
  (log (fst r), snd r) <> spec_log (fun _ _ : str => true) false w_regs w_doc.
Proof. vm_compute. discriminate. Qed.

Lemma counters_faithful_refuted :
  let r := run (fun _ _ : str => true) false Faithful w_regs w_doc2 in
  odefault 0%N (aget w_ta (per_type (fst r))) <> count_str w_ta (delivered false [] [] w_doc2).
Proof. vm_compute. discriminate. Qed.
