(* C15 — proofs about the parser skeleton. *)
From EdxmlVerif Require Import Base.Prelude Parse.Safe.

(* with validation enabled nothing that the gate rejects reaches a callback — whatever follows, also when the run ends in an error *)
Theorem delivered_items_accepted items : forall have v,
  forallb cb_accepted (fst (run repaired true have items v)) = true.
Proof.
  induction items as [|i r IH]; intros have v; cbn [run]; [reflexivity|].
  destruct i as [ok pr| ha kn g|].
  - destruct ok; destruct pr; cbn; try reflexivity.
    specialize (IH true v). destruct (run repaired true true r v) as (c, o). cbn in *. exact IH.
  - destruct have; cbn; [|reflexivity]. destruct ha; cbn; [|reflexivity]. destruct kn; cbn; [|reflexivity].
    destruct g; cbn; [|reflexivity]. specialize (IH true v). destruct (run repaired true true r v) as (c, o). cbn in *. exact IH.
  - apply IH.
Qed.

(* every error is from the EDXML family, provided the stages raise nothing else *)
Theorem errors_in_family validate items : forall have v,
  forallb stage_safe items = true -> snd (run repaired validate have items v) <> Raised Foreign.
Proof.
  induction items as [|i r IH]; intros have v S; cbn [run].
  - destruct v; cbn; discriminate.
  - cbn [forallb] in S. apply andb_true_iff in S. destruct S as (Si & Sr).
    destruct i as [ok pr| ha kn g|].
    + destruct ok; destruct pr as [|e]; cbn; try discriminate.
      * specialize (IH true v Sr). destruct (run repaired validate true r v) as (c, o). exact IH.
      * destruct e; [discriminate | cbn in Si; discriminate].
      * destruct e; [discriminate | cbn in Si; discriminate].
    + destruct have; cbn; [|discriminate]. destruct ha; cbn; [|discriminate]. destruct kn; cbn; [|discriminate].
      destruct (validate && negb g); cbn; [discriminate|].
      specialize (IH true v Sr). destruct (run repaired validate true r v) as (c, o). exact IH.
    + apply IH. exact Sr.
Qed.

(* a run that ends without error delivered a callback for every ontology and event, in order *)
Definition expected_cb (i : item) : list cb := match i with IOnt ok _ => [COnt ok] | IEv _ _ g => [CEv g] | IOther => [] end.
Theorem complete_when_done validate items : forall have v,
  snd (run repaired validate have items v) = Done -> fst (run repaired validate have items v) = flat_map expected_cb items.
Proof.
  induction items as [|i r IH]; intros have v D; cbn [run] in *; [reflexivity|].
  destruct i as [ok pr| ha kn g|].
  - destruct ok; destruct pr as [|e]; cbn in D; try discriminate.
    specialize (IH true v). destruct (run repaired validate true r v) as (c, o). cbn in *. rewrite (IH D). reflexivity.
  - destruct have; cbn in D |- *; [|discriminate]. destruct ha; cbn in D |- *; [|discriminate]. destruct kn; cbn in D |- *; [|discriminate].
    destruct (validate && negb g); cbn in D |- *; [discriminate|].
    specialize (IH true v). destruct (run repaired validate true r v) as (c, o). cbn in *. rewrite (IH D). reflexivity.
  - cbn. apply IH. exact D.
Qed.

(* the pinned skeleton: a KeyError for an event without event-type, a ValueError for version="x.0.0", and an ontology element
   that the schema rejects reaching the callback before the error *)
Theorem pinned_leaks_refuted :
  snd (run pinned true false [IOnt true Fine; IEv false false false] VSupported) = Raised Foreign /\
  snd (run pinned true false [IOnt true Fine] VNonNumeric) = Raised Foreign /\
  run pinned true false [IOnt false Fine] VSupported = ([COnt false], Raised EdxmlErr).
Proof. repeat split. Qed.
