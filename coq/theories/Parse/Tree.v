(* C19 — model of the element bookkeeping of EDXMLParserBase._parse_edxml
   (edxml/parser.py: `del self.__root_element[1]` after the second event and after
   every non-initial ontology element).

   The children of the <edxml> root are modelled as a list of flags:
   true  = the child's end event has been processed by the SDK (delivered),
   false = the child has been received by lxml (it is in the tree, possibly
           partially) but its end event has not been processed yet.
   lxml appends a child when its start tag is received (`Recv`); the SDK processes
   end events in document order (`Deliver`). Any interleaving of the two is a
   schedule (chunking / reader block size). *)
From EdxmlVerif Require Import Base.Prelude.

Inductive kind := KOnt | KEv.
Inductive act := Recv (k : kind) | Deliver.

Record tstate := {
  root : list bool;            (* children of the root element *)
  queue : list kind;           (* kinds of the received, not yet delivered children *)
  n_events : nat;              (* __num_parsed_events *)
  init_onto : bool             (* __parsed_initial_ontology *)
}.

(* what a callback can observe *)
Record obs := {
  o_kind : kind;
  o_retained : nat;            (* len(root) inside the callback *)
  o_undelivered : nat;         (* siblings after the element being delivered *)
  o_position : nat             (* index of the delivered element + 1 *)
}.

Inductive terr := EEventBeforeOntology | EIndexError | EBadSchedule.

(* `del root[1]` *)
Definition del1 {A} (l : list A) : option (list A) :=
  match l with a :: _ :: r => Some (a :: r) | _ => None end.

Fixpoint mark_first (l : list bool) : list bool :=
  match l with
  | [] => []
  | false :: r => true :: r
  | true :: r => true :: mark_first r
  end.

Fixpoint position (l : list bool) : nat :=      (* index of first undelivered + 1 *)
  match l with
  | [] => 1
  | false :: _ => 1
  | true :: r => S (position r)
  end.

(* parameters that distinguish the code from plausible variants of it *)
Record tvariant := {
  event_threshold : nat;       (* delete when __num_parsed_events > threshold   (code: 1) *)
  delete_ontology : bool       (* delete non-initial ontology elements           (code: true) *)
}.
Definition Code := {| event_threshold := 1; delete_ontology := true |}.

Definition tstep (v : tvariant) (st : tstate) (a : act) : (tstate * option obs) + terr :=
  match a with
  | Recv k => inl ({| root := root st ++ [false]; queue := queue st ++ [k];
                      n_events := n_events st; init_onto := init_onto st |}, None)
  | Deliver =>
      match queue st with
      | [] => inr EBadSchedule
      | k :: q =>
          let o := {| o_kind := k; o_retained := length (root st);
                      o_undelivered := length q; o_position := position (root st) |} in
          let r1 := mark_first (root st) in
          match k with
          | KEv =>
              if negb (init_onto st) then inr EEventBeforeOntology
              else
                let n := S (n_events st) in
                if Nat.ltb (event_threshold v) n then
                  match del1 r1 with
                  | Some r2 => inl ({| root := r2; queue := q; n_events := n; init_onto := true |}, Some o)
                  | None => inr EIndexError
                  end
                else inl ({| root := r1; queue := q; n_events := n; init_onto := true |}, Some o)
          | KOnt =>
              if init_onto st && delete_ontology v then
                match del1 r1 with
                | Some r2 => inl ({| root := r2; queue := q; n_events := n_events st; init_onto := true |}, Some o)
                | None => inr EIndexError
                end
              else inl ({| root := r1; queue := q; n_events := n_events st; init_onto := true |}, Some o)
          end
      end
  end.

Definition tinit := {| root := []; queue := []; n_events := 0; init_onto := false |}.

(* run a schedule; returns final state, observations (in order), error if any *)
Fixpoint trun (v : tvariant) (st : tstate) (acts : list act) : tstate * list obs * option terr :=
  match acts with
  | [] => (st, [], None)
  | a :: rest =>
      match tstep v st a with
      | inr e => (st, [], Some e)
      | inl (st', o) =>
          let '(stf, os, e) := trun v st' rest in
          (stf, match o with Some x => x :: os | None => os end, e)
      end
  end.

(* schedules used by the correspondence run *)
Fixpoint sched_alternate (doc : list kind) : list act :=
  match doc with [] => [] | k :: r => Recv k :: Deliver :: sched_alternate r end.
Definition sched_all_first (doc : list kind) : list act :=
  map Recv doc ++ map (fun _ => Deliver) doc.

Definition kind_of_bool (b : bool) := if b then KOnt else KEv.

(* (retained at every callback, final retained) for child-boundary feeding *)
Definition run_alternate (v : tvariant) (doc : list bool) : list N * N * bool :=
  let '(st, os, e) := trun v tinit (sched_alternate (map kind_of_bool doc)) in
  (map (fun o => N.of_nat (o_retained o)) os,
   match e with None => N.of_nat (length (root st)) | Some _ => 0%N end,
   match e with None => true | Some _ => false end).
(* (position of every delivered EVENT, final retained) for an arbitrary schedule *)
Definition run_positions (v : tvariant) (doc : list bool) : list N * N * bool :=
  let '(st, os, e) := trun v tinit (sched_all_first (map kind_of_bool doc)) in
  (map (fun o => N.of_nat (o_position o))
       (filter (fun o => match o_kind o with KEv => true | KOnt => false end) os),
   match e with None => N.of_nat (length (root st)) | Some _ => 0%N end,
   match e with None => true | Some _ => false end).

Definition result_eqb (a b : list N * N * bool) : bool :=
  match a, b with (l1, n1, b1), (l2, n2, b2) => list_eqb N.eqb l1 l2 && N.eqb n1 n2 && Bool.eqb b1 b2 end.
