(* C02 — what is written is read back unchanged, for every string. *)
From Coq Require Import Lia.
From EdxmlVerif Require Import Base.Prelude Parse.XmlText.

Lemma rd_plain attr c r : c <> 13%N -> c <> 38%N -> c <> 60%N -> (attr = true -> c <> 9%N /\ c <> 10%N /\ c <> 34%N) ->
  rd attr SNormal (c :: r) = option_map (cons c) (rd attr SNormal r).
Proof.
  intros N13 N38 N60 NA. cbn [rd]. rewrite andb_false_r.
  destruct (N.eqb_spec c 13); [congruence|]. destruct (N.eqb_spec c 38); [congruence|]. destruct (N.eqb_spec c 60); [congruence|].
  destruct attr; cbn [andb]; [|reflexivity].
  destruct (NA eq_refl) as (N9 & N10 & N34).
  destruct (N.eqb_spec c 9); [congruence|]. destruct (N.eqb_spec c 10); [congruence|]. destruct (N.eqb_spec c 34); [congruence|]. reflexivity.
Qed.

(* each escape sequence is read back as the character it stands for *)
Lemma rd_amp attr r : rd attr SNormal (AMP ++ r) = option_map (cons 38%N) (rd attr SNormal r).  Proof. destruct attr; reflexivity. Qed.
Lemma rd_lt attr r : rd attr SNormal (LT_ ++ r) = option_map (cons 60%N) (rd attr SNormal r).   Proof. destruct attr; reflexivity. Qed.
Lemma rd_gt attr r : rd attr SNormal (GT_ ++ r) = option_map (cons 62%N) (rd attr SNormal r).   Proof. destruct attr; reflexivity. Qed.
Lemma rd_quot attr r : rd attr SNormal (QUOT ++ r) = option_map (cons 34%N) (rd attr SNormal r). Proof. destruct attr; reflexivity. Qed.
Lemma rd_r9 attr r : rd attr SNormal (R9 ++ r) = option_map (cons 9%N) (rd attr SNormal r).     Proof. destruct attr; reflexivity. Qed.
Lemma rd_r10 attr r : rd attr SNormal (R10 ++ r) = option_map (cons 10%N) (rd attr SNormal r).  Proof. destruct attr; reflexivity. Qed.
Lemma rd_r13 attr r : rd attr SNormal (R13 ++ r) = option_map (cons 13%N) (rd attr SNormal r).  Proof. destruct attr; reflexivity. Qed.

Lemma rd_esc_text_c c r : rd false SNormal (esc_text_c c ++ r) = option_map (cons c) (rd false SNormal r).
Proof.
  unfold esc_text_c.
  destruct (N.eqb_spec c 38) as [->|N38]; [apply rd_amp|].
  destruct (N.eqb_spec c 60) as [->|N60]; [apply rd_lt|].
  destruct (N.eqb_spec c 62) as [->|N62]; [apply rd_gt|].
  destruct (N.eqb_spec c 13) as [->|N13]; [apply rd_r13|].
  cbn [app]. apply rd_plain; auto; discriminate.
Qed.

Lemma rd_esc_attr_c c r : rd true SNormal (esc_attr_c c ++ r) = option_map (cons c) (rd true SNormal r).
Proof.
  unfold esc_attr_c.
  destruct (N.eqb_spec c 38) as [->|N38]; [apply rd_amp|].
  destruct (N.eqb_spec c 60) as [->|N60]; [apply rd_lt|].
  destruct (N.eqb_spec c 62) as [->|N62]; [apply rd_gt|].
  destruct (N.eqb_spec c 34) as [->|N34]; [apply rd_quot|].
  destruct (N.eqb_spec c 9) as [->|N9]; [apply rd_r9|].
  destruct (N.eqb_spec c 10) as [->|N10]; [apply rd_r10|].
  destruct (N.eqb_spec c 13) as [->|N13]; [apply rd_r13|].
  cbn [app]. apply rd_plain; auto.
Qed.

Theorem text_round_trip s : read_text (esc_text s) = Some s.
Proof.
  unfold read_text, esc_text. induction s as [|c r IH]; [reflexivity|]. cbn [flat_map]. rewrite rd_esc_text_c, IH. reflexivity.
Qed.

Theorem attr_round_trip s : read_attr (esc_attr s) = Some s.
Proof.
  unfold read_attr, esc_attr. induction s as [|c r IH]; [reflexivity|]. cbn [flat_map]. rewrite rd_esc_attr_c, IH. reflexivity.
Qed.

(* the escaped forms contain no markup start, no raw line ends that a reader would rewrite, and (attributes) no closing quote *)
Definition text_safe_c (c : N) : bool := negb (N.eqb c 60) && negb (N.eqb c 13).
Definition attr_safe_c (c : N) : bool := negb (N.eqb c 60) && negb (N.eqb c 13) && negb (N.eqb c 34) && negb (N.eqb c 10) && negb (N.eqb c 9).

Lemma esc_text_c_safe c : forallb text_safe_c (esc_text_c c) = true.
Proof.
  unfold esc_text_c.
  destruct (N.eqb_spec c 38); [reflexivity|]. destruct (N.eqb_spec c 60); [reflexivity|]. destruct (N.eqb_spec c 62); [reflexivity|].
  destruct (N.eqb_spec c 13); [reflexivity|]. cbn. unfold text_safe_c.
  destruct (N.eqb_spec c 60); [congruence|]. destruct (N.eqb_spec c 13); [congruence|]. reflexivity.
Qed.
Lemma esc_attr_c_safe c : forallb attr_safe_c (esc_attr_c c) = true.
Proof.
  unfold esc_attr_c.
  destruct (N.eqb_spec c 38); [reflexivity|]. destruct (N.eqb_spec c 60); [reflexivity|]. destruct (N.eqb_spec c 62); [reflexivity|].
  destruct (N.eqb_spec c 34); [reflexivity|]. destruct (N.eqb_spec c 9); [reflexivity|]. destruct (N.eqb_spec c 10); [reflexivity|].
  destruct (N.eqb_spec c 13); [reflexivity|]. cbn. unfold attr_safe_c.
  destruct (N.eqb_spec c 60); [congruence|]. destruct (N.eqb_spec c 13); [congruence|]. destruct (N.eqb_spec c 34); [congruence|].
  destruct (N.eqb_spec c 10); [congruence|]. destruct (N.eqb_spec c 9); [congruence|]. reflexivity.
Qed.

Theorem esc_text_safe s : forallb text_safe_c (esc_text s) = true.
Proof. unfold esc_text. induction s as [|c r IH]; [reflexivity|]. cbn [flat_map]. rewrite forallb_app, esc_text_c_safe, IH. reflexivity. Qed.
Theorem esc_attr_safe s : forallb attr_safe_c (esc_attr s) = true.
Proof. unfold esc_attr. induction s as [|c r IH]; [reflexivity|]. cbn [flat_map]. rewrite forallb_app, esc_attr_c_safe, IH. reflexivity. Qed.

(* without escaping the carriage return a reader changes the value: the reason the serialiser writes &#13; *)
Theorem raw_cr_is_not_preserved : read_text [97; 13; 98]%N = Some [97; 10; 98]%N /\ read_text [97; 13; 10; 98]%N = Some [97; 10; 98]%N /\
  read_attr [97; 10; 98]%N = Some [97; 32; 98]%N.
Proof. repeat split. Qed.
