(* C06 — push parsing and chunk boundaries.
   A document is the list of the children of <edxml>, each with the byte offsets at which its start tag and its
   end tag are complete.  lxml's feed parser (assumption of the model, validated by the correspondence run): after
   feeding the bytes up to offset p the tree contains every child whose start tag is complete, and the end events of
   the completed children are delivered in document order.  The SDK processes each end event; for an <ontology>
   element it schema-validates the ontology children of the root (pinned code: ALL of them, including later siblings
   that were only partially received; repaired code: those up to the element being processed). *)
From EdxmlVerif Require Import Base.Prelude.

Inductive ckind := COnt | CEv.
Record child := { c_kind : ckind; c_id : N; c_start : N; c_end : N }.

Inductive pvariant := WholeRoot | UpToCurrent.     (* what __validate_ontology_element looks at *)

Definition cb := (ckind * N)%type.
Definition entry (c : child) : cb := (c_kind c, c_id c).

Fixpoint take_complete (p : N) (l : list child) : list child * list child :=
  match l with
  | [] => ([], [])
  | c :: r => if N.leb (c_end c) p then let '(a, b) := take_complete p r in (c :: a, b) else ([], l)
  end.

(* a later, partially received ontology element is already in the tree *)
Definition partial_ontology_visible (p : N) (later : list child) : bool :=
  existsb (fun c => match c_kind c with COnt => N.ltb (c_start c) p | CEv => false end) later.

(* process the end events that became available by feeding up to offset p; returns callbacks, remaining children, error *)
Fixpoint process (v : pvariant) (p : N) (now : list child) (later : list child) : list cb * bool :=
  match now with
  | [] => ([], false)
  | c :: r =>
      match c_kind c, v with
      | COnt, WholeRoot =>
          if partial_ontology_visible p later then ([], true)      (* EDXMLOntologyValidationError *)
          else let '(l, e) := process v p r later in (entry c :: l, e)
      | _, _ => let '(l, e) := process v p r later in (entry c :: l, e)
      end
  end.

Fixpoint push (v : pvariant) (undelivered : list child) (cuts : list N) : list cb * bool :=
  match cuts with
  | [] => ([], false)
  | p :: rest =>
      let '(now, later) := take_complete p undelivered in
      let '(l, e) := process v p now later in
      if e then (l, true) else let '(l2, e2) := push v later rest in (l ++ l2, e2)
  end.

(* pull parsing: the SDK sees every end event with the complete document in place *)
Definition pull (doc : list child) : list cb * bool := (map entry doc, false).

Definition covers (doc : list child) (cuts : list N) : Prop :=
  exists p, In p cuts /\ forall c, In c doc -> (c_end c <= p)%N.

Definition cb_eqb (a b : cb) : bool :=
  match fst a, fst b with COnt, COnt | CEv, CEv => N.eqb (snd a) (snd b) | _, _ => false end.
Definition trace_eqb (a b : list cb * bool) : bool := list_eqb cb_eqb (fst a) (fst b) && Bool.eqb (snd a) (snd b).
