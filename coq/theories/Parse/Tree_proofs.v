(* C19 — proofs about the root-children bookkeeping model. *)
From EdxmlVerif Require Import Base.Prelude Parse.Tree.

Lemma repeat_snoc {A} (x : A) n : repeat x n ++ [x] = x :: repeat x n.
Proof. induction n as [|n IH]; cbn; [reflexivity | rewrite IH; reflexivity]. Qed.

Lemma mark_first_shape D r :
  mark_first (repeat true D ++ false :: r) = repeat true (S D) ++ r.
Proof. induction D as [|D IH]; cbn; [reflexivity|]. rewrite IH. reflexivity. Qed.

Lemma position_shape D r : position (repeat true D ++ false :: r) = S D.
Proof. induction D as [|D IH]; cbn; [reflexivity | rewrite IH; reflexivity]. Qed.

Lemma del1_shape D r : del1 (repeat true (S (S D)) ++ r) = Some (repeat true (S D) ++ r).
Proof. reflexivity. Qed.

(* D = number of delivered children still in the tree *)
Definition shape (st : tstate) (D : nat) : Prop :=
  root st = repeat true D ++ repeat false (length (queue st)) /\
  (init_onto st = false -> D = 0 /\ n_events st = 0) /\
  (init_onto st = true -> (n_events st = 0 -> D = 1) /\ (n_events st <> 0 -> D = 2)).

Definition obs_ok (o : obs) : Prop :=
  o_position o <= 3 /\ o_retained o = o_position o + o_undelivered o.

Lemma tstep_shape st D a :
  shape st D ->
  match tstep Code st a with
  | inl (st', o) => (exists D', shape st' D') /\ match o with Some x => obs_ok x | None => True end
  | inr e => e <> EIndexError
  end.
Proof.
  intros (Hr & Hf & Ht). destruct a as [k|]; cbn [tstep].
  - split; [|exact I]. exists D. split; [|split]; cbn; [|exact Hf|exact Ht].
    rewrite Hr, app_length, <- app_assoc. cbn [length]. rewrite Nat.add_1_r. cbn [repeat].
    rewrite <- repeat_snoc. reflexivity.
  - destruct (queue st) as [|k q] eqn:Q; [discriminate|].
    cbn [length repeat] in Hr.
    assert (Hm : mark_first (root st) = repeat true (S D) ++ repeat false (length q))
      by (rewrite Hr; apply mark_first_shape).
    assert (Hp : position (root st) = S D) by (rewrite Hr; apply position_shape).
    assert (Hl : length (root st) = S D + length q)
      by (rewrite Hr, app_length; cbn [length]; rewrite !repeat_length; lia).
    destruct k.
    + (* ontology element *)
      destruct (init_onto st) eqn:IO; cbn [andb delete_ontology Code].
      * destruct Ht as [Ht0 Ht1]; [reflexivity|].
        assert (HD : D = 1 \/ D = 2) by (destruct (n_events st); [left; apply Ht0; reflexivity | right; apply Ht1; discriminate]).
        rewrite Hm. destruct HD as [-> | ->]; rewrite del1_shape.
        -- split; [exists 1; split; [reflexivity|split; cbn; [discriminate|]] | split; cbn; lia].
           intros _. split; intro H; [reflexivity | exfalso].
           destruct (n_events st); [contradiction | specialize (Ht1 ltac:(discriminate)); discriminate].
        -- split; [exists 2; split; [reflexivity|split; cbn; [discriminate|]] | split; cbn; lia].
           intros _. split; intro H; [exfalso | reflexivity].
           destruct (n_events st); [specialize (Ht0 eq_refl); discriminate | discriminate].
      * destruct Hf as [-> Hn]; [reflexivity|]. rewrite Hm.
        split; [exists 1; split; [reflexivity|split; cbn; [discriminate|]] | split; cbn; lia].
        intros _. rewrite Hn. split; intro H; [reflexivity | contradiction].
    + (* event element *)
      destruct (init_onto st) eqn:IO; cbn [negb]; [|discriminate].
      destruct Ht as [Ht0 Ht1]; [reflexivity|].
      cbn [event_threshold Code]. destruct (n_events st) as [|n] eqn:NE.
      * cbn [Nat.ltb Nat.leb]. rewrite Hm, (Ht0 eq_refl).
        split; [exists 2; split; [reflexivity|split; cbn; [discriminate|]] | split; cbn; lia].
        intros _. split; intro H; [discriminate | reflexivity].
      * assert (Nat.ltb 1 (S (S n)) = true) as -> by (apply Nat.ltb_lt; lia).
        rewrite Hm, (Ht1 ltac:(discriminate)), del1_shape.
        split; [exists 2; split; [reflexivity|split; cbn; [discriminate|]] | split; cbn; lia].
        intros _. split; intro H; [discriminate | reflexivity].
Qed.

Lemma trun_bound : forall acts st D, shape st D ->
  let '(stf, os, e) := trun Code st acts in
  Forall obs_ok os /\ e <> Some EIndexError /\ exists D', shape stf D'.
Proof.
  induction acts as [|a acts IH]; intros st D Hs; cbn [trun].
  - split; [constructor|]. split; [discriminate|]. exists D; exact Hs.
  - pose proof (tstep_shape st D a Hs) as T.
    destruct (tstep Code st a) as [[st' o]|e].
    + destruct T as [[D' Hs'] Ho]. specialize (IH st' D' Hs').
      destruct (trun Code st' acts) as [[stf os] e]. destruct IH as (F & E & S).
      split; [|split; assumption]. destruct o; [constructor; assumption | assumption].
    + split; [constructor|]. split; [congruence|]. exists D; exact Hs.
Qed.

Lemma tinit_shape : shape tinit 0.
Proof. split; [reflexivity|]. split; cbn; [tauto | discriminate]. Qed.

Lemma bound_all_schedules acts :
  let '(stf, os, e) := trun Code tinit acts in
  Forall (fun o => o_retained o <= 3 + o_undelivered o) os /\ e <> Some EIndexError /\
  (queue stf = [] -> length (root stf) <= 2).
Proof.
  pose proof (trun_bound acts tinit 0 tinit_shape) as H.
  destruct (trun Code tinit acts) as [[stf os] e]. destruct H as (F & E & D' & S).
  split; [|split; [exact E|]].
  - eapply Forall_impl; [|exact F]. intros o [H1 H2]. lia.
  - intro Q. destruct S as (Hr & Hf & Ht). rewrite Hr, Q. cbn. rewrite app_nil_r, repeat_length.
    destruct (init_onto stf); [|destruct Hf; [reflexivity|lia]].
    destruct Ht as [H0 H1]; [reflexivity|]. destruct (n_events stf); [rewrite H0; lia | rewrite H1; [lia|discriminate]].
Qed.

(* the position of the element being delivered does not depend on the schedule:
   it is a function of the kinds delivered before it *)
Lemma position_bound acts :
  let '(_, os, _) := trun Code tinit acts in Forall (fun o => o_position o <= 3) os.
Proof.
  pose proof (trun_bound acts tinit 0 tinit_shape) as H.
  destruct (trun Code tinit acts) as [[stf os] e]. destruct H as (F & _).
  eapply Forall_impl; [|exact F]. intros o [H1 _]. exact H1.
Qed.

(* a variant that never deletes ontology updates is unbounded: after n ontology
   updates n+1 elements are retained although nothing is undelivered *)
Definition NoOntDelete := {| event_threshold := 1; delete_ontology := false |}.
Lemma no_ontology_delete_grows :
  let '(stf, _, _) := trun NoOntDelete tinit (sched_alternate (repeat KOnt 50)) in length (root stf) = 50.
Proof. vm_compute. reflexivity. Qed.
