(* Shared vocabulary of all models: strings as code-point lists, decidable
   equality helpers, insertion-ordered association lists (Python dict), list
   membership (Python `in`), de-duplication (Python set built from a list). *)
From Coq Require Export List NArith ZArith Bool Lia.
Export ListNotations.

Definition str := list N.

Fixpoint list_eqb {A} (eqb : A -> A -> bool) (l1 l2 : list A) : bool :=
  match l1, l2 with
  | [], [] => true
  | x :: xs, y :: ys => eqb x y && list_eqb eqb xs ys
  | _, _ => false
  end.

Lemma list_eqb_eq {A} (eqb : A -> A -> bool) :
  (forall a b, eqb a b = true <-> a = b) ->
  forall l1 l2, list_eqb eqb l1 l2 = true <-> l1 = l2.
Proof.
  intros H l1; induction l1 as [|x xs IH]; intros [|y ys]; cbn; split; intro E;
    try reflexivity; try discriminate.
  - apply andb_true_iff in E as [E1 E2]. apply H in E1. apply IH in E2. congruence.
  - injection E as -> ->. apply andb_true_iff; split; [apply H | apply IH]; reflexivity.
Qed.

Definition str_eqb : str -> str -> bool := list_eqb N.eqb.

Lemma str_eqb_eq a b : str_eqb a b = true <-> a = b.
Proof. apply list_eqb_eq. intros; apply N.eqb_eq. Qed.

Lemma str_eqb_refl a : str_eqb a a = true.
Proof. apply str_eqb_eq; reflexivity. Qed.

Lemma str_eqb_neq a b : str_eqb a b = false <-> a <> b.
Proof.
  split; intro H.
  - intro E. apply str_eqb_eq in E. congruence.
  - destruct (str_eqb a b) eqn:E; [apply str_eqb_eq in E; contradiction | reflexivity].
Qed.

Definition odefault {A} (d : A) (o : option A) : A := match o with Some x => x | None => d end.

Definition option_eqb {A} (eqb : A -> A -> bool) (a b : option A) : bool :=
  match a, b with
  | None, None => true
  | Some x, Some y => eqb x y
  | _, _ => false
  end.

Definition pair_eqb {A B} (ea : A -> A -> bool) (eb : B -> B -> bool) (a b : A * B) : bool :=
  ea (fst a) (fst b) && eb (snd a) (snd b).

(* Python `x in list` *)
Fixpoint mem (x : str) (l : list str) : bool :=
  match l with
  | [] => false
  | y :: ys => str_eqb x y || mem x ys
  end.

Lemma mem_In x l : mem x l = true <-> In x l.
Proof.
  induction l as [|y ys IH]; cbn; [split; [discriminate | tauto]|].
  rewrite orb_true_iff, IH, str_eqb_eq. split; intros [H|H]; auto.
Qed.

Lemma mem_app x l1 l2 : mem x (l1 ++ l2) = mem x l1 || mem x l2.
Proof. induction l1 as [|y ys IH]; cbn; [reflexivity|]. rewrite IH, orb_assoc. reflexivity. Qed.

(* insertion-ordered dict with string keys *)
Section Assoc.
  Context {V : Type}.
  Fixpoint aget (k : str) (d : list (str * V)) : option V :=
    match d with
    | [] => None
    | (k', v) :: r => if str_eqb k k' then Some v else aget k r
    end.
  (* d[k] = v : replace in place when present, append otherwise *)
  Fixpoint aset (k : str) (v : V) (d : list (str * V)) : list (str * V) :=
    match d with
    | [] => [(k, v)]
    | (k', v') :: r => if str_eqb k k' then (k', v) :: r else (k', v') :: aset k v r
    end.
  Definition akeys (d : list (str * V)) : list str := map fst d.

  Lemma aget_aset_same k v d : aget k (aset k v d) = Some v.
  Proof.
    induction d as [|[k' v'] r IH]; cbn; [rewrite str_eqb_refl; reflexivity|].
    destruct (str_eqb k k') eqn:E; cbn; rewrite E; [reflexivity | exact IH].
  Qed.
  Lemma aget_aset_other k k' v d : k <> k' -> aget k' (aset k v d) = aget k' d.
  Proof.
    intro N0. induction d as [|[k2 v2] r IH]; cbn.
    - apply not_eq_sym in N0. apply str_eqb_neq in N0. rewrite N0. reflexivity.
    - destruct (str_eqb k k2) eqn:E; cbn.
      + apply str_eqb_eq in E; subst k2.
        assert (str_eqb k' k = false) as -> by (apply str_eqb_neq; congruence). reflexivity.
      + rewrite IH. reflexivity.
  Qed.
End Assoc.

(* order-preserving de-duplication, first occurrence wins *)
Fixpoint dedup (l : list str) : list str :=
  match l with
  | [] => []
  | x :: xs => if mem x xs then dedup xs else x :: dedup xs
  end.

(* list union keeping the order of first appearance (Python: add missing keys) *)
Fixpoint union (l1 l2 : list str) : list str :=
  match l2 with
  | [] => l1
  | x :: xs => if mem x l1 then union l1 xs else union (l1 ++ [x]) xs
  end.

Lemma mem_union x l1 l2 : mem x (union l1 l2) = mem x l1 || mem x l2.
Proof.
  revert l1; induction l2 as [|y ys IH]; intro l1; cbn; [rewrite orb_false_r; reflexivity|].
  destruct (mem y l1) eqn:E; rewrite IH.
  - destruct (str_eqb x y) eqn:E2; cbn; [|reflexivity].
    apply str_eqb_eq in E2; subst. rewrite E. reflexivity.
  - rewrite mem_app. cbn. rewrite orb_false_r, <- orb_assoc. reflexivity.
Qed.

Definition N_list_eqb := list_eqb N.eqb.
Definition strs_eqb := list_eqb str_eqb.

Lemma strs_eqb_eq a b : strs_eqb a b = true <-> a = b.
Proof. apply list_eqb_eq. apply str_eqb_eq. Qed.

(* ---- more facts about insertion-ordered dicts ---- *)
Section AssocFacts.
  Context {V : Type}.
  Implicit Types d : list (str * V).

  Lemma akeys_aset k v d :
    akeys (aset k v d) = if mem k (akeys d) then akeys d else akeys d ++ [k].
  Proof.
    induction d as [|[k' v'] r IH]; cbn; [reflexivity|].
    destruct (str_eqb k k') eqn:E; cbn; [reflexivity|].
    unfold akeys in *. rewrite IH. destruct (mem k (map fst r)); reflexivity.
  Qed.

  Lemma aget_none_mem k d : aget k d = None <-> mem k (akeys d) = false.
  Proof.
    induction d as [|[k' v'] r IH]; cbn; [tauto|].
    destruct (str_eqb k k'); cbn; [split; discriminate | exact IH].
  Qed.

  Lemma aget_map_key (g : str -> V) {W} (d' : list (str * W)) p :
    aget p (map (fun kv => (fst kv, g (fst kv))) d') = if mem p (akeys d') then Some (g p) else None.
  Proof.
    induction d' as [|[k w] r IH]; cbn; [reflexivity|].
    destruct (str_eqb p k) eqn:E; cbn; [apply str_eqb_eq in E; subst; reflexivity | exact IH].
  Qed.

  Lemma dict_canonical (dflt : V) d :
    NoDup (akeys d) -> d = map (fun k => (k, match aget k d with Some v => v | None => dflt end)) (akeys d).
  Proof.
    induction d as [|[k v] r IH]; cbn; intro ND; [reflexivity|].
    inversion ND as [|? ? Hnin ND']; subst. rewrite str_eqb_refl. f_equal.
    rewrite (IH ND') at 1. apply map_ext_in. intros k' Hin.
    destruct (str_eqb k' k) eqn:E; [|reflexivity].
    apply str_eqb_eq in E; subst. contradiction.
  Qed.
End AssocFacts.

Lemma union_app l a b : union (union l a) b = union l (a ++ b).
Proof.
  revert l; induction a as [|x xs IH]; intro l; cbn; [reflexivity|].
  destruct (mem x l); apply IH.
Qed.

Lemma NoDup_snoc (l : list str) x : NoDup l -> ~ In x l -> NoDup (l ++ [x]).
Proof.
  induction l as [|y ys IH]; cbn; intros ND Hn; [constructor; [tauto | constructor]|].
  inversion ND; subst. constructor.
  - rewrite in_app_iff; cbn. intros [H|[H|[]]]; [contradiction | subst; tauto].
  - apply IH; tauto.
Qed.

Lemma NoDup_union l1 l2 : NoDup l1 -> NoDup (union l1 l2).
Proof.
  revert l1; induction l2 as [|x xs IH]; intros l1 ND; cbn; [exact ND|].
  destruct (mem x l1) eqn:E; apply IH; [exact ND|].
  apply NoDup_snoc; [exact ND|]. intro H. apply mem_In in H. congruence.
Qed.

(* readable attribute names: ASCII string literal -> code-point list *)
From Coq Require Import String Ascii.
Definition s2l (s : string) : str := map N_of_ascii (list_ascii_of_string s).
