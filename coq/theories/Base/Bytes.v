(* Byte strings: UTF-8 encoder, lexicographic order (Python `sorted` on bytes),
   insertion sort, join, and the canonical form of a set of byte strings. *)
From EdxmlVerif Require Import Base.Prelude.
From Coq Require Import Permutation Sorted.

Definition bytes := list N.

(* CPython str.encode('utf-8') for scalar values (surrogates are rejected by CPython;
   the harness never generates them) *)
Definition utf8_cp (c : N) : bytes :=
  if (c <? 128)%N then [c]
  else if (c <? 2048)%N then [192 + c / 64; 128 + c mod 64]%N
  else if (c <? 65536)%N then [224 + c / 4096; 128 + (c / 64) mod 64; 128 + c mod 64]%N
  else [240 + c / 262144; 128 + (c / 4096) mod 64; 128 + (c / 64) mod 64; 128 + c mod 64]%N.

Definition utf8 (s : str) : bytes := flat_map utf8_cp s.

Lemma utf8_app a b : utf8 (a ++ b) = utf8 a ++ utf8 b.
Proof. unfold utf8. apply flat_map_app. Qed.

(* lexicographic comparison of byte strings: a <= b *)
Fixpoint bytes_leb (a b : bytes) : bool :=
  match a, b with
  | [], _ => true
  | _ :: _, [] => false
  | x :: xs, y :: ys => if (x <? y)%N then true else if (y <? x)%N then false else bytes_leb xs ys
  end.

Lemma bytes_leb_total a b : bytes_leb a b = true \/ bytes_leb b a = true.
Proof.
  revert b; induction a as [|x xs IH]; intros [|y ys]; cbn; auto.
  destruct (N.ltb_spec x y), (N.ltb_spec y x); auto; try lia.
Qed.

Lemma bytes_leb_antisym a b : bytes_leb a b = true -> bytes_leb b a = true -> a = b.
Proof.
  revert b; induction a as [|x xs IH]; intros [|y ys]; cbn; try discriminate; auto.
  destruct (N.ltb_spec x y), (N.ltb_spec y x); try discriminate; try lia.
  intros H1 H2. assert (x = y) by lia. subst. f_equal. auto.
Qed.

Lemma bytes_leb_trans a b c : bytes_leb a b = true -> bytes_leb b c = true -> bytes_leb a c = true.
Proof.
  revert b c; induction a as [|x xs IH]; intros [|y ys] [|z zs]; cbn; try discriminate; auto.
  destruct (N.ltb_spec x y), (N.ltb_spec y z), (N.ltb_spec x z), (N.ltb_spec y x), (N.ltb_spec z y), (N.ltb_spec z x);
    try discriminate; try lia; auto.
  apply IH.
Qed.

Lemma bytes_leb_refl a : bytes_leb a a = true.
Proof. destruct (bytes_leb_total a a); assumption. Qed.

Fixpoint insert (x : bytes) (l : list bytes) : list bytes :=
  match l with
  | [] => [x]
  | y :: r => if bytes_leb x y then x :: l else y :: insert x r
  end.
Fixpoint sort (l : list bytes) : list bytes :=
  match l with [] => [] | x :: r => insert x (sort r) end.

Definition bytes_eqb : bytes -> bytes -> bool := list_eqb N.eqb.
Lemma bytes_eqb_eq a b : bytes_eqb a b = true <-> a = b.
Proof. apply (str_eqb_eq a b). Qed.

(* Python set(...) of byte strings followed by sorted(...) *)
Definition canon (l : list bytes) : list bytes := sort (dedup l).

Fixpoint join (sep : bytes) (l : list bytes) : bytes :=
  match l with
  | [] => []
  | [x] => x
  | x :: r => x ++ sep ++ join sep r
  end.

(* ---- sorting facts ---- *)
Definition le (a b : bytes) : Prop := bytes_leb a b = true.

Lemma insert_perm x l : Permutation (x :: l) (insert x l).
Proof.
  induction l as [|y r IH]; cbn; [reflexivity|].
  destruct (bytes_leb x y); [reflexivity|].
  rewrite perm_swap. constructor. exact IH.
Qed.

Lemma sort_perm l : Permutation l (sort l).
Proof.
  induction l as [|x r IH]; cbn; [constructor|].
  rewrite <- insert_perm. constructor. exact IH.
Qed.

Lemma insert_sorted x l : StronglySorted le l -> StronglySorted le (insert x l).
Proof.
  induction l as [|y r IH]; cbn; intro S; [repeat constructor|].
  inversion S as [|? ? Sr Hall]; subst.
  destruct (bytes_leb x y) eqn:E.
  - constructor; [exact S|]. constructor; [exact E|].
    eapply Forall_impl; [|exact Hall]. intros z Hz. eapply bytes_leb_trans; eassumption.
  - constructor; [apply IH; exact Sr|].
    assert (Hyx : le y x) by (destruct (bytes_leb_total x y); [congruence | assumption]).
    eapply Permutation_Forall; [apply insert_perm|]. constructor; assumption.
Qed.

Lemma sort_sorted l : StronglySorted le (sort l).
Proof. induction l as [|x r IH]; cbn; [constructor | apply insert_sorted; exact IH]. Qed.

Lemma sorted_perm_eq l1 : forall l2,
  StronglySorted le l1 -> StronglySorted le l2 -> Permutation l1 l2 -> l1 = l2.
Proof.
  induction l1 as [|x r IH]; intros l2 S1 S2 P.
  - apply Permutation_nil in P. congruence.
  - destruct l2 as [|y r2]; [apply Permutation_sym, Permutation_nil in P; discriminate|].
    inversion S1 as [|? ? Sr1 H1]; subst. inversion S2 as [|? ? Sr2 H2]; subst.
    assert (x = y).
    { assert (In x (y :: r2)) as Hx by (eapply Permutation_in; [exact P | left; reflexivity]).
      assert (In y (x :: r)) as Hy by (eapply Permutation_in; [apply Permutation_sym; exact P | left; reflexivity]).
      destruct Hx as [->|Hx]; [reflexivity|]. destruct Hy as [->|Hy]; [reflexivity|].
      rewrite Forall_forall in H1, H2. apply bytes_leb_antisym; [apply H1; exact Hy | apply H2; exact Hx]. }
    subst y. f_equal. apply IH; try assumption. eapply Permutation_cons_inv; exact P.
Qed.

Lemma dedup_In x l : In x (dedup l) <-> In x l.
Proof.
  induction l as [|y r IH]; cbn; [tauto|].
  destruct (mem y r) eqn:M; cbn; rewrite IH; [|tauto].
  split; [tauto|]. intros [->|H]; [apply mem_In; exact M | exact H].
Qed.

Lemma dedup_NoDup l : NoDup (dedup l).
Proof.
  induction l as [|y r IH]; cbn; [constructor|].
  destruct (mem y r) eqn:M; [exact IH|]. constructor; [|exact IH].
  rewrite dedup_In. intro H. apply mem_In in H. congruence.
Qed.

(* the canonical form depends only on the SET of byte strings *)
Lemma canon_set_ext l1 l2 : (forall x, In x l1 <-> In x l2) -> canon l1 = canon l2.
Proof.
  intro H. unfold canon. apply sorted_perm_eq; try apply sort_sorted.
  rewrite <- !sort_perm. apply NoDup_Permutation; try apply dedup_NoDup.
  intro x. rewrite !dedup_In. apply H.
Qed.
