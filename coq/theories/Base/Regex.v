(* Regular expressions over code points (the XSD regex subset emitted by the SDK), matched with
   Brzozowski derivatives.  Character classes: ranges, unions, negation, subtraction and named
   Unicode properties / blocks (\d \s \p{Lu} \p{Ll} \p{IsBasicLatin} ...), the latter looked up
   through a table supplied with the input (libxml2's Unicode tables are not modelled). *)
From EdxmlVerif Require Import Base.Prelude.

Inductive cset :=
| CRange (lo hi : N)
| CUnion (a b : cset)
| CDiff (a b : cset)            (* [a-[b]] *)
| CNeg (a : cset)
| CProp (name : str)            (* named class, decided by the table *)
| CAny.                         (* any character ([\s\S], '.') *)

Inductive re :=
| Empty | Eps
| Chr (c : cset)
| Cat (a b : re) | Alt (a b : re) | Star (a : re).

Section Match.
  Variable uprop : str -> N -> bool.

  Fixpoint cin (c : cset) (x : N) : bool :=
    match c with
    | CRange lo hi => (lo <=? x)%N && (x <=? hi)%N
    | CUnion a b => cin a x || cin b x
    | CDiff a b => cin a x && negb (cin b x)
    | CNeg a => negb (cin a x)
    | CProp n => uprop n x
    | CAny => true
    end.

  Fixpoint nullable (r : re) : bool :=
    match r with
    | Empty => false | Eps => true | Chr _ => false
    | Cat a b => nullable a && nullable b
    | Alt a b => nullable a || nullable b
    | Star _ => true
    end.

  (* smart constructors keep derivatives small *)
  Definition mkcat (a b : re) : re :=
    match a, b with
    | Empty, _ => Empty | _, Empty => Empty
    | Eps, _ => b | _, Eps => a
    | _, _ => Cat a b
    end.
  Definition mkalt (a b : re) : re :=
    match a, b with
    | Empty, _ => b | _, Empty => a
    | _, _ => Alt a b
    end.

  Fixpoint deriv (x : N) (r : re) : re :=
    match r with
    | Empty => Empty | Eps => Empty
    | Chr c => if cin c x then Eps else Empty
    | Cat a b => if nullable a then mkalt (mkcat (deriv x a) b) (deriv x b) else mkcat (deriv x a) b
    | Alt a b => mkalt (deriv x a) (deriv x b)
    | Star a => mkcat (deriv x a) (Star a)
    end.

  Definition rmatch (r : re) (s : str) : bool := nullable (fold_left (fun acc x => deriv x acc) s r).

  (* bounded repetition r{n}, r{n,m}, r?, r+ *)
  Fixpoint rpow (r : re) (n : nat) : re := match n with O => Eps | S k => Cat r (rpow r k) end.
  Definition ropt (r : re) : re := Alt Eps r.
  Fixpoint rupto (r : re) (n : nat) : re := match n with O => Eps | S k => ropt (Cat r (rupto r k)) end.
  Definition rplus (r : re) : re := Cat r (Star r).
End Match.

Definition table_prop (tbl : list (str * list N)) (name : str) (x : N) : bool :=
  existsb (N.eqb x) (odefault [] (aget name tbl)).
