"""C08: generator of schema-valid <ontology> elements at the XML level (explicit attributes as strings, so that optional attributes
can be absent, present, or present at their default), an API-level builder, and canonical semantic reading."""
import io
from xml.sax.saxutils import quoteattr
from lxml import etree
import ontolib as OL
from common import gen_doc as G

NS = 'http://edxml.org/edxml'
ESC = {'\n': '&#10;', '\t': '&#9;', '\r': '&#13;'}


def attrs(d):
    return ''.join(' %s=%s' % (k, quoteattr(v, ESC)) for k, v in d.items() if v is not None)


def el(tag, a, children=''):
    return '<%s%s>%s</%s>' % (tag, attrs(a), children, tag) if children else '<%s%s/>' % (tag, attrs(a))


DATA_TYPES = ['string:0:mc:u', 'string:12:lc', 'string:5:uc:r', 'number:int', 'number:bigint:signed', 'number:decimal:10:2', 'number:currency', 'number:float:signed',
              'hex:4', 'hex:6:2:-', 'uuid', 'boolean', 'enum:a:b', 'ip:v4', 'ip:v6', 'geo:point', 'base64:16', 'uri:/', 'file', 'number:tinyint']


def words(rng, lo, hi, alphabet='abcdefghij XYZ-_.é€&<>"\'\U0001f600'):
    n = rng.randint(lo, hi)
    s = ''.join(rng.choice(alphabet) for _ in range(n)).strip()
    while '  ' in s:
        s = s.replace('  ', ' ')
    return s or 'x'


def token(rng, maxlen):
    k = rng.randrange(5)
    if k == 0:
        return 'x'
    if k == 1:
        return ('y' * maxlen)
    return words(rng, 1, min(maxlen, 20))[:maxlen].strip() or 'z'


def gen_object_type(rng, name, dt):
    a = {'name': name, 'display-name-singular': token(rng, 32), 'display-name-plural': token(rng, 32), 'description': token(rng, 128), 'data-type': dt,
         'version': num(rng, rng.choice([1, 1, 2, 7, 4294967295]))}
    if dt.startswith('number') and rng.random() < 0.7:
        a['unit-name'], a['unit-symbol'] = token(rng, 32), token(rng, 8)
        if rng.random() < 0.7:
            a['prefix-radix'] = rng.choice(['2', '10', '60'])
    if dt.startswith('string') and rng.random() < 0.5:
        a['fuzzy-matching'] = rng.choice(['phonetic', 'substring:abc', 'substring:', '[3:]', '[:12]'])
    if rng.random() < 0.3:
        a['xref'] = rng.choice(['http://x/y?z=1&a=2', ' spaced ', 'x'])
    if rng.random() < 0.5:
        a['compress'] = rng.choice(['true', 'false'])
    if dt.startswith('string') and rng.random() < 0.5:
        a['regex-hard'] = rng.choice(['[a-z]+', 'a|b', 'x' * 128, '\\d{2}', ' a '])
    if dt.startswith('string') and rng.random() < 0.4:
        a['regex-soft'] = rng.choice(['[a-z]', '^x$', 'y' * 128])
    return a


def gen_concept(rng, name):
    return {'name': name, 'display-name-singular': token(rng, 32), 'display-name-plural': token(rng, 32), 'description': token(rng, 128), 'version': str(rng.choice([1, 3]))}


def gen_source(rng, uri):
    a = {'uri': uri, 'description': rng.choice(['a source', 'x', 'd' * 128, 'two  spaces', ' lead']), 'version': str(rng.choice([1, 2]))}
    if rng.random() < 0.5:
        a['date-acquired'] = rng.choice(['20200101', '19991231', '00000000'])
    return a


def num(rng, n):
    """a lexical form of the number that the XSD integer types accept"""
    return rng.choice([str(n), str(n), str(n), '0' + str(n), '+' + str(n), ' %d ' % n])


def gen_assoc(rng, concept):
    a = {'name': concept, 'confidence': num(rng, rng.randint(0, 10)), 'cnp': num(rng, rng.choice([0, 1, 128, 255]))}
    k = rng.randrange(4)
    if k >= 1:
        a['attr-extension'] = rng.choice(['ext', 'a.b-c', 'x' * 16])
        if k >= 2:
            a['attr-display-name-singular'], a['attr-display-name-plural'] = token(rng, 32), token(rng, 32)
    return a


def gen_property(rng, name, ot, concepts, **force):
    a = {'name': name, 'object-type': ot, 'description': token(rng, 128), 'optional': rng.choice(['true', 'false']), 'multivalued': rng.choice(['true', 'false']),
         'confidence': num(rng, rng.randint(1, 10))}
    if rng.random() < 0.5:
        a['merge'] = rng.choice(['any', 'add', 'set', 'match'])
    if rng.random() < 0.5:
        a['similar'] = rng.choice(['', 'hint', 's' * 64])
    a.update(force)
    if a.get('merge') in ('add',):
        a['multivalued'] = 'true'
    if a.get('merge') in ('min', 'max', 'replace'):
        a['multivalued'] = 'false'
    if a.get('merge') in ('match', 'set', 'replace', 'min', 'max') and a.get('merge') != 'match':
        pass
    kids = [gen_assoc(rng, c) for c in rng.sample(concepts, rng.randint(0, min(2, len(concepts))))]
    return a, kids


def gen_relation(rng, typ, src, dst, concepts):
    a = {'source': src, 'target': dst}
    if typ in ('inter', 'intra'):
        a['source-concept'], a['target-concept'] = concepts
    if typ in ('inter', 'intra', 'other'):
        a['description'] = rng.choice(['[[%s]] is related to [[%s]]' % (src, dst), '[[%s]] and [[%s]]' % (dst, src)])
        a['predicate'] = rng.choice(['knows', '', 'p' * 32, 'is part of'])
        a['confidence'] = num(rng, rng.randint(1, 10))
    return typ, a


def gen_ontology(rng):
    """returns XML text of an <ontology> element (no namespace prefix; wrapped by the caller)"""
    n_ot = rng.randint(2, 5)
    ots = [('o%d' % i if i else 'o', rng.choice(DATA_TYPES) if i else 'string:0:mc:u') for i in range(n_ot)]
    ots += [('when', 'datetime'), ('seq', 'sequence')]
    concepts = ['c', 'c.x', 'thing'][:rng.randint(1, 3)]
    ot_xml = ''.join(el('object-type', gen_object_type(rng, n, dt)) for n, dt in ots)
    c_xml = ''.join(el('concept', gen_concept(rng, c)) for c in concepts)
    et_xml = ''
    has_parent = rng.random() < 0.5
    if has_parent:
        pa, pk = gen_property(rng, 'k', 'o', concepts, merge='match', optional='false', multivalued='false')
        et_xml += el('event-type', {'name': 'parent', 'display-name-singular': 'parent', 'display-name-plural': 'parents', 'description': 'd', 'summary': 's',
                                    'story': 's', 'version': '1'},
                     el('properties', {}, el('property', pa, ''.join(el('property-concept', x) for x in pk))))
    for t in range(rng.randint(1, 2)):
        props = []
        pa, pk = gen_property(rng, 'p', 'o', concepts, merge='match', optional='false', multivalued='false')
        props.append(('p', pa, pk))
        for i in range(rng.randint(0, 3)):
            n, dt = rng.choice(ots[:n_ot])
            props.append(('q%d' % i,) + gen_property(rng, 'q%d' % i, n, concepts))
        a = {'name': 'ta' if t == 0 else 'tb.sub-type', 'display-name-singular': token(rng, 32), 'display-name-plural': token(rng, 32), 'description': token(rng, 128),
             'summary': rng.choice(['summary of [[p]]', 'x', token(rng, 60)]),
             'story': rng.choice(['story of [[p]]', 'line one\nline two', 'tab\there', 'two  spaces', ' lead and trail ', 'x']),
             'version': str(rng.choice([1, 2, 9]))}
        if rng.random() < 0.4:
            m0 = rng.choice(['min', 'any', 'set'])
            props.append(('t0',) + gen_property(rng, 't0', 'when', [], optional='false' if m0 == 'min' else rng.choice(['true', 'false']), multivalued='false', merge=m0))
            m1 = rng.choice(['max', 'any'])
            props.append(('t1',) + gen_property(rng, 't1', 'when', [], optional='false' if m1 == 'max' else 'true', multivalued='false', merge=m1))
            a['timespan-start'] = 't0'
            if rng.random() < 0.7:
                a['timespan-end'] = 't1'
        k = rng.randrange(4)
        if k == 0:
            props.append(('v',) + gen_property(rng, 'v', 'seq', [], optional='false', multivalued='false', merge='max'))
            a['event-version'] = 'v'
        elif k == 1:
            props.append(('v',) + gen_property(rng, 'v', 'seq', [], optional='false', multivalued='false', merge='any'))
            a['sequence'] = 'v'
        body = ''
        if has_parent and t == 0 and rng.random() < 0.8:
            body += el('parent', {'event-type': 'parent', 'property-map': 'p:k', 'parent-description': token(rng, 128), 'siblings-description': token(rng, 128)})
        body += el('properties', {}, ''.join(el('property', pa, ''.join(el('property-concept', x) for x in pk)) for _, pa, pk in props))
        rels = []
        names = [n for n, _, _ in props]
        with_concepts = [n for n, _, pk in props if pk]
        for typ in rng.sample(['inter', 'intra', 'other', 'name', 'description', 'container', 'original'], rng.randint(0, 4)):
            if len(names) < 2:
                break
            if typ in ('inter', 'intra'):
                if len(with_concepts) < 2:
                    continue
                s, d = rng.sample(with_concepts, 2)
                pk_s = next(pk for n, _, pk in props if n == s)
                pk_d = next(pk for n, _, pk in props if n == d)
                rels.append(gen_relation(rng, typ, s, d, (pk_s[0]['name'], pk_d[0]['name'])))
            else:
                single = [n for n, pa_, _ in props if pa_['multivalued'] == 'false'] if typ != 'other' else names
                if len(single) < 2:
                    continue
                s, d = rng.sample(single, 2)
                rels.append(gen_relation(rng, typ, s, d, None))
        if rels:
            body += el('relations', {}, ''.join(el(t_, a_) for t_, a_ in rels))
        atts = [{'name': 'doc%d' % i, 'media-type': rng.choice(['text/plain', 'application/x-foo+bar', 'image/png']), 'display-name-singular': token(rng, 32),
                 'display-name-plural': token(rng, 32), 'description': token(rng, 128), 'encoding': rng.choice(['unicode', 'base64'])} for i in range(rng.randint(0, 2))]
        if atts or rng.random() < 0.2:
            body += '<attachments>%s</attachments>' % ''.join(el('attachment', x) for x in atts)
        et_xml += el('event-type', a, body)
    s_xml = ''.join(el('source', gen_source(rng, u)) for u in ['/s/', '/a/b-c/', '/'][:rng.randint(1, 3)])
    return ('<ontology><object-types>%s</object-types><concepts>%s</concepts><event-types>%s</event-types><sources>%s</sources></ontology>'
            % (ot_xml, c_xml, et_xml, s_xml))


def schema():
    import edxml_schema
    return etree.RelaxNG(etree.parse(edxml_schema.SCHEMA_PATH_3_0))


def wrap(onto_xml_text):
    return G.document([onto_xml_text])


def semantic(onto_element):
    """canonical, order-free reading of an <ontology> element by the independent reader"""
    o = OL.from_xml(onto_element)
    for k in ('object-types', 'concepts'):
        o[k] = sorted(o[k], key=lambda d: d['name'])
    o['sources'] = sorted(o['sources'], key=lambda d: d['uri'])
    o['event-types'] = sorted(o['event-types'], key=lambda d: d['name'])
    for et in o['event-types']:
        et['properties'] = sorted(et['properties'], key=lambda d: d['name'])
        for p in et['properties']:
            p['concepts'] = sorted(p['concepts'], key=lambda d: d['name'])
            for c in p['concepts']:
                if not c['attr-extension']:
                    c['attr-display-name-singular'] = c['attr-display-name-plural'] = None
                else:
                    c['attr-display-name-singular'] = c['attr-display-name-singular'] or None
                    c['attr-display-name-plural'] = c['attr-display-name-plural'] or None
        et['relations'] = sorted((OL.norm_rel(r) for r in et['relations']), key=lambda r: (r['type'], r['source'], r['target']))
        et['attachments'] = sorted(et['attachments'], key=lambda d: d['name'])
    for ot in o['object-types']:
        if ot['prefix-radix'] == 10:
            ot['prefix-radix'] = None        # the default
    return o


def diff(a, b, path=''):
    """first difference between two canonical readings"""
    if type(a) != type(b):
        return '%s: %r != %r' % (path, a, b)
    if isinstance(a, dict):
        for k in sorted(set(a) | set(b)):
            if k not in a or k not in b:
                return '%s/%s: only on one side' % (path, k)
            d = diff(a[k], b[k], path + '/' + str(k))
            if d:
                return d
        return None
    if isinstance(a, list):
        if len(a) != len(b):
            return '%s: %d != %d entries' % (path, len(a), len(b))
        for i, (x, y) in enumerate(zip(a, b)):
            d = diff(x, y, '%s[%s]' % (path, x.get('name', i) if isinstance(x, dict) else i))
            if d:
                return d
        return None
    return None if a == b else '%s: %r != %r' % (path, a, b)


def _key(e):
    t = OL._tag(e)
    return (t, e.get('name') or e.get('uri') or ('%s>%s' % (e.get('source'), e.get('target')) if e.get('source') else e.get('event-type') or ''))


def index(onto_el):
    """path -> attribute dict, for every element below <ontology>"""
    out = {}

    def walk(e, path):
        for c in e:
            if not isinstance(c.tag, str):
                continue
            p = path + (_key(c),)
            out[p] = dict(c.attrib)
            walk(c, p)
    walk(onto_el, ())
    return out


def attr_changes(in_el, out_el):
    """list of (path, attribute, before, after) between two <ontology> elements; elements matched by tag and name"""
    a, b = index(in_el), index(out_el)
    ch = []
    for p in sorted(set(a) | set(b)):
        if p not in a or p not in b:
            ch.append((p, '(element)', 'present' if p in a else None, 'present' if p in b else None))
            continue
        for k in sorted(set(a[p]) | set(b[p])):
            if a[p].get(k) != b[p].get(k):
                ch.append((p, k, a[p].get(k), b[p].get(k)))
    return ch


def explain_invalid(schema_, in_doc_root, in_el, out_el):
    """which single change of the output, applied to the (valid) input, makes it schema-invalid"""
    import copy
    culprits = []
    for p, k, before, after in attr_changes(in_el, out_el):
        if k == '(element)':
            culprits.append('%s %s' % ('/'.join('%s[%s]' % x for x in p), 'removed' if after is None else 'added'))
            continue
        root = copy.deepcopy(in_doc_root)
        onto = next(c for c in root if isinstance(c.tag, str) and c.tag.endswith('ontology'))
        cur = onto
        for step in p:
            cur = next(c for c in cur if isinstance(c.tag, str) and _key(c) == step)
        if after is None:
            del cur.attrib[k]
        else:
            cur.set(k, after)
        if not schema_.validate(root):
            culprits.append('%s/@%s: %r -> %r' % (p[-1][0], k, before, after))
    return culprits
