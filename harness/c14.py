"""C14 — the parser delivers each event exactly once, in order, to the right handlers."""
import io, json, re, sys
from common.core import Check, C, coq, run_cases, Raw
from common import gen_doc as G

PID = 'C14'
ANCHORS = ['edxml/parser.py']
TYPES = ['ta', 'tb', 'tc']
SOURCES = ['/s0/', '/s1/', '/s2/']
PATTERNS = ['/s0/', '/s', '/s[01]/', '.*', 'zzz', '/s1/$', '/s2', '^/s[12]']
IMPORTS = 'From EdxmlVerif Require Import Base.Prelude Parse.Dispatch.'


def gen_case(rng, i):
    nreg = rng.choice([0, 1, 1, 2, 2, 3, 4, 5])
    regs = []
    hid = 1
    for _ in range(nreg):
        if rng.random() < 0.5:
            names = rng.sample(TYPES + ['tx'], rng.randint(1, 3))
            regs.append(('T', names, hid))
        else:
            pats = rng.sample(PATTERNS, rng.randint(1, 3))
            regs.append(('S', pats, hid))
        hid += 1
    fallback = rng.random() < 0.4
    doc = []
    known_t, known_s = [], []
    n_ops = rng.choice([1, 2, 3, 4, 6, 8, 12])
    for k in range(n_ops):
        if k == 0 and rng.random() < 0.93 or rng.random() < 0.2:
            ts = rng.sample(TYPES, rng.randint(0, 3))
            ss = rng.sample(SOURCES, rng.randint(0, 3))
            if k == 0 and rng.random() < 0.8:
                ts = ts or [TYPES[0]]
                ss = ss or [SOURCES[0]]
            doc.append(('O', ts, ss))
            known_t += [t for t in ts if t not in known_t]
            known_s += [s for s in ss if s not in known_s]
        else:
            bad = rng.random() < 0.06
            t = rng.choice(known_t) if known_t and not (bad and rng.random() < 0.5) else rng.choice(TYPES + ['tx'])
            s = rng.choice(known_s) if known_s and not (bad and rng.random() < 0.5) else rng.choice(SOURCES + ['/sx/'])
            doc.append(('E', t, s))
    # random chunking only for single-ontology documents: cuts inside a later ontology element are C06's subject
    multi = sum(1 for o in doc if o[0] == 'O') > 1
    mode = rng.choice(['pull', 'pushb', 'push1'] if multi else ['pull', 'push', 'push1', 'pushb'])
    return {'regs': regs, 'fallback': fallback, 'doc': doc, 'mode': mode, 'chunk': rng.randint(1, 200)}


def doc_children(case):
    children = []
    idx = 0
    for o in case['doc']:
        if o[0] == 'O':
            ets = [{'name': t, 'properties': [{'name': 'p', 'object_type': 'o'}]} for t in o[1]]
            children.append(G.ontology_xml([('o', 'string:0:mc:u')], ets, o[2]))
        else:
            children.append(G.event_xml(o[1], o[2], [('p', 'e%d' % idx)]))
            idx += 1
    return children


def doc_bytes(case):
    return G.document(doc_children(case))


def run_impl(case):
    from edxml import EDXMLPullParser, EDXMLPushParser
    from edxml.error import EDXMLValidationError, EDXMLEventValidationError
    log = []

    def on_ont(o):
        log.append(['O', list(o.get_event_type_names()), list(o.get_event_sources().keys())])

    def mk(h):
        def handler(e):
            log.append(['E', h, int(list(e['p'])[0][1:]), e.get_type_name(), e.get_source_uri()])
        return handler

    base = EDXMLPullParser if case['mode'] == 'pull' else EDXMLPushParser
    if case['fallback']:
        class P(base):
            def _parsed_ontology(self, o):
                super()._parsed_ontology(o)
                on_ont(o)

            def _parsed_event(self, e):
                mk(0)(e)
    else:
        class P(base):
            def _parsed_ontology(self, o):
                super()._parsed_ontology(o)
                on_ont(o)
    p = P()
    for kind, keys, h in case['regs']:
        if kind == 'T':
            p.set_event_type_handler(keys, mk(h))
        else:
            p.set_event_source_handler(keys, mk(h))
    data = doc_bytes(case)
    err = 0
    try:
        if case['mode'] == 'pull':
            p.parse(io.BytesIO(data))
        elif case['mode'] == 'pushb':
            pos = 0
            for ci, ch in enumerate(doc_children(case)):
                if case.get('late') and ci == case['late'][0]:
                    # handlers registered while the stream is being read: they see every event that arrives afterwards
                    for kind, keys, h in case['late'][1]:
                        (p.set_event_type_handler if kind == 'T' else p.set_event_source_handler)(keys, mk(h))
                end = data.index(ch.encode(), pos) + len(ch.encode())
                p.feed(data[pos:end])
                pos = end
            p.feed(data[pos:])
        else:
            n = 1 if case['mode'] == 'push1' else case['chunk']
            for i in range(0, len(data), n):
                p.feed(data[i:i + n])
    except EDXMLEventValidationError as e:
        err = 2 if 'source URI' in str(e) else 3 if 'event type' in str(e) else 99
    except EDXMLValidationError as e:
        err = 1 if 'no <ontology>' in str(e) else 98
    total = p.get_event_counter()
    per = [[t, p.get_event_type_counter(t)] for t in TYPES + ['tx']]
    return {'log': log, 'err': err, 'total': total, 'per': per}


def expected(case):
    """The property statement evaluated from the registration list and the document
    (independent of the Coq model): per event the handlers per key, in registration order."""
    out = []
    have, kt, ks, idx = False, [], [], 0
    for di, o in enumerate(case['doc']):
        if o[0] == 'O':
            have = True
            kt += [t for t in o[1] if t not in kt]
            ks += [s for s in o[2] if s not in ks]
            out.append(('O', set(kt), set(ks)))
        else:
            _, t, s = o
            if not have or s not in ks or t not in kt:
                break
            regs_now = list(case['regs']) + (list(case['late'][1]) if case.get('late') and di >= case['late'][0] else [])
            th = [h for k, keys, h in regs_now if k == 'T' for n in keys if n == t]
            sh = {}
            for k, keys, h in regs_now:
                if k == 'S':
                    for pat in keys:
                        if re.match(pat, s):
                            sh.setdefault(pat, []).append(h)
            if not th and not sh and case['fallback']:
                th = [0]
            out.append(('E', idx, t, s, th, sh))
            idx += 1
    return out, idx


def oracle(case, res):
    """returns list of (clause, detail)"""
    fails = []
    exp, ndelivered = expected(case)
    log = res['log']
    pos = 0
    delivered_by_type = {}
    for e in exp:
        if e[0] == 'O':
            if pos >= len(log) or log[pos][0] != 'O' or set(log[pos][1]) != e[1] or set(log[pos][2]) != e[2]:
                fails.append(('ontology-callback-order', 'expected ontology callback %r at log position %d' % (e, pos)))
                return fails
            pos += 1
        else:
            _, idx, t, s, th, sh = e
            delivered_by_type[t] = delivered_by_type.get(t, 0) + 1
            n_exp = len(th) + sum(len(v) for v in sh.values())
            got = []
            while pos < len(log) and log[pos][0] == 'E' and log[pos][2] == idx:
                got.append(log[pos][1])
                pos += 1
            all_exp = sorted(th + [h for v in sh.values() for h in v])
            kinds = ('type' if th and th != [0] else '') + ('+source' if sh else '') + ('fallback' if th == [0] else '')
            if sorted(got) != all_exp:
                over = 'over-delivery' if len(got) > n_exp else 'under-delivery' if len(got) < n_exp else 'wrong-handlers'
                first = 'first-event-of-type' if delivered_by_type[t] == 1 else 'later-event-of-type'
                fails.append(('dispatch/%s/%s/%s' % (over, kinds or 'none', first),
                              'event %d (%s,%s): expected handlers %r got %r' % (idx, t, s, all_exp, got)))
                continue
            if got[:len(th)] != th:
                fails.append(('dispatch/type-handlers-first-in-registration-order/' + kinds,
                              'event %d: expected type handlers %r first, got %r' % (idx, th, got)))
                continue
            rest = got[len(th):]
            # the group of source handlers: patterns in the order of their first registration, handlers per pattern in registration order
            across = [h for pat in sh for h in sh[pat]]
            if rest != across:
                fails.append(('dispatch/source-handlers-registration-order/across-patterns',
                              'event %d (source %s): source handlers ran as %r, registration order gives %r' % (idx, s, rest, across)))
                continue
            for pat, hs in sh.items():
                sub = [h for h in rest if h in hs]
                # a handler may be registered under several patterns: compare order of first occurrences
                if [h for h in sub if True][:0] or not is_subsequence_order(hs, rest):
                    fails.append(('dispatch/source-handlers-registration-order', 'event %d pattern %r: %r vs %r' % (idx, pat, hs, rest)))
                    break
    if pos != len(log):
        fails.append(('dispatch/extra-callbacks', 'unexpected callbacks after position %d: %r' % (pos, log[pos:pos + 4])))
    if res['total'] != ndelivered:
        fails.append(('counter/total', 'get_event_counter()=%d but %d events delivered' % (res['total'], ndelivered)))
    for t, n in res['per']:
        if n != delivered_by_type.get(t, 0):
            nont = sum(1 for o in case['doc'] if o[0] == 'O')
            fails.append(('counter/per-type/%s' % ('after-later-ontology-element' if nont > 1 else 'single-ontology'),
                          'get_event_type_counter(%r)=%d but %d delivered' % (t, n, delivered_by_type.get(t, 0))))
            break
    return fails


def is_subsequence_order(hs, rest):
    """every handler of hs occurs in rest, in an order consistent with hs (multiset aware)"""
    it = iter(rest)
    return all(any(h == r for r in it) for h in hs)


def case_term(case, res):
    regs = [C('RegType' if k == 'T' else 'RegSource', keys, h) for k, keys, h in case['regs']]
    doc = [C('Ont', o[1], o[2]) if o[0] == 'O' else C('Ev', o[1], o[2]) for o in case['doc']]
    tbl = [(p, s) for p in PATTERNS for s in SOURCES + ['/sx/'] if re.match(p, s)]
    log = [C('CbOnt', l[1], l[2]) if l[0] == 'O' else C('CbEv', l[1], l[2], l[3], l[4]) for l in res['log']]
    out = (log, res['err'], res['total'], [(t, n) for t, n in res['per']])
    return coq((regs, case['fallback'], doc, tbl, TYPES + ['tx'], Raw('(' + coq(out) + ' : outcome)')))


CASE_T = 'list regop * bool * list op * list (str * str) * list str * outcome'


def agree(variant):
    return ('fun c => match c with (regs, fb, doc, tbl, tq, out) => '
            'outcome_eqb (observe tq (run (table_match tbl) fb %s regs doc)) out end' % variant)


def replay(path):
    obj = json.load(open(path))
    if obj.get('kind') != 'failing-input':
        print('replay file names a broken obligation, no input to re-run:', obj.get('obligation'))
        return 0
    case = obj['input']
    case['regs'] = [tuple(r) for r in case['regs']]
    case['doc'] = [tuple(o) for o in case['doc']]
    res = run_impl(case)
    fails = oracle(case, res)
    print('input:', json.dumps(case))
    print('observed:', json.dumps(res))
    print('oracle failures:', fails)
    return 1 if fails else 0


def main(argv):
    if len(argv) > 1 and argv[0] == '--replay':
        return replay(argv[1])
    ck = Check(PID, ANCHORS)
    ck.trusted += ['Python re.match used to tabulate pattern/URI matches for the model (Section variable re_match)',
                   'lxml/libxml2 tokenising; event validation (events generated valid)']
    ck.assumptions += ['handlers are registered before parsing starts, or mid-stream under type names / source patterns that already have a handler', 'generated events are valid for their type',
                       'order between different source patterns is not asserted by the oracle (per-key order only)']
    ck.prove()
    n = ck.budget(1500, 30000)
    cases, results, terms = [], [], []
    seen = set()
    for i in range(n):
        case = gen_case(ck.rng, i)
        try:
            res = run_impl(case)
        except Exception as e:   # foreign exception escaping the parser: report as oracle failure
            ck.oracle_failures.append({'signature': 'foreign-exception/' + type(e).__name__, 'input': case, 'observed': repr(e)})
            continue
        if res['err'] >= 90:
            ck.dist('discarded:unmodelled-edxml-error')
            continue
        cases.append(case)
        results.append(res)
        terms.append(case_term(case, res))
        key = json.dumps([case['regs'], case['doc'], case['fallback']])
        multi = any(sum(1 for l in res['log'] if l[0] == 'E' and l[2] == k) >= 2 for k in range(res['total']))
        if key not in seen and (multi or sum(1 for o in case['doc'] if o[0] == 'O') > 1):
            ck.cov['distinct_nontrivial'] += 1
        seen.add(key)
        ck.dist('mode:' + case['mode'])
        ck.dist('events:%d' % min(8, sum(1 for o in case['doc'] if o[0] == 'E')))
        ck.dist('err:%d' % res['err'])
        ck.dist('regs:%d' % len(case['regs']))
        ck.sample({'input': case, 'observed': res})
        for clause, detail in oracle(case, res):
            ck.oracle_failures.append({'signature': clause, 'input': case, 'observed': res, 'expected': detail})
    # handlers registered mid-stream (between two top-level children, push parser): judged by the oracle only
    nlate = 0
    for i in range(ck.budget(250, 4000)):
        case = gen_case(ck.rng, i)
        if len(case['doc']) < 3 or not case['regs']:
            continue
        case['mode'] = 'pushb'
        at = ck.rng.randint(1, len(case['doc']) - 1)
        late = []
        hid = 50
        for _ in range(ck.rng.randint(1, 2)):
            # one more handler under keys that are registered already (a source pattern that is new mid-stream only takes effect with the
            # next ontology element, when the parser matches patterns against source URIs: not asserted here)
            kind, keys, _h = ck.rng.choice(case['regs'])
            late.append((kind, ck.rng.sample(list(keys), ck.rng.randint(1, len(keys))), hid))
            hid += 1
        case['late'] = [at, late]
        try:
            res = run_impl(case)
        except Exception as e:
            ck.oracle_failures.append({'signature': 'foreign-exception/' + type(e).__name__, 'input': case, 'observed': repr(e)})
            continue
        if res['err'] >= 90:
            continue
        nlate += 1
        for clause, detail in oracle(case, res):
            ck.oracle_failures.append({'signature': 'late-registration/' + clause, 'input': case, 'observed': res, 'expected': detail})
    ck.dist('late-registration-cases', nlate)
    ck.cov['evaluations'] = len(cases) + nlate
    ck.cov['rule'] = ('random registration sets x documents (1-12 top-level children, 0-3 ontology elements, undefined '
                      'types/sources 6%) x pull/push/push-bytewise; non-trivial = some event reaches >=2 handlers or the '
                      'document has >1 ontology element; distinct by (registrations, document, fallback)')
    bad_r, err_r = run_cases(PID, IMPORTS, CASE_T, terms, agree('Repaired'), tag='repaired')
    ck.cov['traces_validated_against_impl'] = len(terms)
    variant = 'Repaired'
    if bad_r or err_r:
        bad_f, err_f = run_cases(PID, IMPORTS, CASE_T, terms, agree('Faithful'), tag='faithful')
        if not bad_f and not err_f:
            variant = 'Faithful(pinned defects: handler list aliasing, counter reset)'
        else:
            variant = 'none'
            for i in bad_r[:10]:
                ck.corr_failures.append({'case': cases[i], 'impl': results[i], 'model': 'differs (Repaired%s)' % (
                    ' and Faithful' if i in bad_f else ' only')})
            for e in (err_r + err_f)[:3]:
                ck.corr_failures.append({'coq_error': e})
    ck.cov['variant_matched'] = variant
    ck.cov['disagreements_checked'] = len(bad_r)
    if variant != 'Repaired' and not ck.oracle_failures:
        # correspondence broke but the property oracle found nothing: reported by finish() as no-failing-input-found
        pass
    return ck.finish()


if __name__ == '__main__':
    sys.exit(main(sys.argv[1:]))
