"""C17 — transcoder mediators always emit one valid, complete EDXML stream."""
import copy, io, json, sys
from common.core import Check, C, Z, Nat, coq, run_cases, Raw, Some
import c03lib

PID = 'C17'
ANCHORS = ['edxml/transcode/mediator.py', 'edxml/transcode/transcoder.py', 'edxml/transcode/object/object_transcoder.py',
           'edxml/transcode/object/object_transcoder_mediator.py', 'edxml/transcode/xml/xml_transcoder.py', 'edxml/transcode/xml/xml_transcoder_mediator.py',
           'edxml/ontology/event_type_factory.py', 'edxml/writer.py']
IMPORTS = 'From EdxmlVerif Require Import Base.Prelude Transcode.Mediator.'

PMAP_A = {'name': 'name', 'count': 'count', 'tags': 'tags', 'nested.inner.value': 'inner', 'items.0.label': 'first-label', 'items.1': 'second', 'flag': 'flag',
          'status': 'status', 'alias': ['alias', 'name2'], 'meta.1.k': 'deep'}
EMPTY_A = {'status': ('none', '-'), 'tags': ('n/a',)}
PROP_TYPES = {'name': 'string:0:mc:u', 'count': 'number:int:signed', 'tags': 'string:0:mc:u', 'inner': 'string:0:mc:u', 'first-label': 'string:0:mc:u', 'second': 'string:0:mc:u',
              'flag': 'boolean', 'status': 'string:0:mc:u', 'alias': 'string:0:mc:u', 'name2': 'string:0:mc:u', 'deep': 'string:0:mc:u'}
MULTI = {'tags', 'count'}


def upper(value):
    yield value.upper() if isinstance(value, str) else value


def make_transcoders(normalize, drop, post=False, second=None, second_source=None):
    """second: None | 'after' | 'before' - the transcoder also yields an event of type rec.b (the record's name) for every record"""
    from edxml.transcode.object import ObjectTranscoder
    from edxml import EDXMLEvent

    class A(ObjectTranscoder):
        TYPES = ['rec.a', 'rec.b'] if second else ['rec.a']
        TYPE_MAP = {'a': 'rec.a'}
        PROPERTY_MAP = {'rec.a': PMAP_A}
        EMPTY_VALUES = EMPTY_A
        TYPE_PROPERTIES = dict({'rec.a': {p: 'ot-' + p for p in PROP_TYPES}}, **({'rec.b': {'name': 'ot-name'}} if second else {}))
        TYPE_OPTIONAL_PROPERTIES = {'rec.a': [p for p in PROP_TYPES if p != 'name']}
        TYPE_MULTI_VALUED_PROPERTIES = {'rec.a': sorted(MULTI)}
        TYPE_AUTO_REPAIR_NORMALIZE = {'rec.a': ['count', 'flag']} if normalize else {}
        TYPE_AUTO_REPAIR_DROP = {'rec.a': ['count']} if drop else {}
        TYPE_PROPERTY_POST_PROCESSORS = {'rec.a': {'alias': upper}} if post else {}

        def generate(self, record, record_selector, **kwargs):
            extra = EDXMLEvent({'name': [record['name']]} if isinstance(record.get('name'), str) and record['name'] else {}, 'rec.b')
            if second_source:
                extra.set_source(second_source)         # an event source the mediator never heard of
            if second == 'before':
                yield extra
            yield from super().generate(record, record_selector, **kwargs)
            if second == 'after':
                yield extra

        def create_object_types(self, ontology):
            from edxml.ontology import DataType
            for p, dt in PROP_TYPES.items():
                ontology.create_object_type('ot-' + p, data_type=dt)

    class F(ObjectTranscoder):
        TYPES = ['rec.fallback']
        TYPE_MAP = {None: 'rec.fallback'}
        PROPERTY_MAP = {'rec.fallback': {'name': 'name'}}
        TYPE_PROPERTIES = {'rec.fallback': {'name': 'ot-name'}}

        def create_object_types(self, ontology):
            if ontology.get_object_type('ot-name') is None:
                ontology.create_object_type('ot-name', data_type='string:0:mc:u')
    return A, F


def gen_record(rng):
    """a record and what it is about"""
    k = rng.randrange(10)
    rec = {'type': rng.choice(['a', 'a', 'a', 'a', 'a', 'zzz', None, '', 0])} if k else {}
    if rec.get('type') is None and 'type' in rec and rng.random() < 0.5:
        del rec['type']
    if rng.random() < 0.9:
        rec['name'] = rng.choice(['alice', 'bob', 'Ünï', 'x y', ''])
    if rng.random() < 0.6:
        rec['count'] = rng.choice([5, '7', [1, 2, '3'], ['1', 'broken', '3'], 'broken', [], 2, ' 12 ', True, None, [None, 4]])
    if rng.random() < 0.5:
        rec['tags'] = rng.choice([['t1', 't2'], 't1', [], ['n/a', 't3'], 'n/a', ['', 't4'], None, ['none']])
    if rng.random() < 0.5:
        rec['nested'] = rng.choice([{'inner': {'value': 'deep value'}}, {'inner': {}}, {'inner': None}, {}, None, {'inner': {'value': ''}}, 'scalar', {'inner': ['list']}])
    if rng.random() < 0.5:
        rec['items'] = rng.choice([[{'label': 'L0'}, 'second item'], [{'label': 'L0'}], [], [None, None], 'str', None, [{'nolabel': 1}, {'x': 1}], [['a']], {'0': {'label': 'dict key'}}])
    if rng.random() < 0.4:
        rec['flag'] = rng.choice([True, False, 'true', 'yes', None, 1])
    if rng.random() < 0.5:
        rec['status'] = rng.choice(['active', 'none', '-', '', 'n/a'])
    if rng.random() < 0.4:
        rec['alias'] = rng.choice(['al', 'none', '-', ['a1', 'a2'], 'n/a'])
    if rng.random() < 0.3:
        rec['meta'] = rng.choice([None, [None, {'k': 'v'}], [{'k': 'v0'}], 'ab', [1, None], {'1': {'k': 'dict'}}])
    return rec


def lookup(rec, selector):
    """the documented meaning of a dotted selector: dictionary keys and list positions; missing -> None"""
    cur = rec
    for i, part in enumerate(selector.split('.')):
        if isinstance(cur, dict):
            cur = cur.get(part)
        elif isinstance(cur, (list, str)) and part.lstrip('-').isdigit():
            try:
                cur = cur[int(part)]
            except IndexError:
                return None
        else:
            return None
        if cur is None:
            return None
    return cur


def expected_properties(rec, post=False):
    """property -> list of values as the property map and EMPTY_VALUES define them; post: the post-processor of `alias` (upper case)"""
    props = {}
    for selector, names in PMAP_A.items():
        v = lookup(rec, selector)
        if v is None:
            continue
        empty = [''] + list(EMPTY_A.get(selector, ()))
        if isinstance(v, list):
            vals = [x for x in v if x not in empty]
        elif isinstance(v, bool):
            vals = ['true' if v else 'false']
        else:
            vals = [v] if v not in empty else []
        for n in (names if isinstance(names, list) else [names]):
            props[n] = [x.upper() if isinstance(x, str) else x for x in vals] if (post and n == 'alias') else list(vals)
    return props


def coerce(v):
    """the implicit coercion of native values on the way into XML (to_edxml_object); None = no coercion exists"""
    if isinstance(v, str):
        return v
    if isinstance(v, bool):
        return 'true' if v else 'false'
    if isinstance(v, (int, float)):
        return str(v)
    return None


def spec_valid_event(props):
    """is the event (type rec.a) valid as it stands: values (after the implicit coercion of numbers) valid for their types, name present,
    single valued where required"""
    if not props.get('name'):
        return False
    for p, vals in props.items():
        if len(set(map(str, vals))) > 1 and p not in MULTI:
            return False
        for v in vals:
            if coerce(v) is None or c03lib.spec_valid(PROP_TYPES[p], coerce(v)) is not True:
                return False
    return True


def jv(v):
    if v is None:
        return C('JNull')
    if isinstance(v, bool):
        return C('JBool', v)
    if isinstance(v, int):
        return C('JInt', Z(v))
    if isinstance(v, str):
        return C('JStr', v)
    if isinstance(v, list):
        return C('JList', [jv(x) for x in v])
    if isinstance(v, dict):
        return C('JDict', [(k, jv(x)) for k, x in v.items()])
    raise TypeError(type(v))


TCONF = C('Build_tconf', [(sel.split('.'), names if isinstance(names, list) else [names]) for sel, names in PMAP_A.items()],
          [(sel.split('.'), list(vals)) for sel, vals in EMPTY_A.items()])


def generate_case(rec):
    """the properties ObjectTranscoder.generate builds for a record (before any writer), for the model comparison"""
    from edxml.transcode.object import ObjectTranscoder
    A, _ = make_transcoders(False, False)
    import edxml.transcode.object.object_transcoder as OT
    captured = {}
    real_event = OT.EDXMLEvent

    class Spy:
        def __init__(self, props, type_name):
            captured['props'] = {k: list(v) for k, v in props.items()}
    OT.EDXMLEvent = Spy
    try:
        list(A().generate(copy.deepcopy(rec), 'a'))
    finally:
        OT.EDXMLEvent = real_event
    return captured.get('props')


def parse_output(data):
    from edxml import EDXMLPullParser
    from edxml.error import EDXMLError
    items = []

    class P(EDXMLPullParser):
        def _parsed_ontology(self, o):
            super()._parsed_ontology(o)
            items.append(('ontology', sorted(o.get_event_source_uris()), sorted(o.get_event_type_names())))

        def _parsed_event(self, e):
            items.append(('event', e.get_type_name(), e.get_source_uri(), {k: sorted(v) for k, v in e.get_properties().items() if len(v)}))
    try:
        P().parse(io.BytesIO(data))
    except EDXMLError as ex:
        return items, '%s: %s' % (type(ex).__name__, ' '.join(str(ex).split())[-160:])
    except Exception as ex:
        return items, 'foreign %s: %s' % (type(ex).__name__, str(ex)[:160])
    return items, None


def scenario(ck, rng, terms, metas):
    from edxml.transcode.object import ObjectTranscoderMediator
    from edxml.error import EDXMLError
    cfg = {'normalize': rng.random() < 0.5, 'drop': rng.random() < 0.4, 'ignore_invalid': rng.random() < 0.5, 'fallback': rng.random() < 0.5,
           'to_file': rng.random() < 0.5, 'source_first': rng.random() < 0.8, 'post_processor': rng.random() < 0.4,
           'second_event': rng.choice([None, None, 'after', 'before']), 'second_event_source': rng.choice([None, None, '/never/registered/'])}
    if cfg['drop'] and rng.random() < 0.6:
        cfg['normalize'] = True          # otherwise: drop-only repair (invalid objects of `count` are dropped, nothing is normalised)
    A, F = make_transcoders(cfg['normalize'], cfg['drop'], cfg['post_processor'], cfg['second_event'], cfg['second_event_source'])

    class M(ObjectTranscoderMediator):
        TYPE_FIELD = 'type'
    out = io.BytesIO() if cfg['to_file'] else None
    m = M(out)
    m.register('a', A())
    if cfg['fallback']:
        m.register(None, F())
    if cfg['ignore_invalid']:
        m.ignore_invalid_events()
    history, chunks, ops = [], [], []
    sources = []
    if cfg['source_first']:
        m.add_event_source('/src/one/')
        sources.append('/src/one/')
        history.append(['add_event_source', '/src/one/'])
        ops.append(C('OSource', '/src/one/'))
    m.set_event_source('/src/one/' if cfg['source_first'] else '/undefined/')
    expected_events, stopped = [], None
    for i in range(rng.randint(1, 6)):
        if rng.random() < 0.2 and cfg['source_first']:
            uri = '/src/more-%d/' % i
            m.add_event_source(uri)
            sources.append(uri)
            history.append(['add_event_source', uri])
            ops.append(C('OSource', uri))
        rec = gen_record(rng)
        history.append(['process', rec])
        rtype = rec.get('type')
        routed = 'a' if rtype == 'a' else ('fallback' if cfg['fallback'] else None)
        try:
            r = m.process(copy.deepcopy(rec))
            chunks.append(r or b'')
            err = None
        except EDXMLError as ex:
            err = 'edxml'
        except Exception as ex:
            err = 'foreign %s: %s' % (type(ex).__name__, str(ex)[:120])
        ck.cov['evaluations'] += 1
        ck.dist('record:' + (routed or 'no-transcoder'))
        history[-1].append(err)
        # what this record should contribute
        if routed == 'a':
            props = expected_properties(rec, cfg['post_processor'])
            valid = spec_valid_event(props)
            kind = 'valid' if valid else 'needs-repair-or-invalid'
        elif routed == 'fallback':
            props = {'name': [rec['name']]} if rec.get('name') not in (None, '') else {}
            valid = bool(props)
            kind = 'valid' if valid else 'needs-repair-or-invalid'
        else:
            props, valid, kind = None, None, 'none'
        ck.dist('event:' + kind)
        if routed == 'a' and cfg['second_event']:
            # the record yields two events; whatever happens to one of them, the other is treated on its own merits
            pb = {'name': [rec['name']]} if isinstance(rec.get('name'), str) and rec['name'] else {}
            evl = [('a', props, valid), ('b', pb, bool(pb) and not cfg['second_event_source'])]
            if cfg['second_event'] == 'before':
                evl.reverse()
            ck.dist('record-with-two-events')
        else:
            evl = [(routed, props, valid)] if routed is not None else []
        expected_events.append((routed, evl, err))
        if err and err.startswith('foreign'):
            detail = 'unhashable-field-value' if 'unhashable' in err else 'other'
            ck.oracle_failures.append({'signature': 'process-raises/%s/%s' % (err.split(':')[0].split()[1], detail), 'input': {'config': cfg, 'history': history}, 'observed': err})
            return
        if err == 'edxml':
            stopped = i
            break
    try:
        tail = m.close() or b''
    except Exception as ex:
        ck.oracle_failures.append({'signature': 'close-raises/%s' % type(ex).__name__, 'input': {'config': cfg, 'history': history}, 'observed': str(ex)[:160]})
        return
    data = out.getvalue() if cfg['to_file'] else b''.join(chunks) + tail
    inp = {'config': cfg, 'history': history, 'output': data.decode('utf-8', 'replace')[-3000:]}
    items, perr = parse_output(data)
    if perr:
        ck.oracle_failures.append({'signature': 'output-not-a-valid-document/%s' % perr.split(':')[0], 'input': inp, 'observed': perr})
        return
    evs = [x for x in items if x[0] == 'event']
    # every event is preceded by an ontology that defines its type and source
    known_sources, known_types = set(), set()
    for it in items:
        if it[0] == 'ontology':
            known_sources, known_types = set(it[1]), set(it[2])
        elif it[2] not in known_sources or it[1] not in known_types:
            ck.oracle_failures.append({'signature': 'event-before-its-ontology', 'input': inp, 'observed': repr(it)[:200]})
            return
    # the events are the valid ones, in order; invalid ones are absent (skipped or the stream stopped there)
    j = 0
    for (routed, evl, err) in expected_events:
        for (what, props, valid) in evl:
            want = {k: sorted({coerce(x) if coerce(x) is not None else repr(x) for x in v}) for k, v in (props or {}).items() if v}
            etype = {'a': 'rec.a', 'b': 'rec.b'}.get(what, 'rec.fallback')
            if valid:
                # a valid event is written; process() can only have raised for a LATER event of the same record
                if err and all(v for _, _, v in evl):
                    ck.oracle_failures.append({'signature': 'valid-event-rejected', 'input': inp, 'observed': 'record gives the valid event %r; process raised' % want})
                    return
                if j >= len(evs) or evs[j][3] != want or evs[j][1] != etype:
                    ck.oracle_failures.append({'signature': 'valid-event-missing-or-changed', 'input': inp,
                                               'observed': 'expected event %s %r at position %d, output has %r' % (etype, want, j, evs[j][1:] if j < len(evs) else None)})
                    return
                j += 1
            elif what == 'a' and cfg['drop'] and not cfg['normalize'] and not err and props is not None and \
                    spec_valid_event({k: ([x for x in v if coerce(x) is not None and c03lib.spec_valid(PROP_TYPES[k], coerce(x)) is True] if k == 'count' else v)
                                      for k, v in props.items() if k != 'count' or any(coerce(x) is not None and c03lib.spec_valid(PROP_TYPES[k], coerce(x)) is True for x in v)}):
                # drop-only repair: the invalid objects of `count` are dropped, the rest of the event is valid -> it IS written (never skipped)
                kept = {k: v for k, v in want.items() if k != 'count'}
                goodc = sorted({coerce(x) for x in props.get('count', []) if coerce(x) is not None and c03lib.spec_valid(PROP_TYPES['count'], coerce(x)) is True})
                if goodc:
                    kept['count'] = goodc
                if j >= len(evs) or evs[j][3] != kept or evs[j][1] != etype:
                    ck.oracle_failures.append({'signature': 'repairable-event-missing-or-changed/drop-only', 'input': inp,
                                               'observed': 'expected the repaired event %r at position %d, output has %r' % (kept, j, evs[j][1:] if j < len(evs) else None)})
                    return
                j += 1
            else:
                # repaired (then present and valid by construction of the parser), skipped, or the point where process() raised
                repaired = False
                if j < len(evs):
                    got = evs[j][3]
                    # a repaired event keeps every valid value of the record fields and adds nothing that is not derived from them
                    keep = {k: [x for x in v if c03lib.spec_valid(PROP_TYPES.get(k, 'string:0:mc:u'), x) is True] for k, v in want.items()}
                    if all(set(keep.get(k, [])) <= set(got.get(k, [])) for k in keep) and set(got) <= set(want) | {'name'} and \
                            (cfg['normalize'] or cfg['drop']) and what == 'a' and evs[j][1] == 'rec.a' and got.get('name') == want.get('name'):
                        j += 1
                        repaired = True
                if err and not repaired:
                    break          # process() raised here: the remaining events of the record are not written
    if j != len(evs):
        ck.oracle_failures.append({'signature': 'unexpected-event-in-output', 'input': inp, 'observed': 'output holds %d events, %d accounted for' % (len(evs), j)})
        return
    ck.cov['distinct_nontrivial'] += 1
    # the mediator bookkeeping model: items of the output in order (ontology snapshots with their sources, events with their source)
    mops, ambiguous = [], False
    hi = iter(expected_events)
    for h in history:
        if h[0] == 'add_event_source':
            mops.append(C('OSource', h[1]))
        else:
            routed, evl, err = next(hi)
            if routed is None:
                mops.append(C('ORecord', C('EvNone'), ''))
            for what, props, valid in evl:
                if valid:
                    mops.append(C('ORecord', C('EvValid'), '/src/one/' if cfg['source_first'] else '/undefined/'))
                elif (cfg['normalize'] or cfg['drop']) and what == 'a':
                    ambiguous = True
                else:
                    mops.append(C('ORecord', C('EvInvalid'), '/src/one/' if cfg['source_first'] else '/undefined/'))
    if not ambiguous and stopped is None:
        mops.append(C('OClose'))
        order = ['/undefined/'] + sources if not cfg['source_first'] else sources
        obs = [C('MOnt', Nat(0), [u for u in order if u in it[1]]) if it[0] == 'ontology' else C('MEv', it[2]) for it in items]
        terms.append(coq((cfg['ignore_invalid'], mops, (obs, C('MOk')))))
        metas.append({'config': cfg, 'history': history})
    return


# ---- the XML mediator -------------------------------------------------------------------------------------------------
def xml_input(rng, n):
    """an XML document of n records <a> (with clutter elements in between) and what every record is about"""
    recs, parts = [], []
    for i in range(n):
        name = rng.choice(['alice', 'bob', 'x y', 'Ünï', ''])
        tags = rng.sample(['t1', 't2', 't3'], rng.randint(0, 2))
        alt = rng.sample(['u1', 'u2', 't1'], rng.randint(0, 2))
        num = rng.choice([None, '5', '-17', 'broken'])
        body = ('<n>%s</n>' % name if name or rng.random() < 0.5 else '') + ''.join('<t>%s</t>' % t for t in tags)
        if alt or rng.random() < 0.3:
            body += '<alt>%s</alt>' % ''.join('<t>%s</t>' % t for t in alt)
        parts.append('<a%s>%s</a>' % (' num="%s"' % num if num is not None else '', body))
        for _ in range(rng.choice([0, 0, 1, 3])):
            parts.append('<junk><deep><er/></deep></junk>')
        props = {}
        if name:
            props['name'] = [name]
        if tags or alt:
            props['tags'] = sorted(set(tags) | set(alt))
        if num is not None:
            props['num'] = [num]
        recs.append(props)
    return ('<root><records>%s</records></root>' % ''.join(parts)).encode('utf-8'), recs


def xml_scenario(ck, rng):
    """records of an XML document through XmlTranscoderMediator: every valid record yields its event (values of all XPath expressions
    that feed a property are united), invalid ones are skipped or stop the stream, the output is one valid document"""
    from edxml.transcode.xml import XmlTranscoderMediator, XmlTranscoder
    from edxml.transcode import NullTranscoder
    from edxml.error import EDXMLError
    from edxml.ontology import DataType

    class X(XmlTranscoder):
        TYPES = ['rec.x']
        TYPE_MAP = {'.': 'rec.x'}
        TYPE_PROPERTIES = {'rec.x': {'name': 'ot-s', 'tags': 'ot-s', 'num': 'ot-n'}}
        TYPE_OPTIONAL_PROPERTIES = {'rec.x': ['tags', 'num']}
        TYPE_MULTI_VALUED_PROPERTIES = {'rec.x': ['tags']}
        PROPERTY_MAP = {'rec.x': {'n': 'name', 't': 'tags', 'alt/t': 'tags', '@num': 'num'}}

        def create_object_types(self, ontology):
            ontology.create_object_type('ot-s')
            ontology.create_object_type('ot-n', data_type=DataType.int().get())
    cfg = {'ignore_invalid': rng.random() < 0.6, 'discard_junk': rng.random() < 0.5}
    data, recs = xml_input(rng, rng.randint(1, 8))
    inp = {'config': cfg, 'input': data.decode('utf-8')}
    out = io.BytesIO()
    err = None
    try:
        with XmlTranscoderMediator(out) as m:
            m.register('/root/records/a', X())
            if cfg['discard_junk']:
                m.register('/root/records/junk', NullTranscoder())
            if cfg['ignore_invalid']:
                m.ignore_invalid_events()
            m.add_event_source('/src/xml/')
            m.set_event_source('/src/xml/')
            m.parse(io.BytesIO(data))
    except EDXMLError:
        err = 'edxml'
    except Exception as ex:
        ck.oracle_failures.append({'signature': 'xml-mediator/raises/%s' % type(ex).__name__, 'input': inp, 'observed': str(ex)[:200]})
        return
    ck.cov['evaluations'] += 1
    ck.dist('xml-mediator:' + ('stopped' if err else 'completed'))
    items, perr = parse_output(out.getvalue())
    if perr:
        ck.oracle_failures.append({'signature': 'xml-mediator/output-not-a-valid-document/%s' % perr.split(':')[0], 'input': inp, 'observed': perr})
        return
    evs = [x[3] for x in items if x[0] == 'event']
    j = 0
    for props in recs:
        valid = bool(props.get('name')) and all(c03lib.spec_valid('number:int:signed', v) is True for v in props.get('num', []))
        if valid:
            if j >= len(evs) or evs[j] != {k: sorted(v) for k, v in props.items()}:
                if err and j >= len(evs):
                    break
                ck.oracle_failures.append({'signature': 'xml-mediator/valid-event-missing-or-changed', 'input': inp,
                                           'observed': 'expected event %r at position %d, output has %r' % (props, j, evs[j] if j < len(evs) else None)})
                return
            j += 1
        elif not cfg['ignore_invalid']:
            break          # the stream stops at the first invalid event
    if j != len(evs):
        ck.oracle_failures.append({'signature': 'xml-mediator/unexpected-event-in-output', 'input': inp, 'observed': 'output holds %d events, %d accounted for' % (len(evs), j)})
        return
    ck.cov['distinct_nontrivial'] += 1


def recovery_scenario(ck, rng):
    """histories around a refused record and around close(): a record that is refused (EDXML error) leaves the mediator usable - sources
    added afterwards reach the stream, later valid records are written; a source added after the last record is still written by close()"""
    from edxml.transcode.object import ObjectTranscoderMediator
    from edxml.error import EDXMLError
    A, F = make_transcoders(False, False)

    class M(ObjectTranscoderMediator):
        TYPE_FIELD = 'type'
    to_file = rng.random() < 0.5
    out = io.BytesIO() if to_file else None
    m = M(out)
    m.register('a', A())
    m.add_event_source('/src/one/')
    m.set_event_source('/src/one/')
    chunks, history, expected, sources = [], [], [], ['/src/one/']
    cur = '/src/one/'
    steps = rng.sample(['good', 'bad', 'source', 'good', 'bad', 'source', 'good'], rng.randint(3, 7)) + rng.choice([[], ['late-source']])
    for k, st in enumerate(steps):
        try:
            if st in ('source', 'late-source'):
                uri = '/src/n%d/' % k
                m.add_event_source(uri)
                sources.append(uri)
                if st == 'source':
                    m.set_event_source(uri)
                    cur = uri
                history.append(['add_event_source', uri, st])
            else:
                rec = {'type': 'a', 'name': 'n%d' % k}
                if st == 'bad':
                    rec['count'] = 'broken'
                history.append(['process', rec])
                try:
                    chunks.append(m.process(dict(rec)) or b'')
                    if st == 'bad':
                        ck.oracle_failures.append({'signature': 'recovery/invalid-event-accepted', 'input': {'history': history}, 'observed': 'process() returned'})
                        return
                    expected.append(({'name': [rec['name']]}, cur))
                except EDXMLError:
                    if st != 'bad':
                        ck.oracle_failures.append({'signature': 'recovery/valid-event-rejected-after-a-refused-record', 'input': {'history': history},
                                                   'observed': 'process() raised an EDXML error for a valid record'})
                        return
        except Exception as ex:
            ck.oracle_failures.append({'signature': 'recovery/raises/%s' % type(ex).__name__, 'input': {'history': history}, 'observed': str(ex)[:200]})
            return
    try:
        tail = m.close() or b''
    except Exception as ex:
        ck.oracle_failures.append({'signature': 'recovery/close-raises/%s' % type(ex).__name__, 'input': {'history': history}, 'observed': str(ex)[:200]})
        return
    data = out.getvalue() if to_file else b''.join(chunks) + tail
    ck.cov['evaluations'] += 1
    ck.dist('recovery-history')
    inp = {'history': history, 'output': data.decode('utf-8', 'replace')[-2500:]}
    items, perr = parse_output(data)
    if perr:
        ck.oracle_failures.append({'signature': 'recovery/output-not-a-valid-document/%s' % perr.split(':')[0], 'input': inp, 'observed': perr})
        return
    evs = [(x[3], x[2]) for x in items if x[0] == 'event']
    if evs != [({k: sorted(v) for k, v in p.items()}, src) for p, src in expected]:
        ck.oracle_failures.append({'signature': 'recovery/events-differ', 'input': inp, 'observed': 'output events %r, expected %r' % (evs, expected)})
        return
    onts = [x for x in items if x[0] == 'ontology']
    if not onts or set(onts[-1][1]) != set(sources):
        ck.oracle_failures.append({'signature': 'recovery/final-ontology-lacks-a-source', 'input': inp,
                                   'observed': 'sources in the last ontology element %r, added %r' % (onts[-1][1] if onts else None, sources)})


def replay(path):
    obj = json.load(open(path))
    if obj.get('kind') != 'failing-input':
        print('replay names a broken obligation:', obj.get('obligation'))
        return 0
    print(json.dumps(obj['input'], ensure_ascii=False, default=str)[:2500])
    print('observed at check time:', obj.get('observed'))
    return 1


def main(argv):
    import logging
    logging.disable(logging.CRITICAL)
    if len(argv) > 1 and argv[0] == '--replay':
        return replay(argv[1])
    ck = Check(PID, ANCHORS)
    ck.prove()
    rng = ck.rng
    terms, metas = [], []
    for i in range(ck.budget(250, 3000)):
        scenario(ck, rng, terms, metas)
    for i in range(ck.budget(120, 1500)):
        xml_scenario(ck, rng)
    for i in range(ck.budget(60, 600)):
        recovery_scenario(ck, rng)
    # ObjectTranscoder.generate against the model, record by record
    gterms, gmetas = [], []
    for i in range(ck.budget(600, 6000)):
        rec = gen_record(rng)
        rec['type'] = 'a'
        try:
            got = generate_case(rec)
        except Exception as e:
            ck.oracle_failures.append({'signature': 'generate-raises/%s' % type(e).__name__, 'input': {'record': rec}, 'observed': str(e)[:200]})
            continue
        gterms.append(coq((jv(rec), [(k, [jv(x) for x in v]) for k, v in got.items()])))
        gmetas.append({'record': rec, 'properties': {k: [repr(x) for x in v] for k, v in got.items()}})
    bad, errs = run_cases(PID, IMPORTS, 'jv * list (str * list jv)', gterms,
                          'fun c => props_eqb (generate tc (fst c)) (snd c)', shard=300, extra_defs='Definition tc : tconf := %s.' % coq(TCONF), tag='t2generate')
    for i in bad[:10]:
        ck.corr_failures.append({'case': gmetas[i], 'model': 'generate differs'})
    bad2, errs2 = run_cases(PID, IMPORTS, 'bool * list mop * (list mitem * mresult)', terms,
                            'fun c => match c with (ig, ops, obs) => let r := mrun ig m_init ops in list_eqb mitem_eqb (fst r) (fst obs) && '
                            'match snd r, snd obs with MOk, MOk | MRaised, MRaised => true | _, _ => false end end', shard=300, tag='t2mediator')
    for i in bad2[:10]:
        ck.corr_failures.append({'case': metas[i], 'model': 'mediator output items differ'})
    for e in (errs + errs2)[:3]:
        ck.corr_failures.append({'coq_error': e})
    ck.cov['traces_validated_against_impl'] = len(gterms) + len(terms)
    ck.cov['disagreements_checked'] = len(bad) + len(bad2)
    ck.trusted += ['the event outcome of each record (valid / invalid / none) fed to the mediator model is decided by the harness from the independent statement of the value spaces; '
                   'histories whose outcome depends on the automatic repair are compared by the oracle only',
                   'the writer (validation, repair) is represented in the mediator model by its verdict per event']
    ck.cov['exhaustive'] = False
    ck.cov['rule'] = ('histories of event source registrations (up front and mid-stream) and records (known / unknown / missing record type; nested, missing, empty, list, boolean, None '
                      'fields; values needing normalisation; unrepairable values; EMPTY_VALUES markers) through an ObjectTranscoderMediator in every combination of '
                      'ignore_invalid_events, auto-repair normalize / drop, fallback transcoder, output to a file object or returned bytes; the concatenated output re-parsed by a '
                      'validating parser and compared with the events the property map defines')
    return ck.finish()


if __name__ == '__main__':
    sys.exit(main(sys.argv[1:]))
