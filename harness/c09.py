"""C09 — version comparison of ontology definitions is a consistent order."""
import copy, itertools, json, sys
from common.core import Check, C, coq, run_cases, Raw
import ontolib as OL
from common import gen_doc as G
from translate import c09 as T1

PID = 'C09'
ANCHORS = ['edxml/ontology/ontology_element.py', 'edxml/ontology/object_type.py', 'edxml/ontology/concept.py',
           'edxml/ontology/event_source.py', 'edxml/ontology/event_type.py', 'edxml/ontology/event_property.py',
           'edxml/ontology/event_property_concept.py', 'edxml/ontology/event_property_relation.py',
           'edxml/ontology/event_type_parent.py', 'edxml/ontology/event_type_attachment.py', 'edxml/ontology/ontology.py',
           'edxml/ontology/data_type.py']
IMPORTS = 'From EdxmlVerif Require Import Base.Prelude Onto.Tree Onto.Kinds.'

# element selectors: kind -> (level, coq comparison, getter on SDK ontology, node builder on definition dict)
def _et(o):
    return next(e for e in o['event-types'] if e['name'] == 'ta')


def _p(o, n):
    return next((x for x in _et(o)['properties'] if x['name'] == n), None)


SELECT = {
    'objtype:o': (0, 'cmp_objtype', lambda O: O.get_object_type('o'), lambda o: OL.ot_node(OL._ot(o, 'o'))),
    'objtype:n': (0, 'cmp_objtype', lambda O: O.get_object_type('n'), lambda o: OL.ot_node(OL._ot(o, 'n'))),
    'objtype:g': (0, 'cmp_objtype', lambda O: O.get_object_type('g'), lambda o: OL.ot_node(OL._ot(o, 'g'))),
    'objtype:e': (0, 'cmp_objtype', lambda O: O.get_object_type('e'), lambda o: OL.ot_node(OL._ot(o, 'e'))),
    'concept:c': (0, 'cmp_concept', lambda O: O.get_concept('c'), lambda o: OL.concept_node(o['concepts'][0])),
    'source:/s/': (0, 'cmp_source', lambda O: O.get_event_source('/s/'), lambda o: OL.source_node(o['sources'][0])),
    'assoc:q.c': (0, '(cmp0 ks_assoc)', lambda O: O.get_event_type('ta')['q'].get_concept_associations().get('c'),
                  lambda o: OL.pc_node(_p(o, 'q')['concepts'][0], _et(o)['version']) if _p(o, 'q') and _p(o, 'q')['concepts'] else None),
    'prop:p': (1, 'cmp_prop', lambda O: O.get_event_type('ta').get('p'), lambda o: OL.prop_node(_p(o, 'p'), _et(o)['version'], o) if _p(o, 'p') else None),
    'prop:q': (1, 'cmp_prop', lambda O: O.get_event_type('ta').get('q'), lambda o: OL.prop_node(_p(o, 'q'), _et(o)['version'], o) if _p(o, 'q') else None),
    'rel:inter': (1, '(cmp_leaf1 ks_rel)', lambda O: O.get_event_type('ta').get_property_relations().get('ta:inter:p,q'),
                  lambda o: OL.leaf1(_et(o)['version'], list(_et(o)['relations'][0].items())) if _et(o)['relations'] and _et(o)['relations'][0]['type'] == 'inter' else None),
    'att:doc': (1, '(cmp_leaf1 ks_att)', lambda O: O.get_event_type('ta').get_attachments().get('doc'),
                lambda o: OL.leaf1(_et(o)['version'], [(k, v) for k, v in _et(o)['attachments'][0].items() if k != 'name'])
                if _et(o)['attachments'] and _et(o)['attachments'][0]['name'] == 'doc' else None),
    'parent': (1, '(cmp_leaf1 ks_parent)', lambda O: O.get_event_type('ta').get_parent(),
               lambda o: OL.leaf1(_et(o)['version'], OL.parent_attrs(_et(o)['parent'])) if _et(o)['parent'] else None),
    'etype:ta': (2, '(cmp_etype FIXED)', lambda O: O.get_event_type('ta'), lambda o: OL.et_node(_et(o), o)),
}
KIND_OF_EDIT = {'object-type': ['objtype:o', 'objtype:n', 'objtype:e', 'objtype:g'], 'concept': ['concept:c'], 'source': ['source:/s/'],
                'event-type': ['etype:ta'], 'property': ['prop:p', 'prop:q', 'etype:ta'], 'association': ['assoc:q.c', 'prop:q', 'etype:ta'],
                'relation': ['rel:inter', 'etype:ta'], 'attachment': ['att:doc', 'etype:ta'], 'parent': ['parent', 'etype:ta']}


def real_cmp(a, b):
    from edxml.error import EDXMLOntologyValidationError
    try:
        c = a.__cmp__(b)
    except EDXMLOntologyValidationError:
        return 3
    return {0: 0, -1: 1, 1: 2}[c]


def operators_consistent(a, b, c):
    from edxml.error import EDXMLOntologyValidationError
    out = []
    for name, f, want in (('==', lambda: a == b, c == 0), ('!=', lambda: a != b, c != 0), ('<', lambda: a < b, c == 1), ('>', lambda: a > b, c == 2)):
        try:
            r = f()
            if c == 3 or bool(r) != want:
                out.append('%s returned %r while __cmp__ gave %d' % (name, r, c))
        except EDXMLOntologyValidationError:
            if c != 3:
                out.append('%s raised while __cmp__ gave %d' % (name, c))
    return out


def build_variants(rng, budget):
    """list of (label, definition, touched kinds)"""
    base = OL.base_ontology()
    E = OL.edit_catalogue()
    variants = [('base', base, set(SELECT))]

    def touched(e):
        if e[0] == 'object-type':
            return {'objtype:' + e[1].split('.')[0]}
        return set(KIND_OF_EDIT[e[0]])
    for e in E:
        for bump in (None, 2, 3):
            variants.append(('%s@%s' % (e[1], bump or 1), OL.apply_edits(base, [e], bump), touched(e)))
    # compound edits / chains
    for _ in range(budget):
        es = rng.sample(E, 2)
        bump = rng.choice([2, 2, 3, None])
        try:
            variants.append((' & '.join(e[1] for e in es) + '@%s' % (bump or 1), OL.apply_edits(base, es, bump),
                             set(k for e in es for k in touched(e))))
        except (IndexError, KeyError, StopIteration):
            pass       # the two edits do not compose (one removes what the other edits)
    # directed compounds for whole-ontology comparison: two elements of one category, one validly upgraded, the other incompatible
    def two(label, f1, f2, kinds):
        for first_valid in (True, False):
            o = copy.deepcopy(base)
            a, b = f1(o), f2(o)
            good, bad = (a, b) if first_valid else (b, a)
            good['description'] = 'changed in a valid upgrade'
            good['version'] = 2
            bad['description'] = 'changed without a new version'
            variants.append(('%s/%s-valid-other-incompatible@mixed' % (label, 'first' if first_valid else 'second'), o, set(kinds)))
    for order in ('r:k2,p:k', 'p:k,r:k2'):
        variants.append(('ta.parent.property-map-order=%s@1' % order, OL.two_entry_parent(order), {'parent', 'etype:ta'}))
    two('two-object-types', lambda o: OL._ot(o, 'o'), lambda o: OL._ot(o, 'e'), ['objtype:o', 'objtype:e'])
    two('two-concepts', lambda o: o['concepts'][0], lambda o: o['concepts'][1], ['concept:c'])
    two('two-event-types', lambda o: next(e for e in o['event-types'] if e['name'] == 'parent'), _et, ['etype:ta'])
    # version bump only
    for kind, fn in (('objtype:o', lambda o: OL._ot(o, 'o')), ('concept:c', lambda o: o['concepts'][0]), ('source:/s/', lambda o: o['sources'][0]),
                     ('etype:ta', _et)):
        for v in (2, 3):
            o = copy.deepcopy(base)
            fn(o)['version'] = v
            variants.append(('bump-only:%s@%d' % (kind, v), o, {kind} | ({'prop:p', 'prop:q', 'rel:inter', 'att:doc', 'parent', 'assoc:q.c'} if kind == 'etype:ta' else set())))
    return variants


def replay(path):
    obj = json.load(open(path))
    if obj.get('kind') != 'failing-input':
        print('replay names a broken obligation:', obj.get('obligation'))
        return 0
    i = obj['input']
    A, B = OL.load_element(i['a']), OL.load_element(i['b'])
    g = SELECT[i['element']][2] if i['element'] in SELECT else (lambda O: O)
    a, b = g(A), g(B)
    print('cmp(a,b)=', real_cmp(a, b), 'cmp(b,a)=', real_cmp(b, a), 'observed:', obj.get('observed'))
    return 1


def main(argv):
    if len(argv) > 1 and argv[0] == '--replay':
        return replay(argv[1])
    from lxml import etree
    ck = Check(PID, ANCHORS)
    info, notes, changed = T1.generate()
    ck.notes += notes
    ck.cov['t1_extracted'] = {k: bool(v['plain'] is not None and v['attrs'] is not None) for k, v in info.items()}
    ck.trusted += ['T1 translator harness/translate/c09.py (ast of every __cmp__/__init__ -> Generated/C09_gen.v)',
                   'the restricted-attribute rules and child groups of Onto/Kinds.v are hand-written and correspondence-checked',
                   'validate() of both operands is assumed to pass (generated definitions are valid)']
    ck.assumptions += ['no ontology bricks are registered', 'definitions are compared for the same element name (other pairs raise ValueError by design)']
    ck.prove()
    rng = ck.rng
    variants = build_variants(rng, ck.budget(40, 600))
    loaded = []
    for label, d, kinds in variants:
        try:
            O = OL.load_element(d)
            O.validate()
        except Exception as e:
            ck.dist('variant-invalid')
            continue
        loaded.append((label, d, kinds, O, etree.tostring(O.generate_xml())))
    ck.cov['variants'] = len(loaded)
    terms = {0: [], 1: [], 2: []}
    metas = {0: [], 1: [], 2: []}
    defs = {0: {}, 1: {}, 2: {}}

    def defname(lvl, n):
        t = coq(n)
        if t not in defs[lvl]:
            defs[lvl][t] = 'nd%d_%d' % (lvl, len(defs[lvl]))
        return defs[lvl][t]
    results = {}
    seen = set()
    max_pairs = ck.budget(5000, 120000)
    fixed_flag = None
    for el, (lvl, cmpname, getter, nodef) in SELECT.items():
        cands = [(lab, d, O) for lab, d, kinds, O, _ in loaded if el in kinds or lab == 'base']
        items = []
        for lab, d, O in cands:
            try:
                r, n = getter(O), nodef(d)
            except Exception:
                r, n = None, None
            if r is not None and n is not None:
                items.append((lab, d, r, n))
        # always: every variant against the base (both orders) and against itself; the rest: sampled unordered pairs, both orders
        n_it = len(items)
        must = [(0, i) for i in range(n_it)] + [(i, 0) for i in range(1, n_it)] + [(i, i) for i in range(1, n_it)]
        rest = [(i, j) for i in range(1, n_it) for j in range(i + 1, n_it)]
        cap = max(100, (max_pairs // len(SELECT) - len(must)) // 2)
        if len(rest) > cap:
            rest = rng.sample(rest, cap)
        pairs = must + rest + [(j, i) for i, j in rest]
        for i, j in pairs:
            (la, da, ra, na), (lb, db, rb, nb) = items[i], items[j]
            c = real_cmp(ra, rb)
            results[(el, la, lb)] = c
            ck.cov['evaluations'] += 1
            ck.dist('kind:' + el.split(':')[0])
            ck.dist('result:%d' % c)
            key = (el, la, lb)
            if key not in seen and la != lb:
                ck.cov['distinct_nontrivial'] += 1
            seen.add(key)
            inp = {'element': el, 'a_label': la, 'b_label': lb, 'a': da, 'b': db}
            for msg in operators_consistent(ra, rb, c):
                ck.oracle_failures.append({'signature': 'operators/%s' % el.split(':')[0], 'input': inp, 'observed': msg})
            if i == j and c != 0:
                ck.oracle_failures.append({'signature': 'reflexive/%s' % el.split(':')[0], 'input': inp, 'observed': 'cmp(a,a)=%d' % c})
            if c == 0 and etree.tostring(ra.generate_xml()) != etree.tostring(rb.generate_xml()):
                ck.oracle_failures.append({'signature': 'equal-but-serialize-differently/%s/%s' % (el.split(':')[0], diff_label(la, lb)), 'input': inp,
                                           'observed': '%s vs %s compare equal' % (la, lb)})
            terms[lvl].append(coq((Raw(cmpname), Raw(defname(lvl, na)), Raw(defname(lvl, nb)), c)))
            metas[lvl].append(inp)
        # antisymmetry and composition on what was computed
        labs = [x[0] for x in items]
        for la in labs:
            for lb in labs:
                c1, c2 = results.get((el, la, lb)), results.get((el, lb, la))
                if c1 is None or c2 is None:
                    continue
                if (c1, c2) not in ((0, 0), (1, 2), (2, 1), (3, 3)):
                    ck.oracle_failures.append({'signature': 'antisymmetry/%s/%s' % (el.split(':')[0], diff_label(la, lb)),
                                               'input': {'element': el, 'a_label': la, 'b_label': lb,
                                                         'a': next(x[1] for x in items if x[0] == la), 'b': next(x[1] for x in items if x[0] == lb)},
                                               'observed': 'cmp(a,b)=%d cmp(b,a)=%d' % (c1, c2)})
        older = [(la, lb) for (e2, la, lb), c in results.items() if e2 == el and c == 1]
        by_first = {}
        for la, lb in older:
            by_first.setdefault(la, []).append(lb)
        ntr = 0
        for la, lbs in by_first.items():
            for lb in lbs:
                for lc in by_first.get(lb, []):
                    c3 = results.get((el, la, lc))
                    if c3 is None:
                        ia, ic = next(x for x in items if x[0] == la), next(x for x in items if x[0] == lc)
                        c3 = real_cmp(ia[2], ic[2])
                        ck.cov['evaluations'] += 1
                    ntr += 1
                    if c3 != 1:
                        ck.oracle_failures.append({'signature': 'composition/%s' % el.split(':')[0],
                                                   'input': {'element': el, 'a_label': la, 'b_label': lb, 'c_label': lc,
                                                             'a': next(x[1] for x in items if x[0] == la), 'b': next(x[1] for x in items if x[0] == lc)},
                                                   'observed': 'a<b and b<c but cmp(a,c)=%d' % c3})
        ck.dist('triples:' + el.split(':')[0], ntr)
    # whole ontologies: Ontology.__cmp__ must reject exactly when some pair of shared definitions is incompatible (whatever the order of
    # the definitions and whichever side is asked), and report equality exactly when both hold the same, equal definitions
    def shared_elements(A, B):
        for get in ('get_object_types', 'get_concepts', 'get_event_types', 'get_event_sources'):
            da, db = getattr(A, get)(), getattr(B, get)()
            yield set(da) == set(db), [(da[k], db[k]) for k in da if k in db]

    def ont_cmp(A, B):
        from edxml.error import EDXMLOntologyValidationError
        try:
            return 0 if A == B else 1
        except EDXMLOntologyValidationError:
            return 3
    directed = [x for x in loaded if '@mixed' in x[0]]
    others = [x for x in loaded if '@mixed' not in x[0]]
    pool = [loaded[0]] + directed + rng.sample(others[1:], min(len(others) - 1, ck.budget(25, 200)))
    for ia, (la, da, _, A, _) in enumerate(pool):
        for ib, (lb, db, _, B, _) in enumerate(pool):
            if ia != 0 and ib != 0 and '@mixed' not in la and '@mixed' not in lb and rng.random() < 0.7:
                continue
            exp_eq, exp_rej = True, False
            for same_names, pairs_ in shared_elements(A, B):
                exp_eq &= same_names
                for x, y in pairs_:
                    c = real_cmp(x, y)
                    exp_rej |= c == 3
                    exp_eq &= c == 0
            want = 3 if exp_rej else 0 if exp_eq else 1
            got = ont_cmp(A, B)
            ck.cov['evaluations'] += 1
            ck.dist('kind:ontology')
            if got != want:
                what = 'incompatible-accepted' if want == 3 else 'compatible-rejected' if got == 3 else 'equality'
                ck.oracle_failures.append({'signature': 'ontology/%s' % what, 'input': {'element': 'ontology', 'a_label': la, 'b_label': lb, 'a': da, 'b': db},
                                           'observed': 'Ontology comparison gives %d, the definitions it holds give %d (0 equal, 1 differ, 3 rejected)' % (got, want)})
    # a definition equals its own XML round trip (element by element and as a whole), from both sides
    from edxml.ontology import Ontology
    for label, d, kinds, O, xml_bytes in loaded:
        try:
            O2 = Ontology()
            O2.update(etree.fromstring(G.document([xml_bytes.decode('utf-8')]))[0])
        except Exception as e:
            ck.oracle_failures.append({'signature': 'round-trip/not-readable', 'input': {'element': 'ontology', 'a_label': label, 'b_label': label, 'a': d, 'b': d},
                                       'observed': 'the serialised definition cannot be read back: %r' % e})
            continue
        for el, (lvl, cmpname, getter, nodef) in list(SELECT.items()) + [('ontology', (None, None, lambda X: X, None))]:
            try:
                x, y = getter(O), getter(O2)
            except Exception:
                continue
            if x is None or y is None:
                continue
            c1, c2 = (real_cmp(x, y), real_cmp(y, x)) if el != 'ontology' else (ont_cmp(x, y), ont_cmp(y, x))
            ck.cov['evaluations'] += 2
            if (c1, c2) != (0, 0):
                ck.oracle_failures.append({'signature': 'round-trip/%s/%s' % (el.split(':')[0], diff_label(label, 'base')),
                                           'input': {'element': el, 'a_label': label, 'b_label': label + ' (read back from its XML)', 'a': d, 'b': d},
                                           'observed': 'cmp(definition, its XML round trip)=%d, reverse %d' % (c1, c2)})
                break
    # purity: comparing never modifies an operand
    for label, d, kinds, O, before in loaded:
        if etree.tostring(O.generate_xml()) != before:
            ck.oracle_failures.append({'signature': 'operand-modified', 'input': {'element': 'ontology', 'a_label': label, 'b_label': label, 'a': d, 'b': d},
                                       'observed': 'serialisation of %s changed after comparisons' % label})
    ck.sample({'variants': [l for l, *_ in loaded][:8], 'example_result': {str(k): v for k, v in list(results.items())[:5]}})
    import time as _t
    ck.cov['impl_seconds'] = round(_t.time() - ck.t0, 1)
    # correspondence with the model, first with the repaired rule for added attachments, then the pinned one
    variant = None
    CASE_T = {0: '(T0 -> T0 -> cmpres) * T0 * T0 * N', 1: '(T1 -> T1 -> cmpres) * T1 * T1 * N', 2: '(T2 -> T2 -> cmpres) * T2 * T2 * N'}
    AGREE = 'fun c => match c with (f, a, b, exp) => N.eqb (cmpres_code (f a b)) exp end'
    nbad = 0
    from common.core import compile_defs
    shared = {}
    for lvl in (0, 1, 2):
        text = '\n'.join('Definition %s : T%d := %s.' % (nm, lvl, t) for t, nm in defs[lvl].items())
        shared[lvl], out = compile_defs(PID, IMPORTS, text, tag='defs%d' % lvl)
        if shared[lvl] is None:
            ck.corr_failures.append({'coq_error': out[-1500:]})
    first_bad, first_err = [], []
    for lvl in (0, 1):
        bad, errs = run_cases(PID, IMPORTS, CASE_T[lvl], terms[lvl], AGREE, shard=400, tag='l%d' % lvl, defs=shared[lvl])
        first_bad += [(lvl, i) for i in bad]
        first_err += errs
    for flag, name in (('true', 'fixed'), ('false', 'pinned (adding an attachment keeps definitions equal)')):
        ts = [t.replace('FIXED', flag) for t in terms[2]]
        bad, errs = run_cases(PID, IMPORTS, CASE_T[2], ts, AGREE, shard=400, tag='l2' + flag, defs=shared[2])
        if not bad and not errs and not first_bad and not first_err:
            variant = name
            break
        if flag == 'true':
            bad2, err2 = [(2, i) for i in bad], errs
    if variant is None:
        first_bad += bad2
        first_err += err2
        for lvl, i in first_bad[:10]:
            m = metas[lvl][i]
            ck.corr_failures.append({'case': {'element': m['element'], 'a_label': m['a_label'], 'b_label': m['b_label']}, 'model': 'comparison result differs'})
        for e in first_err[:3]:
            ck.corr_failures.append({'coq_error': e})
        nbad = len(first_bad)
    ck.cov['variant_matched'] = variant or 'none'
    ck.cov['traces_validated_against_impl'] = sum(len(v) for v in terms.values())
    ck.cov['disagreements_checked'] = nbad
    ck.cov['rule'] = ('variants of one ontology: every single edit of the catalogue (%d edits over all element kinds) at the same version and with a '
                      'version bump, random compound edits / chains, version bumps only; per element ALL ordered pairs of relevant variants '
                      '(sampled above the budget) and all resulting triples a<b<c; non-trivial = two different variants' % len(OL.edit_catalogue()))
    return ck.finish()


def diff_label(la, lb):
    x = la if la != 'base' else lb
    return x.split('@')[0].split(' & ')[0]


if __name__ == '__main__':
    sys.exit(main(sys.argv[1:]))
