"""C01 — sticky hash is exactly the specified function of logical event identity."""
import base64, hashlib, io, itertools, json, sys
from common.core import Check, C, coq, run_cases, Raw, coq_build
from common import gen_doc as G
from translate import c01 as T1

PID = 'C01'
ANCHORS = ['edxml/event.py', 'edxml/ontology/event_type.py', 'edxml/ontology/event_property.py',
           'edxml/cli/edxml_hash.py', 'edxml/event_collection.py']
IMPORTS = 'From EdxmlVerif Require Import Base.Prelude Base.Bytes Event.Hash Event.Hash_proofs Generated.C01_gen.'
NAMES = ['ip', 'ip2', 'host', 'host-name', 'user', 'user.name', 'a', 'b', 'ip-2', 'a.b']
VALUES = ['x', 'y', 'x:y', 'a:b:c', '', 'ÿ', 'ÿÿ', 'é', '€', '\U0001f600', '\U0010ffff', 'z z', ' lead', 'trail ',
          '10.0.0.1', 'ip:1', 'A', 'a', 'Ā', '~', '\x7f', 'line\nbreak', ':', '::', 'xÿy', '7', '42', '-3']
STRATS = ['match', 'match', 'any', 'add', 'set']


def gen_case(rng):
    nprops = rng.choice([1, 2, 2, 3, 3, 4, 5])
    names = rng.sample(NAMES, nprops)
    props = []
    for n in names:
        merge = rng.choice(STRATS)
        props.append({'name': n, 'object_type': 'o', 'merge': merge, 'multivalued': rng.random() < 0.5, 'optional': True})
    values = {}
    for p in props:
        k = rng.choice([0, 1, 1, 1, 2, 3]) if p['multivalued'] else rng.choice([0, 1, 1, 1])
        vs = rng.sample([v for v in VALUES if v != ''], k)
        if vs:
            values[p['name']] = vs
    src = rng.choice(['/s/', '/src/a/', '/s-2/x-y/', '/s/b/'])
    typ = rng.choice(['ta', 'tb.sub', 't-c'])
    parents = [hashlib.sha1(b'p%d' % i).hexdigest() for i in range(rng.choice([0, 0, 1, 2]))]
    att = rng.random() < 0.3
    foreign = rng.random() < 0.3
    return {'props': props, 'values': values, 'src': src, 'typ': typ, 'parents': parents, 'att': att, 'foreign': foreign,
            'perm_seed': rng.randint(0, 10 ** 9)}


class Recorder:
    """public hash_function= argument: records the pre-image, returns its sha1 digest"""
    def __init__(self, log):
        self.log = log

    def __call__(self, data):
        self.log.append(bytes(data))
        return hashlib.sha1(data)


def build(case):
    """ontology + the three representations of the event (and a permuted variant)"""
    import random
    from edxml import EDXMLPullParser, EDXMLEvent, EventElement
    et = {'name': case['typ'], 'properties': case['props']}
    if case['att']:
        et['attachments'] = [{'name': 'att'}]
    ont = G.ontology_xml([('o', 'string:0:mc:u')], [et], [case['src']])
    props = [(n, v) for n, vs in case['values'].items() for v in vs]
    atts = [('att', 'id1', 'attachment text')] if case['att'] else None
    foreign = [('xmlns:f', 'http://f/'), ('f:k', 'v')] if case['foreign'] else None
    r = random.Random(case['perm_seed'])
    props2 = props[:]
    r.shuffle(props2)
    docs = [G.document([ont, G.event_xml(case['typ'], case['src'], p, atts, case['parents'], foreign)]) for p in (props, props2)]
    parsed = []
    onto = None
    for d in docs:
        got = []

        class P(EDXMLPullParser):
            def _parsed_event(self, e):
                got.append(e)
        p = P()
        p.parse(io.BytesIO(d))
        parsed.append(got[0])
        onto = p.get_ontology()
    etype = onto.get_event_type(case['typ'])
    attd = {'att': {'id1': 'attachment text'}} if case['att'] else None
    keys = list(case['values'])
    r.shuffle(keys)
    vals_perm = {k: list(reversed(case['values'][k])) for k in keys}
    plain = EDXMLEvent(case['values'], case['typ'], case['src'], case['parents'] or None, attd)
    plain2 = EDXMLEvent(vals_perm, case['typ'], case['src'], None, None)
    elem = EventElement(case['values'], case['typ'], case['src'], case['parents'] or None, attd)
    elem2 = EventElement.create_from_event(plain2)
    # objects given as different Python values with one string form (7 and '7'): one object
    mixed = {k: [x for v in vs for x in ([v, int(v)] if v.lstrip('-').isdigit() else [v])] for k, vs in case['values'].items()}
    reps_mixed = {'EDXMLEvent/objects-as-int-and-str': EDXMLEvent(mixed, case['typ'], case['src']),
                  'EventElement/objects-as-int-and-str': EventElement(mixed, case['typ'], case['src'])}
    reps = {'EDXMLEvent': plain, 'EDXMLEvent/permuted-no-parents-no-attachments': plain2, 'EventElement': elem,
            'EventElement/from-permuted': elem2, 'ParsedEvent': parsed[0], 'ParsedEvent/permuted-xml': parsed[1]}
    # the same logical event reached through public mutators (assignment, add, copy_properties_from, move_properties_from,
    # an object set taken from another event and extended afterwards), for each representation, and its write / parse round trip
    names = list(case['values'])
    first = {n: case['values'][n] for n in names[:len(names) // 2]}

    def parse_one(doc):
        got = []

        class P(EDXMLPullParser):
            def _parsed_event(self, e):
                got.append(e)
        P().parse(io.BytesIO(doc))
        return got[0]

    starts = {'EDXMLEvent': lambda: EDXMLEvent(first, case['typ'], case['src']),
              'EventElement': lambda: EventElement(first, case['typ'], case['src']),
              'ParsedEvent': lambda: parse_one(G.document([ont, G.event_xml(case['typ'], case['src'], [(n, v) for n, vs in first.items() for v in vs])]))}
    for kind, start in starts.items():
        ev = start()
        for i, n in enumerate(names[len(names) // 2:]):
            vs = case['values'][n]
            how = (case['perm_seed'] + i) % 5
            if how == 0:
                ev.properties[n] = list(vs)
            elif how == 1:
                for v in vs:
                    ev.properties[n].add(v)
            elif how == 2:
                ev.copy_properties_from(EDXMLEvent({'zz': list(vs)}, case['typ'], case['src']), {'zz': n})
            elif how == 3:
                ev.move_properties_from(EventElement({'zz': list(vs)}, case['typ'], case['src']), {'zz': n})
            else:
                other = EDXMLEvent({'zz': list(vs[:1])}, case['typ'], case['src'])
                ev.properties[n] = other.properties['zz']
                for v in vs[1:]:
                    ev.properties[n].add(v)
        reps[kind + '/built-by-mutators'] = ev
        if kind != 'EDXMLEvent':
            from edxml import EDXMLWriter
            buf = io.BytesIO()
            with EDXMLWriter(buf, validate=False) as w:
                w.add_ontology(onto)
                w.add_event(ev)
            reps['ParsedEvent/round-trip-of-built-' + kind] = parse_one(buf.getvalue())
    reps.update(reps_mixed)
    return etype, onto, reps


def spec_preimage(case):
    """independent statement of the hash input (Python), from the property text"""
    hashed = [p['name'] for p in case['props'] if p['merge'] == 'match']
    strings = sorted({('%s:%s' % (n, v)).encode('utf-8') for n, vs in case['values'].items() if n in hashed for v in vs})
    return case['src'].encode('utf-8') + b'\n' + case['typ'].encode('utf-8') + b'\n' + b'\xff\xff\xff\xff'.join(strings)


def run_impl(case):
    etype, onto, reps = build(case)
    out = {}
    for name, ev in reps.items():
        log = []
        digest = ev.compute_sticky_hash(etype, hash_function=Recorder(log))
        out[name] = {'pre': log[-1], 'sha1_via_arg': digest,
                     'default': ev.compute_sticky_hash(etype),
                     'sha256': ev.compute_sticky_hash(etype, hash_function=hashlib.sha256),
                     'b64': ev.compute_sticky_hash(etype, hash_function=hashlib.sha256, encoding='base64')}
    # observation points: EventCollection.create_dict_by_hash and the edxml-hash class
    from edxml.event_collection import EventCollection
    coll = EventCollection([reps['EDXMLEvent']])
    coll._ontology.update(onto)
    out['collection_keys'] = list(coll.create_dict_by_hash().keys())
    return out


def oracle(case, res):
    fails = []
    pre = spec_preimage(case)
    want = {'default': hashlib.sha1(pre).hexdigest(), 'sha256': hashlib.sha256(pre).hexdigest(),
            'b64': base64.encodebytes(hashlib.sha256(pre).digest()).decode()}
    for rep, r in res.items():
        if rep == 'collection_keys':
            if r != [want['default']]:
                fails.append(('hash/create_dict_by_hash', 'keys %r, expected %r' % (r, [want['default']])))
            continue
        kind = rep.split('/')[0]
        if r['pre'] != pre:
            fails.append(('preimage/%s/%s' % (kind, diff_component(case, r['pre'], pre)), 'representation %s: hash input %r, expected %r' % (rep, r['pre'], pre)))
            continue
        for k in ('default', 'sha256', 'b64'):
            if r[k] != want[k]:
                fails.append(('digest/%s/%s' % (k, kind), '%s: %r expected %r' % (rep, r[k], want[k])))
    return fails


def diff_component(case, got, want):
    g, w = got.split(b'\n', 2), want.split(b'\n', 2)
    if len(g) < 3:
        return 'layout'
    if g[0] != w[0]:
        return 'source'
    if g[1] != w[1]:
        return 'type'
    gs, ws = g[2].split(b'\xff\xff\xff\xff'), w[2].split(b'\xff\xff\xff\xff')
    if sorted(gs) == sorted(ws):
        return 'object-order'
    if set(gs) == set(ws):
        return 'duplicates'
    extra = set(gs) - set(ws)
    if extra and len(gs) == len(ws) + len(extra):
        return 'non-hashed-property-included'
    if set(gs) < set(ws):
        return 'hashed-object-missing'
    return 'object-strings'


# ---- hashed-property memo --------------------------------------------------
def gen_memo_case(rng):
    names = ['p', 'q', 'r']
    init = [(n, rng.random() < 0.5) for n in rng.sample(names, rng.randint(1, 2))]
    ops = []
    for _ in range(rng.randint(2, 10)):
        k = rng.random()
        if k < 0.4:
            ops.append(('get',))
        elif k < 0.75:
            ops.append(('set', rng.choice(names), rng.random() < 0.5))
        elif k < 0.85:
            ops.append(('add', rng.choice(names), rng.random() < 0.5))
        elif k < 0.92:
            ops.append(('del', rng.choice(names)))
        else:
            # public operations that only read the definitions: they must leave the hashed set alone
            ops.append(('read', rng.choice(RO_OPS)))
    if rng.random() < 0.5:
        ops.insert(rng.randrange(len(ops) + 1), ('read', rng.choice(RO_OPS)))
    ops.append(('get',))
    return {'init': init, 'ops': ops, 'child': rng.random() < 0.6}


RO_OPS = ['ontology.validate', 'ontology.generate_xml', 'event_type.validate', 'event_type.generate_relax_ng', 'event_type.__eq__',
          'ontology.__eq__', 'get_hashed_properties-copy-mutated', 'event_type.get_properties', 'child.validate']


def read_only(o, et, what):
    import copy
    if what == 'ontology.validate':
        o.validate()
    elif what == 'ontology.generate_xml':
        o.generate_xml()
    elif what == 'event_type.validate':
        et.validate()
    elif what == 'event_type.generate_relax_ng':
        et.generate_relax_ng(o)
    elif what == 'event_type.__eq__':
        et == et
    elif what == 'ontology.__eq__':
        o == o
    elif what == 'get_hashed_properties-copy-mutated':
        dict(et.get_hashed_properties()).clear()
    elif what == 'event_type.get_properties':
        list(et.get_properties().items())
    elif what == 'child.validate':
        if 'tb' in o.get_event_type_names():
            o.get_event_type('tb').validate()


def run_memo_impl(case):
    from edxml.ontology import Ontology
    from edxml import EDXMLEvent
    o = Ontology()
    o.create_object_type('o')
    et = o.create_event_type('ta')
    for n, m in case['init']:
        p = et.create_property(n, 'o').make_optional()
        if m:
            p.make_hashed()
    if case.get('child'):
        # ta is also the parent of another event type (the parent definition maps the hashed properties of ta)
        try:
            tb = o.create_event_type('tb')
            for n in ('p', 'q', 'r'):
                tb.create_property(n, 'o').make_optional()
            tb.make_child('part of', et.make_parent('contains', tb))
        except Exception:
            pass
    trace, hashes = [], []
    for op in case['ops']:
        try:
            if op[0] == 'read':
                try:
                    read_only(o, et, op[1])
                except Exception:
                    pass          # e.g. the ontology is not valid at this point of the history
            elif op[0] == 'get':
                trace.append(list(et.get_hashed_properties().keys()))
                ev = EDXMLEvent({n: ['v'] for n in et.get_properties()}, 'ta', '/s/')
                log = []
                ev.compute_sticky_hash(et, hash_function=Recorder(log))
                hashes.append(log[-1])
            elif op[0] == 'set':
                if op[1] in et.get_properties():
                    et.get_properties()[op[1]].set_merge_strategy('match' if op[2] else 'any')
            elif op[0] == 'add':
                if op[1] not in et.get_properties():
                    p = et.create_property(op[1], 'o').make_optional()
                    if op[2]:
                        p.make_hashed()
            elif op[0] == 'del':
                et.remove_property(op[1])
        except KeyError:
            pass
    return {'trace': trace, 'hashes': hashes}


def memo_oracle(case, res):
    """independent: replay property flags, expect fresh hashed set at every get"""
    props = dict(case['init'])
    order = [n for n, _ in case['init']]
    exp, fails = [], []
    for op in case['ops']:
        if op[0] == 'get':
            exp.append([n for n in order if props[n]])
        elif op[0] == 'set' and op[1] in props:
            props[op[1]] = op[2]
        elif op[0] == 'add' and op[1] not in props:
            props[op[1]] = op[2]
            order.append(op[1])
        elif op[0] == 'del' and op[1] in props:
            del props[op[1]]
            order.remove(op[1])
    for i, (g, e) in enumerate(zip(res['trace'], exp)):
        if sorted(g) != sorted(e):
            fails.append(('memo/stale-hashed-properties', 'get #%d: hashed %r expected %r' % (i, g, e)))
            break
        want = b'/s/\nta\n' + b'\xff\xff\xff\xff'.join(sorted(('%s:v' % n).encode() for n in e))
        if res['hashes'][i] != want:
            fails.append(('memo/hash-uses-stale-set', 'get #%d: hash input %r expected %r' % (i, res['hashes'][i], want)))
            break
    return fails


def memo_term(case, res):
    ops = []
    for op in case['ops']:
        if op[0] == 'get':
            ops.append(C('GetHashed'))
        elif op[0] == 'set':
            ops.append(C('SetMerge', op[1], op[2]))
        elif op[0] == 'add':
            ops.append(C('AddProp', op[1], op[2]))
        elif op[0] == 'del':
            ops.append(C('DelProp', op[1]))
        # 'read' operations are no operations of the model: they must not change anything
    return coq(([(n, m) for n, m in case['init']], ops, res['trace']))


CASE_T = 'list str * hevent * list (list N)'
AGREE = ('fun c => match c with (hashed, e, pres) => '
         'forallb (fun p => bytes_eqb (preimage gen_separator gen_objfmt gen_layout hashed e) p) pres end')
MEMO_T = 'list (str * bool) * list eop * list (list str)'
MEMO_AGREE = ('fun c => match c with (init, ops, tr) => '
              'list_eqb strs_eqb (erun true {| et_props := init; et_cache := None |} ops) tr end')


def replay(path):
    obj = json.load(open(path))
    if obj.get('kind') != 'failing-input':
        print('replay names a broken obligation:', obj.get('obligation'))
        return 0
    case = obj['input']
    if 'ops' in case:
        case['ops'] = [tuple(o) for o in case['ops']]
        case['init'] = [tuple(o) for o in case['init']]
        res = run_memo_impl(case)
        fails = memo_oracle(case, res)
    else:
        res = run_impl(case)
        fails = oracle(case, res)
    print('input:', json.dumps(case))
    print('oracle failures:', fails)
    return 1 if fails else 0


def main(argv):
    if len(argv) > 1 and argv[0] == '--replay':
        return replay(argv[1])
    ck = Check(PID, ANCHORS)
    consts, notes, changed = T1.generate()
    ck.notes += notes
    ck.cov['t1_extracted'] = bool(consts['extracted'])
    ck.cov['t1_literals'] = {k: repr(consts[k]) for k in ('separator', 'objfmt', 'layout', 'hashed_strategy')}
    ck.trusted += ['hashlib (SHA-1/SHA-256), codecs.encode; collision resistance is not provable',
                   'T1 translator harness/translate/c01.py (Python ast -> Generated/C01_gen.v)',
                   'lxml serialisation/parsing used to obtain ParsedEvent instances']
    ck.assumptions += ['"hash changes when identity changes" holds up to collisions of the hash function (injectivity of the pre-image is checked by the oracle on generated pairs, not proved)']
    ck.prove()
    n = ck.budget(600, 20000)
    terms, cases, seen = [], [], set()
    pre_by_identity = {}
    for i in range(n):
        case = gen_case(ck.rng)
        try:
            res = run_impl(case)
        except Exception as e:
            ck.oracle_failures.append({'signature': 'exception/' + type(e).__name__, 'input': case, 'observed': repr(e)})
            continue
        cases.append(case)
        hashed = [p['name'] for p in case['props'] if p['merge'] == 'match']
        ev = C('Build_hevent', case['src'], case['typ'], [(k, v) for k, v in case['values'].items()])
        pres = [r['pre'] for k, r in res.items() if k != 'collection_keys']
        terms.append(coq((hashed, ev, pres)))
        ck.cov['evaluations'] += len(pres)
        nh = sum(len(v) for k, v in case['values'].items() if k in hashed)
        key = (case['src'], case['typ'], tuple(sorted((k, tuple(sorted(v))) for k, v in case['values'].items())), tuple(sorted(hashed)))
        if key not in seen and nh >= 2:
            ck.cov['distinct_nontrivial'] += 1
        seen.add(key)
        ck.dist('hashed_objects:%d' % min(nh, 4))
        ck.dist('props:%d' % len(case['props']))
        ck.sample({'input': case, 'spec_preimage': repr(spec_preimage(case))})
        for sig, detail in oracle(case, res):
            ck.oracle_failures.append({'signature': sig, 'input': case, 'observed': detail})
        # injectivity on the generated population: different identity => different hash input
        ident = (case['src'], case['typ'], frozenset((k, v) for k, vs in case['values'].items() if k in hashed for v in vs))
        pre = res['EDXMLEvent']['pre']
        if pre in pre_by_identity and pre_by_identity[pre] != ident:
            ck.oracle_failures.append({'signature': 'identity-change-not-reflected', 'input': case,
                                       'observed': 'same hash input %r for identities %r and %r' % (pre, ident, pre_by_identity[pre])})
        pre_by_identity[pre] = ident
    bad, errs = run_cases(PID, IMPORTS, CASE_T, terms, AGREE, shard=100)
    for i in bad[:10]:
        ck.corr_failures.append({'case': cases[i], 'model': 'pre-image differs from implementation'})
    # memo
    m = ck.budget(400, 10000)
    mterms, mcases = [], []
    for i in range(m):
        case = gen_memo_case(ck.rng)
        res = run_memo_impl(case)
        mcases.append(case)
        mterms.append(memo_term(case, res))
        ck.cov['evaluations'] += 1
        ck.dist('memo_ops:%d' % min(len(case['ops']), 10))
        if any(o[0] == 'set' for o in case['ops']):
            ck.cov['distinct_nontrivial'] += 1 if json.dumps(case) not in seen else 0
            seen.add(json.dumps(case))
        for sig, detail in memo_oracle(case, res):
            ck.oracle_failures.append({'signature': sig, 'input': case, 'observed': detail})
    bad2, errs2 = run_cases(PID, IMPORTS, MEMO_T, mterms, MEMO_AGREE, shard=200, tag='memo')
    for i in bad2[:10]:
        ck.corr_failures.append({'case': mcases[i], 'model': 'get_hashed_properties trace differs'})
    for e in (errs + errs2)[:3]:
        ck.corr_failures.append({'coq_error': e})
    ck.cov['traces_validated_against_impl'] = len(terms) + len(mterms)
    ck.cov['disagreements_checked'] = len(bad) + len(bad2)
    ck.cov['rule'] = ('event types with 1-5 properties (names incl. prefix-related ip/ip2/host-name/user.name), any subset hashed, '
                      'single/multi-valued; values incl. non-ASCII, astral, U+00FF, ":" and LF; 6 representations/permutations per event; '
                      'plus operation sequences on the hashed-property memo; non-trivial = >=2 hashed objects (events) or a '
                      'strategy change (memo); distinct by logical content')
    return ck.finish()


if __name__ == '__main__':
    sys.exit(main(sys.argv[1:]))
