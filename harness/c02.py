"""C02 — writer output is always readable; write/parse round trips are lossless."""
import base64, copy, io, json, sys
from lxml import etree
from common.core import Check, C, Z, Nat, coq, run_cases, Raw, Some
from common import gen_doc as G
import ontolib as OL
import c08lib

PID = 'C02'
ANCHORS = ['edxml/writer.py', 'edxml/parser.py', 'edxml/filter.py', 'edxml/event.py', 'edxml/ontology/ontology.py', 'edxml/ontology/object_type.py',
           'edxml/ontology/event_property_concept.py', 'edxml/event_collection.py', 'edxml/cli/edxml_cat.py', 'edxml/cli/edxml_filter.py']
IMPORTS = 'From EdxmlVerif Require Import Base.Prelude Parse.XmlText.'
FOREIGN = '{http://foreign/ns}tag'


def base():
    b = OL.base_ontology()
    et = OL._et(b)
    et['properties'].append(OL.PROP('w', 'o', optional=True, multivalued=True))
    et['attachments'].append(OL.ATT('bin', encoding='base64', **{'media-type': 'application/octet-stream'}))
    return b


def upgrade(b, additions=True):
    """a valid upgrade of the base: a new optional property and attachment on ta (an upgrade of an existing definition only),
    optionally also a new object type, event type and source"""
    n = copy.deepcopy(b)
    et = OL._et(n)
    et['version'] = 2
    et['properties'].append(OL.PROP('x', 'o', optional=True))
    et['attachments'].append(OL.ATT('doc2'))
    if additions:
        n['object-types'].append(OL.OT('u', 'uuid'))
        n['event-types'].append(OL.ET('tb', [OL.PROP('id', 'u', merge='match')]))
        n['sources'].append(OL.SOURCE('/s2/'))
    return n


SPECIAL = ['\t', '\n', '\r', '\r\n', ' ', '  ', '&', '<', '>', '"', "'", ']]>', '&amp;', '&#13;', '<!--', '\x85', ' ', '�', '퟿', '', '\U00010000',
           '\U0010ffff', 'é', '€', '\xa0', '​', '́', 'a']


def tricky_string(rng):
    if rng.random() < 0.04:
        # longer than the writer's and lxml's internal buffers (elements of several kilobytes)
        return ''.join(rng.choice(SPECIAL + list('abc xyz')) for _ in range(40)) * rng.choice([120, 260])
    k = rng.randrange(8)
    if k == 0:
        return rng.choice(SPECIAL)
    if k == 1:
        return rng.choice([' ', '  ', '\t', '\n', '\r', ' \n ', '\r\n'])                  # only whitespace
    if k == 2:
        return rng.choice([' ', '\n', '\t', '\r']) + 'x' + rng.choice([' ', '\n', '\t', '\r'])      # leading / trailing
    return ''.join(rng.choice(SPECIAL + list('abc xyz')) for _ in range(rng.randint(1, 10)))


def gen_event(rng, upgraded):
    props = {'p': [tricky_string(rng)]}
    if rng.random() < 0.6:
        props['q'] = [str(rng.randint(-2 ** 31, 2 ** 31 - 1)) for _ in range(rng.randint(1, 3))]
    if rng.random() < 0.5:
        props['r'] = [rng.choice(['a', 'b'])]
    if rng.random() < 0.7:
        props['w'] = list({tricky_string(rng) for _ in range(rng.randint(1, 3))})
    if upgraded and rng.random() < 0.5:
        props['x'] = [tricky_string(rng)]
    atts = {}
    if rng.random() < 0.5:
        atts['doc'] = {rng.choice(['id1', 'a b', 'x"y', "it's", 'é']): tricky_string(rng) for _ in range(rng.randint(1, 2))}
    if rng.random() < 0.4:
        atts['bin'] = {'b%d' % i: base64.b64encode(bytes(rng.getrandbits(8) for _ in range(rng.randint(1, 20)))).decode() for i in range(rng.randint(1, 2))}
    if upgraded and rng.random() < 0.3:
        atts['doc2'] = {'id1': tricky_string(rng)}
    if rng.random() < 0.2 and atts.get('doc'):
        # two attachment names sharing one id
        atts.setdefault('bin', {})[next(iter(atts['doc']))] = base64.b64encode(b'same id').decode()
    parents = ['%040x' % rng.getrandbits(160) for _ in range(rng.randint(0, 2))]
    foreign = {}
    if rng.random() < 0.35:
        # foreign namespaces, also ones that merely START like the EDXML namespace
        for ns in rng.sample(['http://foreign/ns', 'http://edxml.org/edxml/ext', 'http://edxml.org/edxmlx', 'urn:x'], rng.randint(1, 2)):
            foreign['{%s}note' % ns] = tricky_string(rng).replace('\r', ' ')
    return {'type': 'ta', 'source': '/s/', 'props': props, 'atts': atts, 'parents': parents, 'foreign': foreign}


def build(kind, e):
    from edxml import EDXMLEvent, EventElement
    cls = EDXMLEvent if kind == 'EDXMLEvent' else EventElement
    ev = cls({k: list(v) for k, v in e['props'].items()}, e['type'], e['source'], list(e['parents']) or None,
             {n: dict(v) for n, v in e['atts'].items()} or None, dict(e['foreign']) or None)
    return ev


def observe(ev):
    return {'type': ev.get_type_name(), 'source': ev.get_source_uri(), 'props': {k: sorted(v) for k, v in ev.get_properties().items() if len(v)},
            'atts': {n: dict(v) for n, v in ev.get_attachments().items() if len(v)}, 'parents': sorted(ev.get_parent_hashes()),
            'foreign': dict(ev.get_foreign_attributes())}


def expected(e):
    return {'type': e['type'], 'source': e['source'], 'props': {k: sorted(set(v)) for k, v in e['props'].items() if v},
            'atts': {n: dict(v) for n, v in e['atts'].items() if v}, 'parents': sorted(set(e['parents'])), 'foreign': dict(e['foreign'])}


def parse_all(data, validate=True):
    """(items in order, error): items are ('ontology', canonical definition) / ('event', observation)"""
    from edxml import EDXMLPullParser
    from edxml.error import EDXMLError
    items = []

    class P(EDXMLPullParser):
        def _parsed_ontology(self, o):
            super()._parsed_ontology(o)
            items.append(('ontology', c08lib.semantic(o.generate_xml())))

        def _parsed_event(self, ev):
            items.append(('event', observe(ev)))
    try:
        P(validate=validate).parse(io.BytesIO(data))
    except EDXMLError as ex:
        return items, '%s: %s' % (type(ex).__name__, ' '.join(str(ex).split())[-200:])
    except Exception as ex:
        return items, 'foreign %s: %s' % (type(ex).__name__, str(ex)[:200])
    return items, None


class ChunkLog(io.BytesIO):
    """output of the writer that remembers the pieces it was written in"""
    def __init__(self):
        super().__init__()
        self.pieces = []

    def write(self, b):
        self.pieces.append(bytes(b))
        return super().write(b)


def push_parse(chunks, validate=True):
    from edxml import EDXMLPushParser
    from edxml.error import EDXMLError
    items = []

    class P(EDXMLPushParser):
        def _parsed_ontology(self, o):
            super()._parsed_ontology(o)
            items.append(('ontology', c08lib.semantic(o.generate_xml())))

        def _parsed_event(self, ev):
            items.append(('event', observe(ev)))
    try:
        p = P(validate=validate)
        for c in chunks:
            if c:
                p.feed(c)
        p.close()
    except EDXMLError as ex:
        return items, '%s: %s' % (type(ex).__name__, ' '.join(str(ex).split())[-200:])
    except Exception as ex:
        return items, 'foreign %s: %s' % (type(ex).__name__, str(ex)[:200])
    return items, None


def run_filter(data, push=False):
    from edxml.filter import EDXMLPullFilter, EDXMLPushFilter
    out = io.BytesIO()
    try:
        if push:
            with EDXMLPushFilter(out) as f:
                f.feed(data[:len(data) // 2])
                f.feed(data[len(data) // 2:])
        else:
            with EDXMLPullFilter(out) as f:
                f.parse(io.BytesIO(data))
    except Exception as ex:
        return None, '%s: %s' % (type(ex).__name__, ' '.join(str(ex).split())[-200:])
    return out.getvalue(), None


def scenario(ck, rng, idx):
    """one history: ontology, events, (upgrade, more events) through a validating writer; then the property"""
    from edxml import EDXMLWriter
    from edxml.error import EDXMLError
    B = base()
    U = upgrade(B, additions=rng.random() < 0.5)
    pretty = rng.random() < 0.5
    plan = []
    out = ChunkLog()
    ops = ['O'] + ['E'] * rng.randint(1, 4) + (['U'] + ['A'] * rng.randint(0, 2) + ['E'] * rng.randint(1, 4) if rng.random() < 0.6 else [])
    upgraded = False
    w = EDXMLWriter(out, validate=True, pretty_print=pretty)
    written, history = [], []
    from edxml import EDXMLPullParser
    for op in ops:
        if op in 'OUA':
            if op == 'A':
                # one more ontology element right after the previous one: the upgrade plus another source
                U = copy.deepcopy(U)
                U['sources'].append(OL.SOURCE('/more%d/' % len(U['sources'])))
            d = B if op == 'O' else U
            upgraded = op != 'O'
            w.add_ontology(OL.load_element(d))
            history.append(['ontology', {'O': 'base', 'U': 'upgrade', 'A': 'upgrade-and-one-more-source'}[op]])
            written.append(('ontology', None))
        else:
            e = gen_event(rng, upgraded)
            kind = rng.choice(['EDXMLEvent', 'EventElement', 'ParsedEvent'])
            history.append(['event', kind, e])
            try:
                if kind == 'ParsedEvent':
                    doc = G.document([OL.onto_xml(U if upgraded else B)], extra_ns='')
                    tmp = io.BytesIO()
                    w2 = EDXMLWriter(tmp, validate=False)
                    w2.add_ontology(OL.load_element(U if upgraded else B))
                    w2.add_event(build('EDXMLEvent', e))
                    w2.close()
                    got = []

                    class P(EDXMLPullParser):
                        def _parsed_event(self, ev):
                            got.append(ev)
                    P(validate=False).parse(io.BytesIO(tmp.getvalue()))
                    ev = got[0]
                else:
                    ev = build(kind, e)
                w.add_event(ev)
                written.append(('event', expected(e)))
                ck.dist('event-class:' + kind)
                if kind != 'ParsedEvent' and rng.random() < 0.25:
                    # the same event object, changed in place after it was written, and written once more
                    extra = 'again %d' % len(written)
                    how = rng.randrange(3)
                    if how == 0:
                        ev['w'].add(extra)
                    elif how == 1:
                        from edxml import EDXMLEvent as _E
                        ev.copy_properties_from(_E({'zz': [extra]}, e['type'], e['source']), {'zz': 'w'})
                    else:
                        ev.properties['w'].add(extra)
                    e2 = copy.deepcopy(e)
                    e2['props'].setdefault('w', [])
                    e2['props']['w'] = list(e2['props']['w']) + [extra]
                    history.append(['event-written-again-after-in-place-change', kind, e2])
                    w.add_event(ev)
                    written.append(('event', expected(e2)))
                    ck.dist('event-written-again')
            except EDXMLError as ex:
                ck.dist('writer-rejects-event')
                history[-1].append('rejected: ' + ' '.join(str(ex).split())[-120:])
            except Exception as ex:
                ck.oracle_failures.append({'signature': 'writer-raises/%s/%s' % (kind, type(ex).__name__), 'input': {'history': history, 'pretty_print': pretty},
                                           'observed': '%s: %s' % (type(ex).__name__, str(ex)[:200])})
                return
    w.close()
    data = out.getvalue()
    inp = {'history': history, 'pretty_print': pretty, 'document': data.decode('utf-8', 'replace')}
    ck.cov['evaluations'] += 1
    items, err = parse_all(data)
    if err:
        ck.oracle_failures.append({'signature': 'written-document-not-readable/%s' % err.split(':')[0], 'input': inp, 'observed': err})
        return
    evs_w = [x for k, x in written if k == 'event']
    evs_p = [x for k, x in items if k == 'event']
    if len(evs_w) != len(evs_p):
        ck.oracle_failures.append({'signature': 'event-count-differs', 'input': inp, 'observed': 'written %d, parsed %d' % (len(evs_w), len(evs_p))})
        return
    for i, (a, b) in enumerate(zip(evs_w, evs_p)):
        if a != b:
            field = next(k for k in a if a[k] != b[k])
            ck.oracle_failures.append({'signature': 'event-changed/%s' % field, 'input': inp,
                                       'observed': 'event %d: %s written %r, parsed %r' % (i, field, a[field], b[field])})
            return
    # a validating push parser reading the document in the pieces the writer produced, and in random pieces
    cuts = sorted(rng.sample(range(1, len(data)), min(len(data) - 1, rng.randint(1, 6))))
    for how, chunks in (('writer-pieces', out.pieces), ('random-pieces', [data[a:b] for a, b in zip([0] + cuts, cuts + [len(data)])])):
        items_p, err = push_parse(chunks)
        if err or items_p != items:
            # known defect (C06): a piece ends between a white-space-only value and its end tag. Is that the only reason?
            import re as _re
            pos, merged, cur, blank = 0, [], b'', False
            for c in chunks:
                pos += len(c)
                cur += c
                if _re.search(rb'>[ \t\r\n]+<$', data[:pos]) and data[pos:pos + 1] == b'/':
                    blank = True
                    continue
                merged.append(cur)
                cur = b''
            merged.append(cur)
            if blank:
                items_m, err_m = push_parse(merged)
                if not err_m and items_m == items:
                    ck.oracle_failures.append({'signature': 'push-parser/blank-value-cut-before-end-tag', 'input': dict(inp, chunk_lengths=[len(c) for c in chunks]),
                                               'observed': err or 'items differ from the pull parse of the same document'})
                    return
            ck.oracle_failures.append({'signature': 'push-parser-%s/%s' % ('rejects' if err else 'differs', how),
                                       'input': dict(inp, chunk_lengths=[len(c) for c in chunks]),
                                       'observed': err or 'items differ from the pull parse of the same document'})
            return
    # order of ontology / event items
    if [k for k, _ in items] != [k for k, _ in written]:
        ck.oracle_failures.append({'signature': 'order-changed', 'input': inp, 'observed': '%r vs %r' % ([k for k, _ in written], [k for k, _ in items])})
        return
    # pass-through filter: same content; filtering again reproduces the bytes
    f1, err = run_filter(data, push=rng.random() < 0.3)
    if err:
        ck.oracle_failures.append({'signature': 'filter-rejects-readable-document/%s' % err.split(':')[0], 'input': inp, 'observed': err})
        return
    items1, err = parse_all(f1)
    if err or items1 != items:
        ck.oracle_failures.append({'signature': 'filter-changes-content', 'input': inp, 'observed': err or 'items differ after the pass-through filter'})
        return
    f2, err = run_filter(f1)
    if err or f2 != f1:
        ck.oracle_failures.append({'signature': 'filter-not-idempotent', 'input': inp, 'observed': err or 'second pass differs from the first (%d vs %d bytes)' % (len(f2), len(f1))})
        return
    ck.cov['distinct_nontrivial'] += 1


def rich_ontology_round_trip(ck, rng):
    """any ontology the SDK validates can be written by a validating writer and read back equal (the C08 generator supplies the ontologies)"""
    from edxml import EDXMLWriter
    text = c08lib.gen_ontology(rng)
    doc = c08lib.wrap(text)
    items, err = parse_all(doc)
    if err:
        ck.dist('rich-ontology:not-accepted')
        return
    f1, err = run_filter(doc)
    ck.cov['evaluations'] += 1
    if err:
        ck.oracle_failures.append({'signature': 'filter-rejects-readable-document/%s' % err.split(':')[0], 'input': {'document': doc.decode('utf-8')}, 'observed': err})
        return
    items1, err = parse_all(f1)
    if err or items1 != items:
        d = err or c08lib.diff(items[0][1], items1[0][1])
        ck.oracle_failures.append({'signature': 'filter-changes-content', 'input': {'document': doc.decode('utf-8')}, 'observed': str(d)[:300]})
        return
    f2, err = run_filter(f1)
    if err or f2 != f1:
        ck.oracle_failures.append({'signature': 'filter-not-idempotent', 'input': {'document': doc.decode('utf-8')}, 'observed': err or 'second pass differs'})
    ck.dist('rich-ontology:round-trip')


def text_cases(rng, n):
    """(direction, attribute?, input string, what lxml produces: string or None for a syntax error)"""
    out = []
    pool = SPECIAL + list('ab ;#&x') + ['&lt;', '&gt;', '&quot;', '&apos;', '&#10;', '&#xA;', '&#x0d;', '&#9;', '&#65;', '&#x1F600;', '&#0;', '&#xD800;', '&#xFFFE;', '&foo;', '&', '&#;', '&#x;',
                                        '&#12a;', '<', '"', '&amp;amp;', '&#38;#38;']
    for _ in range(n):
        s = ''.join(rng.choice(SPECIAL + list('ab ')) for _ in range(rng.randint(0, 8)))
        el = etree.Element('a')
        el.text = s
        raw = etree.tostring(el, encoding='utf-8').decode('utf-8')
        out.append(('write', False, s, raw[3:-4] if raw != '<a/>' else ''))
        el = etree.Element('a')
        el.set('k', s)
        raw = etree.tostring(el, encoding='utf-8').decode('utf-8')
        out.append(('write', True, s, raw[len('<a k="'):-len('"/>')]))
        r = ''.join(rng.choice(pool) for _ in range(rng.randint(0, 6)))
        if ']]>' in r:
            continue
        for attr in (False, True):
            doc = ('<a k="%s"/>' % r if attr else '<a>%s</a>' % r).encode('utf-8')
            try:
                e = etree.fromstring(doc)
                got = e.get('k') if attr else (e.text or '')
                if not attr and len(e):
                    got = None
            except etree.XMLSyntaxError:
                got = None
            out.append(('read', attr, r, got))
    return out


def replay(path):
    obj = json.load(open(path))
    if obj.get('kind') != 'failing-input':
        print('replay names a broken obligation:', obj.get('obligation'))
        return 0
    print(json.dumps(obj['input'], ensure_ascii=False)[:2000])
    print('observed at check time:', obj.get('observed'))
    return 1


def main(argv):
    import logging
    logging.disable(logging.CRITICAL)
    if len(argv) > 1 and argv[0] == '--replay':
        return replay(argv[1])
    ck = Check(PID, ANCHORS)
    ck.prove()
    rng = ck.rng
    for i in range(ck.budget(150, 2000)):
        scenario(ck, rng, i)
    for i in range(ck.budget(60, 800)):
        rich_ontology_round_trip(ck, rng)
    terms, metas = [], []
    for direction, attr, s, got in text_cases(rng, ck.budget(700, 6000)):
        terms.append(coq((direction == 'write', attr, s, Some(got) if got is not None else None)))
        metas.append({'direction': direction, 'attribute': attr, 'input': s, 'lxml': got})
        ck.dist('text-%s:%s' % (direction, 'error' if got is None else 'ok'))
    agree = ('fun c => match c with (w, attr, s, got) => if w then ostr_eqb (Some (if attr then esc_attr s else esc_text s)) got '
             'else ostr_eqb (if attr then read_attr s else read_text s) got end')
    bad, errs = run_cases(PID, IMPORTS, 'bool * bool * str * option str', terms, agree, shard=500)
    for i in bad[:10]:
        ck.corr_failures.append({'case': metas[i], 'model': 'escaping / reading of the character model differs from lxml'})
    for e in errs[:3]:
        ck.corr_failures.append({'coq_error': e})
    ck.cov['traces_validated_against_impl'] = len(terms)
    ck.cov['disagreements_checked'] = len(bad)
    ck.trusted += ['Parse/XmlText.v models lxml / libxml2 (escaping on serialisation; line end, attribute value and reference handling on reading); validated by correspondence only',
                   'the element structure of events and ontologies (children order, sets of objects) is covered by the oracle and by C07 / C08, not by this model']
    ck.cov['exhaustive'] = False
    ck.cov['rule'] = ('histories ontology, events, [upgrade, events] through a validating EDXMLWriter (pretty printed or not; EDXMLEvent / EventElement / ParsedEvent inputs) with object '
                      'values, attachment ids / contents and foreign attributes drawn from every class of legal XML characters (TAB, LF, CR, CRLF, only / leading / trailing '
                      'whitespace, markup characters, character references as text, NEL, LS, BMP edges, astral), multi-valued sets, shared attachment ids, parents; parsed back by a '
                      'validating parser and compared item by item; pass-through filters (pull and push) compared for content and byte-idempotence; plus generated rich ontologies')
    return ck.finish()


if __name__ == '__main__':
    sys.exit(main(sys.argv[1:]))
