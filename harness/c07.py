"""C07 — event representations are interchangeable and stay coherent under mutation."""
import itertools, json, random, sys
from common.core import Check, C, coq, run_cases, Raw, Nat
import c07lib as L

PID = 'C07'
ANCHORS = ['edxml/event.py']
IMPORTS = 'From EdxmlVerif Require Import Base.Prelude Base.Bytes Event.Repr Event.Repr_obs.'
REPS = ('EDXMLEvent', 'EventElement', 'ParsedEvent')


def op_term(op, extra=None):
    k = op[0]
    if k == 'setitem':
        return C('SetItem', op[1], list(op[2]))
    if k == 'delitem':
        return C('DelItem', op[1])
    if k == 'obj_add':
        return C('ObjAdd', op[1], op[2])
    if k == 'obj_remove':
        return C('ObjRemove', op[1], op[2])
    if k == 'obj_discard':
        return C('ObjDiscard', op[1], op[2])
    if k == 'obj_pop':
        return C('ObjPop', op[1], extra if extra is not None else '')
    if k == 'obj_clear':
        return C('ObjClear', op[1])
    if k == 'obj_update':
        return C('ObjUpdate', op[1], list(op[2]))
    if k == 'props_setitem':
        return C('PropsSetItem', op[1], list(op[2]))
    if k == 'props_delitem':
        return C('PropsDelItem', op[1])
    if k == 'set_properties':
        return C('SetProperties', [(p, list(v)) for p, v in op[1].items()])
    if k == 'set_attachment':
        v = op[2]
        if v is None:
            return C('SetAttachment', op[1], Raw('None'))
        d = {L.sha(v): v} if isinstance(v, str) else {L.sha(x): x for x in v} if isinstance(v, list) else v
        return C('SetAttachment', op[1], C('Some', [(i, x) for i, x in d.items()]))
    if k == 'att_setvalue':
        return C('AttSetValue', op[1], op[2], op[3])
    if k == 'att_delvalue':
        return C('AttDelValue', op[1], op[2])
    if k == 'del_attachment':
        return C('DelAttachment', op[1])
    if k == 'set_parents':
        return C('SetParents', list(op[1]))
    if k == 'add_parents':
        return C('AddParents', list(op[1]))
    if k == 'set_type':
        return C('SetType', op[1])
    if k == 'set_source':
        return C('SetSource', op[1])
    if k == 'set_foreign':
        return C('SetForeign', [(a, b) for a, b in op[1].items()])
    if k == 'flush':
        return C('Flush')
    raise ValueError(k)


def all_ids(init, hist):
    ids = set(L.IDS)
    for d in init['atts'].values():
        ids |= set(d)
    for _, op in hist:
        if op[0] == 'set_attachment' and op[2] is not None:
            v = op[2]
            ids |= {L.sha(v)} if isinstance(v, str) else {L.sha(x) for x in v} if isinstance(v, list) else set(v)
    return sorted(ids)


def obs_term(st, ids):
    """(props per PROPS, atts per ATTS x ids, parents, type, source, foreign per FKEYS)"""
    return ([list(st['props'].get(p, [])) for p in L.PROPS],
            [[(C('Some', st['atts'].get(a, {}).get(i)) if i in st['atts'].get(a, {}) else None) for i in ids] for a in L.ATTS],
            list(st['parents']), st['type'], st['source'],
            [(C('Some', st['foreign'][k]) if k in st['foreign'] else None) for k in L.FKEYS])


def run_history(rep, init, hist):
    """hist: list of (target, op) with op possibly ('copy',).  Returns per object final (view, xml) and raise flags,
    and the oracle's failures."""
    objs = {'orig': (L.make(rep, init), L.Ref(init['type'], init['source'], init['props'], init['atts'], init['parents'], init['foreign']))}
    order = ['orig']
    fails, flags, extras = [], [], []
    for step, (tgt, op) in enumerate(hist):
        if op[0] == 'copy':
            ev, ref = objs[tgt]
            name = 'copy%d' % len(order)
            objs[name] = (ev.copy(), ref.clone())
            order.append(name)
            flags.append(True)
            extras.append(None)
        else:
            ev, ref = objs[tgt]
            exc, extra = L.apply_impl(ev, op)
            rexc = ref.apply(op, extra)
            flags.append(exc is None)
            extras.append(extra)
            if exc != rexc:
                fails.append(('raise-mismatch/%s/%s' % (rep, op[0]), 'step %d: implementation raised %s, model %s' % (step, exc, rexc)))
                break
        ctx = 'after-copy' if len(order) > 1 else 'single'
        for name in order:
            ev, ref = objs[name]
            want = ref.state()
            v = L.view_state(ev)
            role = 'target' if name == tgt else 'other-object'
            for f in ('type', 'source', 'props', 'atts', 'parents', 'foreign'):
                if v[f] != want[f]:
                    fails.append(('view/%s/%s/%s/%s/%s' % (rep, op[0], f, role, ctx), 'step %d %s: view %r, model %r' % (step, name, v[f], want[f])))
            if v['mapping'] != want['props'] or v['len'] != len(want['props']):
                fails.append(('view/%s/%s/mapping/%s/%s' % (rep, op[0], role, ctx), 'step %d %s: mapping %r, model %r' % (step, name, v['mapping'], want['props'])))
            x = L.xml_state(ev)
            for f in ('type', 'source', 'props', 'atts', 'parents', 'foreign'):
                if x[f] != want[f]:
                    fails.append(('xml/%s/%s/%s/%s/%s' % (rep, op[0], f, role, ctx), 'step %d %s: get_element() %r, model %r' % (step, name, x[f], want[f])))
        if fails:
            break
    final = [(L.view_state(objs[n][0]), L.xml_state(objs[n][0])) for n in order]
    # == between representations: compare with a plain event built from the model state
    if not fails:
        from edxml import EDXMLEvent
        for n in order:
            ev, ref = objs[n]
            s = ref.state()
            twin = EDXMLEvent(s['props'], s['type'], s['source'], s['parents'], s['atts'] or None)
            if not (ev == twin) or not (twin == ev) or (ev != twin):
                fails.append(('equality/%s' % rep, '%s != plain event with the same content' % n))
    return order, final, flags, extras, fails


def case_term(rep, init, hist, order, final, flags, extras):
    ids = all_ids(init, hist)
    idx = {'orig': 0}
    hops = []
    for (tgt, op), extra in zip(hist, extras):
        if op[0] == 'copy':
            idx['copy%d' % len(idx)] = len(idx)
            hops.append(C('Copy', Nat(idx[tgt])))
        else:
            hops.append(C('Op', Nat(idx[tgt]), op_term(op, extra)))
    s0 = C('Build_sstate', init['type'], init['source'], [(p, sorted(set(v))) for p, v in init['props'].items() if v],
           [(a, sorted(d.items())) for a, d in init['atts'].items() if d], sorted(set(init['parents'])),
           [(k, v) for k, v in init['foreign'].items()])
    kind = C('KParsed') if rep == 'ParsedEvent' else C('KElement')
    exp = [(obs_term(v, ids), obs_term(x, ids)) for v, x in final]
    return coq((kind, s0, hops, L.PROPS, L.ATTS, ids, L.FKEYS, exp, flags))


CASE_T = ('kind * sstate * list hop * list str * list str * list str * list str * '
          'list (obs_t * obs_t) * list bool')
AGREE = ('fun c => match c with (k, s0, ops, ps, ats, ids, fks, exp, flags) => '
         'check_history k s0 ops ps ats ids fks exp flags end')
PLAIN_T = 'sstate * list eop * list str * list str * list str * list str * obs_t * list bool'
PLAIN_AGREE = ('fun c => match c with (s0, ops, ps, ats, ids, fks, exp, flags) => check_plain s0 ops ps ats ids fks exp flags end')


def gen_history(rng, maxlen=10):
    hist, nobj = [], 1
    for _ in range(rng.randint(1, maxlen)):
        op = L.gen_op(rng, allow_copy=nobj < 3)
        tgt = rng.choice(['orig'] + ['copy%d' % k for k in range(1, nobj)])
        hist.append((tgt, op))
        if op[0] == 'copy':
            nobj += 1
    return hist


def replay(path):
    obj = json.load(open(path))
    if obj.get('kind') != 'failing-input':
        print('replay names a broken obligation:', obj.get('obligation'))
        return 0
    i = obj['input']
    hist = [(t, tuple(o) if not isinstance(o[-1], dict) else tuple(o)) for t, o in i['history']]
    order, final, flags, extras, fails = run_history(i['representation'], i['init'], hist)
    print('history:', json.dumps(i['history']))
    print('oracle failures:', fails)
    return 1 if fails else 0


def main(argv):
    if len(argv) > 1 and argv[0] == '--replay':
        return replay(argv[1])
    ck = Check(PID, ANCHORS)
    ck.trusted += ['lxml element API (find/findall/SubElement/remove/attrib) is represented by the XML content record of the model',
                   'object sets and XML children are compared as sets (canonical sorted lists in the model)']
    ck.assumptions += ['popped elements are taken from the implementation (set.pop is arbitrary)',
                       'mutating the dictionary returned by get_foreign_attributes() is not a public mutation',
                       'after the fixes the refutation variant CopyDeep (pre-fix deepcopy) is modelled but not correspondence-checked']
    ck.prove()
    rng = ck.rng
    terms, metas, pterms, pmetas, seen = [], [], [], [], set()
    n = ck.budget(700, 20000)
    for it in range(n):
        init = L.gen_init(rng)
        hist = gen_history(rng, maxlen=rng.choice([2, 4, 8, 12, 30] if ck.thorough() else [2, 4, 8, 12]))
        key = json.dumps([init, hist], sort_keys=True, default=str)
        if key not in seen and len(hist) >= 2:
            ck.cov['distinct_nontrivial'] += 1
        seen.add(key)
        for rep in REPS:
            try:
                order, final, flags, extras, fails = run_history(rep, init, hist)
            except Exception as e:
                ck.oracle_failures.append({'signature': 'exception/%s/%s' % (rep, type(e).__name__),
                                           'input': {'representation': rep, 'init': init, 'history': hist}, 'observed': repr(e)})
                continue
            ck.cov['evaluations'] += 1
            ck.dist('rep:' + rep)
            ck.dist('len:%d' % min(len(hist), 12))
            for _, op in hist:
                ck.dist('op:' + op[0])
            for sig, detail in fails:
                ck.oracle_failures.append({'signature': sig, 'input': {'representation': rep, 'init': init, 'history': hist}, 'observed': detail})
            if fails:
                continue
            if rep == 'EDXMLEvent':
                if any(op[0] == 'copy' for _, op in hist):
                    continue
                ids = all_ids(init, hist)
                s0 = C('Build_sstate', init['type'], init['source'], [(p, sorted(set(v))) for p, v in init['props'].items() if v],
                       [(a, sorted(d.items())) for a, d in init['atts'].items() if d], sorted(set(init['parents'])),
                       [(k, v) for k, v in init['foreign'].items()])
                pterms.append(coq((s0, [op_term(op, ex) for (_, op), ex in zip(hist, extras)], L.PROPS, L.ATTS, ids, L.FKEYS,
                                   obs_term(final[0][0], ids), flags)))
                pmetas.append({'representation': rep, 'init': init, 'history': hist})
            else:
                terms.append(case_term(rep, init, hist, order, final, flags, extras))
                metas.append({'representation': rep, 'init': init, 'history': hist})
        ck.sample({'init': init, 'history': hist}, limit=3)
    # exhaustive short histories over a reduced alphabet
    small_ops = [('setitem', 'p', ['a']), ('setitem', 'p', []), ('delitem', 'p'), ('obj_add', 'p', 'b'), ('obj_remove', 'p', 'a'),
                 ('obj_clear', 'p'), ('props_delitem', 'p'), ('props_setitem', 'p', ['c']), ('set_properties', {'q': ['a']}),
                 ('set_attachment', 'att', 'x'), ('set_attachment', 'att', {'i1': 'y'}), ('set_attachment', 'att', None),
                 ('att_setvalue', 'att', 'i2', 'x'), ('att_delvalue', 'att', 'i1'), ('del_attachment', 'att'),
                 ('add_parents', [L.PARENTS[0]]), ('copy',), ('flush',)]
    depth = 3 if ck.thorough() else 2
    init0 = {'type': 'ta', 'source': '/s/', 'props': {'p': ['a']}, 'atts': {'att': {'i1': 'x'}}, 'parents': [], 'foreign': {}}
    nex = 0
    for combo in itertools.product(small_ops, repeat=depth):
        for tgt_last in ('orig', 'copy1'):
            hist, nobj = [], 1
            for j, op in enumerate(combo):
                tgt = tgt_last if (j == depth - 1 and nobj > 1) else 'orig'
                hist.append((tgt, op))
                if op[0] == 'copy':
                    nobj += 1
            if tgt_last == 'copy1' and not any(t == 'copy1' for t, _ in hist):
                continue
            for rep in ('EventElement', 'ParsedEvent'):
                order, final, flags, extras, fails = run_history(rep, init0, hist)
                nex += 1
                for sig, detail in fails:
                    ck.oracle_failures.append({'signature': sig, 'input': {'representation': rep, 'init': init0, 'history': hist}, 'observed': detail})
                if not fails:
                    terms.append(case_term(rep, init0, hist, order, final, flags, extras))
                    metas.append({'representation': rep, 'init': init0, 'history': hist})
    # directed: a copy taken after an entry of a cached view was emptied (and possibly refilled) — the point where
    # the copy's "non-empty entries of the views" (live_props / live_atts, theorem C07_copy_shows_same_content) matters
    emptiers = [('obj_clear', 'p'), ('obj_remove', 'p', 'a'), ('setitem', 'p', []), ('props_delitem', 'p'), ('delitem', 'p'),
                ('att_delvalue', 'att', 'i1'), ('set_attachment', 'att', None), ('del_attachment', 'att')]
    refills = [None, ('obj_add', 'p', 'b'), ('props_setitem', 'p', ['c']), ('setitem', 'p', ['a', 'b']),
               ('att_setvalue', 'att', 'i2', 'x'), ('set_attachment', 'att', {'i1': 'y'}), ('flush',)]
    lasts = [None, ('copy1', ('obj_add', 'p', 'b')), ('orig', ('obj_add', 'p', 'c')), ('copy1', ('att_setvalue', 'att', 'i1', 'z')),
             ('orig', ('att_setvalue', 'att', 'i2', 'w')), ('copy1', ('copy',))]
    ndir = 0
    for em in emptiers:
        for rf in refills:
            for la in lasts:
                hist = [('orig', em)] + ([('orig', rf)] if rf else []) + [('orig', ('copy',))] + ([la] if la else [])
                for rep in ('EventElement', 'ParsedEvent'):
                    order, final, flags, extras, fails = run_history(rep, init0, hist)
                    ndir += 1
                    for sig, detail in fails:
                        ck.oracle_failures.append({'signature': sig, 'input': {'representation': rep, 'init': init0, 'history': hist}, 'observed': detail})
                    if not fails:
                        terms.append(case_term(rep, init0, hist, order, final, flags, extras))
                        metas.append({'representation': rep, 'init': init0, 'history': hist})
    nex += ndir
    ck.cov['directed_copy_after_emptying'] = '%d histories: %d emptying operations x %d refills x copy x %d follow-ups, both XML backed classes' % (ndir, len(emptiers), len(refills), len(lasts))
    ck.cov['evaluations'] += nex
    ck.cov['exhaustive_small_scope'] = 'all histories of depth %d over %d operations (copy included, last operation on original or copy)' % (depth, len(small_ops))
    bad, errs = run_cases(PID, IMPORTS, CASE_T, terms, AGREE, shard=120, tag='xml')
    for i in bad[:10]:
        ck.corr_failures.append({'case': metas[i], 'model': 'final view/xml state or raise flags differ'})
    bad2, errs2 = run_cases(PID, IMPORTS, PLAIN_T, pterms, PLAIN_AGREE, shard=200, tag='plain')
    for i in bad2[:10]:
        ck.corr_failures.append({'case': pmetas[i], 'model': 'plain event differs from the dictionary-of-sets model'})
    for e in (errs + errs2)[:3]:
        ck.corr_failures.append({'coq_error': e})
    ck.cov['traces_validated_against_impl'] = len(terms) + len(pterms)
    ck.cov['disagreements_checked'] = len(bad) + len(bad2)
    ck.cov['rule'] = ('random operation histories (1-12 operations, 30 in thorough) over 2 properties x 3 values, 2 attachments x 2 ids, parents, '
                      'type, source, foreign attributes, up to 2 copies with operations on any object, for the three event classes; after EVERY '
                      'step mapping view, getters and get_element() are compared with the dictionary-of-sets model; plus all histories of bounded '
                      'depth over a reduced alphabet; non-trivial = at least 2 operations; distinct by (initial event, history)')
    return ck.finish()


if __name__ == '__main__':
    sys.exit(main(sys.argv[1:]))
