"""C13 — object value normalization is idempotent, sound and value-preserving."""
import base64, datetime as DT, io, ipaddress, json, math, struct, sys, unicodedata
from decimal import Decimal
from fractions import Fraction
from common.core import Check, C, Z, Nat, coq, run_cases, Raw, Some
import c03lib
from translate import c13 as T1
from IPy import IP

PID = 'C13'
ANCHORS = ['edxml/ontology/data_type.py', 'edxml/ontology/event_type.py', 'edxml/writer.py', 'edxml/event.py']
IMPORTS = 'From EdxmlVerif Require Import Base.Prelude Valid.Normalize Generated.C13_gen.'

TYPES_QUICK = ['number:tinyint', 'number:tinyint:signed', 'number:smallint', 'number:mediumint:signed', 'number:int', 'number:bigint', 'number:bigint:signed',
               'number:float', 'number:float:signed', 'number:double:signed',
               'number:decimal:5:2', 'number:decimal:5:2:signed', 'number:decimal:38:10:signed', 'number:decimal:4:0:signed', 'number:currency',
               'hex:4', 'hex:4:2:-', 'string:0:mc', 'string:5:lc', 'string:0:uc:u', 'string:3:mc:r', 'boolean', 'base64:0', 'base64:8',
               'datetime', 'geo:point', 'ip:v4', 'ip:v6', 'uri:/', 'uuid', 'sequence', 'enum:a:b', 'file']
TYPES_MORE = ['number:smallint:signed', 'number:mediumint', 'number:int:signed', 'number:double', 'number:decimal:38:37', 'number:decimal:10:3',
              'hex:6:1::', 'string:8:uc', 'string:0:lc:ru', 'base64:3']
UDIGITS = [0x0660, 0xFF10, 0x0966, 0x1D7CE]       # Arabic-Indic, fullwidth, Devanagari, mathematical bold
LIST = [1]


class Item:
    def __init__(self, value, dom, note, expected=None, denote=None):
        self.value, self.dom, self.note, self.expected, self.denote = value, dom, note, expected, denote


# ------------------------------------------------------------------ spelling helpers
def spell_digits(rng, digits):
    """digits: ASCII digit string; returns (spelling, label)"""
    k = rng.randrange(6)
    if k == 0:
        return digits, 'plain'
    if k == 1:
        return '0' * rng.randint(1, 3) + digits, 'zero-padded'
    if k == 2 and len(digits) > 1:
        i = rng.randint(1, len(digits) - 1)
        return digits[:i] + '_' + digits[i:], 'underscore'
    if k == 3:
        base = rng.choice(UDIGITS)
        return ''.join(chr(base + int(c)) for c in digits), 'unicode-digits'
    if k == 4:
        return rng.choice([' ', '\t', '\n', ' ', '\xa0']) + digits + rng.choice(['', ' ', '\r\n']), 'whitespace'
    return digits, 'plain'


def int_range(dt):
    p = dt.split(':')
    bits = c03lib.INT_BITS[p[1]]
    return (-(2 ** (bits - 1)), 2 ** (bits - 1) - 1) if p[-1] == 'signed' else (0, 2 ** bits - 1)


GARBAGE_COMMON = [(None, 'None'), (LIST, 'list')]


def dec(m, e=0, neg=False):
    """the Decimal (-1)^neg * m * 10^e, built exactly (arithmetic on Decimals rounds to the context precision)"""
    return Decimal((1 if neg else 0, tuple(int(c) for c in str(m)), e))


def gen_int(dt, rng, n):
    lo, hi = int_range(dt)
    items = []

    def add_in(z, v, note):
        items.append(Item(v, 'in', note, expected=str(z)))
    zs = [lo, hi, 0, 1, hi // 2, max(lo, -1), lo + 1, hi - 1] + [rng.randint(lo, hi) for _ in range(n)]
    for z in zs:
        add_in(z, z, 'int')
        digits = str(abs(z))
        sp, lab = spell_digits(rng, digits)
        if lab == 'whitespace':
            s = sp[0] + ('-' if z < 0 else rng.choice(['', '+'])) + sp[1:]
        else:
            s = ('-' if z < 0 else rng.choice(['', '+'])) + sp
        add_in(z, s, 'str-' + lab)
        if abs(z) < 2 ** 53:
            add_in(z, float(z), 'integral-float')
        add_in(z, Decimal(z), 'integral-decimal')
        if z % 10 == 0 and z != 0:
            add_in(z, dec(abs(z) // 10, 1, z < 0), 'integral-decimal-exponent')
        add_in(z, Decimal(str(z) + '.000'), 'integral-decimal-fraction')
    add_in(1, True, 'bool')
    add_in(0, False, 'bool')
    for z in (lo - 1, hi + 1, 2 ** 70, -(2 ** 70)):
        items.append(Item(z, 'out', 'out-of-range-int'))
        items.append(Item(str(z), 'out', 'out-of-range-str'))
    for v, note in [(2.7, 'non-integral-float'), (-0.5, 'non-integral-float'), (1e-9, 'non-integral-float'), (Decimal('2.7'), 'non-integral-decimal'),
                    (Decimal('-0.001'), 'non-integral-decimal'),
                    (float('nan'), 'nan'), (float('inf'), 'inf'), (float('-inf'), 'inf'), (Decimal('NaN'), 'decimal-nan'), (Decimal('Infinity'), 'decimal-inf'),
                    (DT.datetime(2020, 1, 1), 'datetime')] + GARBAGE_COMMON:
        items.append(Item(v, 'out', note))
    for s in ['', ' ', '-', '+', '1.0', '1e3', '0x10', '1__0', '_1', '1_', '1 2', '٣x', 'x', '--1', '+-1', '- 1', '1-', '٣.٠', '1,000', 'one', '１２ ３', 'Ⅷ', '²']:
        items.append(Item(s, 'out', 'garbage-str'))
    return items


def fmt_e_independent(x):
    """x: Fraction of a finite double (or any rational); %E with 6 digits by exact half-even rounding in Fraction arithmetic"""
    if x == 0:
        return '0.000000E+00'
    a = abs(x)
    k = len(str(a.numerator)) - len(str(a.denominator))
    while Fraction(10) ** k > a:
        k -= 1
    while Fraction(10) ** (k + 1) <= a:
        k += 1
    m = round(a / Fraction(10) ** (k - 6))       # round() on Fraction: half to even, exact
    if m == 10 ** 7:
        m, k = 10 ** 6, k + 1
    ds = str(m)
    return '%s%s.%sE%s%02d' % ('-' if x < 0 else '', ds[0], ds[1:], '-' if k < 0 else '+', abs(k))


def nearest_double(x):
    """Fraction -> float (correctly rounded by int true division), or None on overflow"""
    try:
        return x.numerator / x.denominator
    except OverflowError:
        return None


def float_domain(dt, f):
    p = dt.split(':')
    if f == 0 and math.copysign(1, f) < 0:
        return 'skip'
    if p[1] == 'float' and f != 0 and not (1.2e-38 < abs(f) < 3.0e38):
        return 'skip'
    if f < 0 and p[-1] != 'signed':
        return 'out'
    return 'in'


def spell_decimal(rng, x_digits, exp10, neg):
    """spell the number  (-1)^neg * int(x_digits) * 10^exp10  in a random accepted decimal notation (for float() and Decimal())"""
    k = rng.randrange(7)
    sign = '-' if neg else rng.choice(['', '', '+'])
    if k <= 1:        # scientific
        e = rng.choice(['e', 'E'])
        mant = x_digits[0] + ('.' + x_digits[1:] if len(x_digits) > 1 else rng.choice(['', '.', '.0']))
        ee = exp10 + len(x_digits) - 1
        return sign + mant + e + rng.choice(['', '+'] if ee >= 0 else ['']) + str(ee), 'scientific'
    # positional
    if exp10 >= 0:
        s = x_digits + '0' * exp10 + rng.choice(['', '.', '.0', '.000'])
    elif -exp10 < len(x_digits):
        s = x_digits[:exp10] + '.' + x_digits[exp10:] + rng.choice(['', '0', '000'])
    else:
        s = rng.choice(['0', '', '00']) + '.' + '0' * (-exp10 - len(x_digits)) + x_digits
    if len(s) > 60:
        return sign + x_digits + 'E' + str(exp10), 'scientific'
    if k == 2:
        return sign + s, 'positional'
    if k == 3:
        return rng.choice([' ', '\n', ' ']) + sign + s + rng.choice(['', ' ', '\t']), 'whitespace'
    if k == 4:
        base = rng.choice(UDIGITS)
        return sign + ''.join(chr(base + int(c)) if c.isdigit() else c for c in s), 'unicode-digits'
    if k == 5 and s[0].isdigit() and len(s) > 1 and s[1].isdigit():
        return sign + s[0] + '_' + s[1:], 'underscore'
    return sign + '0' + s if s[0].isdigit() else sign + s, 'zero-padded'


def random_double(rng):
    k = rng.randrange(8)
    if k == 0:
        return struct.unpack('<d', struct.pack('<Q', rng.getrandbits(64) & 0x800FFFFFFFFFFFFF))[0]          # subnormal
    if k == 1:
        return rng.choice([5e-324, 2.2250738585072014e-308, 1.7976931348623157e308, 1e22, 1e23, 9.9999995, 9.99999949999, 999999.95, 0.1, 1.0, 0.5,
                           1e-7, 123456.5, 1234565.0, 1234575.0, 1.0000005, 9999999.5, 2.5e-5, 4.35, 0.000001])
    if k <= 4:
        return rng.choice([1, -1]) * rng.random() * 10 ** rng.randint(-30, 30)
    while True:
        f = struct.unpack('<d', struct.pack('<Q', rng.getrandbits(64)))[0]
        if math.isfinite(f):
            return f


def gen_float(dt, rng, n):
    items = []
    for _ in range(n):
        f = random_double(rng)
        items.append(Item(f, float_domain(dt, f), 'float', expected=fmt_e_independent(Fraction(f))))
    for f in (0.0, -0.0, 1.0, -1.5):
        items.append(Item(f, float_domain(dt, f), 'float', expected=('-' if math.copysign(1, f) < 0 else '') + fmt_e_independent(abs(Fraction(f)))))
    for z in (0, 1, 7, -3, 10 ** 15 + 1, 2 ** 63, 10 ** 30 + 1):
        f = nearest_double(Fraction(z))
        items.append(Item(z, float_domain(dt, f), 'int', expected=fmt_e_independent(Fraction(f))))
    items.append(Item(True, 'skip', 'bool', expected='1.000000E+00'))
    for _ in range(n):
        digits = str(rng.randint(1, 10 ** rng.randint(1, 20)))
        e10 = rng.randint(-40, 25)
        neg = rng.random() < 0.3
        x = Fraction(int(digits)) * Fraction(10) ** e10 * (-1 if neg else 1)
        f = nearest_double(x)
        exp = fmt_e_independent(Fraction(f))
        s, lab = spell_decimal(rng, digits, e10, neg)
        items.append(Item(s, float_domain(dt, f), 'str-' + lab, expected=exp))
        items.append(Item(dec(int(digits), e10, neg), float_domain(dt, f), 'decimal', expected=exp))
    for s, f in (('1e-400', 0.0), ('-1e-400', -0.0), ('4.9e-324', 5e-324), ('2.4703282292062327e-324', 0.0), ('2.4703282292062328e-324', 5e-324),
                 ('1.7976931348623158e308', 1.7976931348623157e308), ('9007199254740993', 9007199254740992.0), ('9007199254740995', 9007199254740996.0)):
        items.append(Item(s, float_domain(dt, f), 'str-rounding-boundary', expected=('-' if math.copysign(1, f) < 0 else '') + fmt_e_independent(abs(Fraction(f)))))
    for v, note in [(float('nan'), 'nan'), (float('inf'), 'inf'), (float('-inf'), 'inf'), (Decimal('NaN'), 'decimal-nan'), (Decimal('-Infinity'), 'decimal-inf'),
                    (10 ** 400, 'huge-int'), (DT.datetime(2020, 1, 1), 'datetime')] + GARBAGE_COMMON:
        items.append(Item(v, 'out', note))
    for s in ['', ' ', 'abc', '1e400', '-1e400', '1.7976931348623159e308', 'nan', 'NaN', 'inf', '-Infinity', '1_', '_1', '1__0', '1e', 'e5', '.', '-.', '0x1p3', '1,5', '1.5.2', '1 .5',
              '1e1.5', '+-1', '1._5', '1_.5', '1e_5', '٣.x', '½']:
        items.append(Item(s, 'out', 'garbage-str'))
    return items


def decimal_params(dt):
    p = dt.split(':')
    if p[1] == 'currency':
        return 19, 4, True
    return int(p[2]), int(p[3]), p[-1] == 'signed'


def fmt_fixed_independent(x, frac):
    """exact half-even rounding of Fraction x to `frac` digits; zero is unsigned"""
    m = round(abs(x) * 10 ** frac)
    s = str(m).rjust(frac + 1, '0')
    body = s[:len(s) - frac] + ('.' + s[len(s) - frac:] if frac else '')
    return ('-' if x < 0 and m != 0 else '') + body


def gen_decimal(dt, rng, n):
    total, frac, signed = decimal_params(dt)
    items = []

    def dom_of(x, exact):
        m = round(abs(x) * 10 ** frac)
        if len(str(m)) > total and m != 0:
            return 'skip'          # too many digits: the gate's totalDigits handling is a C03 matter
        if x < 0 and not signed:
            return 'out' if m != 0 else 'skip'
        return 'in' if exact else 'round'
    for _ in range(n):
        nd = rng.choice([1, 2, total, total, rng.randint(1, total)])
        m = rng.randint(0, 10 ** nd - 1)
        neg = signed and rng.random() < 0.4
        x = Fraction(m, 10 ** frac) * (-1 if neg else 1)
        exp = fmt_fixed_independent(x, frac)
        d = dec(m, -frac, neg)
        items.append(Item(d, dom_of(x, True), 'decimal', expected=exp))
        digits = str(m).lstrip('0') or '0'
        s, lab = spell_decimal(rng, digits, -frac, neg)
        if rng.random() < 0.3:
            # Decimal() drops underscores wherever they are (after removing surrounding whitespace): put one right after the first digit, and one in front of a bare number
            i = next(j for j, c in enumerate(s) if c.isdigit())
            s, lab = (s[:i + 1] + '_' + s[i + 1:] if s != s.strip() or rng.random() < 0.5 else '_' + s), 'underscore-anywhere'
        items.append(Item(s, dom_of(x, True), 'str-' + lab, expected=exp))
        if x.denominator == 1:
            items.append(Item(int(x), dom_of(x, True), 'int', expected=exp))
        if x.denominator & (x.denominator - 1) == 0 and abs(x.numerator) < 2 ** 53:
            items.append(Item(float(x), dom_of(x, True), 'dyadic-float', expected=exp))
    # more fractional digits than the type keeps: exact half-even rounding expected
    for _ in range(n):
        extra = rng.randint(1, 12)
        m = rng.randint(0, 10 ** rng.randint(1, min(total, 12) + extra) - 1)
        if rng.random() < 0.4:
            m = m - m % (10 ** extra) + 5 * 10 ** (extra - 1)     # exact tie
        neg = signed and rng.random() < 0.4
        x = Fraction(m, 10 ** (frac + extra)) * (-1 if neg else 1)
        exp = fmt_fixed_independent(x, frac)
        d = dec(m, -(frac + extra), neg)
        items.append(Item(d, dom_of(x, False), 'decimal-excess-digits', expected=exp))
        items.append(Item(str(d), dom_of(x, False), 'str-excess-digits', expected=exp))
    for f in (1.1, 0.1, 2.675, 1e-9, 123.456, 0.30000000000000004):
        items.append(Item(f, dom_of(Fraction(f), False), 'float', expected=fmt_fixed_independent(Fraction(f), frac)))
    for v, note in ((Decimal('-0'), 'negative-zero-decimal'), ('-0', 'negative-zero-str'), ('-0.0', 'negative-zero-str'), (-0.0, 'negative-zero-float'),
                    (Decimal('-0E-20'), 'negative-zero-decimal'), ('-0.' + '0' * (frac + 3) + '1', 'negative-rounds-to-zero')):
        # the last one lies below half a unit of the last fractional digit the type keeps, whatever that digit is
        items.append(Item(v, 'in' if 'rounds' not in note else 'round', note, expected=fmt_fixed_independent(Fraction(0), frac)))
    items.append(Item(True, 'skip', 'bool', expected=fmt_fixed_independent(Fraction(1), frac)))
    for v, note in [(float('nan'), 'nan'), (float('inf'), 'inf'), (Decimal('NaN'), 'decimal-nan'), (Decimal('-Infinity'), 'decimal-inf'), (DT.datetime(2020, 1, 1), 'datetime')] + GARBAGE_COMMON:
        items.append(Item(v, 'out', note))
    for s in ['', ' ', 'abc', 'NaN', 'Infinity', '-inf', '1..2', '1e', '--1', '1,5', '1.5x', '0x10', '1 5', '٣.x', '.', '+', 'e5', '_ 1', '1 _', '_\n.72', '1_ .5']:
        items.append(Item(s, 'out', 'garbage-str'))
    return items


ASCII_POOL = 'abcXYZ019 -_./:é'


def gen_string(dt, rng, n):
    p = dt.split(':')
    maxlen, case = int(p[1]), p[2]
    flags = p[3] if len(p) > 3 else ''
    fold = {'mc': lambda s: s, 'lc': lambda s: s.translate({i: i + 32 for i in range(65, 91)}), 'uc': lambda s: s.translate({i: i - 32 for i in range(97, 123)})}[case]
    items = []
    for _ in range(n):
        ln = rng.randint(1, maxlen or 12)
        s = ''.join(rng.choice('abcdefXYZQ0189 -_./:') for _ in range(ln))
        items.append(Item(s, 'in', 'ascii', expected=fold(s)))
    for s in ['é', 'É', 'ÿ', 'Àb'] + (['ǅ', 'Σας', 'İ', 'ß', 'ŉ', '\U00010400', 'Ω'] if 'u' in flags else []):
        if maxlen == 0 or len(s) <= maxlen:
            items.append(Item(s, 'skip', 'non-ascii', expected=None))
    # strings the gate already accepts as they are: case folding has nothing to do on them, they denote themselves
    for s in ['ß', 'µ', 'straße', 'µm', 'ÿ', 'é', 'ſ', 'ŉ', 'ǰ', 'ΐ', 'ﬁ', 'ς', 'ı', 'À', 'ÀÉ', 'ǅ', 'ᾈ', 'İ', 'ẞ', 'Σ', 'Ω']:
        if maxlen == 0 or len(s) <= maxlen:
            items.append(Item(s, 'valid-is-fixed', 'valid-non-ascii', expected=None))
    for v in (5, -17, True, None):
        if maxlen == 0 or len(str(v)) <= maxlen:
            items.append(Item(v, 'skip', 'non-str', expected=fold(str(v))))
    if maxlen:
        for s in ('x' * (maxlen + 1), 'Y' * (maxlen + 7)):
            items.append(Item(s, 'out', 'too-long'))
        items.append(Item(10 ** maxlen, 'out', 'too-long-int'))
    return items


def gen_hex(dt, rng, n):
    p = dt.split(':')
    nbytes = int(p[1])
    group = int(p[2]) if len(p) > 2 else 0
    sep = (p[3] or ':') if len(p) > 3 else ''
    items = []

    def build(raw_hex):
        if not group:
            return raw_hex
        return sep.join(raw_hex[i:i + 2 * group] for i in range(0, len(raw_hex), 2 * group))
    for _ in range(n):
        raw = ''.join(rng.choice('0123456789abcdef') for _ in range(2 * nbytes))
        canon = build(raw)
        mixed = ''.join(c.upper() if rng.random() < 0.5 else c for c in canon)
        items.append(Item(mixed, 'in', 'mixed-case', expected=canon))
        items.append(Item(canon.upper(), 'in', 'upper-case', expected=canon))
        items.append(Item(canon, 'in', 'canonical', expected=canon))
    good = build('0a' * nbytes)
    for s in [good[:-1], good + '0', 'g' + good[1:], 'G' + good[1:], '٠' + good[1:], 'Ａ' + good[1:], ' ' + good, '', good.replace(sep, '') if sep else good + 'ff',
              'İ' + good[1:]]:
        items.append(Item(s, 'out', 'garbage-str'))
    for v, note in [(255, 'int'), (True, 'bool'), (1.5, 'float')] + GARBAGE_COMMON:
        items.append(Item(v, 'out', note))
    return items


def gen_bool(dt, rng, n):
    items = [Item(v, 'in', 'boolean', expected=e) for v, e in ((True, 'true'), (False, 'false'), ('true', 'true'), ('false', 'false'), ('True', 'true'),
                                                                ('False', 'false'), (1, 'true'), (0, 'false'))]
    items += [Item(v, 'skip', 'number-equal-to-0-or-1', expected=e) for v, e in ((1.0, 'true'), (0.0, 'false'), (-0.0, 'false'), (Decimal(1), 'true'),
                                                                                 (Decimal('0.0'), 'false'), (Decimal('1.00'), 'true'))]
    for v in ['yes', 'no', 'TRUE', 'FALSE', '1', '0', '', ' true', 'true ', 'tru', 'falsee', 't', 'f', 'on', 'null', 'None', 'ｔｒｕｅ']:
        items.append(Item(v, 'out', 'garbage-str'))
    for v, note in [(2, 'int'), (-1, 'int'), (10, 'int'), (0.5, 'float'), (float('nan'), 'nan'), (Decimal('0.5'), 'decimal'), (Decimal('NaN'), 'decimal-nan'),
                    (DT.datetime(2020, 1, 1), 'datetime')] + GARBAGE_COMMON:
        items.append(Item(v, 'out', note))
    return items


def gen_base64(dt, rng, n):
    limit = int(dt.split(':')[1])
    items = []
    for _ in range(n):
        ln = rng.randint(1, limit or 24)
        raw = bytes(rng.getrandbits(8) for _ in range(ln))
        enc = base64.b64encode(raw).decode()
        items.append(Item(enc, 'in', 'padded', expected=enc, denote=raw))
        if enc.endswith('='):
            items.append(Item(enc.rstrip('='), 'in', 'unpadded-%d' % (len(enc.rstrip('=')) % 4), expected=enc, denote=raw))
            if enc.endswith('=='):
                items.append(Item(enc[:-1], 'skip', 'half-padded', expected=enc, denote=raw))
    if limit:
        big = base64.b64encode(bytes(limit + 1 + rng.randint(0, 5))).decode()
        items.append(Item(big, 'out', 'too-many-bytes'))
        items.append(Item(big.rstrip('='), 'out', 'too-many-bytes'))
    for s in ['z', 'Y', 'YWJjZ', '!!!!', '!', 'YW=I', 'YWJj=', '=', '====', 'é', 'YWJ٠', '', 'YWJj====', 'Y===', 'YW==Jj', 'éééé']:
        items.append(Item(s, 'out', 'garbage-str'))
    for s in ['YW Jj', 'YWJj\n', ' YWJj', 'YWJj\nYWJj']:
        items.append(Item(s, 'skip', 'whitespace'))
    for s in ['YR==', 'YWJ=', 'YR', 'YWJ']:
        items.append(Item(s, 'skip', 'non-canonical-trailing-bits'))
    for v, note in [(5, 'int'), (True, 'bool'), (1.5, 'float'), (b'YWI=', 'bytes')] + GARBAGE_COMMON:
        items.append(Item(v, 'out' if note != 'bytes' else 'skip', note))
    return items


def utc_expected(naive, offset_s):
    t = naive - DT.timedelta(seconds=offset_s)
    return '%04d-%02d-%02dT%02d:%02d:%02d.%06dZ' % (t.year, t.month, t.day, t.hour, t.minute, t.second, t.microsecond)


def gen_datetime(dt, rng, n):
    items = []

    def rand_naive():
        k = rng.randrange(6)
        y = rng.choice([1583, 1600, 1899, 1900, 1969, 1970, 1999, 2000, 2020, 2024, 2038, 2100, 2400, 9999]) if k < 2 else rng.randint(1583, 9999)
        mo = rng.randint(1, 12)
        d = rng.randint(1, [31, 29 if (y % 4 == 0 and (y % 100 != 0 or y % 400 == 0)) else 28, 31, 30, 31, 30, 31, 31, 30, 31, 30, 31][mo - 1])
        if k == 2:
            mo, d = rng.choice([(1, 1), (12, 31), (2, 28), (3, 1), (2, 29 if (y % 4 == 0 and (y % 100 != 0 or y % 400 == 0)) else 28)])
        h, mi, s = (rng.choice([0, 23]), rng.choice([0, 59]), rng.choice([0, 59])) if k in (2, 3) else (rng.randint(0, 23), rng.randint(0, 59), rng.randint(0, 59))
        us = rng.choice([0, 0, 999999, 1, 500000, rng.randint(0, 999999)])
        return DT.datetime(y, mo, d, h, mi, s, us)

    def dom_for(naive, off):
        try:
            t = naive - DT.timedelta(seconds=off)
        except OverflowError:
            return 'out', None
        return ('in' if t.year >= 1583 else 'out'), utc_expected(naive, off)
    for _ in range(n):
        nv = rand_naive()
        items.append(Item(nv, 'in', 'naive-datetime', expected=utc_expected(nv, 0)))
        off = rng.choice([0, 3600, -3600, 19800, -34200, 50400, -43200, 86340, -86340, 1172, 60 * rng.randint(-1439, 1439)])
        dom, exp = dom_for(nv, off)
        items.append(Item(nv.replace(tzinfo=DT.timezone(DT.timedelta(seconds=off))), dom, 'aware-datetime', expected=exp))
        # ISO strings
        offm = 60 * rng.randint(-840, 840)
        sign = '-' if offm < 0 else '+'
        tz = rng.choice(['Z', '%s%02d:%02d' % (sign, abs(offm) // 3600, abs(offm) // 60 % 60), '%s%02d%02d' % (sign, abs(offm) // 3600, abs(offm) // 60 % 60), ''])
        o = 0 if tz in ('Z', '') else offm
        sep = rng.choice(['T', 'T', ' '])
        k = rng.randrange(4)
        if k == 0:
            body, nv2 = nv.strftime('%Y-%m-%d') + sep + nv.strftime('%H:%M:%S') + '.%06d' % nv.microsecond, nv
        elif k == 1:
            nv2 = nv.replace(microsecond=0)
            body = nv2.strftime('%Y-%m-%d') + sep + nv2.strftime('%H:%M:%S')
        elif k == 2:
            nv2 = nv.replace(microsecond=nv.microsecond // 1000 * 1000)
            body = nv2.strftime('%Y-%m-%d') + sep + nv2.strftime('%H:%M:%S') + '.%03d' % (nv2.microsecond // 1000)
        else:
            nv2 = nv.replace(microsecond=0)
            body = nv2.strftime('%Y%m%dT%H%M%S')
        dom, exp = dom_for(nv2, o)
        items.append(Item(body + tz, dom, 'iso-string' + ('-offset' if o else ''), expected=exp))
    d0 = DT.datetime(rng.randint(1583, 9999), rng.randint(1, 12), rng.randint(1, 28))
    items.append(Item(d0.strftime('%Y-%m-%d'), 'in', 'iso-date-only', expected=utc_expected(d0, 0)))
    for y in (1, 5, 999, 1000, 1582):
        nv = DT.datetime(y, 12, 31, 23, 59, 59, 999999)
        items.append(Item(nv, 'out', 'before-1583', expected=utc_expected(nv, 0)))
    items.append(Item(DT.datetime(1583, 1, 1, 0, 30, tzinfo=DT.timezone(DT.timedelta(hours=1))), 'out', 'before-1583', expected='1582-12-31T23:30:00.000000Z'))
    items.append(Item(DT.datetime(1582, 12, 31, 23, 30, tzinfo=DT.timezone(DT.timedelta(hours=-1))), 'in', 'aware-datetime', expected='1583-01-01T00:30:00.000000Z'))
    items.append(Item(DT.datetime(1, 1, 1, 0, 0, tzinfo=DT.timezone(DT.timedelta(hours=2))), 'out', 'utc-out-of-range'))
    items.append(Item(DT.datetime(9999, 12, 31, 23, 0, tzinfo=DT.timezone(DT.timedelta(hours=-2))), 'out', 'utc-out-of-range'))
    for s in ['foo', '', '2020-13-01', '2020-02-30T00:00:00Z', '2020-01-01T25:00:00Z', 'T', '2020-01-01T00:00:00+25:00', 'yesterday', '--', '2020/13/45']:
        items.append(Item(s, 'out', 'garbage-str'))
    for v, note in [(5, 'int'), (1.5e9, 'float'), (True, 'bool'), (DT.date(2020, 1, 1), 'date'), (DT.time(1, 2), 'time'), (Decimal(5), 'decimal')] + GARBAGE_COMMON:
        items.append(Item(v, 'out', note))
    return items


def gen_ip(dt, rng, n):
    from IPy import IP
    v6 = dt.endswith('v6')
    items = []
    for _ in range(n):
        if not v6:
            a = ipaddress.IPv4Address(rng.getrandbits(32) if rng.random() < 0.8 else rng.choice([0, 2 ** 32 - 1, 0x7f000001, 0x0a000000, 0xff]))
            exp = str(a)
            items.append(Item(exp, 'in', 'dotted-quad', expected=exp))
            items.append(Item(IP(exp), 'in', 'IP-object', expected=exp))
            items.append(Item(int(a), 'skip', 'int', expected=exp))
        else:
            bits = rng.getrandbits(128)
            k = rng.randrange(5)
            if k == 0:
                bits &= ~(((1 << rng.randint(16, 96)) - 1) << 16)          # runs of zero groups
            if k == 1:
                bits = rng.choice([0, 1, 2 ** 128 - 1, 0xfe80 << 112 | 1, 0x20010db8 << 96])
            a = ipaddress.IPv6Address(bits)
            exp = a.exploded
            for s, lab in ((a.compressed, 'compressed'), (a.compressed.upper(), 'compressed-upper'), (exp, 'exploded'), (exp.upper(), 'exploded-upper'),
                           (':'.join(g.lstrip('0') or '0' for g in exp.split(':')), 'no-leading-zeros')):
                items.append(Item(s, 'in', lab, expected=exp))
            items.append(Item(IP(exp), 'in', 'IP-object', expected=exp))
            if bits >> 32 == 0xffff:
                items.append(Item('::ffff:' + str(ipaddress.IPv4Address(bits & 0xffffffff)), 'in', 'mapped-v4-notation', expected=exp))
    if v6:
        m = ipaddress.IPv6Address('::ffff:1.2.3.4')
        items.append(Item('::ffff:1.2.3.4', 'in', 'mapped-v4-notation', expected=m.exploded))
    other = '2001:db8::1' if not v6 else '10.1.2.3'
    items.append(Item(other, 'out', 'other-version-str'))
    items.append(Item(IP(other), 'out', 'other-version-object'))
    for s in ['x', '', '1.2.3.4.5', '256.1.1.1', '1.2.3.256', '1.2.3.4/24', '10.0.0.0/8', '1.2.3.4-1.2.3.9', '1..3.4', '1.2.3.-4', ':::', '1:2:3:4:5:6:7:8:9', '12345::', 'g::1',
              '::1::2', '2001:db8::/32']:
        items.append(Item(s, 'out', 'garbage-str'))
    for v, note in [(1.5, 'float'), (True, 'bool'), (-1, 'negative-int'), (2 ** 128, 'huge-int')] + GARBAGE_COMMON:
        items.append(Item(v, 'out' if note != 'bool' else 'skip', note))
    for sp in ['1.2.3.4 ', ' ::1', '٠.٠.٠.٠']:
        items.append(Item(sp, 'skip', 'notation-IPy-tolerates'))
    return items


def gen_geo(dt, rng, n):
    from decimal import ROUND_HALF_EVEN
    items = []

    def f6(x):
        q = Decimal(x).quantize(Decimal('0.000001'), rounding=ROUND_HALF_EVEN)      # x is the double; exact decimal expansion, exact rounding
        s = format(abs(q), 'f')
        return ('-' if math.copysign(1, x) < 0 else '') + s
    for _ in range(n):
        k = rng.randrange(4)
        lat = Decimal(rng.randint(-89999999, 89999999)).scaleb(-6) if k else Decimal(rng.randint(-89, 89))
        lon = Decimal(rng.randint(-179999999, 179999999)).scaleb(-6) if k else Decimal(rng.randint(-179, 179))
        if k == 3:
            lat, lon = lat + Decimal(rng.randint(0, 999)).scaleb(-9), lon + Decimal(5).scaleb(-7)
        a, b = str(lat), str(lon)
        if rng.random() < 0.3:
            a, b = rng.choice(['+', ' ', '0']) + a if lat >= 0 else a, b + rng.choice([' ', '0'] if '.' in b else [' '])
        if rng.random() < 0.15:
            a = '%E' % float(lat)
        exp = f6(float(a)) + ',' + f6(float(b))
        dom = 'in' if k != 3 else 'round'
        if '-0.000000' in exp:
            dom = 'skip'
        items.append(Item(a + ',' + b, dom, 'lat-lon-str', expected=exp))
    for s, note in [('91,0', 'out-of-range'), ('0,181', 'out-of-range'), ('-90.5,10', 'out-of-range'), ('1e3,0', 'out-of-range'), ('a,b', 'garbage-str'), ('1', 'garbage-str'),
                    ('1,2,3', 'garbage-str'), ('', 'garbage-str'), (',', 'garbage-str'), ('1,', 'garbage-str'), ('nan,nan', 'nan'), ('inf,0', 'inf'), ('1;2', 'garbage-str'),
                    ('1.5 2.5', 'garbage-str'), ('52°,4°', 'garbage-str')]:
        items.append(Item(s, 'out', note))
    for s in ['90,5', '-90,0', '0,180', '10,-180']:
        items.append(Item(s, 'skip', 'pole-or-antimeridian'))
    for v, note in [(5, 'int'), (1.5, 'float'), ((1.0, 2.0), 'tuple'), (True, 'bool')] + GARBAGE_COMMON:
        items.append(Item(v, 'out', note))
    return items


def gen_identity(dt, rng, n):
    """uri, uuid, sequence, enum, file: normalisation is str()"""
    fam = dt.split(':')[0]
    good = {'uri': ['http://a/b', '/x/y', 'urn:a:b', 'a%20b'], 'uuid': ['0a1b2c3d-0a1b-0a1b-0a1b-0a1b2c3d4e5f'], 'sequence': ['0', '7', '18446744073709551615'],
            'enum': dt.split(':')[1:], 'file': ['a.txt', '/p/q']}[fam]
    bad = {'uri': [''], 'uuid': ['0A1B2C3D-0a1b-0a1b-0a1b-0a1b2c3d4e5f', 'x', ''], 'sequence': ['-1', '07', 'x', '', '1.0', str(2 ** 64)], 'enum': ['c', 'A', ''], 'file': ['']}[fam]
    items = [Item(s, 'in', 'valid-str', expected=s) for s in good] + [Item(s, 'out', 'invalid-str') for s in bad]
    if fam == 'sequence':
        items += [Item(5, 'in', 'int', expected='5'), Item(-5, 'out', 'negative-int'), Item(2.5, 'out', 'float'), Item(None, 'out', 'None')]
    if fam == 'uri':
        items += [Item(5, 'out', 'int'), Item(None, 'out', 'None'), Item(LIST, 'out', 'list')]
    return items


def generate(dt, rng, n):
    p = dt.split(':')
    if p[0] == 'number':
        if p[1] in c03lib.INT_BITS:
            return gen_int(dt, rng, n)
        if p[1] in ('float', 'double'):
            return gen_float(dt, rng, 2 * n)
        return gen_decimal(dt, rng, n)
    return {'hex': gen_hex, 'string': gen_string, 'boolean': gen_bool, 'base64': gen_base64, 'datetime': gen_datetime, 'geo': gen_geo, 'ip': gen_ip}.get(p[0], gen_identity)(dt, rng, n)


# ------------------------------------------------------------------ implementation side
class Gate:
    def __init__(self):
        self.cache = {}

    def accepts(self, dt, s):
        from edxml import EDXMLEvent
        from edxml.event_validator import EventValidator
        if dt not in self.cache:
            onto = c03lib.make_ontology(dt)
            self.cache[dt] = (onto, EventValidator(onto))
        onto, v = self.cache[dt]
        if s == '':
            return False          # empty objects are never valid (an EDXMLEvent silently leaves them out)
        try:
            return bool(v.is_valid(EDXMLEvent({'v': [s]}, 'ta', '/s/')))
        except (ValueError, TypeError):
            return False          # cannot even be stored in XML


def run_norm(dt, values):
    from edxml.ontology import DataType
    from edxml.error import EDXMLEventValidationError
    try:
        r = DataType(dt).normalize_objects(values)
    except EDXMLEventValidationError:
        return ('reject',)
    except Exception as e:
        return ('escapes', type(e).__name__)
    if not isinstance(r, (set, frozenset, list)) or not all(isinstance(x, str) for x in r):
        return ('escapes', 'non-string-result')
    return ('ok', sorted(r))


def describe(v):
    return '%s:%r' % (type(v).__name__, v)


# ------------------------------------------------------------------ model side
def dtype_term(dt):
    p = dt.split(':')
    if p[0] == 'number':
        if p[1] in c03lib.INT_BITS:
            return C('TInt')
        if p[1] in ('float', 'double'):
            return C('TFloat')
        return C('TDecimal', Nat(decimal_params(dt)[1]))
    if p[0] == 'hex':
        return C('THex')
    if p[0] == 'string':
        return C('TString', Nat(int(p[1])), C({'mc': 'Mc', 'lc': 'Lc', 'uc': 'Uc'}[p[2]]))
    return {'boolean': C('TBool'), 'base64': C('TBase64'), 'datetime': C('TDatetime'), 'geo': C('TGeo'), 'ip': C('TIp', p[-1] == 'v6'), 'uri': C('TUri')}.get(p[0], C('TOther'))


def pyval_term(v):
    """None when the value is outside the model's value type"""
    if isinstance(v, bool):
        return C('PBool', v)
    if isinstance(v, int):
        return C('PInt', Z(v))
    if isinstance(v, str):
        return C('PStr', v)
    if isinstance(v, float):
        if math.isnan(v):
            return C('PFloatNan')
        if math.isinf(v):
            return C('PFloatInf', v < 0)
        n, d = abs(v).as_integer_ratio()
        return C('PFloat', math.copysign(1, v) < 0, Z(n), Z(d))
    if isinstance(v, Decimal):
        sign, digits, exp = v.as_tuple()
        if exp == 'F':
            return C('PDecInf', bool(sign))
        if exp == 'n':
            return C('PDecNan')
        if exp == 'N':
            return None
        return C('PDec', bool(sign), Z(int(''.join(map(str, digits)) or '0')), Z(exp))
    if isinstance(v, DT.datetime):
        off = v.utcoffset()
        if off is not None and off.microseconds:
            return None
        return C('PDatetime', Z(v.year), Z(v.month), Z(v.day), Z(v.hour), Z(v.minute), Z(v.second), Z(v.microsecond),
                 Some(Z(off.days * 86400 + off.seconds)) if off is not None else None)
    if v is None:
        return C('PNone')
    if v == LIST and isinstance(v, list):
        return C('POther')
    return None


def outcome_term(obs):
    if obs[0] == 'ok':
        return C('Ok', obs[1][0]) if len(obs[1]) == 1 else C('Escapes')
    return C('Reject') if obs[0] == 'reject' else C('Escapes')


# ------------------------------------------------------------------ glue paths
def writer_path(dt, value):
    """EDXMLWriter with auto repair: what ends up in the output for an event holding `value`"""
    from edxml import EDXMLWriter, EDXMLEvent, EDXMLPullParser
    from edxml.error import EDXMLEventValidationError
    onto = c03lib.make_ontology(dt)
    out = io.BytesIO()
    try:
        w = EDXMLWriter(out)
        w.enable_auto_repair_normalize('ta', ['v'])
        w.add_ontology(onto)
        w.add_event(EDXMLEvent({'v': [value]}, 'ta', '/s/'))
        w.close()
    except EDXMLEventValidationError:
        return ('reject',)
    except Exception as e:
        return ('escapes', type(e).__name__)
    got = []

    class P(EDXMLPullParser):
        def _parsed_event(self, e):
            got.append(sorted(e.get_properties().get('v', [])))
    P().parse(io.BytesIO(out.getvalue()))
    return ('ok', got[0] if got else None)


def writer_path_two(dt1, v1, dt2, v2):
    """two event types of ONE ontology with a same-named property of different data types, repaired one after the other"""
    from edxml import EDXMLWriter, EDXMLEvent, EDXMLPullParser
    from edxml.error import EDXMLEventValidationError
    import ontolib as OL
    onto = OL.load_element(OL.ONTO(object_types=[OL.OT('o1', dt1), OL.OT('o2', dt2)],
                                   event_types=[OL.ET('ta', [OL.PROP('v', 'o1')]), OL.ET('tb', [OL.PROP('v', 'o2')])], sources=[OL.SOURCE('/s/')]))
    out = io.BytesIO()
    try:
        w = EDXMLWriter(out)
        w.enable_auto_repair_normalize('ta', ['v'])
        w.enable_auto_repair_normalize('tb', ['v'])
        w.add_ontology(onto)
        w.add_event(EDXMLEvent({'v': [v1]}, 'ta', '/s/'))
        w.add_event(EDXMLEvent({'v': [v2]}, 'tb', '/s/'))
        w.close()
    except EDXMLEventValidationError:
        return ('reject',)
    except Exception as e:
        return ('escapes', type(e).__name__)
    got = []

    class P(EDXMLPullParser):
        def _parsed_event(self, e):
            got.append(sorted(e.get_properties().get('v', [])))
    P().parse(io.BytesIO(out.getvalue()))
    return ('ok', got)


def coercion_checks(ck, rng):
    """to_edxml_object: implicit coercion on assignment to XML-backed events keeps the value"""
    from edxml import EventElement
    from IPy import IP
    cases = []
    for _ in range(ck.budget(40, 400)):
        k = rng.randrange(6)
        if k == 0:
            v = rng.randint(-2 ** 70, 2 ** 70)
            cases.append((v, lambda s, v=v: int(s) == v))
        elif k == 1:
            v = random_double(rng)
            cases.append((v, lambda s, v=v: float(s) == v and math.copysign(1, float(s)) == math.copysign(1, v)))
        elif k == 2:
            v = rng.random() < 0.5
            cases.append((v, lambda s, v=v: s == ('true' if v else 'false')))
        elif k == 3:
            nv = DT.datetime(rng.randint(1583, 9998), rng.randint(1, 12), rng.randint(1, 28), rng.randint(0, 23), rng.randint(0, 59), rng.randint(0, 59), rng.randint(0, 999999))
            off = 60 * rng.randint(-840, 840)
            aware = rng.random() < 0.6
            v = nv.replace(tzinfo=DT.timezone(DT.timedelta(seconds=off))) if aware else nv
            cases.append((v, lambda s, nv=nv, off=(off if aware else 0): s == utc_expected(nv, off)))
        elif k == 4:
            a = ipaddress.ip_address(rng.getrandbits(32) if rng.random() < 0.5 else rng.getrandbits(128))
            cases.append((IP(str(a)), lambda s, a=a: ipaddress.ip_address(s) == a and s == a.exploded))
        else:
            b = ''.join(rng.choice('abcé€ xyz') for _ in range(rng.randint(0, 8)))
            cases.append((b.encode(), lambda s, b=b: s == b))
    for v, same in cases:
        ck.cov['evaluations'] += 1
        ck.dist('coercion:' + type(v).__name__)
        try:
            ev = EventElement({}, 'ta', '/s/')
            ev['v'] = [v]
            got = [e.text or '' for e in ev.get_element().iter() if isinstance(e.tag, str) and e.tag.split('}')[-1] == 'v']
            ok = len(got) == 1 and same(got[0])
        except Exception as e:
            got, ok = ['%s' % type(e).__name__], False
        if not ok:
            ck.oracle_failures.append({'signature': 'coercion/%s/value-changed' % type(v).__name__, 'input': {'value': describe(v), 'path': 'to_edxml_object'},
                                       'observed': 'stored as %r' % got})


# ------------------------------------------------------------------ main
def family_of(dt):
    p = dt.split(':')
    if p[0] == 'number' and p[1] in c03lib.INT_BITS:
        return 'number:integer'
    return p[0] + (':' + p[1] if p[0] in ('number', 'ip') else '')


def judge(ck, gate, dt, it, obs):
    """the property, case by case; appends oracle failures"""
    fam = family_of(dt)
    inp = {'data_type': dt, 'value': describe(it.value), 'kind': it.note, 'domain': it.dom}

    def fail(sig, observed):
        ck.oracle_failures.append({'signature': sig, 'input': inp, 'observed': observed})
    if obs[0] == 'escapes':
        fail('escapes/%s/%s/%s' % (fam, it.note, obs[1]), 'normalize_objects raised %s (neither a result nor an event validation error)' % obs[1])
        return
    if obs[0] == 'ok' and len(obs[1]) != 1:
        fail('dropped/%s/%s' % (fam, it.note), 'normalize_objects returned %r for one input value' % (obs[1],))
        return
    out = obs[1][0] if obs[0] == 'ok' else None
    if it.dom in ('in', 'round'):
        if out is None:
            fail('rejected-in-domain/%s/%s' % (fam, it.note), 'rejected; expected %r' % it.expected)
            return
        if it.expected is not None and out != it.expected:
            fail('value-changed/%s/%s' % (fam, it.note), 'normalised to %r, the value denotes %r' % (out, it.expected))
            return
        if it.dom == 'in' and not gate.accepts(dt, out):
            fail('gate-rejects-normalised/%s/%s' % (fam, it.note), 'normalised to %r which the validator rejects' % out)
            return
    elif it.dom == 'valid-is-fixed':
        case = dt.split(':')[2]
        already = {'mc': it.value, 'lc': it.value.lower(), 'uc': it.value.upper()}[case] == it.value
        if already and gate.accepts(dt, it.value):
            ck.dist('valid-string-fixed-point')
            if out != it.value:
                fail('valid-value-changed/%s/%s' % (fam, it.note), 'the gate accepts the input as it is; normalised to %r' % (out,))
                return
    elif it.dom == 'out':
        if out is not None and gate.accepts(dt, out):
            fail('laundered/%s/%s' % (fam, it.note), 'input does not denote a value of the type, normalised to the valid %r' % out)
            return
    if out is not None:
        again = run_norm(dt, [out])
        ck.cov['evaluations'] += 1
        if it.dom != 'out' and again != ('ok', [out]):
            fail('not-idempotent/%s/%s' % (fam, it.note), 'normalised to %r; normalising that gives %r' % (out, again))
        elif it.dom == 'out' and again[0] == 'ok' and again[1] != [out] and gate.accepts(dt, again[1][0]):
            fail('laundered/%s/%s/second-pass' % (fam, it.note), '%r -> %r -> valid %r' % (it.value, out, again[1][0]))


def replay(path):
    obj = json.load(open(path))
    if obj.get('kind') != 'failing-input':
        print('replay names a broken obligation:', obj.get('obligation'))
        return 0
    i = obj['input']
    print(json.dumps(i, ensure_ascii=False))
    print('observed at check time:', obj.get('observed'))
    if 'data_type' in i:
        tname, _, rep = i['value'].partition(':')
        env = {'Decimal': Decimal, 'datetime': DT, 'nan': float('nan'), 'inf': float('inf')}
        try:
            v = eval(rep, env)
            print('now:', run_norm(i['data_type'], [v]))
        except Exception as e:
            print('value cannot be rebuilt from its repr:', e)
    return 1


def main(argv):
    import logging, os, time
    logging.disable(logging.CRITICAL)
    # the process runs in a time zone that is not UTC (and has an odd offset): naive datetimes and offset-less strings denote UTC instants
    # whatever the local zone is
    os.environ['TZ'] = 'Asia/Kathmandu'
    time.tzset()
    if len(argv) > 1 and argv[0] == '--replay':
        return replay(argv[1])
    ck = Check(PID, ANCHORS)
    facts, notes, _ = T1.generate()
    for nt in notes:
        ck.obligation_failures.append(('T1:source-facts', nt))
    ck.trusted += ['harness/translate/c13.py: Unicode digit / whitespace tables from the running interpreter; source facts by Python ast',
                   'model of the interpreter services the normaliser calls: int(str), float(str), Decimal(str), %d, %E, %.6f, format(Decimal), '
                   'str.lower/upper on ASCII, binascii.a2b_base64 acceptance, datetime.astimezone(utc) (Valid/Normalize.v), validated by correspondence only',
                   'dateutil.parser.parse and IPy.IP are not modelled: datetime strings and IP values are decided by the oracle (independent denotation via '
                   'datetime arithmetic / ipaddress)']
    ck.assumptions += ['in-domain strings are built by construction from a known value in notations the respective Python constructor accepts',
                       'decimal values with more integer digits than the type allows are not judged (C03 known finding about totalDigits)',
                       'negative zero floats, poles / antimeridian, non-canonical base64 trailing bits, base64 with embedded whitespace: no verdict']
    ck.prove()
    rng = ck.rng
    gate = Gate()
    types = TYPES_QUICK + (TYPES_MORE if ck.thorough() else [])
    n = ck.budget(10, 120)
    terms, metas, raws = [], [], []
    per_type_ok = {}
    for dt in types:
        items = generate(dt, rng, n)
        tt = dtype_term(dt)
        for it in items:
            obs = run_norm(dt, [it.value])
            ck.cov['evaluations'] += 1
            ck.dist('family:' + family_of(dt))
            ck.dist('domain:' + it.dom)
            ck.dist('kind:' + it.note)
            ck.dist('outcome:' + obs[0])
            judge(ck, gate, dt, it, obs)
            if obs[0] == 'ok' and len(obs[1]) == 1 and it.dom == 'in':
                per_type_ok.setdefault(dt, []).append((it.value, obs[1][0]))
            pv = pyval_term(it.value)
            if pv is not None:
                terms.append(coq((tt, pv, outcome_term(obs))))
                metas.append({'data_type': dt, 'value': describe(it.value), 'observed': list(obs)})
        ck.cov['distinct_nontrivial'] += len(items)
        ck.sample({'data_type': dt, 'inputs': [describe(i.value) for i in items[:3]]}, limit=6)
    # sets of values: the result is the union; one bad value rejects the call
    for dt, pairs in per_type_ok.items():
        if len(pairs) >= 3:
            sel = rng.sample(pairs, 3)
            try:
                obs = run_norm(dt, [v for v, _ in sel])
            except TypeError:
                continue
            ck.cov['evaluations'] += 1
            if obs != ('ok', sorted({o for _, o in sel})):
                ck.oracle_failures.append({'signature': 'set/%s/not-the-union' % family_of(dt), 'input': {'data_type': dt, 'values': [describe(v) for v, _ in sel]},
                                           'observed': repr(obs)})
    # writer auto repair path agrees with normalize_objects
    for dt, pairs in sorted(per_type_ok.items()):
        for v, o in rng.sample(pairs, min(len(pairs), ck.budget(3, 20))):
            if not isinstance(v, (str, int, float, DT.datetime, IP)):
                continue          # EDXMLEvent / to_edxml_object store only these
            got = writer_path(dt, v)
            ck.cov['evaluations'] += 1
            ck.dist('writer-path:' + got[0])
            same = got == ('ok', [o]) or (got[0] == 'ok' and got[1] and len(got[1]) == 1 and gate.accepts(dt, got[1][0]) and run_norm(dt, got[1]) == ('ok', [o]))
            if gate.accepts(dt, o) and not same:
                ck.oracle_failures.append({'signature': 'writer-repair/%s/differs-from-normalize_objects' % family_of(dt),
                                           'input': {'data_type': dt, 'value': describe(v), 'path': 'EDXMLWriter.enable_auto_repair_normalize'},
                                           'observed': 'writer produced %r, normalize_objects %r' % (got, o)})
    # ... also when two event types of one ontology name their property alike
    repairable = {dt: [(v, o) for v, o in pairs if isinstance(v, str) and v != o and gate.accepts(dt, o) and not gate.accepts(dt, v)] for dt, pairs in per_type_ok.items()}
    dts = sorted(dt for dt, l in repairable.items() if l)
    for _ in range(ck.budget(25, 300)):
        if len(dts) < 2:
            break
        dt1, dt2 = rng.sample(dts, 2)
        (v1, o1), (v2, o2) = rng.choice(repairable[dt1]), rng.choice(repairable[dt2])
        try:
            got = writer_path_two(dt1, v1, dt2, v2)
        except Exception as e:
            continue          # the two object types do not make a loadable ontology
        ck.cov['evaluations'] += 1
        ck.dist('writer-path-two-types:' + got[0])
        if got != ('ok', [[o1], [o2]]):
            ck.oracle_failures.append({'signature': 'writer-repair/two-event-types-same-property-name', 'input': {'data_types': [dt1, dt2], 'values': [describe(v1), describe(v2)]},
                                       'observed': 'writer produced %r, normalize_objects gives %r and %r' % (got, o1, o2)})
    for dt in ('number:int', 'boolean', 'base64:0', 'datetime'):
        for v in ('x', '!', 'YW=I'):
            got = writer_path(dt, v)
            ck.cov['evaluations'] += 1
            if got[0] == 'escapes' or (got[0] == 'ok' and got[1] and gate.accepts(dt, got[1][0]) and dt != 'base64:0'):
                ck.oracle_failures.append({'signature': 'writer-repair/%s/garbage-written' % family_of(dt), 'input': {'data_type': dt, 'value': describe(v)}, 'observed': repr(got)})
    coercion_checks(ck, rng)
    # correspondence with the model
    agree = 'fun c => match c with (t, v, obs) => outcome_eqb (normalize1 udigit uspace repaired t v) obs end'
    bad, errs = run_cases(PID, IMPORTS, 'dtype * pyval * outcome', terms, agree, shard=150, timeout=900)
    for i in bad[:10]:
        ck.corr_failures.append({'case': metas[i], 'model': 'normalize1 disagrees'})
    for e in errs[:3]:
        ck.corr_failures.append({'coq_error': e})
    modelled = 'fun c => match c with (t, v, obs) => match normalize1 udigit uspace repaired t v with Unmodelled => false | _ => true end end'
    unm, errs2 = run_cases(PID, IMPORTS, 'dtype * pyval * outcome', terms, modelled, shard=150, timeout=900, tag='modelled')
    for e in errs2[:3]:
        ck.corr_failures.append({'coq_error': e})
    ck.cov['traces_validated_against_impl'] = len(terms) - len(unm)
    ck.cov['cases_outside_model'] = len(unm) + (sum(ck.cov['dist'].get(k, 0) for k in ck.cov['dist'] if k.startswith('family:')) - len(terms)) if 'dist' in ck.cov else len(unm)
    ck.cov['disagreements_checked'] = len(bad)
    ck.cov['exhaustive'] = False
    ck.cov['rule'] = ('per data type: in-domain values built from a known denotation in every accepted notation (native numbers, Decimals, floats incl. subnormals and '
                      'rounding boundaries, aware/naive datetimes, ISO strings with offsets, compressed/upper-case IPv6, unpadded base64, mixed-case hex), values needing '
                      'rounding, and a separate garbage stream; judged by: exact expected string from an independent Fraction / datetime / ipaddress computation, '
                      'acceptance by the real EventValidator, re-normalisation, no laundering; plus writer auto-repair and to_edxml_object paths')
    return ck.finish()


if __name__ == '__main__':
    sys.exit(main(sys.argv[1:]))
